"""hsv — harness tying the Lean model of hashstore to the real code."""
