"""Abstraction of a real store directory to the abstract state of Spec.lean,
plus the concrete exactness predicate of C05."""
import os

from .enc import enc_str
from . import oracle


class Known:
    """identifier strings seen so far (to invert the hashes found on disk)"""

    def __init__(self, alg, ns):
        self.alg = alg
        self.ns = ns
        self.pid_by_key = {}
        self.doc_by_key = {}   # (H pid, H(pid+fmt)) -> (pid, fmt)

    def note_call(self, call):
        pid = call.args.get("pid")
        if isinstance(pid, str):
            self.pid_by_key[oracle.h_id(self.alg, pid)] = pid
            fmts = [self.ns]
            f = call.args.get("format_id")
            if isinstance(f, str):
                fmts.append(f)
            for f in fmts:
                self.doc_by_key[(oracle.h_id(self.alg, pid), oracle.h_id(self.alg, pid + f))] = (pid, f)


def read_tree(root):
    """raw view: objs {cid: bytes}, pidrefs {key: text}, cidrefs {cid: text}, docs {(dirkey, name): bytes},
    tmp {area: n}"""
    out = {"objs": {}, "pidrefs": {}, "cidrefs": {}, "docs": {}, "tmp": {"objects": 0, "metadata": 0, "refs": 0},
           "other": []}
    for dirpath, dirnames, filenames in os.walk(root):
        rel = os.path.relpath(dirpath, root)
        parts = [] if rel == "." else rel.split(os.sep)
        for fn in filenames:
            full = os.path.join(dirpath, fn)
            if not parts:
                if fn not in ("hashstore.yaml", "python_client.log"):
                    out["other"].append(fn)
                continue
            if len(parts) >= 2 and parts[1] == "tmp" and parts[0] in out["tmp"]:
                out["tmp"][parts[0]] += 1
                continue
            with open(full, "rb") as f:
                data = f.read()
            if parts[0] == "objects":
                out["objs"]["".join(parts[1:]) + fn] = data
            elif parts[0] == "metadata":
                out["docs"][("".join(parts[1:]), fn)] = data
            elif parts[:2] == ["refs", "pids"]:
                out["pidrefs"]["".join(parts[2:]) + fn] = data.decode("utf-8", "surrogateescape")
            elif parts[:2] == ["refs", "cids"]:
                out["cidrefs"]["".join(parts[2:]) + fn] = data.decode("utf-8", "surrogateescape")
            else:
                out["other"].append("/".join(parts + [fn]))
    return out


def abs_lines(tree, known, contents):
    """abstract state lines in the format of the driver's `sstate`"""
    lines = []
    for cid, data in tree["objs"].items():
        lines.append("O %s %s" % (cid, contents.tok_of(data)))
    for key, text in tree["pidrefs"].items():
        pid = known.pid_by_key.get(key)
        penc = enc_str(pid) if pid is not None else "?" + key
        lines.append("B %s %s" % (penc, text))
    for (dkey, name), data in tree["docs"].items():
        pf = known.doc_by_key.get((dkey, name))
        if pf is None:
            lines.append("M ?%s ?%s %s" % (dkey, name, contents.tok_of(data)))
        else:
            lines.append("M %s %s %s" % (enc_str(pf[0]), enc_str(pf[1]), contents.tok_of(data)))
    lines.sort()
    return lines


def exactness(tree, known):
    """C05: the concrete reference bookkeeping is exact and there is no residue. Returns problems."""
    probs = []
    bind = {}
    for key, text in tree["pidrefs"].items():
        if key.endswith("_delete"):
            probs.append("marker left: refs/pids %s" % key)
            continue
        pid = known.pid_by_key.get(key)
        if pid is None:
            probs.append("pid reference for an unknown identifier: %s" % key)
            continue
        bind[pid] = text
        if text not in tree["cidrefs"]:
            probs.append("pid %r is bound to %s but that cid has no reference list" % (pid, text))
    for cid, text in tree["cidrefs"].items():
        if cid.endswith("_delete"):
            probs.append("marker left: refs/cids %s" % cid)
            continue
        if text == "":
            probs.append("empty reference list for cid %s" % cid)
            continue
        if not text.endswith("\n"):
            probs.append("reference list of %s does not end with a newline" % cid)
        lines = text.split("\n")[:-1] if text.endswith("\n") else text.split("\n")
        if len(set(lines)) != len(lines):
            probs.append("duplicate line in reference list of %s" % cid)
        for l in lines:
            if bind.get(l) != cid:
                probs.append("reference list of %s names %r which is not bound to it" % (cid, l))
    for pid, cid in bind.items():
        text = tree["cidrefs"].get(cid)
        if text is not None:
            n = text.split("\n").count(pid)
            if n != 1:
                probs.append("pid %r appears %d times in the reference list of %s" % (pid, n, cid))
    for cid in tree["objs"]:
        if cid.endswith("_delete"):
            probs.append("marker left: objects %s" % cid)
    for (d, n) in tree["docs"]:
        if n.endswith("_delete"):
            probs.append("marker left: metadata %s/%s" % (d, n))
    for area, n in tree["tmp"].items():
        if n:
            probs.append("%d temporary file(s) left in %s/tmp" % (n, area))
    for o in tree["other"]:
        probs.append("unexpected file %s" % o)
    return probs
