"""C14: the constructor's decision on (existing configuration, supplied properties)."""
import hashlib
import os
import random
import shutil
import tempfile

from . import impl, lean, oracle, seq
from .calls import *  # noqa
from .enc import enc_str
from .framework import Finding

NS1 = "https://ns.dataone.org/service/types/v2.0#SystemMetadata"
NS2 = "http://ns.example/v1"
ALGS = ["MD5", "SHA-1", "SHA-256", "SHA-384", "SHA-512"]
BAD_ALGS = ["sha256", "SHA256", "SHA_256", "sha-256", "SHA-224", "BLAKE2B", "", "md5", None, 256]


def py_int(v):
    try:
        return int(v)
    except Exception:
        return None


def enc_val(v, present=True):
    if not present:
        return "M"
    if v is None:
        return "N"
    if isinstance(v, bool):
        return "O:%s" % ("X" if py_int(v) is None else py_int(v))
    if isinstance(v, int):
        return "I:%d" % v
    i = py_int(v)
    if isinstance(v, str):
        return "S:%s:%s" % (enc_str(v), "X" if i is None else i)
    return "O:%s" % ("X" if i is None else i)


def int_variants(rng, n):
    """encodings of the integer n, and near misses"""
    return [n, str(n), " %d " % n, "+%d" % n, "%d.0" % n, float(n), n + 1, str(n + 1), "", "x", None, True, "0%d" % n,
            n + 0.7, "１"]


def snapshot(root):
    out = {}
    if not os.path.exists(root):
        return None
    for dp, dn, fn in os.walk(root):
        out[os.path.relpath(dp, root)] = None
        for f in fn:
            p = os.path.join(dp, f)
            out[os.path.relpath(p, root)] = hashlib.sha1(open(p, "rb").read()).hexdigest()
    return out


def exc_name(e):
    return impl.exc_name(e)


def run(tier, seed, report):
    from hashstore.filehashstore import FileHashStore
    rng = random.Random("C14/%s/%d" % (tier, seed))
    n_cases = 250 if tier == "quick" else 4000
    base = impl.scratch_base()
    contents = oracle.Contents()
    m = lean.Model(contents)
    stats = {"cases": 0, "distinct": set(), "kinds": {}}
    samples = []
    seen = set()
    try:
        # pyIntStr against int() on decimal-ish strings
        for s_ in ["0", "3", " 3", "3 ", "+3", "-3", "03", "3.0", "", " ", "x", "3x", "--3", "1_0", "１", "٣"]:
            mm = m.req("pyint " + enc_str(s_))
            rr = py_int(s_)
            plain = s_.strip().lstrip("+-").isascii() and s_.strip().lstrip("+-").isdigit() and "_" not in s_
            if plain and mm != ("X" if rr is None else str(rr)):
                report.disagreements.append({"what": "int(%r): model %s python %s" % (s_, mm, rr), "replay": None})
        for i in range(n_cases):
            root = os.path.join(base, "s%d" % i)
            d0, w0 = rng.choice([1, 2, 3, 4, 5]), rng.choice([1, 2, 3, 4])
            a0, n0 = rng.choice(ALGS), rng.choice([NS1, NS2])
            scenario = rng.choices(["reopen", "fresh", "dirs-no-yaml", "empty-dir"], [7, 2, 1.5, 1])[0]
            if rng.random() < 0.2:
                # the path had another life: a store with another configuration was created, reopened and removed
                # here, in this process — nothing of it may leak into the decision on the store created next
                dp, wp = rng.choice([x for x in [1, 2, 3, 4, 5] if x != d0]), rng.choice([1, 2, 3, 4])
                ap, np_ = rng.choice([a for a in ALGS if a != a0]), (NS2 if n0 == NS1 else NS1)
                prev = {"store_path": root, "store_depth": dp, "store_width": wp, "store_algorithm": ap,
                        "store_metadata_namespace": np_}
                FileHashStore(properties=dict(prev))
                FileHashStore(properties=dict(prev))
                shutil.rmtree(root)
                stats["kinds"]["path-reused"] = stats["kinds"].get("path-reused", 0) + 1
            populated = False
            damaged = None
            pid, data = "pid-%d" % i, b"payload %d" % i
            if scenario in ("reopen", "dirs-no-yaml"):
                st = FileHashStore(properties={"store_path": root, "store_depth": d0, "store_width": w0,
                                               "store_algorithm": a0, "store_metadata_namespace": n0})
                if rng.random() < 0.6:
                    populated = True
                    src = os.path.join(base, "in%d" % i)
                    open(src, "wb").write(data)
                    st.store_object(pid, src)
                    st.store_metadata(pid, src)
                damaged = None
                if scenario == "reopen" and rng.random() < 0.15:
                    # the configuration file has lost one of its keys (hand-edited, truncated, written by an older version)
                    damaged = rng.choice(["store_depth", "store_width", "store_metadata_namespace"])
                    yp = os.path.join(root, "hashstore.yaml")
                    lines = [l for l in open(yp).read().split("\n") if not l.startswith(damaged + ":")]
                    open(yp, "w").write("\n".join(lines))
                if scenario == "dirs-no-yaml":
                    os.remove(os.path.join(root, "hashstore.yaml"))
                    if rng.random() < 0.3:
                        shutil.rmtree(os.path.join(root, "refs"))
                        shutil.rmtree(os.path.join(root, "metadata"))
            elif scenario == "empty-dir":
                os.makedirs(root)
            # reopening properties
            kind = rng.choices(["same", "depth", "width", "alg", "ns", "missing", "none", "extra", "multi", "swap"],
                               [4, 2, 2, 2, 2, 1, 1, 0.7, 1, 1.5])[0]
            dv = rng.choice([d0, str(d0), " %d" % d0])
            wv = rng.choice([w0, str(w0)])
            av, nv = a0, n0
            present = {"store_path": True, "store_depth": True, "store_width": True, "store_algorithm": True,
                       "store_metadata_namespace": True}
            extra = {}
            if damaged is not None and rng.random() < 0.7:
                # mostly: the value that differs is the one the file no longer holds
                kind = {"store_depth": "depth", "store_width": "width", "store_metadata_namespace": "ns"}[damaged]
            if kind == "swap":
                # the right values under the wrong keys
                dv, wv = rng.choice([(w0, d0), (str(w0), str(d0)), (w0, str(d0))])
            if kind in ("depth", "multi"):
                dv = rng.choice(int_variants(rng, d0))
            if kind in ("width", "multi"):
                wv = rng.choice(int_variants(rng, w0))
            if kind in ("alg", "multi"):
                av = rng.choice([a for a in ALGS if a != a0] + BAD_ALGS)
            if kind == "ns":
                nv = rng.choice([NS2 if n0 == NS1 else NS1, n0 + " ", n0.upper(), "", None])
            if kind == "missing":
                present[rng.choice(list(present))] = False
            if kind == "none":
                k = rng.choice(["store_depth", "store_width", "store_algorithm", "store_metadata_namespace", "store_path"])
                if k == "store_depth":
                    dv = None
                elif k == "store_width":
                    wv = None
                elif k == "store_algorithm":
                    av = None
                elif k == "store_metadata_namespace":
                    nv = None
                else:
                    present["store_path"] = "none"
            if kind == "extra":
                extra = {"store_extra": 1}
            props = {}
            vals = {"store_path": root, "store_depth": dv, "store_width": wv, "store_algorithm": av,
                    "store_metadata_namespace": nv}
            for k, v in vals.items():
                if present[k] is True:
                    props[k] = v
                elif present[k] == "none":
                    props[k] = None
            props.update(extra)
            if "store_path" not in props or props["store_path"] is None:
                # without a usable path the constructor fails before touching anything; nothing to snapshot against
                pass
            before = snapshot(root)
            yaml_exists = os.path.isfile(os.path.join(root, "hashstore.yaml"))
            root_exists = os.path.exists(root)
            data_dirs = any(os.path.isdir(os.path.join(root, s)) for s in ("objects", "metadata", "refs"))
            try:
                st2 = FileHashStore(properties=props)
                real = "ok"
            except Exception as e:  # noqa
                st2 = None
                real = "err " + exc_name(e)
            after = snapshot(root)
            # ---- the model
            ex = ("Y:%d:%d:%s:%s" % (d0, w0, enc_str(a0), enc_str(n0))) if yaml_exists else \
                 ("N:%d:%d" % (int(root_exists), int(data_dirs)))
            wire = "open %s %s %s %s %s %s" % (
                ex, enc_val(props.get("store_path"), "store_path" in props),
                enc_val(props.get("store_depth"), "store_depth" in props),
                enc_val(props.get("store_width"), "store_width" in props),
                enc_val(props.get("store_algorithm"), "store_algorithm" in props),
                enc_val(props.get("store_metadata_namespace"), "store_metadata_namespace" in props))
            mm = m.req(wire)
            mclass = "ok" if mm.startswith("ok") else mm
            # ---- the property's own oracle (independent of the model)
            problems = {}
            complete = all(k in props and props[k] is not None for k in vals)
            if yaml_exists and damaged is not None:
                # the model has no notion of an incomplete file; the property still says: a value that differs from the
                # one the store was created with is never accepted (what an equal value does is left open)
                mclass = real
                differs = {"store_depth": py_int(dv) != d0, "store_width": py_int(wv) != w0,
                           "store_metadata_namespace": nv != n0}[damaged] or av != a0 or py_int(dv) != d0 or py_int(wv) != w0 or nv != n0
                if differs and real == "ok":
                    problems["accepted a different configuration (configuration file without %s)" % damaged] = ("error", real)
            elif yaml_exists:
                should_open = complete and py_int(dv) == d0 and py_int(wv) == w0 and av == a0 and nv == n0 \
                    and py_int(dv) is not None and py_int(wv) is not None
                if should_open and real != "ok":
                    problems["refused a matching configuration"] = ("ok", real)
                if not should_open and real == "ok":
                    problems["accepted a different configuration"] = ("error", real)
            else:
                if data_dirs and real == "ok":
                    problems["accepted data directories without a configuration file"] = ("error", real)
                if real == "ok" and av not in ALGS:
                    problems["accepted an unsupported store algorithm"] = ("error", real)
            if real != "ok" and before != after:
                b, a = before or {}, after or {}
                problems["refused open changed the directory"] = (
                    sorted(set(b) - set(a))[:4], sorted(k for k in a if a.get(k) != b.get(k))[:4])
            if real == "ok" and yaml_exists and damaged is None:
                changed = sorted(k for k in set(before) | set(after) if before.get(k) != after.get(k))
                if changed:
                    problems["accepted reopen changed the directory"] = ([], changed[:4])
                if populated:
                    try:
                        got = st2.retrieve_object(pid)
                        b = got.read()
                        got.close()
                        md = st2.retrieve_metadata(pid)
                        mb = md.read()
                        md.close()
                        if b != data or mb != data:
                            problems["existing data not visible after reopen"] = (data, b)
                    except Exception as e:  # noqa
                        problems["existing data not visible after reopen"] = ("bytes", repr(e))
            stats["cases"] += 1
            stats["kinds"]["%s/%s/%s" % (scenario, kind, real)] = stats["kinds"].get("%s/%s/%s" % (scenario, kind, real), 0) + 1
            stats["distinct"].add((scenario, kind, real))
            payload = {"property": "C14", "kind": "configuration", "scenario": scenario, "populated": populated,
                       "created_with": [d0, w0, a0, n0], "reopen_props": {k: repr(v) for k, v in props.items() if k != "store_path"},
                       "model": mm, "real": real}
            if len(samples) < 3:
                samples.append(payload)
            if problems:
                sig = "c14:" + ",".join(sorted(problems))
                if sig not in seen:
                    seen.add(sig)
                    payload["problems"] = {k: [str(v[0])[:500], str(v[1])[:500]] for k, v in problems.items()}
                    report.findings.append(Finding("C14", sig, "%s (created %s, reopened with %s): %s" % (
                        scenario, [d0, w0, a0, n0], payload["reopen_props"], "; ".join(problems)), payload))
            if mclass != real:
                sig = "c14-dis:%s->%s" % (mclass, real)
                if sig not in seen:
                    seen.add(sig)
                    from . import framework
                    path = framework.write_replay("C14", "disagreement", payload)
                    report.disagreements.append({"what": "constructor decision: model %s, code %s (%s / %s)" % (mm, real, scenario, kind), "replay": path})
            shutil.rmtree(root, ignore_errors=True)
    finally:
        m.close()
        shutil.rmtree(base, ignore_errors=True)
    return {"evaluations": stats["cases"], "distinct_nontrivial": len(stats["distinct"]),
            "rule": "pairs (creation configuration, reopening properties): depth 1-5, width 1-4, five algorithms + "
                    "unsupported names/spellings, two namespaces, int / str / padded / float-like / bool encodings, "
                    "missing / None / extra keys, on empty and populated stores, plus fresh paths and data "
                    "directories without a yaml; outcome vs the model's decision and vs the property's own rule; "
                    "directory snapshot before/after; distinct = (scenario, perturbation, outcome) triples",
            "samples": samples, "traces_validated_against_impl": stats["cases"], "distribution": stats["kinds"],
            "exhaustive": False}
