"""C15: layout on disk = README layout, for a grid of configurations; independent path oracle."""
import hashlib
import os
import random

import yaml

from . import gen, oracle, seq, lean
from .calls import *  # noqa
from .enc import enc_str
from .framework import Finding

DIGEST_LEN = {"MD5": 32, "SHA-1": 40, "SHA-256": 64, "SHA-384": 96, "SHA-512": 128}
NS = seq.DEFAULT_NS


def readme_shard(s, depth, width):
    toks = [s[i * width:(i + 1) * width] for i in range(depth)] + [s[depth * width:]]
    return [t for t in toks if t]


def expected_tree(cfg, binds, metas, contents):
    """binds: {pid: tok}; metas: {(pid, fmt): tok}. Returns {relpath: bytes} per the README."""
    alg = oracle.DATAONE[cfg["store_alg"]]
    H = lambda s: hashlib.new(alg, s.encode("utf-8")).hexdigest()
    d, w = cfg["depth"], cfg["width"]
    tree = {}
    by_cid = {}
    for pid, tok in binds.items():
        data = contents.by_tok[tok]
        cid = hashlib.new(alg, data).hexdigest()
        tree["/".join(["objects"] + readme_shard(cid, d, w))] = data
        tree["/".join(["refs", "pids"] + readme_shard(H(pid), d, w))] = cid.encode()
        by_cid.setdefault(cid, []).append(pid)
    for cid, pids in by_cid.items():
        tree["/".join(["refs", "cids"] + readme_shard(cid, d, w))] = "".join(p + "\n" for p in pids).encode("utf-8")
    for (pid, fmt), tok in metas.items():
        tree["/".join(["metadata"] + readme_shard(H(pid), d, w) + [H(pid + fmt)])] = contents.by_tok[tok]
    return tree


def real_tree(root):
    out = {}
    for dp, dn, fn in os.walk(root):
        for f in fn:
            rel = os.path.relpath(os.path.join(dp, f), root).replace(os.sep, "/")
            if rel in ("hashstore.yaml", "python_client.log"):
                continue
            out[rel] = open(os.path.join(dp, f), "rb").read()
    return out


def run(tier, seed, report):
    rng = random.Random("C15/%s/%d" % (tier, seed))
    grid = []
    for alg, n in DIGEST_LEN.items():
        for d in range(1, 7):
            for w in range(1, 5):
                if d * w <= (3 * 32) // 4 and d * w < n:
                    grid.append((d, w, alg))
    rng.shuffle(grid)
    if tier == "quick":
        grid = grid[:30]
    stats = {"cases": 0, "distinct": set()}
    samples = []
    seen = set()
    # identifiers are opaque strings even when they happen to name something: an existing file (absolute, and relative
    # to the working directory), an existing directory
    here = os.path.abspath(__file__)
    pids_pool = ["p", "pq", "doi:10.5063/F1/x", "../../etc/passwd", "ünï©ode-\U0001F600", "a" * 300, "-rf", ".hidden",
                 here, os.path.relpath(here), os.path.dirname(here)]
    fmts_pool = [None, "http://ns/f#1", "f/../g", "", " lead", "trail\n", "\ttab both "]
    for (d, w, alg) in grid:
        cfg = dict(depth=d, width=w, store_alg=alg)
        contents = oracle.Contents()
        toks = [contents.add(b"alpha " * rng.randint(1, 3000)), contents.add(bytes([rng.randrange(256) for _ in range(rng.randint(0, 40))]))]
        pids = rng.sample(pids_pool, 3)
        trio = seq.Trio(contents, **cfg)
        binds, metas = {}, {}
        problems = {}
        try:
            script = [store_object(pids[0], ("ok", toks[0], "str", 0)),
                      store_object(pids[1], ("ok", toks[0], "Path", 0)),
                      store_object(pids[2], ("ok", toks[1], "str", 0))]
            binds = {pids[0]: toks[0], pids[1]: toks[0], pids[2]: toks[1]}
            for p in pids[:2]:
                f = rng.choice(fmts_pool)
                script.append(store_metadata(p, ("ok", toks[1], "str", 0), f))
                metas[(p, NS if f is None else f)] = toks[1]
            if rng.random() < 0.5:
                # a list that has been through a removal is laid out like one that never held the pid
                extra = rng.choice([q for q in pids_pool if q not in pids])
                if rng.random() < 0.5:
                    # ... also when the pid taken out is the last line and its bytes are not its characters
                    extra = rng.choice([q for q in ("\u00e9t\u00e9/2024/donn\u00e9es.csv", "\u65e5\u672c\u8a9e-pid", "\u00e91",
                                                    "\U0001F600") if q not in pids])
                script.append(store_object(extra, ("ok", toks[0], "bytesio", 0)))
                binds[extra] = toks[0]
                victim = rng.choice([pids[0], pids[1], extra, extra])
                script.append(delete_object(victim))
                del binds[victim]
                metas = {k: v for k, v in metas.items() if k[0] != victim}
            dis = None
            for c in script:
                st = trio.run(c)
                m, s, r = seq.observe(st)
                dd = seq.chan_diff(m, r, {"class", "concrete", "path"})
                if dd and dis is None:
                    dis = (c, dd)
            exp = expected_tree(cfg, binds, metas, contents)
            got = real_tree(trio.real.root)
            if exp != got:
                missing = sorted(set(exp) - set(got))
                extra = sorted(set(got) - set(exp))
                diff = sorted(k for k in set(exp) & set(got) if exp[k] != got[k])
                problems["tree"] = ("missing %s" % missing[:3], "unexpected %s different-content %s" % (extra[:3], diff[:3]))
            y = yaml.safe_load(open(os.path.join(trio.real.root, "hashstore.yaml")))
            want = {"store_depth": d, "store_width": w, "store_algorithm": alg, "store_metadata_namespace": NS,
                    "store_default_algo_list": ["MD5", "SHA-1", "SHA-256", "SHA-384", "SHA-512"]}
            if y != want:
                problems["yaml"] = (want, y)
            # the model's shard function against the code's, on this configuration
            for s_ in ("", "a", "abcdef0123456789" * 4):
                ms = trio.model.req("shard %d %d %s" % (d, w, enc_str(s_)))
                rs = "shard " + "/".join(trio.real.store._shard(s_))
                if ms != rs and dis is None:
                    dis = ("shard", {"shard": (ms, rs)})
                if "/".join(readme_shard(s_, d, w)) != "/".join(trio.real.store._shard(s_)):
                    problems["shard"] = (readme_shard(s_, d, w), trio.real.store._shard(s_))
            stats["cases"] += 1
            stats["distinct"].add((d, w, alg))
            if len(samples) < 2:
                samples.append({"config": cfg, "pids": pids, "paths": sorted(got)[:6]})
            payload = {"property": "C15", "kind": "layout", "config": cfg, "pids": pids,
                       "script": [repr(c) for c in script]}
            if problems:
                sig = "c15:" + ",".join(sorted(problems))
                if sig not in seen:
                    seen.add(sig)
                    payload["problems"] = {k: [str(v[0])[:1500], str(v[1])[:1500]] for k, v in problems.items()}
                    report.findings.append(Finding("C15", sig, "layout differs from the published one at depth=%d width=%d %s: %s" % (
                        d, w, alg, "; ".join("%s: %s / %s" % (k, str(v[0])[:150], str(v[1])[:150]) for k, v in problems.items())), payload))
            if dis is not None:
                sig = "c15-dis:%s" % ",".join(sorted(dis[1]))
                if sig not in seen:
                    seen.add(sig)
                    from . import framework
                    payload["disagreement"] = {k: [str(v[0])[:1500], str(v[1])[:1500]] for k, v in dis[1].items()}
                    path = framework.write_replay("C15", "disagreement", payload)
                    report.disagreements.append({"what": "%r: %s" % (dis[0], ", ".join(dis[1])), "replay": path})
        finally:
            trio.close()
    # exhaustive small grid of the shard function itself: model vs code vs README
    n_shard = 0
    contents = oracle.Contents()
    m = lean.Model(contents)
    from hashstore.filehashstore import FileHashStore
    try:
        class Dummy:
            pass
        maxd, maxw, maxl = (5, 4, 14) if tier == "quick" else (8, 6, 24)
        for d in range(0, maxd + 1):
            for w in range(0, maxw + 1):
                dummy = Dummy()
                dummy.depth, dummy.width = d, w
                for L in range(0, maxl + 1):
                    s_ = "0123456789abcdefghijklmnopqrstuvwxyz"[:L]
                    code = FileHashStore._shard(dummy, s_)
                    n_shard += 1
                    if code != readme_shard(s_, d, w) and "c15:shardgrid" not in seen:
                        seen.add("c15:shardgrid")
                        report.findings.append(Finding("C15", "c15:shardgrid", "_shard(%r) at depth=%d width=%d is %r, README says %r" % (
                            s_, d, w, code, readme_shard(s_, d, w)), {"property": "C15", "kind": "shard", "depth": d, "width": w, "s": s_}))
                    ms = m.req("shard %d %d %s" % (d, w, enc_str(s_)))
                    if ms != "shard " + "/".join(code) and "c15-dis:shardgrid" not in seen:
                        seen.add("c15-dis:shardgrid")
                        report.disagreements.append({"what": "shard model %r code %r at d=%d w=%d s=%r" % (ms, code, d, w, s_), "replay": None})
    finally:
        m.close()
    return {"evaluations": stats["cases"] + n_shard, "distinct_nontrivial": len(stats["distinct"]) + n_shard,
            "rule": "grid of (depth, width, store algorithm) with depth*width below three quarters of the shortest digest; "
                    "a fixed script (3 stores sharing one content, 2 metadata documents) with awkward pids; the whole "
                    "tree is compared with paths computed independently from the README, hashstore.yaml with the "
                    "documented keys; plus the exhaustive grid of _shard (depth<=%d, width<=%d, length<=%d) against "
                    "the model and the README; distinct = configurations + shard grid points" % (maxd, maxw, maxl),
            "samples": samples, "traces_validated_against_impl": stats["cases"], "shard_grid_points": n_shard,
            "exhaustive": tier != "quick"}
