"""C16: USE_MULTIPROCESSING=True — same results and states as threading mode; exclusion among forked workers."""
import os
import random
import signal
import sys
import time

from . import abstraction, conc, gen, impl, oracle, props_seq, seq
from .calls import *  # noqa
from .framework import Finding


def sequential_mp(tier, seed, report, stats, samples, seen):
    """the C05 / C11 histories with the store constructed under USE_MULTIPROCESSING=True"""
    rng = random.Random("C16/seq/%s/%d" % (tier, seed))
    n_hist, length = (5, 20) if tier == "quick" else (40, 30)
    for k in range(n_hist):
        prop = props_seq.C05() if k % 2 == 0 else props_seq.C11()
        cfg = dict(depth=3, width=2, store_alg="SHA-256")
        contents = oracle.Contents()
        u = prop.universe(rng, contents, cfg["store_alg"])
        u.kinds = ("str", "Path")
        hist = prop.history(u, length)
        out = seq.SeqOutcome()

        def owned(call, s, ctx):
            return {"class", "cid", "size", "content", "path", "abs.objs", "abs.bind", "abs.docs", "exact", "locks"}
        try:
            seq.run_history(hist, cfg, contents, out, owned, None, mp=True)
        except Exception as e:  # construction itself may fail
            out.findings.append((hist[:1], 0, {"construction": ("store usable in multiprocessing mode", repr(e)[:200])}))
        stats["execs"] += out.steps
        stats["distinct"] |= {("mp-seq",) + t for t in out.distinct}
        if len(samples) < 2:
            samples.append({"mode": "USE_MULTIPROCESSING=True sequential", "history": [repr(c) for c in hist[:6]]})
        for h, idx, chans in out.findings[:1]:
            cls = chans.get("class")
            sig = "c16:sequential-mp:%s:%s" % (h[idx].name, "%s->%s" % cls if cls else ",".join(sorted(chans)))
            if sig not in seen:
                seen.add(sig)
                report.findings.append(Finding("C16", sig, "with USE_MULTIPROCESSING=True, %r: %s" % (h[idx], "; ".join(
                    "%s expected %s got %s" % (k_, str(v[0])[:120], str(v[1])[:120]) for k_, v in chans.items())),
                    {"property": "C16", "kind": "sequential-mp", "config": cfg, "contents": contents.to_json(),
                     "history": seq.history_json(h), "failing_step": idx,
                     "channels": {k_: [str(v[0])[:1500], str(v[1])[:1500]] for k_, v in chans.items()}}))
        for h, idx, chans in out.disagreements[:1]:
            sig = "c16-dis:sequential-mp:%s" % h[idx].name
            if sig not in seen:
                seen.add(sig)
                report.disagreements.append({"what": "mp mode, %r: %s" % (h[idx], ", ".join(chans)), "replay": None})


def forked_workers(tier, seed, report, stats, samples, seen):
    """real processes forked from the initialising process contend on shared pids and cids"""
    rng = random.Random("C16/fork/%s/%d" % (tier, seed))
    rounds = 2 if tier == "quick" else 12
    for rnd in range(rounds):
        contents = oracle.Contents()
        real = impl.Real(contents, mp=True)
        try:
            X = contents.add(b"shared content %d" % rnd)
            Y = contents.add(b"other content %d" % rnd)
            px, py = real.input_path(X), real.input_path(Y)
            nproc = 4
            pids_children = []
            plan = []
            for w in range(nproc):
                ops = []
                for k in range(6):
                    p = "pid-%d" % rng.randrange(3)
                    ops.append(rng.choice([("store", p, px), ("store", p, py), ("delete", p), ("meta", p, px), ("dmeta", p)]))
                plan.append(ops)
            rpipes = []
            for w in range(nproc):
                r, wfd = os.pipe()
                pid = os.fork()
                if pid == 0:
                    os.close(r)
                    code = 0
                    log = []
                    try:
                        signal.alarm(60)
                        for op in plan[w]:
                            try:
                                if op[0] == "store":
                                    real.store.store_object(op[1], op[2])
                                    log.append("ok")
                                elif op[0] == "delete":
                                    real.store.delete_object(op[1])
                                    log.append("ok")
                                elif op[0] == "meta":
                                    real.store.store_metadata(op[1], op[2])
                                    log.append("ok")
                                else:
                                    real.store.delete_metadata(op[1])
                                    log.append("ok")
                            except Exception as e:  # noqa
                                log.append(type(e).__name__)
                    except BaseException as e:  # noqa
                        code = 3
                        log.append("FATAL " + repr(e))
                    os.write(wfd, ("|".join(log)).encode())
                    os._exit(code)
                os.close(wfd)
                pids_children.append(pid)
                rpipes.append(r)
            results = []
            deadline = time.time() + 90
            statuses = []
            for pid, r in zip(pids_children, rpipes):
                while True:
                    done, st = os.waitpid(pid, os.WNOHANG)
                    if done:
                        statuses.append(st)
                        break
                    if time.time() > deadline:
                        os.kill(pid, signal.SIGKILL)
                        os.waitpid(pid, 0)
                        statuses.append(-1)
                        break
                    time.sleep(0.01)
                results.append(os.read(r, 65536).decode())
                os.close(r)
            stats["execs"] += nproc * 6
            stats["distinct"].add(("fork", rnd))
            problems = {}
            if any(st != 0 for st in statuses):
                problems["a forked worker hung or died"] = ([0] * nproc, statuses)
            allowed = {"ok", "PidRefsDoesNotExist", "HashStoreRefsAlreadyExists", "PidRefsAlreadyExistsError",
                       "StoreObjectForPidAlreadyInProgress"}
            odd = sorted({x for r_ in results for x in r_.split("|") if x and x not in allowed})
            locks = real.locks()
            if locks != "locks objPid=[] refPid=[] cid=[] doc=[]":
                problems["identifier left locked after all workers returned"] = ("all free", locks)
            # the store must be exact and every bound pid retrievable with its bytes
            known = abstraction.Known("sha256", real.ns)
            for i in range(3):
                known.note_call(store_object("pid-%d" % i, ("ok", X, "str", 0)))
            tree = abstraction.read_tree(real.root)
            ex = abstraction.exactness(tree, known)
            if ex:
                problems["reference bookkeeping not exact at quiescence"] = ([], ex[:4])
            if odd:
                # errors no sequential run produces; the known races (K1-K3) produce some of these — reported with their tags
                problems["unexpected error classes"] = (sorted(allowed), odd)
            if len(samples) < 3:
                samples.append({"mode": "forked workers", "plans": plan[:2], "results": results[:2]})
            if problems:
                tags = []
                if "unexpected error classes" in problems and set(odd) <= {"PidRefsFileNotFound", "FileNotFoundError", "RefsFileExistsButCidObjMissing", "OrphanPidRefsFileFound", "PidNotFoundInCidRefsFile"}:
                    tags.append("c16:forked-workers:known-race-symptoms")
                other = [p for p in problems if p != "unexpected error classes" or not tags]
                sigs = tags + ["c16:forked-workers:" + p for p in other if p != "reference bookkeeping not exact at quiescence" or not tags]
                for sig in sigs:
                    if sig not in seen:
                        seen.add(sig)
                        report.findings.append(Finding("C16", sig, "forked workers on shared pids/cids: %s" % "; ".join(
                            "%s: %s" % (k_, str(v[1])[:160]) for k_, v in problems.items()),
                            {"property": "C16", "kind": "forked-workers", "plans": plan, "results": results, "statuses": statuses,
                             "problems": {k_: [str(v[0])[:800], str(v[1])[:800]] for k_, v in problems.items()}}))
        finally:
            real.close()


def cross_process_wakeups(tier, seed, report, stats, samples, seen):
    """for each class of identifiers: process A is held inside its section on an identifier (its moves are slowed,
    in A only), process B asks for the same identifier and has to wait; when A leaves, B must be woken and finish.
    Only completion within a generous deadline is required, so timing cannot raise a false alarm."""
    REF = ("PidRefsAlreadyExistsError", "HashStoreRefsAlreadyExists")
    # (class, preparation, A, B, outcome pairs that some sequential order of A and B produces)
    scenarios = [
        ("reference-pid", [], lambda st, px, cx, cy: st.tag_object("p", cx), lambda st, px, cx, cy: st.tag_object("p", cy),
         [("ok", r_) for r_ in REF] + [(r_, "ok") for r_ in REF]),
        ("cid", [], lambda st, px, cx, cy: st.tag_object("p1", cx), lambda st, px, cx, cy: st.tag_object("p2", cx), [("ok", "ok")]),
        ("object-pid", [("store", "p")], lambda st, px, cx, cy: st.delete_object("p"), lambda st, px, cx, cy: st.delete_object("p"),
         [("ok", "PidRefsDoesNotExist"), ("PidRefsDoesNotExist", "ok")]),
        ("document", [], lambda st, px, cx, cy: st.store_metadata("p", px), lambda st, px, cx, cy: st.store_metadata("p", px),
         [("ok", "ok")]),
    ]
    for name, prep, op_a, op_b, allowed in scenarios:
        contents = oracle.Contents()
        real = impl.Real(contents, mp=True)
        try:
            X = contents.add(b"content for the wake-up scenario " + name.encode())
            px = real.input_path(X)
            cx, cy = contents.digest(X, "sha256"), "0" * 64
            for what, p in prep:
                real.store.store_object(p, px)
            children = []
            pipes = {}
            for who, op, delay in (("A", op_a, 0.0), ("B", op_b, 0.2)):
                time.sleep(delay)
                rfd, wfd = os.pipe()
                pid = os.fork()
                if pid == 0:
                    os.close(rfd)
                    code = 0
                    outcome_ = "?"
                    try:
                        signal.alarm(90)
                        if who == "A":
                            import shutil as _sh
                            real_move = _sh.move

                            def slow_move(*a, **k):
                                time.sleep(0.7)
                                return real_move(*a, **k)
                            _sh.move = slow_move
                        try:
                            op(real.store, px, cx, cy)
                            outcome_ = "ok"
                        except Exception as e_:  # noqa
                            outcome_ = type(e_).__name__
                    except BaseException:  # noqa
                        code = 3
                    try:
                        os.write(wfd, outcome_.encode())
                    finally:
                        os._exit(code)
                os.close(wfd)
                pipes[who] = rfd
                children.append((who, pid))
            deadline = time.time() + 40
            statuses = {}
            for who, pid in children:
                while True:
                    done, st = os.waitpid(pid, os.WNOHANG)
                    if done:
                        statuses[who] = st
                        break
                    if time.time() > deadline:
                        os.kill(pid, signal.SIGKILL)
                        os.waitpid(pid, 0)
                        statuses[who] = -1
                        break
                    time.sleep(0.01)
            outcomes = {}
            for who, rfd in pipes.items():
                try:
                    outcomes[who] = os.read(rfd, 200).decode() or "?"
                except OSError:
                    outcomes[who] = "?"
                os.close(rfd)
            stats["execs"] += 2
            stats["distinct"].add(("wakeup", name))
            bad = {w_: s_ for w_, s_ in statuses.items() if s_ != 0}
            locks = real.locks()
            problems = {}
            if bad:
                problems["a process waiting for an identifier held by another process never returned"] = ("both return", bad)
            elif locks != "locks objPid=[] refPid=[] cid=[] doc=[]":
                problems["identifier left locked after both processes returned"] = ("all free", locks)
            elif (outcomes.get("A"), outcomes.get("B")) not in allowed:
                # the waiter went in beside the holder (or was let through too early): no order of the two calls gives this
                problems["outcomes of the two processes match no sequential order"] = (allowed, (outcomes.get("A"), outcomes.get("B")))
            if problems:
                sig = "c16:cross-process-wakeup:%s:%s" % (name, ",".join(sorted(problems)))
                if sig not in seen:
                    seen.add(sig)
                    report.findings.append(Finding("C16", sig, "two forked processes on one %s identifier: %s" % (name, "; ".join(
                        "%s: %s" % (k_, str(v[1])[:160]) for k_, v in problems.items())),
                        {"property": "C16", "kind": "cross-process-wakeup", "class": name, "statuses": {k_: int(v) for k_, v in statuses.items()},
                         "problems": {k_: [str(v[0])[:400], str(v[1])[:400]] for k_, v in problems.items()}}))
        finally:
            real.close()


def run(tier, seed, report):
    stats = {"execs": 0, "distinct": set()}
    samples = []
    seen = set()
    sequential_mp(tier, seed, report, stats, samples, seen)
    cov = conc.run("C16", tier, seed, report, mp_mode=True)
    forked_workers(tier, seed, report, stats, samples, seen)
    cross_process_wakeups(tier, seed, report, stats, samples, seen)
    cov["evaluations"] += stats["execs"]
    cov["distinct_nontrivial"] += len(stats["distinct"])
    cov["rule"] = "(a) C05 / C11 histories on a store constructed with USE_MULTIPROCESSING=True, against the model and the " \
                  "spec; (b) the C07 / C12 menus under the controlled scheduler through the _mp attributes: " + cov["rule"] + \
                  "; (c) supporting evidence only: real forked worker processes contending on shared pids / cids; (d) per class of " \
                  "identifiers, a forked process that has to wait for an identifier held by another forked process is woken and returns"
    cov["samples"] = samples + cov["samples"]
    return cov
