"""C19: the one-call and the three-call way of storing an object, on two copies of one store."""
import random

from . import gen, oracle, seq
from .calls import *  # noqa
from .framework import Finding


def parse_om(result_line):
    r = seq.parse_result(result_line)
    if r.get("class") != "ok meta":
        return None
    digests = dict(kv.split("=", 1) for kv in r["digests"].split(",")) if r["digests"] else {}
    return ("om", r["cid"], int(r["size"]), digests)


def one_case(rng, cfg, report, stats):
    contents = oracle.Contents()
    u = gen.Universe(rng, contents, store_alg=cfg["store_alg"])
    u.kinds = ("str", "Path")
    u.pids = ["p", "pq", "q"]
    u.toks = u.toks[:3]
    w = {"store": 5, "store_data": 2, "tag": 2, "div": 1, "delete": 2, "retrieve": 0, "hex": 0, "smeta": 0.5,
         "rmeta": 0, "dmeta": 0, "bad": 0}
    start = u.history(rng.choice([0, 1, 2, 4, 6]), w)
    pid = rng.choice(u.pids + ["new"])
    tok = u.tok()
    if rng.random() < 0.3:
        # the content is already in the store and somebody refers to it
        start = start + [store_object(rng.choice(u.pids), ("ok", tok, "str", 0))]
    r = rng.random()
    n = len(contents.by_tok[tok])
    if r < 0.2:
        cs = ca = size = None
        kind = "absent"
    else:
        a, sp = u.alg_spelling()
        d = contents.digest(tok, a)
        kind = "correct"
        q = rng.random()
        if q < 0.25:
            d = ("0" if d[0] != "0" else "1") + d[1:]
            kind = "wrong-checksum"
        elif q < 0.4:
            d = d.upper()
        size = rng.choice([None, n]) if n > 0 else None
        if kind == "correct" and n > 0 and rng.random() < 0.2:
            size = n + 1
            kind = "wrong-size"
        cs, ca = d, sp
    t1 = seq.Trio(contents, **cfg)
    t2 = seq.Trio(contents, **cfg)
    problems = {}
    disagreements = []
    before = {}
    try:
        for c in start:
            for t in (t1, t2):
                st = t.run(c)
                m, s, rr = seq.observe(st)
                d = seq.chan_diff(m, rr, {"class", "concrete"})
                if d:
                    disagreements.append((c, d))
                before[t is t2] = rr
        data = ("ok", tok, "str", 0)
        # procedure 1
        st1 = t1.run(store_object(pid, data, None, cs, ca, size))
        m, s, r1 = seq.observe(st1)
        d = seq.chan_diff(m, r1, {"class", "cid", "size", "concrete"})
        if d:
            disagreements.append((st1.call, d))
        # procedure 2
        sa = t2.run(store_object(None, data))
        m, s, ra = seq.observe(sa)
        d = seq.chan_diff(m, ra, {"class", "cid", "size", "concrete"})
        if d:
            disagreements.append((sa.call, d))
        om = parse_om(sa.real)
        two_class = None
        rb = rc = None
        if om is None:
            problems["step1"] = ("ok meta", sa.real)
        else:
            if kind != "absent":
                sb = t2.run(delete_if_invalid_object(om, cs, ca, size))
                m, s, rb = seq.observe(sb)
                d = seq.chan_diff(m, rb, {"class", "concrete"})
                if d:
                    disagreements.append((sb.call, d))
                two_class = rb["class"]
            if two_class is None or two_class.startswith("ok"):
                sc = t2.run(tag_object(pid, om[1]))
                m, s, rc = seq.observe(sc)
                d = seq.chan_diff(m, rc, {"class", "concrete"})
                if d:
                    disagreements.append((sc.call, d))
                two_class = rc["class"]
        one_class = r1["class"]
        last2 = rc or rb or ra
        stats["kinds"][kind] = stats["kinds"].get(kind, 0) + 1
        stats["distinct"].add((kind, one_class, len(start) > 0))
        if kind in ("absent", "correct"):
            # same outcome kind, same state, same cid / size / default digests
            if one_class.startswith("ok") != (two_class or "").startswith("ok"):
                problems["outcome"] = (one_class, two_class)
            elif not one_class.startswith("ok") and one_class != two_class:
                problems["error class"] = (one_class, two_class)
            if r1["abs.objs"] != last2["abs.objs"] or r1["abs.bind"] != last2["abs.bind"] or \
                    r1["abs.docs"] != last2["abs.docs"]:
                problems["state"] = (r1["abs.objs"] + r1["abs.bind"], last2["abs.objs"] + last2["abs.bind"])
            if st1.real_state != (t2.real.state()):
                problems.setdefault("concrete state", (seq.diff_lines(st1.real_state, t2.real.state())))
            if one_class == "ok meta" and om is not None:
                if r1["cid"] != om[1] or int(r1["size"]) != om[2]:
                    problems["cid/size"] = ((r1["cid"], r1["size"]), (om[1], om[2]))
                d1 = dict(kv.split("=", 1) for kv in r1["digests"].split(","))
                for a in gen.DEFAULTS:
                    if d1.get(a) != om[3].get(a):
                        problems["digest " + a] = (d1.get(a), om[3].get(a))
            if r1["exact"] or last2["exact"]:
                problems["exact"] = (r1["exact"], last2["exact"])
        else:
            want = "err NonMatchingChecksum" if kind == "wrong-checksum" else "err NonMatchingObjSize"
            if one_class != want:
                problems["one-call class"] = (want, one_class)
            if two_class != want:
                problems["three-call class"] = (want, two_class)
            # neither binds the pid; referenced objects undisturbed
            for name, rr, which in (("one-call", r1, False), ("three-call", last2, True)):
                pre = before.get(which)
                if pre is None:
                    continue
                refd = {l.split(" ")[2] for l in pre["abs.bind"]}
                gone = [l for l in pre["abs.objs"] if l.split(" ")[1] in refd and l not in rr["abs.objs"]]
                if gone:
                    problems["%s way disturbed a referenced object" % name] = ("kept", gone[:3])
                lost = [l for l in pre["abs.bind"] if l not in rr["abs.bind"]]
                if lost:
                    problems["%s way lost a binding" % name] = ("kept", lost[:3])
            b1 = [l for l in r1["abs.bind"]]
            b2 = [l for l in last2["abs.bind"]]
            if b1 != b2:
                problems["bindings differ"] = (b1, b2)
            # bindings equal those of the specification (which does not bind on an invalid verdict)
            spec_bind = seq.split_abs(st1.spec_abs)["abs.bind"]
            if b1 != spec_bind:
                problems["bindings"] = (spec_bind, b1)
        stats["cases"] += 1
        return start, (pid, tok, cs, ca, size, kind), problems, disagreements, contents
    finally:
        t1.close()
        t2.close()


def run(tier, seed, report):
    rng = random.Random("C19/%s/%d" % (tier, seed))
    n = 120 if tier == "quick" else 600
    stats = {"cases": 0, "kinds": {}, "distinct": set()}
    samples = []
    algs = ["SHA-256", "MD5", "SHA-1", "SHA-384", "SHA-512"]
    seen = set()
    for i in range(n):
        cfg = dict(depth=3, width=2, store_alg="SHA-256") if i % 2 == 0 else dict(
            depth=rng.choice([1, 2, 3, 4]), width=rng.choice([1, 2, 3]), store_alg=rng.choice(algs))
        start, case, problems, disagreements, contents = one_case(rng, cfg, report, stats)
        if i < 2:
            samples.append({"config": cfg, "start": [repr(c) for c in start], "case": repr(case)})
        payload = {"property": "C19", "kind": "two-procedures", "config": cfg, "contents": contents.to_json(),
                   "start": seq.history_json(start), "case": list(case[:5]) + [case[5]]}
        if problems:
            sig = "c19:%s:%s" % (case[5], ",".join(sorted(problems)))
            if sig not in seen:
                seen.add(sig)
                payload["problems"] = {k: [str(v[0])[:1500], str(v[1])[:1500]] for k, v in problems.items()}
                report.findings.append(Finding("C19", sig, "two procedures (%s validation data) differ: %s" % (
                    case[5], "; ".join("%s: %s vs %s" % (k, str(v[0])[:120], str(v[1])[:120]) for k, v in problems.items())), payload))
        for c, d in disagreements[:1]:
            sig = "c19-dis:%s:%s" % (c.name, ",".join(sorted(d)))
            if sig not in seen:
                seen.add(sig)
                from . import framework
                payload["disagreement"] = {k: [str(v[0])[:1500], str(v[1])[:1500]] for k, v in d.items()}
                path = framework.write_replay("C19", "disagreement", payload)
                report.disagreements.append({"what": "%r: %s" % (c, "; ".join(d)), "replay": path})
    return {"evaluations": stats["cases"], "distinct_nontrivial": len(stats["distinct"]),
            "rule": "start state from a short random history; one content; validation data absent / correct / "
                    "wrong checksum / wrong size, default and non-default algorithms in several spellings; both "
                    "procedures on two stores with the same history; distinct = distinct (validation kind, outcome "
                    "class, non-empty start) triples",
            "samples": samples, "traces_validated_against_impl": stats["cases"] * 2,
            "distribution": stats["kinds"], "exhaustive": False}
