"""C20: hashstoreclient.main() against the corresponding API call, on two copies of one store."""
import contextlib
import io
import os
import random
import re
import shutil
import sys

from . import impl, lean, oracle, gen, seq
from .calls import *  # noqa
from .calls import Call
from .enc import enc_str, enc_sarg, enc_iarg, OTHER
from .framework import Finding

NS = seq.DEFAULT_NS
VERBS = ["getchecksum", "storeobject", "storemetadata", "retrieveobject", "retrievemetadata", "deleteobject",
         "deletemetadata"]
API_METHODS = ["store_object", "tag_object", "delete_if_invalid_object", "store_metadata", "retrieve_object",
               "retrieve_metadata", "delete_object", "delete_metadata", "get_hex_digest"]


class Recorder:
    """forwards to the real store, recording public API calls (name, positional args)"""

    def __init__(self, store, log):
        object.__setattr__(self, "_store", store)
        object.__setattr__(self, "_log", log)

    def __getattr__(self, name):
        attr = getattr(self._store, name)
        if name in API_METHODS:
            def wrapped(*a, **k):
                self._log.append((name, a, k))
                return attr(*a, **k)
            return wrapped
        return attr


def opt_wire(v):
    return "N" if v is None else "S:" + enc_str(v)


def wire_of_recorded(name, args, kwargs, path_tok):
    """wire form (as lean/Driver.lean's encCall) of a recorded call, types included"""
    def s(v):
        if v is None:
            return "N"
        if isinstance(v, str):
            return "S:" + enc_str(v)
        return "O"

    def i(v):
        if v is None:
            return "N"
        if isinstance(v, bool) or not isinstance(v, int):
            return "O"
        return "I:%d" % v

    def d(v):
        if isinstance(v, str) and v in path_tok:
            return path_tok[v]
        return "?"
    a = list(args)
    if name == "store_object":
        a += [None] * (6 - len(a))
        return "store_object %s %s %s %s %s %s" % (s(a[0]), d(a[1]), s(a[2]), s(a[3]), s(a[4]), i(a[5]))
    if name == "store_metadata":
        a += [None] * (3 - len(a))
        return "store_metadata %s %s %s" % (s(a[0]), d(a[1]), s(a[2]))
    if name in ("retrieve_object", "delete_object"):
        return "%s %s" % (name, s(a[0]))
    if name in ("retrieve_metadata", "delete_metadata"):
        a += [None] * (2 - len(a))
        return "%s %s %s" % (name, s(a[0]), s(a[1]))
    if name == "get_hex_digest":
        return "get_hex_digest %s %s" % (s(a[0]), s(a[1]))
    return name + " ?"


def corresponding_call(verbs, o, default_fmt, path_tok):
    """the API call the documentation promises for these options (independent of the model):
    returns ('err', class) | ('none',) | ('call', wire)"""
    first = next((v for v in VERBS if v in verbs), None)
    if first is None:
        return ("none",)
    fmt = o["formatid"] if o["formatid"] is not None else default_fmt
    pid = o["pid"]
    if pid is None:
        return ("err", "ValueError")
    P = "S:" + enc_str(pid)
    if first == "getchecksum":
        if o["algo"] is None:
            return ("err", "ValueError")
        return ("call", "get_hex_digest %s %s" % (P, opt_wire(o["algo"])))
    if first in ("storeobject", "storemetadata"):
        if o["path"] is None:
            return ("err", "ValueError")
        D = path_tok.get(o["path"], "?")
        if first == "storemetadata":
            return ("call", "store_metadata %s %s %s" % (P, D, "S:" + enc_str(fmt)))
        size = "N"
        if o["obj_size"] is not None:
            try:
                size = "I:%d" % int(o["obj_size"])
            except ValueError:
                return ("err", "ValueError")
        return ("call", "store_object %s %s %s %s %s %s" % (P, D, opt_wire(o["algo"]), opt_wire(o["checksum"]),
                                                           opt_wire(o["checksum_algo"]), size))
    if first == "retrieveobject":
        return ("call", "retrieve_object " + P)
    if first == "retrievemetadata":
        return ("call", "retrieve_metadata %s %s" % (P, "S:" + enc_str(fmt)))
    if first == "deleteobject":
        return ("call", "delete_object " + P)
    return ("call", "delete_metadata %s %s" % (P, "S:" + enc_str(fmt)))


def api_call_from_wire(wire, tok_path):
    """execute the wire-form call through the API: returns a hsv Call"""
    from .enc import dec_str
    w = wire.split(" ")

    def s(x):
        return None if x == "N" else (OTHER if x == "O" else dec_str(x[2:]))

    def i(x):
        return None if x == "N" else (OTHER if x == "O" else int(x[2:]))

    def d(x):
        if x.startswith("T:"):
            return ("ok", int(x[2:]), "str", 0)
        if x == "F":
            return ("nofile", "str")
        return ("blank", " ")
    n = w[0]
    if n == "store_object":
        return store_object(s(w[1]), d(w[2]), s(w[3]), s(w[4]), s(w[5]), i(w[6]))
    if n == "store_metadata":
        return store_metadata(s(w[1]), d(w[2]), s(w[3]))
    if n == "retrieve_object":
        return retrieve_object(s(w[1]))
    if n == "retrieve_metadata":
        return retrieve_metadata(s(w[1]), s(w[2]))
    if n == "delete_object":
        return delete_object(s(w[1]))
    if n == "delete_metadata":
        return delete_metadata(s(w[1]), s(w[2]))
    if n == "get_hex_digest":
        return get_hex_digest(s(w[1]), s(w[2]))
    raise ValueError(wire)


def run_client(argv):
    import hashstore.hashstoreclient as hc
    from hashstore import HashStoreFactory
    log = []
    orig = HashStoreFactory.get_hashstore

    def patched(module_name, class_name, properties=None):
        return Recorder(orig(module_name, class_name, properties), log)
    hc.HashStoreFactory.get_hashstore = staticmethod(patched)
    out = io.StringIO()
    old_argv = sys.argv
    sys.argv = ["hashstoreclient"] + argv
    old_env = os.environ.get("USE_MULTIPROCESSING")
    try:
        with contextlib.redirect_stdout(out), contextlib.redirect_stderr(io.StringIO()):
            try:
                hc.main()
                res = "ok"
            except SystemExit as e:
                res = "err SystemExit"
            except Exception as e:  # noqa
                res = "err " + impl.exc_name(e)
    finally:
        sys.argv = old_argv
        hc.HashStoreFactory.get_hashstore = staticmethod(orig)
        if old_env is None:
            os.environ.pop("USE_MULTIPROCESSING", None)
    return res, out.getvalue(), log


def parse_stdout(verb, text):
    """the values the client reports"""
    if verb == "storeobject":
        m = re.search(r"cid='([0-9a-f]*)', obj_size=(\d+), hex_digests=(\{.*\})\)", text)
        if not m:
            return None
        return {"cid": m.group(1), "size": int(m.group(2)), "digests": eval(m.group(3))}  # a dict literal of str->str
    if verb == "getchecksum":
        m = re.search(r"Checksum/Hex Digest: (\S*)", text)
        return {"hex": m.group(1)} if m else None
    if verb == "storemetadata":
        m = re.search(r"Metadata Path: (\S*)", text)
        return {"path": m.group(1)} if m else None
    if verb in ("retrieveobject", "retrievemetadata"):
        idx = text.rfind("\n...\n<-- Truncated")
        return {"content": text[:idx] if idx >= 0 else None}
    return {}


def run(tier, seed, report):
    rng = random.Random("C20/%s/%d" % (tier, seed))
    n_cases = 150 if tier == "quick" else 2500
    stats = {"cases": 0, "distinct": set(), "kinds": {}}
    samples = []
    seen = set()
    contents = oracle.Contents()
    model = lean.Model(contents)
    try:
        for i in range(n_cases):
            cfg = dict(depth=3, width=2, store_alg="SHA-256") if i % 2 == 0 else dict(
                depth=rng.choice([1, 2, 4]), width=rng.choice([1, 2, 3]), store_alg=rng.choice(["MD5", "SHA-1", "SHA-384", "SHA-512"]))
            # the store's own metadata namespace: the documented default, or another one
            ns = NS if rng.random() < 0.6 else "http://www.ns.test/v1"
            A = impl.Real(contents, ns=ns, **cfg)
            try:
                u = gen.Universe(rng, contents, store_alg=cfg["store_alg"])
                u.kinds = ("str",)
                u.pids = ["p", "pq", "q"]
                u.toks = [contents.add(b"text content %d\n" % k * (k * 400 + 1)) for k in range(3)]
                # what the display of a retrieve verb can mangle: CR / CRLF line ends, multi-byte text past the limit
                u.toks += [contents.add(b"dos line\r\nmac line\runix line\n"), contents.add(("\u00e9" * 700).encode("utf-8"))]
                u.formats = [None, "f1"]
                w = {"store": 5, "store_data": 0.5, "tag": 0.5, "div": 0, "delete": 1, "retrieve": 0, "hex": 0, "smeta": 4,
                     "rmeta": 0, "dmeta": 0.5, "bad": 0}
                # the first cases are directed: each retrieve verb on each kind of content, on both namespaces
                directed = None
                if i < 2 * len(u.toks) * 2:
                    dt = u.toks[(i // 2) % len(u.toks)]
                    directed = ("retrieveobject" if i % 2 == 0 else "retrievemetadata", dt)
                    ns_d = NS if (i // (2 * len(u.toks))) == 0 else "http://www.ns.test/v1"
                    if ns_d != ns:
                        A.close()
                        ns = ns_d
                        A = impl.Real(contents, ns=ns, **cfg)
                    A.run(store_object("p", ("ok", dt, "str", 0)))
                    A.run(store_metadata("p", ("ok", dt, "str", 0), None))
                elif i < 2 * len(u.toks) * 2 + 6:
                    # ... and the delete verb on each kind of pid: bound, tagged to a cid that was never stored (with a
                    # document), listed by nobody (its object stored by another pid only)
                    k_ = i - 2 * len(u.toks) * 2
                    directed = ("deleteobject", u.toks[0])
                    if k_ % 3 == 0:
                        A.run(store_object("p", ("ok", u.toks[0], "str", 0)))
                    elif k_ % 3 == 1:
                        A.run(tag_object("p", u.never_cid))
                        A.run(store_metadata("p", ("ok", u.toks[1], "str", 0), None))
                    else:
                        A.run(store_object("q", ("ok", u.toks[0], "str", 0)))
                        A.run(store_object("p", ("ok", u.toks[0], "str", 0)))
                        A.run(store_metadata("p", ("ok", u.toks[1], "str", 0), "f1"))
                elif i < 2 * len(u.toks) * 2 + 12:
                    # ... and the checksum verb asked for the store's own algorithm (both spellings) and another one,
                    # on an intact object and on one whose bytes have changed on disk since it was stored (what a
                    # fixity audit is for: client and API must report the same digest of what is there NOW)
                    k_ = i - 2 * len(u.toks) * 2 - 6
                    directed = ("getchecksum", u.toks[0])
                    A.run(store_object("p", ("ok", u.toks[0], "str", 0)))
                    directed_algo = [cfg["store_alg"], oracle.DATAONE[cfg["store_alg"]], "md5"][k_ % 3]
                    if k_ >= 3:
                        for dp, _dn, fn in os.walk(os.path.join(A.root, "objects")):
                            for f_ in fn:
                                if "tmp" not in os.path.relpath(dp, A.root).split(os.sep):
                                    with open(os.path.join(dp, f_), "r+b") as fh:
                                        b0 = fh.read(1)
                                        fh.seek(0)
                                        fh.write(bytes([(b0[0] ^ 0x01) if b0 else 0x41]))
                for c in u.history(rng.choice([0, 2, 4, 6]) if directed is None else 0, w):
                    A.run(c)
                rootB = os.path.join(A.base, "storeB")
                shutil.copytree(A.root, rootB)
                B = impl.Real(contents, ns=ns, base=A.base, root=rootB, **cfg)
                # ---- options
                verbs = [rng.choice(VERBS)]
                r = rng.random()
                if r < 0.08:
                    verbs.append(rng.choice(VERBS))
                elif r < 0.12:
                    verbs = []
                tok = u.tok()
                fpath = A.input_path(tok)
                path_tok = {fpath: "T:%d" % tok, os.path.join(A.inputs, "missing"): "F"}
                n = len(contents.by_tok[tok])
                a_name, a_sp = u.alg_spelling()
                ck = contents.digest(tok, a_name)
                o = {
                    "pid": rng.choice(["p", "pq", "q", "new", "new", None, "a b"]),
                    "path": rng.choice([fpath, fpath, fpath, os.path.join(A.inputs, "missing"), None]),
                    "algo": rng.choice([None, None, u.alg_spelling()[1], "sha999"]),
                    "checksum": rng.choice([None, None, ck, ck.upper(), "0" + ck[1:]]),
                    "checksum_algo": None,
                    "obj_size": rng.choice([None, None, str(n), str(n), str(n + 1), "abc", "0", "-1", " %d " % n, "1.5"]),
                    "formatid": rng.choice([None, None, "f1", ns, "f 2"]),
                }
                if o["checksum"] is not None and rng.random() < 0.85:
                    o["checksum_algo"] = a_sp
                elif rng.random() < 0.15:
                    o["checksum_algo"] = a_sp
                # drop options the verb does not use, most of the time (every subset still occurs)
                first = next((v for v in VERBS if v in verbs), None)
                used = {"getchecksum": {"pid", "algo"}, "storeobject": {"pid", "path", "algo", "checksum", "checksum_algo", "obj_size"},
                        "storemetadata": {"pid", "path", "formatid"}, "retrieveobject": {"pid"},
                        "retrievemetadata": {"pid", "formatid"}, "deleteobject": {"pid"},
                        "deletemetadata": {"pid", "formatid"}}.get(first, set())
                for k in list(o):
                    if k not in used and rng.random() < 0.8:
                        o[k] = None
                if directed is not None:
                    verbs, first = [directed[0]], directed[0]
                    o = dict.fromkeys(o)
                    o["pid"] = "p"
                    if directed[0] == "getchecksum":
                        o["algo"] = directed_algo
                argv = [A.root]
                flag = {"pid": "-pid", "path": "-path", "algo": "-algo", "checksum": "-checksum",
                        "checksum_algo": "-checksum_algo", "obj_size": "-obj_size", "formatid": "-formatid"}
                for k, v in o.items():
                    if v is not None:
                        argv.append("%s=%s" % (flag[k], v))
                for v in verbs:
                    argv.append("-" + v)
                res, text, log = run_client(argv)
                # ---- the corresponding API call, on the copy
                exp = corresponding_call(verbs, o, ns, path_tok)
                dline = "dispatch %s %s %s %s %s %s %s %s %s" % (
                    enc_str(ns), ",".join(verbs) or "-", opt_wire(o["pid"]),
                    "N" if o["path"] is None else path_tok[o["path"]], opt_wire(o["algo"]), opt_wire(o["checksum"]),
                    opt_wire(o["checksum_algo"]), opt_wire(o["obj_size"]), opt_wire(o["formatid"]))
                mm = model.req(dline)
                recorded = [wire_of_recorded(nm, a, k, path_tok) for nm, a, k in log]
                problems = {}
                dis = {}
                api_res = None
                if exp[0] == "call":
                    call = api_call_from_wire(exp[1], None)
                    api_res = B.run(call)
                    if recorded != [exp[1]]:
                        problems["API call made by the client"] = ([exp[1]], recorded)
                    # outcome classes
                    if (res == "ok") != api_res.startswith("ok") or (res != "ok" and res != api_res):
                        problems["outcome"] = (api_res[:60], res)
                    # reported values
                    if res == "ok" and api_res.startswith("ok"):
                        rep = parse_stdout(first, text)
                        ar = seq.parse_result(api_res)
                        if rep is None:
                            problems["stdout"] = ("parsable report", text[:200])
                        elif first == "storeobject":
                            d2 = dict(kv.split("=", 1) for kv in ar["digests"].split(","))
                            if rep["cid"] != ar["cid"] or str(rep["size"]) != ar["size"] or rep["digests"] != d2:
                                problems["reported metadata"] = ((ar["cid"], ar["size"]), (rep["cid"], rep["size"]))
                        elif first == "getchecksum" and rep["hex"] != ar["hex"]:
                            problems["reported digest"] = (ar["hex"], rep["hex"])
                        elif first == "storemetadata" and os.path.relpath(rep["path"], A.root) != ar["path"]:
                            problems["reported path"] = (ar["path"], rep["path"])
                        elif first in ("retrieveobject", "retrievemetadata"):
                            t_ = ar["content"]
                            want = contents.by_tok[int(t_[4:])][:1000].decode("utf-8") if t_.startswith("tok:") and t_[4:].isdigit() else None
                            if rep["content"] != want:
                                problems["reported content"] = (str(want)[:60], str(rep["content"])[:60])
                elif exp[0] == "err":
                    if res != "err " + exp[1]:
                        problems["outcome"] = ("err " + exp[1], res)
                    if recorded:
                        problems["API call made by the client"] = ([], recorded)
                else:
                    if recorded:
                        problems["API call made by the client"] = ([], recorded)
                sa, sb = A.state(), B.state()
                if sa != sb:
                    problems["final state"] = seq.diff_lines(sb, sa)
                # ---- model vs code (recorded call / refusal)
                if mm.startswith("call "):
                    if recorded != [mm[5:]]:
                        dis["call"] = ([mm[5:]], recorded)
                elif mm == "none":
                    if recorded or res != "ok":
                        dis["call"] = ("none", recorded or res)
                else:
                    if res != mm or recorded:
                        dis["outcome"] = (mm, res if not recorded else recorded)
                stats["cases"] += 1
                key = (first, tuple(sorted(k for k, v in o.items() if v is not None)), res.split(" ")[-1])
                stats["distinct"].add(key)
                stats["kinds"]["%s -> %s" % (first, res)] = stats["kinds"].get("%s -> %s" % (first, res), 0) + 1
                payload = {"property": "C20", "kind": "client", "config": dict(cfg, store_metadata_namespace=ns), "argv": argv[1:], "client": res,
                           "stdout": text[:400], "recorded": recorded, "expected": list(exp), "api": api_res, "model": mm}
                if len(samples) < 3:
                    samples.append(payload)
                if problems:
                    sig = "c20:%s:%s" % (first, ",".join(sorted(problems)))
                    if sig not in seen:
                        seen.add(sig)
                        payload["problems"] = {k: [str(v[0])[:800], str(v[1])[:800]] for k, v in problems.items()}
                        report.findings.append(Finding("C20", sig, "client %s differs from the API: %s" % (
                            " ".join(argv[1:])[:200], "; ".join("%s: expected %s got %s" % (k, str(v[0])[:120], str(v[1])[:120]) for k, v in problems.items())), payload))
                if dis:
                    sig = "c20-dis:%s:%s" % (first, ",".join(sorted(dis)))
                    if sig not in seen:
                        seen.add(sig)
                        from . import framework
                        payload["disagreement"] = {k: [str(v[0])[:800], str(v[1])[:800]] for k, v in dis.items()}
                        path = framework.write_replay("C20", "disagreement", payload)
                        report.disagreements.append({"what": "client dispatch: model %s, code %s / %s" % (mm[:100], res, recorded), "replay": path})
            finally:
                A.close()
        # a store created by the client opens through the API with the same properties, and vice versa
        base = impl.scratch_base()
        try:
            from hashstore.filehashstore import FileHashStore
            for (d, w, a) in [(3, 2, "SHA-256"), (1, 4, "MD5"), (5, 1, "SHA-512")]:
                root = os.path.join(base, "c%d%d" % (d, w))
                # both spellings of the four creation options are documented
                long_names = rng.random() < 0.5
                fl = {"d": "-store_depth", "w": "-store_width", "a": "-store_algorithm", "n": "-store_namespace"} if long_names else \
                     {"d": "-dp", "w": "-wp", "a": "-ap", "n": "-nsp"}
                res, text, log = run_client([root, "-chs", "%s=%d" % (fl["d"], d), "%s=%d" % (fl["w"], w), "%s=%s" % (fl["a"], a),
                                             "%s=%s" % (fl["n"], NS)])
                stats["cases"] += 1
                try:
                    FileHashStore(properties={"store_path": root, "store_depth": d, "store_width": w,
                                              "store_algorithm": a, "store_metadata_namespace": NS})
                    ok = res == "ok"
                except Exception as e:  # noqa
                    ok = False
                    res += " / API: " + repr(e)
                if not ok and "c20:create" not in seen:
                    seen.add("c20:create")
                    report.findings.append(Finding("C20", "c20:create", "store created by the client (-chs depth=%d width=%d %s) is not opened by the API with the same properties: %s" % (d, w, a, res),
                                                   {"property": "C20", "kind": "client-create", "depth": d, "width": w, "alg": a}))
                # -chs on the existing store with other properties: the API refuses (ValueError), so must the client
                other_alg = "SHA-384" if a != "SHA-384" else "SHA-256"
                for (d2, w2, a2, ns2) in [(d + 1, w, a, NS), (d, w + 1, a, NS), (d, w, other_alg, NS), (d, w, a, NS + "x")]:
                    stats["cases"] += 1
                    before = impl.snapshot_lines(root, contents)
                    try:
                        FileHashStore(properties={"store_path": root, "store_depth": d2, "store_width": w2,
                                                  "store_algorithm": a2, "store_metadata_namespace": ns2})
                        api = "ok"
                    except Exception as e:  # noqa
                        api = "err " + impl.exc_name(e)
                    res2, _, _ = run_client([root, "-chs", "-dp=%d" % d2, "-wp=%d" % w2, "-ap=%s" % a2, "-nsp=%s" % ns2])
                    after = impl.snapshot_lines(root, contents)
                    if (api.startswith("err") != res2.startswith("err") or before != after) and "c20:reopen" not in seen:
                        seen.add("c20:reopen")
                        report.findings.append(Finding("C20", "c20:reopen", "-chs on an existing store (created depth=%d width=%d %s) with depth=%d width=%d %s ns%s: API %s, client %s%s" % (
                            d, w, a, d2, w2, a2, "" if ns2 == NS else " changed", api, res2, "" if before == after else "; files changed"),
                            {"property": "C20", "kind": "client-reopen", "created": [d, w, a], "given": [d2, w2, a2, ns2], "api": api, "client": res2}))
        finally:
            shutil.rmtree(base, ignore_errors=True)
    finally:
        model.close()
    return {"evaluations": stats["cases"], "distinct_nontrivial": len(stats["distinct"]),
            "rule": "every verb (sometimes two flags, sometimes none) x subsets of -pid -path -algo -checksum "
                    "-checksum_algo -obj_size -formatid with valid and invalid values; hashstoreclient.main() run "
                    "in-process with a recording proxy on one copy of a store, the corresponding API call on the "
                    "other copy; compares the recorded call incl. argument types, outcome class, reported values "
                    "and final state; distinct = (verb, option subset, outcome class)",
            "samples": samples, "traces_validated_against_impl": stats["cases"], "distribution": stats["kinds"],
            "exhaustive": False}
