"""Abstract API calls: wire form for the model, Python form for the real store."""
import io
from pathlib import Path

from .enc import OTHER, enc_str, enc_sarg, enc_iarg, py_sarg, py_iarg


class Call:
    """name + abstract arguments.

    data argument forms:
      ("bad", value)            not str / Path / BufferedIOBase
      ("blank", s)              whitespace-only str
      ("nofile", "str"|"Path")  a path that does not exist
      ("ok", tok, kind, off)    kind in str|Path|file|bytesio|buffered ; off = stream offset
    object_metadata forms (delete_if_invalid_object):
      None / ("bad",)           not an ObjectMetadata
      ("om", cid, size, {alg: hex})
    """

    def __init__(self, name, **args):
        self.name = name
        self.args = args

    def __repr__(self):
        def short(v):
            if v is OTHER:
                return "<other>"
            return v
        return "%s(%s)" % (self.name, ", ".join("%s=%r" % (k, short(v)) for k, v in self.args.items()))

    # ---------------------------------------------------------------- strings whose hash the model needs
    def hash_strings(self, ns):
        a = self.args
        out = []
        pid = a.get("pid")
        if isinstance(pid, str):
            out.append(pid)
            out.append(pid + ns)
            f = a.get("format_id")
            if isinstance(f, str):
                out.append(pid + f)
        return out

    def toks(self):
        d = self.args.get("data")
        if d and d[0] == "ok":
            return [d[1]]
        return []

    # ---------------------------------------------------------------- wire
    def wire(self):
        a = self.args
        n = self.name
        if n == "store_object":
            return " ".join([n, enc_sarg(a["pid"]), enc_data(a["data"]), enc_sarg(a["additional_algorithm"]),
                             enc_sarg(a["checksum"]), enc_sarg(a["checksum_algorithm"]), enc_iarg(a["expected_object_size"])])
        if n == "tag_object":
            return " ".join([n, enc_sarg(a["pid"]), enc_sarg(a["cid"])])
        if n == "delete_if_invalid_object":
            return " ".join([n, enc_om(a["object_metadata"]), enc_sarg(a["checksum"]),
                             enc_sarg(a["checksum_algorithm"]), enc_iarg(a["expected_file_size"])])
        if n == "store_metadata":
            return " ".join([n, enc_sarg(a["pid"]), enc_data(a["data"]), enc_sarg(a["format_id"])])
        if n == "retrieve_object":
            return " ".join([n, enc_sarg(a["pid"])])
        if n == "retrieve_metadata":
            return " ".join([n, enc_sarg(a["pid"]), enc_sarg(a["format_id"])])
        if n == "delete_object":
            return " ".join([n, enc_sarg(a["pid"])])
        if n == "delete_metadata":
            return " ".join([n, enc_sarg(a["pid"]), enc_sarg(a["format_id"])])
        if n == "get_hex_digest":
            return " ".join([n, enc_sarg(a["pid"]), enc_sarg(a["algorithm"])])
        raise ValueError(n)

    def to_json(self):
        def j(v):
            if v is OTHER:
                return {"$other": True}
            if isinstance(v, tuple):
                return {"$tuple": [j(x) for x in v]}
            if isinstance(v, dict):
                return {k: j(x) for k, x in v.items()}
            if isinstance(v, bytes):
                return {"$bytes": v.hex()}
            return v
        return {"name": self.name, "args": {k: j(v) for k, v in self.args.items()}}

    @staticmethod
    def from_json(d):
        def u(v):
            if isinstance(v, dict):
                if "$other" in v:
                    return OTHER
                if "$tuple" in v:
                    return tuple(u(x) for x in v["$tuple"])
                if "$bytes" in v:
                    return bytes.fromhex(v["$bytes"])
                return {k: u(x) for k, x in v.items()}
            return v
        return Call(d["name"], **{k: u(v) for k, v in d["args"].items()})


def enc_data(d):
    if d[0] == "bad":
        return "B"
    if d[0] == "blank":
        return "K"
    if d[0] == "nofile":
        return "F"
    if d[0] == "ok":
        return "T:%d" % d[1]
    raise ValueError(d)


def enc_om(om):
    if om is None or om[0] == "bad":
        return "N"
    _, cid, size, digests = om
    ds = ",".join("%s=%s" % (enc_str(k), enc_str(v)) for k, v in sorted(digests.items())) or "-"
    return "M:%s:%d:%s" % (enc_str(cid), size, ds)


# convenience constructors ---------------------------------------------------------------

def store_object(pid=None, data=None, additional_algorithm=None, checksum=None, checksum_algorithm=None,
                 expected_object_size=None):
    return Call("store_object", pid=pid, data=data, additional_algorithm=additional_algorithm, checksum=checksum,
                checksum_algorithm=checksum_algorithm, expected_object_size=expected_object_size)


def tag_object(pid, cid):
    return Call("tag_object", pid=pid, cid=cid)


def delete_if_invalid_object(object_metadata, checksum, checksum_algorithm, expected_file_size):
    return Call("delete_if_invalid_object", object_metadata=object_metadata, checksum=checksum,
                checksum_algorithm=checksum_algorithm, expected_file_size=expected_file_size)


def store_metadata(pid, data, format_id=None):
    return Call("store_metadata", pid=pid, data=data, format_id=format_id)


def retrieve_object(pid):
    return Call("retrieve_object", pid=pid)


def retrieve_metadata(pid, format_id=None):
    return Call("retrieve_metadata", pid=pid, format_id=format_id)


def delete_object(pid):
    return Call("delete_object", pid=pid)


def delete_metadata(pid, format_id=None):
    return Call("delete_metadata", pid=pid, format_id=format_id)


def get_hex_digest(pid, algorithm):
    return Call("get_hex_digest", pid=pid, algorithm=algorithm)
