"""Entry point: python -m hsv.check <PROPERTY> quick|thorough   |   <PROPERTY> --replay <file>"""
import glob
import json
import os
import random
import sys
import time
import traceback

from . import framework, oracle, seq, props_seq
from .framework import Finding, Report

CORPUS = os.path.join(framework.VERIF, "corpus")
STORE_ALGS = ["SHA-256", "MD5", "SHA-1", "SHA-384", "SHA-512"]


def cfg_for(i, rng):
    """store configuration of the i-th history: mostly the default, the rest spread over algorithms/layouts"""
    if i % 3 == 0:
        cfg = dict(depth=3, width=2, store_alg="SHA-256")
    else:
        cfg = dict(depth=rng.choice([1, 2, 3, 4, 5]), width=rng.choice([1, 2, 3]), store_alg=rng.choice(STORE_ALGS))
    if i % 4 == 1:
        cfg["relative"] = True      # the store path given relative to the working directory
    return cfg


def describe(history, idx, chans):
    call = history[idx]
    return "%s: %s" % (call, "; ".join("%s expected %s got %s" % (k, str(v[0])[:160], str(v[1])[:160])
                                       for k, v in sorted(chans.items())))


def seq_signature(call, chans):
    cls = chans.get("class")
    return "seq:%s:%s:%s" % (call.name, ",".join(sorted(chans)), "%s->%s" % cls if cls else "")


def replay_payload(prop_id, cfg, contents, history, idx, chans, kind):
    return {"property": prop_id, "kind": kind, "config": cfg, "contents": contents.to_json(),
            "history": seq.history_json(history), "failing_step": idx,
            "channels": {k: [str(v[0])[:2000], str(v[1])[:2000]] for k, v in chans.items()}}


def run_one(prop, cfg, contents, history, mode):
    """mode 'findings' or 'disagreements' -> first item of that kind (hist, idx, chans) or None"""
    out = seq.SeqOutcome()
    seq.run_history(history, cfg, contents, out, prop.owned, prop.projection)
    items = out.findings if mode == "findings" else out.disagreements
    return items[0] if items else None


def shrink_item(prop, cfg, contents, item, mode):
    hist, idx, chans = item
    keys = set(chans)

    def pred(h):
        try:
            it = run_one(prop, cfg, contents, h, mode)
        except Exception:
            return False
        return it is not None and it[1] == len(h) - 1 and set(it[2]) & keys
    small = seq.shrink(hist, cfg, None, pred, max_runs=60)
    it = run_one(prop, cfg, contents, small, mode)
    return it if it is not None else item


def seq_slice(prop, tier, seed, report, budget_scale=1.0, label="slice"):
    n_hist, length = prop.quick if tier == "quick" else prop.thorough
    n_hist = max(1, int(n_hist * budget_scale))
    rng = random.Random("%s/%s/%d/%s" % (prop.id, tier, seed, label))
    total = seq.SeqOutcome()
    raw_findings, raw_dis = [], []
    pats = []
    for i in range(n_hist):
        cfg = cfg_for(i, rng)
        contents = oracle.Contents()
        u = prop.universe(rng, contents, cfg["store_alg"])
        if i < 20:
            pats = u.lifecycle_patterns()       # scripted on this history's own universe
        if i < len(pats):
            history = pats[i] + prop.history(u, max(2, length // 3))
        else:
            history = prop.history(u, length)
        out = seq.SeqOutcome()
        seq.run_history(history, cfg, contents, out, prop.owned, prop.projection)
        total.steps += out.steps
        total.histories += 1
        for k, v in out.branches.items():
            total.branches[k] = total.branches.get(k, 0) + v
        total.distinct |= out.distinct
        if i < 2:
            total.samples.append({"config": cfg, "history": [repr(c) for c in history[:8]]})
        for it in out.findings[:1]:
            raw_findings.append((cfg, contents, it))
        for it in out.disagreements[:1]:
            raw_dis.append((cfg, contents, it))
        if len(raw_findings) >= 6 or len(raw_dis) >= 12:
            break
    # minimise and record
    seen = set()
    for cfg, contents, it in raw_findings:
        it = shrink_item(prop, cfg, contents, it, "findings")
        hist, idx, chans = it
        sig = seq_signature(hist[idx], chans)
        if sig in seen:
            continue
        seen.add(sig)
        report.findings.append(Finding(prop.id, sig, describe(hist, idx, chans),
                                       replay_payload(prop.id, cfg, contents, hist, idx, chans, "sequential-finding")))
    seen = set()
    for cfg, contents, it in raw_dis:
        hist, idx, chans = it
        sig = seq_signature(hist[idx], chans)
        if sig in seen:
            continue
        seen.add(sig)
        it = shrink_item(prop, cfg, contents, it, "disagreements")
        hist, idx, chans = it
        path = framework.write_replay(prop.id, "disagreement",
                                      replay_payload(prop.id, cfg, contents, hist, idx, chans, "model-vs-code"))
        report.disagreements.append({"what": describe(hist, idx, chans), "replay": path})
    return total


def run_corpus(prop, report):
    n = 0
    for f in sorted(glob.glob(os.path.join(CORPUS, prop.id, "*.json"))):
        js = json.load(open(f))
        if js.get("kind", "").startswith("sequential") or js.get("kind") == "model-vs-code":
            contents = oracle.Contents.from_json(js["contents"])
            hist = seq.history_from_json(js["history"])
            out = seq.SeqOutcome()
            seq.run_history(hist, js["config"], contents, out, prop.owned, prop.projection)
            n += 1
            for it in out.findings[:1]:
                h, idx, chans = it
                report.findings.append(Finding(prop.id, seq_signature(h[idx], chans), "corpus %s: %s" % (
                    os.path.basename(f), describe(h, idx, chans)), js))
            for it in out.disagreements[:1]:
                h, idx, chans = it
                report.disagreements.append({"what": "corpus %s: %s" % (os.path.basename(f), describe(h, idx, chans)),
                                             "replay": f})
    return n


def check_seq(prop_id, tier, seed):
    prop = props_seq.SEQ_PROPS[prop_id]()
    report = Report(prop_id, tier, seed)
    report.lean = framework.lean_obligations(prop_id, thorough=(tier == "thorough"))
    ncorp = run_corpus(prop, report)
    total = seq_slice(prop, tier, seed, report)
    extra = EXTRAS.get(prop_id)
    extra_cov = extra(prop, tier, seed, report) if extra else {}
    if (report.lean["broken"] or report.disagreements) and not report.unknown_findings():
        # failing-input search: the property's own oracle with more budget
        more = seq_slice(prop, tier, seed + 7919, report, budget_scale=3.0, label="search")
        total.steps += more.steps
        total.histories += more.histories
        total.distinct |= more.distinct
        report.notes.append("failing-input search ran %d more histories" % more.histories)
    report.coverage.update({
        "evaluations": total.steps + extra_cov.get("evaluations", 0),
        "distinct_nontrivial": len(total.distinct) + extra_cov.get("distinct_nontrivial", 0),
        "rule": "random structured histories of public calls (one PRNG, seed above) run on the Lean model, the Lean "
                "abstract spec and the real store; a case is one call; distinct = distinct (call kind, specified "
                "outcome class, abstract state changed?) triples" + extra_cov.get("rule", ""),
        "traces_validated_against_impl": total.histories,
        "samples": total.samples + extra_cov.get("samples", []),
        "distribution": {"%s -> %s" % k: v for k, v in sorted(total.branches.items())},
        "corpus_replayed": ncorp,
        "exhaustive": False,
    })
    for k, v in extra_cov.items():
        if k not in ("evaluations", "distinct_nontrivial", "rule", "samples"):
            report.coverage[k] = v
    return report.finish()


def replay(prop_id, path):
    js = json.load(open(path))
    if prop_id in props_seq.SEQ_PROPS and "history" in js:
        prop = props_seq.SEQ_PROPS[prop_id]()
        contents = oracle.Contents.from_json(js["contents"])
        hist = seq.history_from_json(js["history"])
        out = seq.SeqOutcome()
        seq.run_history(hist, js["config"], contents, out, prop.owned, prop.projection)
        for h, idx, chans in out.findings:
            print("REPRODUCED finding:", describe(h, idx, chans))
        for h, idx, chans in out.disagreements:
            print("REPRODUCED model-vs-code disagreement:", describe(h, idx, chans))
        if out.findings:
            print("VIOLATION property=%s replay=%s" % (prop_id, path))
            return 1
        print("replay: no property failure reproduced")
        return 0
    print(json.dumps(js, indent=1)[:4000])
    return 0


from . import extras as _extras
EXTRAS = {"C02": _extras.c02_extra, "C17": _extras.chars_extra, "C18": _extras.chars_extra}


def check_special(prop_id, modname, tier, seed):
    import importlib
    mod = importlib.import_module("hsv." + modname)
    report = Report(prop_id, tier, seed)
    report.lean = framework.lean_obligations(prop_id, thorough=(tier == "thorough"))
    cov = mod.run(tier, seed, report)
    if (report.lean["broken"] or report.disagreements) and not report.unknown_findings():
        more = mod.run("thorough" if tier == "quick" else tier, seed + 7919, report)
        cov["evaluations"] += more["evaluations"]
        report.notes.append("failing-input search ran %d more cases" % more["evaluations"])
    report.coverage.update(cov)
    return report.finish()


def check_crash(prop_id, tier, seed):
    from . import crash
    report = Report(prop_id, tier, seed)
    report.lean = framework.lean_obligations(prop_id, thorough=(tier == "thorough"))
    cov = crash.run(prop_id, tier, seed, report)
    if (report.lean["broken"] or report.disagreements) and not report.unknown_findings() and tier == "quick":
        more = crash.run(prop_id, "thorough", seed + 7919, report)
        cov["evaluations"] += more["evaluations"]
        report.notes.append("failing-input search ran the thorough scenario grid")
    report.coverage.update(cov)
    return report.finish()


def check_faults(prop_id, tier, seed):
    from . import faults
    report = Report(prop_id, tier, seed)
    report.lean = framework.lean_obligations(prop_id, thorough=(tier == "thorough"))
    cov = faults.run(prop_id, tier, seed, report)
    if (report.lean["broken"] or report.disagreements) and not report.unknown_findings() and tier == "quick":
        more = faults.run(prop_id, "thorough", seed + 7919, report)
        cov["evaluations"] += more["evaluations"]
        report.notes.append("failing-input search ran the thorough fault grid")
    report.coverage.update(cov)
    return report.finish()


def check_conc(prop_id, tier, seed):
    from . import conc, faults
    report = Report(prop_id, tier, seed)
    report.lean = framework.lean_obligations(prop_id, thorough=(tier == "thorough"))
    cov = conc.run(prop_id, tier, seed, report)
    if prop_id == "C08":
        fc = faults.run("C08", tier, seed, report)
        cov["evaluations"] += fc["evaluations"]
        cov["distinct_nontrivial"] += fc["distinct_nontrivial"]
        cov["rule"] += "; plus, for every single call, an I/O error at each of its fault sites (see C13): lock lists must be empty afterwards and the follow-up call must complete"
        cov["samples"] += fc["samples"][:1]
    if (report.lean["broken"] or report.disagreements) and not report.unknown_findings() and tier == "quick":
        more = conc.run(prop_id, "thorough", seed + 7919, report)
        cov["evaluations"] += more["evaluations"]
        report.notes.append("failing-input search ran the thorough schedule budget")
    report.coverage.update(cov)
    return report.finish()


SPECIAL = {"C19": "c19", "C15": "c15", "C14": "c14", "C20": "c20", "C16": "c16"}


def main(argv):
    if len(argv) < 3:
        print(__doc__)
        return 2
    prop_id = argv[1]
    seed = int(os.environ.get("VERIF_SEED", "0"))
    try:
        if argv[2] == "--replay":
            return replay(prop_id, argv[3])
        tier = argv[2]
        if prop_id in props_seq.SEQ_PROPS:
            return check_seq(prop_id, tier, seed)
        if prop_id in ("C07", "C08", "C12"):
            return check_conc(prop_id, tier, seed)
        if prop_id in ("C13",):
            return check_faults(prop_id, tier, seed)
        if prop_id in ("C09", "C10"):
            return check_crash(prop_id, tier, seed)
        if prop_id in SPECIAL:
            return check_special(prop_id, SPECIAL[prop_id], tier, seed)
        print("unknown property", prop_id)
        return 2
    except framework.InfraError as e:
        print("INFRASTRUCTURE ERROR:", e)
        return 2
    except Exception:
        traceback.print_exc()
        return 2


if __name__ == "__main__":
    sys.exit(main(sys.argv))
