"""Translation of the command-line client's dispatch (hashstoreclient.py `main()`), re-done with `ast` on
every run: the option variables (`X = getattr(args, "dest")`), the default of the format id, and for every
verb of the `elif` chain: its flag, the variables it requires, the conversions it applies, the API method it
calls with which variables, and what it does with the result besides printing.
Lean side: Props/C20.lean proves that the model's `dispatch` IS the interpretation of this table."""
import ast


def _getattr_args(node):
    """getattr(args, "dest") -> dest"""
    if isinstance(node, ast.Call) and isinstance(node.func, ast.Name) and node.func.id == "getattr" \
            and len(node.args) == 2 and isinstance(node.args[0], ast.Name) and node.args[0].id == "args" \
            and isinstance(node.args[1], ast.Constant) and isinstance(node.args[1].value, str):
        return node.args[1].value
    return None


def _is_none_test(test, negated=False):
    """`V is None` (or `V is not None`) -> V"""
    if isinstance(test, ast.Compare) and len(test.ops) == 1 and isinstance(test.left, ast.Name) \
            and isinstance(test.comparators[0], ast.Constant) and test.comparators[0].value is None:
        if isinstance(test.ops[0], ast.IsNot if negated else ast.Is):
            return test.left.id
    return None


def _api_call(node):
    """hashstore_c.hashstore.<m>(...) -> (m, [argument texts])"""
    if isinstance(node, ast.Call) and isinstance(node.func, ast.Attribute):
        v = node.func.value
        if isinstance(v, ast.Attribute) and v.attr == "hashstore" and isinstance(v.value, ast.Name):
            args = [a.id if isinstance(a, ast.Name) else "?" + ast.unparse(a) for a in node.args]
            args += ["%s=%s" % (k.arg, k.value.id if isinstance(k.value, ast.Name) else "?" + ast.unparse(k.value))
                     for k in node.keywords]
            return node.func.attr, args
    return None


def _is_print(stmt):
    return isinstance(stmt, ast.Expr) and isinstance(stmt.value, ast.Call) and isinstance(stmt.value.func, ast.Name) \
        and stmt.value.func.id == "print"


def extract(src):
    tree = ast.parse(src)
    main = None
    for n in tree.body:
        if isinstance(n, ast.FunctionDef) and n.name == "main":
            main = n
    if main is None:
        return None
    varsrc = []
    fmt_default = None
    chain = None
    for st in main.body:
        if isinstance(st, ast.Assign) and len(st.targets) == 1 and isinstance(st.targets[0], ast.Name):
            d = _getattr_args(st.value)
            if d is not None:
                varsrc.append((st.targets[0].id, d))
        if isinstance(st, ast.If):
            v = _is_none_test(st.test)
            if v is not None and len(st.body) == 1 and isinstance(st.body[0], ast.Assign) \
                    and isinstance(st.body[0].targets[0], ast.Name) and st.body[0].targets[0].id == v \
                    and isinstance(st.body[0].value, ast.Name) and not st.orelse:
                fmt_default = (v, st.body[0].value.id)
            if isinstance(st.test, ast.Name) and st.test.id == "knbvm_test":
                chain = st.orelse
    rows = []
    while chain:
        if len(chain) != 1 or not isinstance(chain[0], ast.If):
            rows.append(("other:" + ast.unparse(chain[0])[:80], [], [], "", [], []))
            break
        node = chain[0]
        dest = _getattr_args(node.test)
        required, conv, method, margs, post = [], [], "", [], []
        seen_call = False
        for st in node.body:
            if isinstance(st, ast.If) and not st.orelse:
                v = _is_none_test(st.test)
                if v is not None and len(st.body) == 1 and isinstance(st.body[0], ast.Raise) and not seen_call:
                    e = st.body[0].exc
                    cls = e.func.id if isinstance(e, ast.Call) and isinstance(e.func, ast.Name) else "?"
                    required.append(v if cls == "ValueError" else "%s:%s" % (v, cls))
                    continue
                v = _is_none_test(st.test, negated=True)
                if v is not None and len(st.body) == 1 and isinstance(st.body[0], ast.Assign) and not seen_call:
                    a = st.body[0]
                    if isinstance(a.targets[0], ast.Name) and a.targets[0].id == v and isinstance(a.value, ast.Call) \
                            and isinstance(a.value.func, ast.Name) and len(a.value.args) == 1 \
                            and isinstance(a.value.args[0], ast.Name) and a.value.args[0].id == v:
                        conv.append((v, a.value.func.id))
                        continue
            call = None
            if isinstance(st, ast.Assign):
                call = _api_call(st.value)
            elif isinstance(st, ast.Expr):
                call = _api_call(st.value)
            if call is not None and not seen_call:
                method, margs = call
                seen_call = True
                continue
            if _is_print(st) or (isinstance(st, ast.Expr) and isinstance(st.value, ast.Constant)):
                continue
            post.append(ast.unparse(st)[:120])
        rows.append((dest if dest is not None else "?" + ast.unparse(node.test)[:60], required, conv, method, margs, post))
        chain = node.orelse
    return {"vars": varsrc, "format_default": fmt_default, "rows": rows}


if __name__ == "__main__":
    import json, os
    repo = os.environ.get("HASHSTORE_REPO", "/repo")
    print(json.dumps(extract(open(os.path.join(repo, "src", "hashstore", "hashstoreclient.py")).read()), indent=1))
