"""C07 / C12 / C08 (schedule part) / C16: concurrent calls under a controlled scheduler."""
import itertools
import os
import random

from . import abstraction, impl, lean, oracle, sched, seq
from .calls import *  # noqa
from .enc import enc_str
from .framework import Finding

EMPTY_LOCKS = "locks objPid=[] refPid=[] cid=[] doc=[]"
IN_PROGRESS = "err StoreObjectForPidAlreadyInProgress"


def d(t):
    return ("ok", t, "str", 0)


class Menu:
    def __init__(self, contents, store_alg="SHA-256"):
        alg = oracle.DATAONE[store_alg]
        self.X = contents.add(b"content X " * 3)
        self.Y = contents.add(b"other content Y")
        self.V1 = contents.add(b"<doc version 1/>")
        self.V2 = contents.add(b"<doc version 2 -- longer/>" * 400)
        self.cidX = contents.digest(self.X, alg)
        self.cidY = contents.digest(self.Y, alg)
        self.omX = ("om", self.cidX, len(contents.by_tok[self.X]), {a: contents.digest(self.X, a) for a in ("md5", "sha1", "sha256", "sha384", "sha512")})
        self.contents = contents

    def object_starts(self):
        return {
            "empty": [],
            "p1-bound": [store_object("p1", d(self.X))],
            "p1-p2-share": [store_object("p1", d(self.X)), store_object("p2", d(self.X))],
            "X-unreferenced": [store_object(None, d(self.X))],
        }

    def object_calls(self):
        bad = "00" + self.contents.digest(self.X, "md5")[2:]
        return [store_object("p1", d(self.X)), store_object("p2", d(self.X)), store_object("p1", d(self.Y)),
                store_object("p3", d(self.Y)), tag_object("p1", self.cidX), tag_object("p2", self.cidX),
                tag_object("p3", self.cidY), delete_object("p1"), delete_object("p2"),
                delete_if_invalid_object(self.omX, bad, "md5", None)]

    def metadata_starts(self):
        return {
            "doc-absent": [store_object("p1", d(self.X))],
            "doc-present": [store_object("p1", d(self.X)), store_metadata("p1", d(self.V1))],
            "two-docs": [store_object("p1", d(self.X)), store_metadata("p1", d(self.V1)), store_metadata("p1", d(self.V1), "f2")],
        }

    def metadata_calls(self):
        return [store_metadata("p1", d(self.V1)), store_metadata("p1", d(self.V2)), store_metadata("p1", d(self.V2), "f2"),
                retrieve_metadata("p1"), delete_metadata("p1", seq.DEFAULT_NS), delete_metadata("p1", "f2"),
                delete_metadata("p1", None), delete_object("p1")]


def sequential_outcomes(model, start, calls, tolerate_in_progress=True):
    """all (results, abstract state) of sequential orders on the specification"""
    outs = set()
    idx = list(range(len(calls)))
    for perm in itertools.permutations(idx):
        model.reset()
        for c in start:
            model.req("scall " + c.wire())
        res = [None] * len(calls)
        for i in perm:
            res[i] = model.req("scall " + calls[i].wire())
        outs.add((tuple(res), tuple(model.req_block("sstate"))))
    if tolerate_in_progress:
        # a store_object may be refused because another thread is storing the same pid: it then has no effect
        for skip in idx:
            c = calls[skip]
            if c.name != "store_object" or not any(j != skip and calls[j].name == "store_object" and calls[j].args["pid"] == c.args["pid"] for j in idx):
                continue
            rest = [i for i in idx if i != skip]
            for perm in itertools.permutations(rest):
                model.reset()
                for s_ in start:
                    model.req("scall " + s_.wire())
                res = [None] * len(calls)
                res[skip] = IN_PROGRESS
                for i in perm:
                    res[i] = model.req("scall " + calls[i].wire())
                outs.add((tuple(res), tuple(model.req_block("sstate"))))
    return outs


def execute(contents, cfg, start, calls, chooser, mp_mode=False, on_event=None, tmp_write_points=False):
    """one controlled execution on the real store + replay of its schedule on the model"""
    trio = seq.Trio(contents, **cfg)
    try:
        for c in start:
            trio.run(c, with_state=False)
        for c in calls:
            trio.prepare(c)
        s = sched.Sched(trio.real, calls, mp_mode=mp_mode)
        s.tmp_write_points = tmp_write_points
        if on_event is not None:
            s.on_event = lambda kind, rel, _root=trio.real.root: on_event(kind, rel, _root)
        try:
            outcome = s.run(chooser)
        finally:
            s.cleanup()
        results = list(s.results)
        if on_event is not None:
            on_event("end", "", trio.real.root)        # the directory when every call has returned
        tree = abstraction.read_tree(trio.real.root)
        rabs = abstraction.abs_lines(tree, trio.known, contents)
        exact = abstraction.exactness(tree, trio.known)
        rstate = trio.real.state()
        suffix = "_mp" if mp_mode else "_th"
        st = trio.real.store
        locks = "locks objPid=[%s] refPid=[%s] cid=[%s] doc=[%s]" % tuple(
            ",".join(enc_str(x) for x in getattr(st, n + suffix)) for n in
            ("object_locked_pids", "reference_locked_pids", "object_locked_cids", "metadata_locked_docs"))
        wire = "conc %s %s" % (".".join(map(str, s.schedule)) or "-", " ;; ".join(c.wire() for c in calls))
        m = trio.model.req_block(wire)
        mres = m[:len(calls)]
        minfo = m[len(calls):]
        mstate = trio.model.state()
        # follow-up calls on the same identifiers (C08)
        follow = None
        if outcome == "ok" and locks == EMPTY_LOCKS:
            # reinstall plain primitives for the follow-up: it runs alone
            pass
        return {"outcome": outcome, "results": results, "abs": rabs, "exact": exact, "state": rstate, "locks": locks,
                "schedule": list(s.schedule), "trace": [(t, str(l)) for t, l in s.trace][:400],
                "blocked_attempts": s.blocked_attempts,
                "model_results": mres, "model_info": minfo, "model_state": mstate}
    finally:
        trio.close()


def random_chooser(rng, stick=0.6):
    last = [None]

    def ch(runnable, pending, n):
        if last[0] in runnable and rng.random() < stick:
            return last[0]
        last[0] = rng.choice(runnable)
        return last[0]
    return ch


def scripted_chooser(script, fallback=0):
    """script: list of (worker, predicate on pending label) — run `worker` until predicate(label) is true at its
    point, then move to the next entry; afterwards run everything to completion in index order"""
    pos = [0]

    def ch(runnable, pending, n):
        while pos[0] < len(script):
            w, pred = script[pos[0]]
            if w in runnable and not pred(pending[w]):
                return w
            pos[0] += 1
        return runnable[0]
    return ch


def cut_chooser(first, k):
    """run worker `first` for k choices, then the other worker(s) to completion, then the rest"""
    count = [0]

    def ch(runnable, pending, n):
        if count[0] < k and first in runnable:
            count[0] += 1
            return first
        others = [r for r in runnable if r != first]
        return others[0] if others else runnable[0]
    return ch


_WORKER = {}


def _systematic_unit(args):
    """all single-cut schedules of one (start state, ordered pair): worker-process entry"""
    prop_id, group, sn, i, j, mp_mode, max_cut = args
    contents = oracle.Contents()
    cfg = dict(depth=3, width=2, store_alg="SHA-256")
    menu = Menu(contents)
    starts, calls_all = (menu.object_starts(), menu.object_calls()) if group == 0 else (menu.metadata_starts(), menu.metadata_calls())
    start, calls = starts[sn], [calls_all[i], calls_all[j]]
    model = lean.Model(contents, **cfg)
    out = []
    n_exec = 0
    try:
        for c in start + calls:
            for s_ in c.hash_strings(seq.DEFAULT_NS):
                model.need_str(s_)
            for t in c.toks():
                model.need_tok(t)
        seq_outs = sequential_outcomes(model, start, calls)
        for first in (0, 1):
            prev = None
            stuck = 0
            for k in range(0, max_cut):
                ex = execute(contents, cfg, start, calls, cut_chooser(first, k), mp_mode=mp_mode)
                n_exec += 1
                if ex["outcome"] == "stuck":
                    stuck += 1
                if ex["schedule"] == prev or stuck > 1:
                    break
                prev = ex["schedule"]
                problems, dis = judge(prop_id, sn, start, calls, ex, seq_outs)
                if problems or dis:
                    out.append({"sn": sn, "start": seq.history_json(start), "calls": seq.history_json(calls),
                                "contents": contents.to_json(), "ex": {k_: ex[k_] for k_ in ("schedule", "results", "abs", "locks", "trace", "outcome")},
                                "problems": {k_: [str(v[0])[:1200], str(v[1])[:1200]] for k_, v in problems.items()},
                                "dis": {k_: [str(v[0])[:1200], str(v[1])[:1200]] for k_, v in dis.items()},
                                "tags": diagnose(calls, ex["results"], ex["abs"]) if any("sequential" in p_ for p_ in problems) else [],
                                "short": short(calls), "rc": result_classes(ex["results"])})
    finally:
        model.close()
    return n_exec, out


def systematic(prop_id, tier, rng, mp_mode, groups_idx, report, seen, stats):
    """one thread runs k steps, then the other runs to completion, for every k and both orders"""
    import multiprocessing as mp
    combos = []
    contents = oracle.Contents()
    menu = Menu(contents)
    for g in groups_idx:
        starts, calls = (menu.object_starts(), menu.object_calls()) if g == 0 else (menu.metadata_starts(), menu.metadata_calls())
        for sn in starts:
            for i in range(len(calls)):
                for j in range(i, len(calls)):
                    combos.append((prop_id, g, sn, i, j, mp_mode, 60))
    rng.shuffle(combos)
    # every (start state, pair) combination in both tiers: the whole grid takes seconds on the pool
    with mp.get_context("fork").Pool(min(12, os.cpu_count() or 4)) as pool:
        results = pool.map(_systematic_unit, combos, chunksize=1)
    cfg = dict(depth=3, width=2, store_alg="SHA-256")
    for n_exec, outs in results:
        stats["execs"] += n_exec
        for o_ in outs:
            payload = {"property": prop_id, "kind": "schedule", "config": cfg, "contents": o_["contents"],
                       "start_state": o_["sn"], "start": o_["start"], "calls": o_["calls"], "schedule": o_["ex"]["schedule"],
                       "results": o_["ex"]["results"], "final_abstract_state": o_["ex"]["abs"], "locks": o_["ex"]["locks"],
                       "mp_mode": mp_mode, "trace": o_["ex"]["trace"], "problems": o_["problems"]}
            problems = o_["problems"]
            if prop_id == "C08":
                problems = {k_: v for k_, v in problems.items() if "sequential" not in k_}
            sigs = []
            nonseq = [p_ for p_ in problems if "sequential" in p_]
            if nonseq:
                if o_["tags"] == ["other"] or not o_["tags"]:
                    sigs.append("%s:unexplained:%s:%s:%s" % (prop_id.lower(), o_["sn"], o_["short"], o_["rc"]))
                else:
                    sigs += ["%s:%s" % (prop_id.lower(), t) for t in o_["tags"]]
            for p_ in problems:
                if "sequential" not in p_:
                    sigs.append("%s:%s:%s:%s" % (prop_id.lower(), p_.split(" (")[0], o_["sn"], o_["short"]))
            for sig in sigs:
                if sig not in seen:
                    seen.add(sig)
                    report.findings.append(Finding(prop_id, sig, "%s from state %s under schedule %s: results %s: %s" % (
                        o_["short"], o_["sn"], "".join(map(str, o_["ex"]["schedule"]))[:60], o_["rc"], "; ".join(problems)), payload))
            if o_["dis"]:
                sig = "%s-dis:%s:%s" % (prop_id.lower(), o_["short"], ",".join(sorted(o_["dis"])))
                if sig not in seen and len(report.disagreements) < 10:
                    seen.add(sig)
                    from . import framework
                    payload2 = dict(payload)
                    payload2["disagreement"] = o_["dis"]
                    pth = framework.write_replay(prop_id, "disagreement", payload2)
                    report.disagreements.append({"what": "%s from %s under schedule %s: %s" % (o_["short"], o_["sn"], o_["ex"]["schedule"][:40], "; ".join(
                        "%s model %s code %s" % (k_, v[0][:150], v[1][:150]) for k_, v in o_["dis"].items())), "replay": pth})
    return len(combos)


def replay_chooser(schedule):
    it = iter(schedule)

    def ch(runnable, pending, n):
        try:
            x = next(it)
        except StopIteration:
            return runnable[0]
        return x if x in runnable else runnable[0]
    return ch


def judge(prop_id, start_name, start, calls, ex, seq_outs):
    """-> (problems dict, disagreement dict)"""
    problems, dis = {}, {}
    n = len(calls)
    if ex["outcome"] != "ok":
        problems["no thread runnable while calls are pending (%s)" % ex["outcome"]] = ("all return", ex["results"])
    if ex["locks"] != EMPTY_LOCKS:
        problems["identifier left locked"] = (EMPTY_LOCKS, ex["locks"])
    if prop_id in ("C07", "C12", "C16") and ex["outcome"] == "ok":
        key = (tuple(ex["results"]), tuple(l for l in ex["abs"]))
        if key not in seq_outs:
            res_ok = any(k[0] == key[0] for k in seq_outs)
            sym = "final state matches no sequential order" if res_ok else "outcome matches no sequential order"
            problems[sym] = ([list(k[0]) for k in list(seq_outs)[:3]], list(key[0]) + list(key[1])[:6])
        elif ex["exact"]:
            # every sequential order ends with exact bookkeeping (C05.concrete_exact_history), so an inexact final
            # directory matches no sequential order even when results and bindings do
            problems["final reference bookkeeping matches no sequential order"] = ("exact", ex["exact"][:4])
    # model vs code under the same schedule
    if ex["model_results"] != [r if r is not None else "pending" for r in ex["results"]] and ex["outcome"] == "ok":
        dis["results"] = (ex["model_results"], ex["results"])
    if ex["outcome"] == "ok" and ("finished true" not in ex["model_info"] or "used %d" % len(ex["schedule"]) not in ex["model_info"]):
        dis["schedule"] = (ex["model_info"], "real ran %d steps to completion" % len(ex["schedule"]))
    if ex["outcome"] == "ok" and not dis and ex["model_state"] != ex["state"]:
        dis["state"] = seq.diff_lines(ex["model_state"], ex["state"])
    return problems, dis


VERIFY_ERRS = ("err PidRefsFileNotFound", "err CidRefsFileNotFound", "err PidRefsContentError", "err CidRefsContentError")


def diagnose(calls, results, abs_lines):
    """which of the recorded race windows explains a non-sequential outcome (tags), or ['other']"""
    tags = []
    n = len(calls)
    pid = lambda c: c.args.get("pid")
    for i, c in enumerate(calls):
        r = results[i] or "pending"
        others = [calls[j] for j in range(n) if j != i]
        if c.name == "store_object" and r == IN_PROGRESS and any(o.name == "delete_object" and pid(o) == pid(c) for o in others):
            tags.append("store-rejected-as-in-progress-while-pid-is-being-deleted")
        if c.name in ("store_object", "tag_object") and r.startswith(VERIFY_ERRS) and any(o.name == "delete_object" and pid(o) == pid(c) for o in others):
            tags.append("tag-verification-fails-against-concurrent-delete-of-same-pid")
        if c.name in ("delete_metadata", "delete_object") and r == "err FileNotFoundError" and any(
                o.name in ("delete_metadata", "delete_object") and pid(o) == pid(c) for o in others) and (
                c.args.get("format_id") is None or c.name == "delete_object" or any(o.args.get("format_id") is None for o in others)):
            tags.append("delete-all-metadata-lists-directory-before-locking")
    # a pid that a successful store/tag bound, whose object is gone although nobody deleted that pid
    objs = {l.split(" ")[1] for l in abs_lines if l.startswith("O ")}
    for l in abs_lines:
        if l.startswith("B "):
            _, penc, cid = l.split(" ")
            if cid not in objs:
                for i, c in enumerate(calls):
                    if c.name in ("store_object",) and isinstance(pid(c), str) and enc_str(pid(c)) == penc and (results[i] or "").startswith("ok") \
                            and any(o.name in ("delete_object", "delete_if_invalid_object") for o in calls):
                        tags.append("dedupe-window-stored-pid-left-without-object")
    return sorted(set(tags)) or ["other"]


def short(calls):
    return "|".join(sorted("%s(%s)" % (c.name, c.args.get("pid")) for c in calls))


def result_classes(results):
    return "|".join((r or "pending").split(" ")[0] + " " + (r or "pending x").split(" ")[1] for r in results)


def run(prop_id, tier, seed, report, mp_mode=False):
    rng = random.Random("%s/%s/%d" % (prop_id, tier, seed))
    contents = oracle.Contents()
    cfg = dict(depth=3, width=2, store_alg="SHA-256")
    menu = Menu(contents)
    groups = []
    if prop_id in ("C07", "C08", "C16"):
        groups.append((menu.object_starts(), menu.object_calls()))
    if prop_id in ("C12", "C08", "C16"):
        groups.append((menu.metadata_starts(), menu.metadata_calls()))
    n_pairs, n_sched, n_triples = (90, 5, 14) if tier == "quick" else (600, 14, 150)
    stats = {"execs": 0, "distinct": set(), "outcomes": {}, "blocked": 0}
    samples = []
    seen = set()
    n_combos = systematic(prop_id, tier, rng, mp_mode, [0] * (prop_id in ("C07", "C08", "C16")) + [1] * (prop_id in ("C12", "C08", "C16")),
                          report, seen, stats)
    model = lean.Model(contents, **cfg)
    try:
        work = []
        for starts, calls in groups:
            pairs = list(itertools.combinations(range(len(calls)), 2)) + [(i, i) for i in range(len(calls))]
            rng.shuffle(pairs)
            for (i, j) in pairs[:n_pairs // len(groups)]:
                sn = rng.choice(list(starts))
                work.append((sn, starts[sn], [calls[i], calls[j]]))
            for _ in range(n_triples // len(groups)):
                sn = rng.choice(list(starts))
                work.append((sn, starts[sn], rng.sample(calls, 3)))
        # the recorded windows of the known findings are replayed on every run
        for kf in known_windows(prop_id, menu):
            work.append(kf)
        for ww in wakeup_windows(prop_id, menu):
            work.append(ww)
        for item in work:
            if len(item) == 4:
                sn, start, calls, chooser_factory = item
                choosers = [chooser_factory]
            else:
                sn, start, calls = item
                choosers = [None] * n_sched
            for c in start + calls:
                for s_ in c.hash_strings(seq.DEFAULT_NS):
                    model.need_str(s_)
                for t in c.toks():
                    model.need_tok(t)
            seq_outs = sequential_outcomes(model, start, calls)
            for k, cf in enumerate(choosers):
                chooser = cf() if cf else random_chooser(random.Random(rng.random()), stick=rng.choice([0.3, 0.6, 0.85]))
                if stats.get("stuck", 0) >= 2:
                    continue        # a worker blocks outside the scheduler's control: reported, not worth 20 s a run
                ex = execute(contents, cfg, start, calls, chooser, mp_mode=mp_mode)
                stats["execs"] += 1
                if ex["outcome"] == "stuck":
                    stats["stuck"] = stats.get("stuck", 0) + 1
                stats["blocked"] += ex["blocked_attempts"]
                rc = result_classes(ex["results"])
                stats["outcomes"][rc] = stats["outcomes"].get(rc, 0) + 1
                stats["distinct"].add((sn, short(calls), rc))
                problems, dis = judge(prop_id, sn, start, calls, ex, seq_outs)
                if prop_id == "C08":
                    problems = {k_: v for k_, v in problems.items() if "sequential" not in k_}
                payload = {"property": prop_id, "kind": "schedule", "config": cfg, "contents": contents.to_json(),
                           "start_state": sn, "start": seq.history_json(start), "calls": seq.history_json(calls),
                           "schedule": ex["schedule"], "results": ex["results"], "final_abstract_state": ex["abs"],
                           "locks": ex["locks"], "mp_mode": mp_mode, "trace": ex["trace"]}
                if len(samples) < 3:
                    samples.append({"start": sn, "calls": [repr(c) for c in calls], "schedule": ex["schedule"], "results": [r[:40] if r else r for r in ex["results"]]})
                if problems:
                    nonseq = [p for p in problems if "sequential" in p]
                    other = [p for p in problems if "sequential" not in p]
                    sigs = []
                    if nonseq:
                        tags = diagnose(calls, ex["results"], ex["abs"])
                        if tags == ["other"]:
                            sigs.append("%s:unexplained:%s:%s:%s" % (prop_id.lower(), sn, short(calls), rc))
                        else:
                            sigs += ["%s:%s" % (prop_id.lower(), t) for t in tags]
                    for p_ in other:
                        sigs.append("%s:%s:%s:%s" % (prop_id.lower(), p_.split(" (")[0], sn, short(calls)))
                    for sig in sigs:
                        if sig not in seen:
                            seen.add(sig)
                            payload2 = dict(payload)
                            payload2["problems"] = {k_: [str(v[0])[:1200], str(v[1])[:1200]] for k_, v in problems.items()}
                            report.findings.append(Finding(prop_id, sig, "%s from state %s under schedule %s: results %s: %s" % (
                                short(calls), sn, "".join(map(str, ex["schedule"]))[:60], rc, "; ".join(problems)), payload2))
                if dis:
                    sig = "%s-dis:%s:%s" % (prop_id.lower(), short(calls), ",".join(sorted(dis)))
                    if sig not in seen and len(report.disagreements) < 10:
                        seen.add(sig)
                        from . import framework
                        payload["disagreement"] = {k_: [str(v[0])[:1200], str(v[1])[:1200]] for k_, v in dis.items()}
                        pth = framework.write_replay(prop_id, "disagreement", payload)
                        report.disagreements.append({"what": "%s from %s under schedule %s: %s" % (short(calls), sn, ex["schedule"][:40], "; ".join(
                            "%s model %s code %s" % (k_, str(v[0])[:150], str(v[1])[:150]) for k_, v in dis.items())), "replay": pth})
    finally:
        model.close()
    return {"evaluations": stats["execs"], "distinct_nontrivial": len(stats["distinct"]),
            "rule": "pairs and triples of calls from the property's menu, from several start states, each executed by "
                    "real threads on the real store under a controlled scheduler (scheduling points: every mutating "
                    "file-system primitive, every open for writing, every lock-list critical section, condition waits); "
                    "systematic single-cut schedules (one thread runs k steps, the other runs to completion, the "
                    "first finishes; every k, both orders) for all start-state x pair "
                    "combinations, random schedules with varying stickiness, and the scripted windows of the known findings; the "
                    "real schedule is replayed on the Lean interleaving model (results, final state must agree); "
                    "outcomes are judged against all sequential orders on the Lean specification; distinct = "
                    "(start state, call set, result classes)",
            "samples": samples, "traces_validated_against_impl": stats["execs"], "distribution": stats["outcomes"],
            "blocked_acquire_attempts": stats["blocked"], "mp_mode": mp_mode, "systematic_combinations": n_combos,
            "exhaustive": False}


def wakeup_windows(prop_id, menu):
    """three workers on one shared condition: T0 stands inside a critical section on identifier A, T1 asks for A
    and sleeps, T2 takes and releases an unrelated identifier B of the same class (its notify wakes T1). T1 must go
    back to sleep until T0 is out: a waiter that does not re-test after waking enters the section beside T0."""
    out = []

    def script(inside):
        def f():
            return scripted_chooser([
                (0, inside),                 # T0: inside the section
                (1, lambda l: False),        # T1: runs until it sleeps on the same identifier
                (2, lambda l: False),        # T2: unrelated identifier, runs to completion and notifies
                (1, lambda l: False),        # T1: woken; re-tests and sleeps again (or, wrongly, proceeds)
                (0, lambda l: False),        # T0: leaves the section
            ])
        return f
    if prop_id in ("C07", "C08", "C16"):
        both = [store_object(None, d(menu.X)), store_object(None, d(menu.Y))]
        before_list = lambda l: l[0] == "rename" and "refs/cids" in str(l[1])      # noqa: E731
        # cid class: two tags of one cid, a tag of another cid
        out.append(("X-Y-unreferenced", both, [tag_object("p1", menu.cidX), tag_object("p2", menu.cidX),
                                               tag_object("p3", menu.cidY)], script(before_list)))
        # reference-pid class: two tags of one pid, a tag of another pid
        out.append(("X-Y-unreferenced", both, [tag_object("p1", menu.cidX), tag_object("p1", menu.cidY),
                                               tag_object("p3", menu.cidY)], script(before_list)))
        # object-pid class: two deletes of one pid, a delete of another pid
        out.append(("p1-p3-bound", [store_object("p1", d(menu.X)), store_object("p3", d(menu.Y))],
                    [delete_object("p1"), delete_object("p1"), delete_object("p3")],
                    script(lambda l: l[0] == "rename")))
    if prop_id in ("C12", "C08", "C16"):
        # document class: two stores of one document, a store of another document of the same pid
        out.append(("doc-absent", [store_object("p1", d(menu.X))],
                    [store_metadata("p1", d(menu.V1)), store_metadata("p1", d(menu.V2)), store_metadata("p1", d(menu.V2), "f2")],
                    script(lambda l: l[0] == "rename")))
        # ... two deletes of one document (the second must not get in between the first one's look and its removal)
        out.append(("doc-present", [store_object("p1", d(menu.X)), store_metadata("p1", d(menu.V1))],
                    [delete_metadata("p1", seq.DEFAULT_NS), delete_metadata("p1", seq.DEFAULT_NS),
                     store_metadata("p1", d(menu.V2), "f2")],
                    script(lambda l: l[0] == "remove")))
    return out


def known_windows(prop_id, menu):
    """scripted schedules that force the windows of the recorded known findings (and of repaired defects)"""
    out = []
    if prop_id in ("C07", "C16"):
        # K1 dedupe window: T0 store_object(p2, X) finds the object and discards its temp copy; before it takes the
        # cid lock T1 delete_object(p1) removes the last reference, the list and the object; then T0 tags.
        def k1():
            return scripted_chooser([
                (0, lambda l: l == ("lock", "object_cid_condition")),   # T0: temp copy discarded, stands before the cid lock
                (1, lambda l: False),                      # T1: run delete_object(p1) to completion
            ])
        out.append(("p1-bound", [store_object("p1", d(menu.X))], [store_object("p2", d(menu.X)), delete_object("p1")], k1))
        # K2 tag || delete on one pid: T0 tag_object(p1, X) has moved the pid reference; T1 delete_object(p1) sees an
        # orphan pid reference and removes it; T0 then fails its verification.
        def k2():
            return scripted_chooser([
                (0, lambda l: l[0] == "rename" and "refs/cids" in str(l[1])),   # T0: pid ref published, cid list not yet
                (1, lambda l: False),
            ])
        out.append(("X-unreferenced", [store_object(None, d(menu.X))], [tag_object("p1", menu.cidX), delete_object("p1")], k2))
        # K5 store rejected while the pid is being deleted
        def k5():
            return scripted_chooser([
                (0, lambda l: l == ("lock", "object_cid_condition")),   # T0 delete_object(p1): holds object-pid(p1)
                (1, lambda l: False),
            ])
        out.append(("p1-bound", [store_object("p1", d(menu.X))], [delete_object("p1"), store_object("p1", d(menu.Y))], k5))
    if prop_id in ("C12", "C16"):
        # K3 delete-all lists the directory before locking: two delete-alls race for the same document
        def k3():
            return scripted_chooser([
                (0, lambda l: l[0] == "lock"),             # T0: has listed the directory, stands before its first claim
                (1, lambda l: False),                       # T1: complete delete_metadata(p1)
            ])
        out.append(("doc-present", [store_object("p1", d(menu.X)), store_metadata("p1", d(menu.V1))],
                    [delete_metadata("p1", None), delete_metadata("p1", None)], k3))
    return out
