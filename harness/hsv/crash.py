"""C09 / C10: every state between two file-system operations of a call, on the real code and in the model."""
import hashlib
import os
import random
import shutil

from . import abstraction, impl, lean, oracle, scenarios, seq, trace
from .calls import *  # noqa
from .framework import Finding

STORE_ALGS = ["SHA-256", "MD5", "SHA-1", "SHA-384", "SHA-512"]
CLASSIFIED = {"err PidRefsDoesNotExist", "err OrphanPidRefsFileFound", "err PidNotFoundInCidRefsFile",
              "err RefsFileExistsButCidObjMissing"}


def permanent_files_ok(root, alg, supplied_docs):
    """C09's oracle on one directory state: returns problems"""
    probs = []
    tree = abstraction.read_tree(root)
    dlen = hashlib.new(alg).digest_size * 2
    for cid, data in tree["objs"].items():
        key = cid[:-len("_delete")] if cid.endswith("_delete") else cid
        if hashlib.new(alg, data).hexdigest() != key:
            probs.append("object at %s does not hold the content whose digest is its name (%d bytes)" % (cid, len(data)))
    for (d, n), data in tree["docs"].items():
        if data not in supplied_docs:
            probs.append("metadata document %s/%s is not a complete supplied version (%d bytes)" % (d[:8], n[:8], len(data)))
    for k, text in tree["pidrefs"].items():
        if len(text) != dlen or any(c not in "0123456789abcdef" for c in text):
            probs.append("pid reference %s holds %r, not one complete cid" % (k[:8], text[:80]))
    return probs


def bystander_view(lines, pid_enc_prefixes):
    """abstract lines that belong to other pids than the interrupted one"""
    return [l for l in lines if not any(l.startswith(p) for p in pid_enc_prefixes)]


def run(prop_id, tier, seed, report):
    from .enc import enc_str
    rng = random.Random("%s/%s/%d" % (prop_id, tier, seed))
    stats = {"cases": 0, "points": 0, "distinct": set()}
    samples = []
    seen = set()
    combos = [("SHA-256", 0, (3, 2)), ("SHA-256", 2, (3, 2)), (rng.choice(STORE_ALGS[1:]), 1, (rng.choice([1, 2, 4]), rng.choice([1, 2, 3])))]
    if tier == "thorough":
        combos = [(a, s, (d, w)) for a in STORE_ALGS for s in (0, 1, 2) for (d, w) in ((3, 2), (1, 1), (2, 3))]
    for alg_name, size_class, (depth, width) in combos:
        cfg = dict(depth=depth, width=width, store_alg=alg_name)
        alg = oracle.DATAONE[alg_name]
        contents = oracle.Contents()
        scs = scenarios.build(contents, alg_name, size_class)
        for sc in scs:
            trio = seq.Trio(contents, **cfg)
            copies = []
            try:
                for c in sc.start:
                    trio.run(c, with_state=False)
                trio.prepare(sc.call)
                # extra strings the recovery calls need
                for extra in (delete_object(sc.pid), ) if sc.pid else ():
                    trio.prepare(extra)
                pre_tree = abstraction.read_tree(trio.real.root)
                pre_abs = abstraction.abs_lines(pre_tree, trio.known, contents)
                supplied = {contents.by_tok[t] for t in contents.by_tok}
                model_snaps_raw = trio.model.req_block("snaps " + sc.call.wire())
                model_result = model_snaps_raw[-1]
                model_snaps, cur = [], []
                for l in model_snaps_raw[:-1]:
                    if l == "--":
                        model_snaps.append(cur)
                        cur = []
                    else:
                        cur.append(l)
                real_snaps = []
                inplace = []

                def on_event(kind, rel, _root=trio.real.root):
                    real_snaps.append((kind, rel, impl.snapshot_lines(_root, contents)))
                    if prop_id == "C10" or tier == "thorough" or True:
                        dst = os.path.join(trio.real.base, "crash%d" % len(real_snaps))
                        shutil.copytree(_root, dst)
                        copies.append(dst)
                    if kind == "copy":
                        inplace.append(rel)
                with trace.Tracer(trio.real.root, on_event=on_event) as tr:
                    real_result = trio.real.run(sc.call)
                stats["cases"] += 1
                stats["points"] += len(real_snaps)
                stats["distinct"].add((sc.name, size_class))
                payload = {"property": prop_id, "kind": "crash-points", "config": cfg, "contents": contents.to_json(),
                           "scenario": sc.name, "start": seq.history_json(sc.start), "call": sc.call.to_json()}
                # ---- correspondence: same result, same sequence of intermediate states
                dis = None
                if model_result != real_result:
                    dis = "result: model %s, code %s" % (model_result[:80], real_result[:80])
                elif len(model_snaps) != len(real_snaps):
                    dis = "number of intermediate states: model %d, code %d (%s)" % (
                        len(model_snaps), len(real_snaps), [k for k, _, _ in real_snaps])
                else:
                    for i, (ms, (kind, rel, rs)) in enumerate(zip(model_snaps, real_snaps)):
                        if ms != rs:
                            dd = seq.diff_lines(ms, rs)
                            dis = "state after step %d (%s %s): model-only %s code-only %s" % (i + 1, kind, rel, dd[0][:3], dd[1][:3])
                            break
                if dis:
                    sig = "%s-dis:%s" % (prop_id.lower(), sc.name)
                    if sig not in seen:
                        seen.add(sig)
                        from . import framework
                        payload["disagreement"] = dis
                        path = framework.write_replay(prop_id, "disagreement", payload)
                        report.disagreements.append({"what": "%s: %s" % (sc.name, dis), "replay": path})
                # ---- the property oracles on every real intermediate state
                pid_prefixes = []
                if sc.pid:
                    pe = enc_str(sc.pid)
                    hp = oracle.h_id(alg, sc.pid)
                    # the interrupted pid's own entries, incl. markers / undecodable names in its own directories
                    pid_prefixes = ["B %s " % pe, "M %s " % pe, "B ?%s" % hp, "M ?%s " % hp]
                for i, dst in enumerate(copies):
                    kind, rel, _ = real_snaps[i]
                    problems = []
                    if prop_id == "C09":
                        problems += permanent_files_ok(dst, alg, supplied)
                        if sc.call.name == "store_metadata" and sc.pid is not None:
                            # the call is retried after the crash with a shorter document: what is published then
                            # must again be exactly a supplied version (nothing of the interrupted attempt in it)
                            twin = dst + "_retry"
                            shutil.copytree(dst, twin)
                            try:
                                short = contents.add(b"<m/>")
                                real2 = impl.Real(contents, base=trio.real.base, root=twin, **cfg)
                                rr = real2.run(store_metadata(sc.pid, ("ok", short, "str", 0), sc.call.args.get("format_id")))
                                if not rr.startswith("ok"):
                                    problems.append("retry of store_metadata after the crash fails: %s" % rr[:60])
                                problems += ["after the retry: " + x for x in
                                             permanent_files_ok(twin, alg, supplied | {contents.by_tok[short]})]
                            finally:
                                shutil.rmtree(twin, ignore_errors=True)
                    if prop_id == "C10":
                        problems += crash_recovery(trio, sc, dst, i + 1, contents, cfg, pre_abs, pid_prefixes, alg)
                    if problems:
                        sig = "%s:%s:%s" % (prop_id.lower(), sc.name, problems[0].split(":")[0][:60])
                        if sig not in seen:
                            seen.add(sig)
                            payload2 = dict(payload)
                            payload2["crash_after_step"] = i + 1
                            payload2["step"] = "%s %s" % (kind, rel)
                            payload2["problems"] = problems[:6]
                            report.findings.append(Finding(prop_id, sig, "%s, process dies after step %d (%s %s): %s" % (
                                sc.name, i + 1, kind, rel[-40:], "; ".join(problems[:3])), payload2))
                if prop_id == "C09" and inplace:
                    bad = [r for r in inplace if r.startswith(("objects/", "metadata/", "refs/pids/")) and "/tmp/" not in r]
                    if bad and ("c09:inplace:" + sc.name) not in seen:
                        seen.add("c09:inplace:" + sc.name)
                        payload2 = dict(payload)
                        payload2["in_place_writes"] = bad
                        report.findings.append(Finding("C09", "c09:inplace:" + sc.name,
                                                       "%s: a permanent file is written in place, not renamed into place: %s" % (sc.name, bad[:2]), payload2))
                if len(samples) < 3:
                    samples.append({"scenario": sc.name, "config": cfg, "steps": ["%s %s" % (k, r[-30:]) for k, r, _ in real_snaps]})
            finally:
                trio.close()
    if prop_id == "C09":
        concurrent_instants(report, stats, seen, tier)
    return {"evaluations": stats["points"] + stats["cases"], "distinct_nontrivial": len(stats["distinct"]),
            "concurrent_instants": stats.get("conc_instants", 0), "concurrent_executions": stats.get("conc_execs", 0),
            "rule": "concurrent part: pairs of calls that publish at one permanent address (two stores of one content, two "
                    "versions of one document, taggers of one cid, store beside delete) under every single-cut schedule of "
                    "the controlled scheduler, the property oracle evaluated on the live directory after every mutating "
                    "primitive of either thread; sequential part: scripted scenarios (new / duplicate / unreferenced content, validated and invalid stores, tag "
                    "with / without list / missing cid, delete of sole / shared / dangling reference with / without "
                    "metadata, metadata new / overwrite / delete one / delete all, invalid validation) x content sizes "
                    "(1 byte, one buffer, multi-buffer) x configurations; the directory is snapshotted after every "
                    "mutating primitive of the real call and compared with the model's intermediate state sequence; "
                    "the property oracle is evaluated on every real intermediate state; distinct = (scenario, size class)",
            "samples": samples, "traces_validated_against_impl": stats["cases"], "crash_points": stats["points"],
            "exhaustive": False}


def concurrent_instants(report, stats, seen, tier):
    """C09 "as seen by a concurrent reader": two calls that publish at the same permanent address run under every
    single-cut schedule; after every mutating primitive of either thread (the other one is parked at a scheduling
    point) the live directory must satisfy the property's oracle, and no permanent file may be written in place."""
    from . import conc
    from .calls import store_object, store_metadata, delete_object, delete_metadata, tag_object
    for alg_name, (depth, width) in (("SHA-256", (3, 2)),) + ((("SHA-512", (1, 3)),) if tier == "thorough" else ()):
        cfg = dict(depth=depth, width=width, store_alg=alg_name)
        alg = oracle.DATAONE[alg_name]
        contents = oracle.Contents()
        menu = conc.Menu(contents, store_alg=alg_name)
        big = contents.add(bytes(range(256)) * 1200)          # several copy buffers long
        bigdoc = contents.add(b"<second document, several buffers long/>" * 900)
        d = conc.d
        supplied = {contents.by_tok[t] for t in contents.by_tok}
        pairs = [
            ("empty", [], [store_object("p1", d(menu.X)), store_object("p2", d(menu.X))]),
            ("empty-big", [], [store_object("p1", d(big)), store_object("p2", d(big))]),
            ("p1-bound", [store_object("p1", d(menu.X))], [store_object("p2", d(menu.X)), store_object("p3", d(menu.X))]),
            ("p1-bound", [store_object("p1", d(menu.X))], [store_object("p2", d(menu.X)), delete_object("p1")]),
            ("X-unreferenced", [store_object(None, d(menu.X))], [tag_object("p1", menu.cidX), tag_object("p2", menu.cidX)]),
            ("doc-present", [store_object("p1", d(menu.X)), store_metadata("p1", d(menu.V1))],
             [store_metadata("p1", d(menu.V2)), store_metadata("p1", d(menu.V1))]),
            ("doc-present", [store_object("p1", d(menu.X)), store_metadata("p1", d(menu.V1))],
             [store_metadata("p1", d(menu.V2)), delete_metadata("p1", None)]),
            # one pid, two formats: different documents, different names to claim
            ("doc-absent", [store_object("p1", d(menu.X))],
             [store_metadata("p1", d(menu.V2)), store_metadata("p1", d(bigdoc), "f2")]),
        ]
        for sn, start, calls in pairs:
            for first in (0, 1):
                prev = None
                for k in range(0, 60):
                    bad = []
                    inplace = []
                    n_ev = [0]

                    def on_event(kind, rel, root, _bad=bad, _inplace=inplace, _n=n_ev):
                        _n[0] += 1
                        if kind == "copy" and rel.startswith(("objects/", "metadata/", "refs/pids/")) and "/tmp/" not in rel:
                            _inplace.append(rel)
                        for pr in permanent_files_ok(root, alg, supplied):
                            _bad.append("after %s %s: %s" % (kind, rel[-40:], pr))
                    ex = conc.execute(contents, cfg, start, calls, conc.cut_chooser(first, k), on_event=on_event,
                                      tmp_write_points=True)
                    stats["conc_execs"] = stats.get("conc_execs", 0) + 1
                    stats["conc_instants"] = stats.get("conc_instants", 0) + n_ev[0]
                    if ex["schedule"] == prev or ex["outcome"] != "ok":
                        break
                    prev = ex["schedule"]
                    probs = bad[:4] + ["a permanent file is written in place, not renamed into place: %s" % r for r in inplace[:2]]
                    if probs:
                        short = conc.short(calls)
                        sig = "c09:concurrent:%s:%s:%s" % (sn, short, probs[0].split(": ", 1)[-1][:50])
                        if sig not in seen:
                            seen.add(sig)
                            report.findings.append(Finding("C09", sig, "%s, %s, schedule %s: %s" % (
                                sn, short, ".".join(map(str, ex["schedule"])), "; ".join(probs[:2])),
                                {"property": "C09", "kind": "concurrent-instants", "config": cfg, "contents": contents.to_json(),
                                 "start": seq.history_json(start), "calls": seq.history_json(calls),
                                 "schedule": ex["schedule"], "trace": ex["trace"][:80], "problems": probs[:6]}))


def crash_recovery(trio, sc, snap_dir, k, contents, cfg, pre_abs, pid_prefixes, alg):
    """C10 on the directory left by a process that died after k mutating steps of sc.call"""
    problems = []
    from .enc import enc_str
    real = impl.Real(contents, base=trio.real.base, root=snap_dir, **cfg)
    known = trio.known
    tree = abstraction.read_tree(snap_dir)
    now_abs = abstraction.abs_lines(tree, known, contents)
    # (1) every other pid's bindings and documents exactly as before; objects they reference untouched
    before_by = bystander_view([l for l in pre_abs if l[0] in "BM"], pid_prefixes)
    after_by = bystander_view([l for l in now_abs if l[0] in "BM"], pid_prefixes)
    if before_by != after_by:
        d = seq.diff_lines(before_by, after_by)
        problems.append("another pid's references or metadata changed: lost %s gained %s" % (d[0][:2], d[1][:2]))
    refd = {l.split(" ")[2] for l in before_by if l.startswith("B ")}
    for l in pre_abs:
        if l.startswith("O ") and l.split(" ")[1] in refd and l not in now_abs:
            problems.append("an object another pid references is gone or altered: %s" % l[:60])
    for l in before_by:
        if l.startswith("B "):
            from .enc import dec_str
            q = dec_str(l.split(" ")[1])
            r = real.run(retrieve_object(q))
            want = [x for x in pre_abs if x.startswith("O " + l.split(" ")[2] + " ")]
            if want and r != "ok content " + want[0].split(" ")[2]:
                problems.append("other pid %r no longer retrievable with its bytes: %s" % (q, r[:60]))
    if sc.pid is None:
        return problems
    # (2) the interrupted pid: right bytes or a classified error, never wrong bytes
    r = real.run(retrieve_object(sc.pid))
    if r.startswith("ok content"):
        tok = r.split(" ")[2]
        ok_toks = set()
        for l in pre_abs:
            if l.startswith("B %s " % enc_str(sc.pid)):
                for o in pre_abs:
                    if o.startswith("O " + l.split(" ")[2] + " "):
                        ok_toks.add(o.split(" ")[2])
        if sc.data_tok is not None:
            ok_toks.add("tok:%d" % sc.data_tok)
        if tok not in ok_toks:
            problems.append("interrupted pid served wrong bytes: %s" % tok)
    elif r not in CLASSIFIED:
        problems.append("interrupted pid: retrieve_object gives %s (neither bytes nor a classified inconsistency)" % r)
    # model correspondence of the recovery from the same crash state is checked by the caller through results below
    # (3') the same recovery with the very data of the interrupted call (whatever the crash left at its address must
    #      not be trusted as that content), on a copy of the crash directory
    if sc.data_tok is not None and sc.call.name in ("store_object", "delete_object", "tag_object"):
        import shutil as _sh
        twin = snap_dir + "_same"
        _sh.copytree(snap_dir, twin)
        try:
            real2 = impl.Real(contents, base=trio.real.base, root=twin, **cfg)
            q1 = real2.run(delete_object(sc.pid))
            if not (q1 == "ok unit" or q1 == "err PidRefsDoesNotExist"):
                problems.append("recovery with the same data: delete_object(%r) fails with %s" % (sc.pid, q1))
            q2 = real2.run(store_object(sc.pid, ("ok", sc.data_tok, "str", 0)))
            if not q2.startswith("ok meta"):
                problems.append("recovery with the same data: store_object(%r) after delete fails with %s" % (sc.pid, q2))
            q3 = real2.run(retrieve_object(sc.pid))
            if q3 != "ok content tok:%d" % sc.data_tok:
                problems.append("recovery with the same data: pid not retrievable with its bytes: %s" % q3[:60])
            # the recovery itself must not hurt the others either (they may share the very object re-stored)
            for l in before_by:
                if l.startswith("B "):
                    from .enc import dec_str
                    q = dec_str(l.split(" ")[1])
                    rq = real2.run(retrieve_object(q))
                    want = [x for x in pre_abs if x.startswith("O " + l.split(" ")[2] + " ")]
                    if want and rq != "ok content " + want[0].split(" ")[2]:
                        problems.append("after the recovery of %r, other pid %r is no longer retrievable: %s" % (sc.pid, q, rq[:60]))
        finally:
            _sh.rmtree(twin, ignore_errors=True)
    # (3'') metadata after an interrupted delete: whatever the crash left (a `_delete` marker), a document of
    #       the pid stored again can be deleted again and is then gone
    if sc.call.name in ("delete_metadata", "delete_object"):
        import shutil as _sh
        twin = snap_dir + "_meta"
        _sh.copytree(snap_dir, twin)
        try:
            real3 = impl.Real(contents, base=trio.real.base, root=twin, **cfg)
            doc = contents.add(b"<document stored again after the crash/>")
            m1 = real3.run(store_metadata(sc.pid, ("ok", doc, "str", 0), None))
            m2 = real3.run(delete_metadata(sc.pid, None))
            m3 = real3.run(retrieve_metadata(sc.pid, None))
            if m1.startswith("ok") and m2 == "ok unit" and m3.startswith("ok"):
                problems.append("a document of %r stored again after the interrupted delete survives delete_metadata(pid): %s" % (sc.pid, m3[:40]))
        finally:
            _sh.rmtree(twin, ignore_errors=True)
    # (3) delete_object (may say unknown) then store_object always succeeds and the pid is retrievable
    r1 = real.run(delete_object(sc.pid))
    if not (r1 == "ok unit" or r1 == "err PidRefsDoesNotExist"):
        problems.append("recovery: delete_object(%r) fails with %s" % (sc.pid, r1))
    newtok = contents.add(b"recovered content of " + sc.pid.encode())
    r2 = real.run(store_object(sc.pid, ("ok", newtok, "str", 0)))
    if not r2.startswith("ok meta"):
        problems.append("recovery: store_object(%r) after delete fails with %s" % (sc.pid, r2))
    r3 = real.run(retrieve_object(sc.pid))
    if r3 != "ok content tok:%d" % newtok:
        problems.append("recovery: pid not retrievable with the new bytes: %s" % r3)
    return problems
