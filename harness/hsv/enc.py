"""Wire encodings shared with lean/Driver.lean."""

OTHER = object()  # a non-string, non-None argument (sent as the int 5 to the real API)


def enc_str(s: str) -> str:
    if s == "":
        return "-"
    return ".".join(str(ord(c)) for c in s)


def dec_str(s: str) -> str:
    if s == "-":
        return ""
    return "".join(chr(int(p)) for p in s.split("."))


def enc_sarg(v) -> str:
    if v is None:
        return "N"
    if v is OTHER:
        return "O"
    assert isinstance(v, str), v
    return "S:" + enc_str(v)


def enc_iarg(v) -> str:
    if v is None:
        return "N"
    if v is OTHER:
        return "O"
    if isinstance(v, bool):
        return "I:%d" % int(v)
    assert isinstance(v, int), v
    return "I:%d" % v


def py_sarg(v):
    return 5 if v is OTHER else v


def py_iarg(v):
    return "11" if v is OTHER else v
