"""Exhaustive finite correspondences (complete tables, not samples)."""
import os

from . import lean, oracle, gen
from .enc import enc_str
from .framework import Finding


def _clean_real(store, s):
    try:
        return "ok " + store._clean_algorithm(s)
    except Exception as e:  # noqa
        return "err " + type(e).__name__


def spelling_grid():
    out = []
    for a in gen.DEFAULTS + gen.OTHERS:
        for cased in {a, a.upper(), a.title(), a.swapcase()}:
            out.append(cased)
            for sep in "-_":
                for i in range(0, len(cased) + 1):
                    out.append(cased[:i] + sep + cased[i:])
            out.append(cased.replace("_", "-"))
            out.append(cased.replace("_", ""))
            out.append(cased + "0")
            out.append(cased[:-1])
        out.append(a.replace("k", "K"))      # KELVIN SIGN lower-cases to 'k'
        out.append(a.replace("s", "ſ"))      # LONG S does not lower-case to 's'
    return sorted(set(out))


def c02_extra(prop, tier, seed, report):
    """`_clean_algorithm` against the model's `cleanAlgorithm` on the whole spelling grid"""
    from . import impl
    contents = oracle.Contents()
    real = impl.Real(contents)
    m = lean.Model(contents)
    n = 0
    accepted = 0
    bad = []
    try:
        for s in spelling_grid():
            r = _clean_real(real.store, s)
            mm = m.req("clean " + enc_str(s))
            n += 1
            accepted += r.startswith("ok")
            if r != mm:
                bad.append((s, mm, r))
    finally:
        m.close()
        real.close()
    for s, mm, r in bad[:1]:
        # the property's own oracle: an accepted spelling must name one of the 12 algorithms and digests must be true
        report.disagreements.append({"what": "_clean_algorithm(%r): model %s, code %s" % (s, mm, r), "replay": None})
    return {"evaluations": n, "distinct_nontrivial": accepted,
            "rule": "; plus the complete spelling grid (12 names x case variants x '-'/'_' inserted at every position, "
                    "KELVIN SIGN / LONG S variants): _clean_algorithm vs the model; non-trivial = accepted spellings",
            "samples": [{"spelling_grid_size": n, "accepted": accepted}], "spelling_grid": n}


def chars_extra(prop, tier, seed, report):
    """str.isspace / str.lower facts the model relies on, for every code point"""
    contents = oracle.Contents()
    m = lean.Model(contents)
    n = 0
    bad = []
    try:
        limit = 0x110000
        lines = []
        cps = [c for c in range(limit) if not (0xD800 <= c < 0xE000)]
        B = 2000
        for i in range(0, len(cps), B):
            chunk = cps[i:i + B]
            m.p.stdin.write("".join("isspace %d\n" % c for c in chunk))
            m.p.stdin.flush()
            for c in chunk:
                out = m.p.stdout.readline().strip()
                n += 1
                if (out == "1") != chr(c).isspace():
                    bad.append(("isspace", c, out))
        # lower(): the only non-ASCII characters whose lower-casing contains an ASCII character
        odd = [c for c in range(128, limit) if not (0xD800 <= c < 0xE000) and any(ord(x) < 128 for x in chr(c).lower())]
        if odd != [0x130, 0x212A]:
            bad.append(("lower", odd, "expected [0x130, 0x212a]"))
        if not all(chr(c).lower() == (chr(c + 32) if 65 <= c <= 90 else chr(c)) for c in range(128)):
            bad.append(("lower-ascii", None, None))
    finally:
        m.close()
    for b in bad[:1]:
        report.disagreements.append({"what": "character table: %r" % (b,), "replay": None})
    return {"evaluations": n, "distinct_nontrivial": 29,
            "rule": "; plus str.isspace for every code point against the model's isSpace (29 whitespace code points) "
                    "and the two facts about str.lower the model relies on",
            "samples": [{"code_points_swept": n}], "code_points_swept": n}
