"""C13 (and the fault part of C08): one injected I/O failure at each fault site of each call."""
import errno
import random

from . import abstraction, impl, lean, oracle, scenarios, seq, trace
from .calls import *  # noqa
from .enc import enc_str
from .framework import Finding

ERRNOS = [errno.EIO, errno.ENOSPC, errno.EACCES]
EMPTY_LOCKS = "locks objPid=[] refPid=[] cid=[] doc=[]"


def no_residue(lines):
    return [l for l in lines if "_delete" not in l]


def prep(contents, cfg, sc):
    trio = seq.Trio(contents, **cfg)
    for c in sc.start:
        trio.run(c, with_state=False)
    trio.prepare(sc.call)
    return trio


def abs_of(trio):
    tree = abstraction.read_tree(trio.real.root)
    return abstraction.abs_lines(tree, trio.known, trio.contents)


def run(prop_id, tier, seed, report):
    rng = random.Random("%s/%s/%d" % (prop_id, tier, seed))
    stats = {"cases": 0, "runs": 0, "distinct": set(), "outcomes": {}}
    samples = []
    seen = set()
    combos = [("SHA-256", 0, (3, 2))]
    if tier == "thorough":
        combos = [("SHA-256", 0, (3, 2)), ("MD5", 2, (2, 2)), ("SHA-512", 1, (4, 3)), ("SHA-1", 0, (1, 1))]
    for alg_name, size_class, (depth, width) in combos:
        cfg = dict(depth=depth, width=width, store_alg=alg_name)
        contents = oracle.Contents()
        scs = scenarios.build(contents, alg_name, size_class)
        for sc in scs:
            # ---- fault sites of this call: from the model; the real no-fault trace must pass the same sites
            trio = prep(contents, cfg, sc)
            try:
                pre_abs = abs_of(trio)
                msites = [l.split("|") for l in trio.model.req_block("sites " + sc.call.wire())]
                spec_result = trio.model.req("scall " + sc.call.wire())
                spec_post = trio.model.req_block("sstate")
                with trace.Tracer(trio.real.root) as tr:
                    real_nofault = trio.real.run(sc.call)
                rsites = ["%s|%s" % s_ for s_ in tr.sites]
                if rsites != ["%s|%s" % (k, p) for k, p, _ in msites]:
                    sig = "%s-dis:sites:%s" % (prop_id.lower(), sc.name)
                    if sig not in seen:
                        seen.add(sig)
                        report.disagreements.append({"what": "%s: fault sites differ: model %s / code %s" % (
                            sc.name, [("%s|%s" % (k, p))[-50:] for k, p, _ in msites][:14], [r[-50:] for r in rsites][:14]), "replay": None})
            finally:
                trio.close()
            stats["cases"] += 1
            # ---- one fault per site, once and persistent
            occ = {}
            plans = []
            for i, (kind, path, tgt) in enumerate(msites):
                nth = occ.get((kind, tgt), 0)
                occ[(kind, tgt)] = nth + 1
                for persistent in (False, True):
                    if persistent and nth > 0:
                        continue   # persistence from a later occurrence adds little; the first one covers the destination
                    plans.append((kind, path, tgt, nth, persistent))
            if tier == "quick" and len(plans) > 14:
                # always keep the sites of the recorded known findings (persistent failures on reference files)
                keep = [p_ for p_ in plans if p_[4] and p_[1].startswith("refs/") and p_[0] in ("openRead", "openWrite", "flock", "rename")]
                rest = [p_ for p_ in plans if p_ not in keep]
                plans = keep + rng.sample(rest, min(len(rest), max(0, 14 - len(keep))))
            for (kind, path, tgt, nth, persistent) in plans:
                if stats.get("stuck", 0) >= 3:
                    # calls that do not return cost the watchdog's patience each: three of them are findings
                    # enough, the rest of the sweep would only repeat them
                    break
                err = ERRNOS[(stats["runs"]) % 3]
                trio = prep(contents, cfg, sc)
                stats["runs"] += 1
                try:
                    trio.model.fault(kind, nth, persistent, tgt)
                    mres = trio.model.call(sc.call.wire())
                    with trace.Tracer(trio.real.root, fault=trace.FaultPlan(kind, path, nth, persistent, err)) as tr:
                        rres = trio.run_real(sc.call)      # on a watched thread: a call that blocks on itself is a result
                    fired = tr.fault.fired
                    if rres == "err CallDidNotReturn":
                        stats["stuck"] = stats.get("stuck", 0) + 1
                    mstate, rstate = trio.model.state(), trio.real.state()
                    mlocks, rlocks = trio.model.locks(), trio.real.locks()
                    label = "%s@%s#%d%s" % (kind, "/".join(path.split("/")[:2]), nth, ":persistent" if persistent else ":once")
                    payload = {"property": prop_id, "kind": "fault", "config": cfg, "contents": contents.to_json(),
                               "scenario": sc.name, "start": seq.history_json(sc.start), "call": sc.call.to_json(),
                               "fault": {"kind": kind, "path": path, "nth": nth, "persistent": persistent, "errno": err},
                               "model_result": mres, "real_result": rres}
                    dis = {}
                    if mres != rres:
                        dis["result"] = (mres, rres)
                    if mstate != rstate:
                        dis["state"] = seq.diff_lines(mstate, rstate)
                    if mlocks != rlocks:
                        dis["locks"] = (mlocks, rlocks)
                    stats["outcomes"][rres.split(" ")[0] + " " + (rres.split(" ")[1] if rres.startswith("err") else "")] = \
                        stats["outcomes"].get(rres.split(" ")[0] + " " + (rres.split(" ")[1] if rres.startswith("err") else ""), 0) + 1
                    stats["distinct"].add((sc.name, kind, "/".join(path.split("/")[:2]), persistent, rres.split(" ")[0]))
                    problems = {}
                    tree_after = abstraction.read_tree(trio.real.root)
                    now_abs = abstraction.abs_lines(tree_after, trio.known, trio.contents)
                    if prop_id == "C08" or True:
                        if rlocks != EMPTY_LOCKS:
                            problems["identifier left locked"] = (EMPTY_LOCKS, rlocks)
                    # retry without the fault (also the follow-up call of C08)
                    retry = None
                    if rlocks == EMPTY_LOCKS:
                        retry = trio.real.run(sc.call)
                        mretry = trio.model.call(sc.call.wire())
                        if retry != mretry:
                            dis["retry"] = (mretry, retry)
                    if prop_id == "C13":
                        pid = sc.pid
                        pe = enc_str(pid) if pid else None
                        if rres.startswith("ok") and spec_result.startswith("ok"):
                            if no_residue(now_abs) != no_residue(spec_post):
                                problems["reported success without the whole effect"] = seq.diff_lines(no_residue(spec_post), no_residue(now_abs))
                        if pid is not None:
                            others_before = [l for l in pre_abs if not l.startswith(("B %s " % pe, "M %s " % pe)) and l[0] in "BM"]
                            others_after = [l for l in no_residue(now_abs) if not l.startswith(("B %s " % pe, "M %s " % pe)) and l[0] in "BM"]
                            if others_before != others_after:
                                problems["another pid's data changed"] = seq.diff_lines(others_before, others_after)
                            refd = {l.split(" ")[2] for l in others_before if l.startswith("B ")}
                            for l in pre_abs:
                                if l.startswith("O ") and l.split(" ")[1] in refd and l not in now_abs:
                                    problems["an object another pid references is gone"] = (l, "")
                        if rres.startswith("err") and sc.call.name in ("store_object", "tag_object") and pid is not None:
                            b_before = [l for l in pre_abs if l.startswith("B %s " % pe)]
                            b_after = [l for l in now_abs if l.startswith("B %s " % pe)]
                            if b_after and b_after != b_before:
                                problems["failed call left the pid bound"] = (b_before, b_after)
                            if spec_result.startswith("ok") and retry is not None and not retry.startswith("ok"):
                                problems["pid cannot be stored again at once"] = (spec_result[:40], retry)
                            if not b_after:
                                # unbound after the failure: then no reference list may still name it (half-bound)
                                listed = [c for c, text in tree_after["cidrefs"].items()
                                          if not c.endswith("_delete") and pid in text.split("\n")]
                                if listed:
                                    problems["failed call left the pid unbound but still listed by a cid"] = (b_before, listed)
                        if rres.startswith("err") and sc.call.name == "store_metadata" and pid is not None:
                            m_before = [l for l in pre_abs if l.startswith("M %s " % pe)]
                            m_after = [l for l in no_residue(now_abs) if l.startswith("M %s " % pe)]
                            if m_before != m_after:
                                problems["previous document version not intact"] = (m_before, m_after)
                    if prop_id == "C08":
                        problems = {k: v for k, v in problems.items() if k == "identifier left locked"}
                        # every identifier that was involved can be operated on again: other calls on the same content
                        # and pid must return (watched thread) and leave nothing locked
                        if rlocks == EMPTY_LOCKS and getattr(sc, "data_tok", None) is not None:
                            tok_ = sc.data_tok
                            om_ = trio.real.run(store_object(None, ("ok", tok_, "str", 0)))
                            fu = []
                            if om_.startswith("ok"):
                                from . import c19 as _c19
                                omv = _c19.parse_om(om_)
                                if omv is not None:
                                    fu.append(delete_if_invalid_object(omv, "0" * 32, "md5", None))
                            fu += [store_object("follow-up", ("ok", tok_, "str", 0))]
                            if sc.pid is not None:
                                fu.append(delete_object(sc.pid))
                            for fc in fu:
                                fr = trio.run_real(fc)
                                if fr == "err CallDidNotReturn":
                                    problems["a later call on the same identifiers does not return"] = ("returns", repr(fc)[:80])
                                    break
                            if "a later call on the same identifiers does not return" not in problems and trio.real.locks() != EMPTY_LOCKS:
                                problems["identifier left locked"] = (EMPTY_LOCKS, trio.real.locks())
                        if retry is not None and retry.startswith("err StoreObjectForPidAlreadyInProgress"):
                            problems["follow-up call blocked"] = ("completes", retry)
                    if problems:
                        sig = "%s:%s:%s:%s" % (prop_id.lower(), sc.call.name, label.split("#")[0] + (":persistent" if persistent else ":once"),
                                               ",".join(sorted(problems)))
                        if sig not in seen:
                            seen.add(sig)
                            payload["problems"] = {k: [str(v[0])[:600], str(v[1])[:600]] for k, v in problems.items()}
                            payload["retry"] = retry
                            report.findings.append(Finding(prop_id, sig, "%s with %s failing (%s): %s -> %s" % (
                                sc.name, label, errno.errorcode[err], rres[:50], "; ".join(problems)), payload))
                    if dis:
                        sig = "%s-dis:%s:%s" % (prop_id.lower(), sc.name, label)
                        if sig not in seen and len([d for d in report.disagreements]) < 12:
                            seen.add(sig)
                            from . import framework
                            payload["disagreement"] = {k: [str(v[0])[:800], str(v[1])[:800]] for k, v in dis.items()}
                            pth = framework.write_replay(prop_id, "disagreement", payload)
                            report.disagreements.append({"what": "%s with %s failing: %s" % (sc.name, label, "; ".join(
                                "%s model %s code %s" % (k, str(v[0])[:100], str(v[1])[:100]) for k, v in dis.items())), "replay": pth})
                    if len(samples) < 3:
                        samples.append({"scenario": sc.name, "fault": label, "result": rres[:60], "retry": (retry or "")[:40]})
                finally:
                    trio.close()
    return {"evaluations": stats["runs"] + stats["cases"], "distinct_nontrivial": len(stats["distinct"]),
            "rule": "scripted scenarios (see scenarios.py) x every fault site of the call under test (mkdirs, temp-file "
                    "create, open for writing, rename, remove, flock, open for reading) x {one-off, persistent for that "
                    "destination} x errno rotating over EIO / ENOSPC / EACCES; same plan in the model and in the real "
                    "run; result, final state, lock lists and an immediate fault-free retry compared; distinct = "
                    "(scenario, site kind, area, mode, outcome kind)",
            "samples": samples, "traces_validated_against_impl": stats["runs"], "distribution": stats["outcomes"],
            "exhaustive": False}
