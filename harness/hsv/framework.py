"""Check pipeline: Lean obligations (build + axiom audit + hygiene), the property's
correspondence slice, failing-input search, known findings, evidence."""
import fcntl
import glob
import hashlib
import json
import os
import re
import subprocess
import sys
import time

VERIF = os.path.dirname(os.path.dirname(os.path.dirname(os.path.abspath(__file__))))
LEAN_DIR = os.path.join(VERIF, "lean")
EVIDENCE_DIR = os.path.join(VERIF, "evidence")
REPLAY_DIR = os.path.join(VERIF, "replays")
KNOWN_FILE = os.path.join(VERIF, "known_findings.json")
ALLOWED_AXIOMS = {"propext", "Classical.choice", "Quot.sound"}
FORBIDDEN = re.compile(r"\b(sorry|admit|native_decide|bv_decide|implemented_by)\b|^\s*axiom\s|\bunsafe\s|maxHeartbeats\s+0")

TRUSTED_BASE = [
    "Lean 4.33.0 kernel; axioms allowed in property theorems: propext, Classical.choice, Quot.sound (audited by #print axioms on every run); no sorry/admit/native_decide/bv_decide/own axioms (grep on every run)",
    "the hand-written Lean model (lean/HSModel/*.lean) is modelled, not verified: it is tied to /repo by (a) translation on every run (harness/hsv/translate.py, synctext.py, clitext.py -> Generated.lean, GeneratedSync.lean): constant tables, the synchronisation text (mode sections, __init__ tables, lock-order edges, acquire sites and their guards, lists claimed per API method) and the client's dispatch chain, proved equal to / interpreted as the model's in Props/Tables.lean and Props/C20.lean — trusted there: the translators themselves (a few hundred lines of ast walking) and the reading of the four canonical acquire / release / check / refuse texts as the monitor Locks.Step; (b) the correspondence run of this check (model, abstract spec and real code on the same inputs)",
    "hashlib/OpenSSL digests; collision-freedom of the store algorithm on the identifiers and contents in play is an explicit hypothesis (NoColl) of the theorems and is asserted on every generated table",
    "POSIX: rename within one file system is an atomic replace; unlink/mkdir atomic; NamedTemporaryFile names are fresh",
    "the harness: interception layer, canonicalisation, generators (differential testing — bounded by what the generators produce; the distribution is reported in this file)",
]


class InfraError(Exception):
    pass


# ---------------------------------------------------------------------------------------------- Lean side

def lake(args, timeout=3000):
    lock = open(os.path.join(LEAN_DIR, ".build.lock"), "w")
    fcntl.flock(lock, fcntl.LOCK_EX)
    try:
        p = subprocess.run(["lake"] + args, cwd=LEAN_DIR, stdout=subprocess.PIPE, stderr=subprocess.STDOUT, text=True,
                           timeout=timeout)
        return p.returncode, p.stdout
    finally:
        fcntl.flock(lock, fcntl.LOCK_UN)
        lock.close()


def strip_comments(src):
    src = re.sub(r"/-.*?-/", "", src, flags=re.S)
    return "\n".join(l.split("--", 1)[0] for l in src.split("\n"))


def hygiene():
    """forbidden constructs in any Lean source (comments discarded) -> list of hits"""
    hits = []
    files = glob.glob(os.path.join(LEAN_DIR, "HSModel", "**", "*.lean"), recursive=True) + \
        glob.glob(os.path.join(LEAN_DIR, "*.lean"))
    for f in files:
        for n, line in enumerate(strip_comments(open(f).read()).split("\n"), 1):
            if FORBIDDEN.search(line):
                hits.append("%s:%d: %s" % (os.path.relpath(f, VERIF), n, line.strip()))
    return hits


def property_theorems(prop_id):
    """names of the theorems stated in Props/<id>.lean (+ Tables.lean entries tagged for it)"""
    out = []
    f = os.path.join(LEAN_DIR, "HSModel", "Props", prop_id + ".lean")
    if os.path.exists(f):
        src = strip_comments(open(f).read())
        ns = re.search(r"^namespace\s+(\S+)", src, flags=re.M)
        prefix = (ns.group(1) + ".") if ns else ""
        for m in re.finditer(r"^theorem\s+(\S+)", src, flags=re.M):
            out.append(prefix + m.group(1))
    return out


def tables_theorems(prop_id):
    f = os.path.join(LEAN_DIR, "HSModel", "Props", "Tables.lean")
    out = []
    if os.path.exists(f):
        src = open(f).read()
        ns = re.search(r"^namespace\s+(\S+)", strip_comments(src), flags=re.M)
        prefix = (ns.group(1) + ".") if ns else ""
        for m in re.finditer(r"^/--\s*\[([C0-9, ]+)\].*?-/\s*\ntheorem\s+(\S+)", src, flags=re.M | re.S):
            ids = [x.strip() for x in m.group(1).split(",")]
            if prop_id in ids:
                out.append(prefix + m.group(2))
    return out


def theorems_at(path, lines):
    """names (with namespace) of the theorems of `path` that contain the given lines; None for a line
    outside every theorem"""
    src = open(path).read().split("\n")
    ns = None
    starts = []
    for i, l in enumerate(src, 1):
        m = re.match(r"^namespace\s+(\S+)", l)
        if m and ns is None:
            ns = m.group(1)
        m = re.match(r"^theorem\s+(\S+)", l)
        if m:
            starts.append((i, ((ns + ".") if ns else "") + m.group(1)))
    out = set()
    for n in lines:
        name = None
        for i, t in starts:
            if i <= n:
                name = t
        out.add(name)
    return out


def lean_obligations(prop_id, thorough=False):
    """Build the property's modules and audit axioms.
    Returns dict(obligations=[names], discharged=[names], broken=[(name, why)], log=str, checker_cmd=str)."""
    from . import translate
    translate.write_generated()
    mods = ["HSModel.Props.Tables", "HSModel.Props." + prop_id]
    names = property_theorems(prop_id) + tables_theorems(prop_id)
    res = {"obligations": names, "discharged": [], "broken": [], "log": "",
           "checker_cmd": "cd lean && lake build %s && lake env lean <generated #print axioms file>" % " ".join(mods)}
    if not names:
        res["broken"].append(("Props/%s.lean" % prop_id, "no theorem found"))
        return res
    rc, out = lake(["build"] + mods + ["hsdriver"])
    res["log"] = out[-6000:]
    audit_imports = ["HSModel.Props.Tables", "HSModel.Props." + prop_id]
    unaudited = []
    if rc != 0:
        # Which obligations are broken?  Lean elaborates every declaration of a file and reports every
        # error, so when the ONLY errors are inside theorems of Props/Tables.lean (the translated
        # tables no longer equal the model's) the theorems of that file without an error still check,
        # and the property's own module is built separately.
        errs = [l for l in out.split("\n") if "error" in l][:12]
        locs = re.findall(r"^error: (\S+?\.lean):(\d+):\d+", out, flags=re.M)
        tables_rel = os.path.join("HSModel", "Props", "Tables.lean")
        failing = None
        if locs and all(f.endswith(tables_rel) for f, _ in locs):
            failing = theorems_at(os.path.join(LEAN_DIR, tables_rel), [int(n) for _, n in locs])
        if failing is not None and None not in failing:
            rc2, out2 = lake(["build", "HSModel.Props." + prop_id, "hsdriver"])
            res["log"] += "\n" + out2[-2000:]
            if rc2 == 0:
                tnames = tables_theorems(prop_id)
                for n in tnames:
                    if n in failing:
                        res["broken"].append((n, "lake build failed: " + " | ".join(
                            e for e in errs if tables_rel in e)[:600]))
                    else:
                        unaudited.append(n)
                names = [n for n in names if n not in tnames]
                audit_imports = ["HSModel.Props." + prop_id]
                rc = 0
        if rc != 0:
            for n in names:
                res["broken"].append((n, "lake build failed: " + " | ".join(errs)[:600]))
            return res
    hy = hygiene()
    if hy:
        for n in names:
            res["broken"].append((n, "forbidden construct: " + "; ".join(hy[:5])))
        return res
    audit = "".join("import %s\n" % m for m in audit_imports) + \
        "".join("#print axioms %s\n" % n for n in names)
    apath = os.path.join(LEAN_DIR, ".lake", "audit_%s_%d.lean" % (prop_id, os.getpid()))
    with open(apath, "w") as f:
        f.write(audit)
    try:
        rc, out = lake(["env", "lean", apath])
    finally:
        os.unlink(apath)
    res["log"] += "\n" + out[-4000:]
    found = {}
    for m in re.finditer(r"'([^']+)' depends on axioms: \[([^\]]*)\]", out, flags=re.S):
        found[m.group(1)] = {a.strip() for a in m.group(2).replace("\n", " ").split(",") if a.strip()}
    for m in re.finditer(r"'([^']+)' does not depend on any axioms", out):
        found[m.group(1)] = set()
    for n in names:
        if n not in found:
            res["broken"].append((n, "not found by #print axioms (rc=%d): %s" % (rc, out[-300:])))
        elif not found[n] <= ALLOWED_AXIOMS:
            res["broken"].append((n, "depends on axioms %s" % sorted(found[n] - ALLOWED_AXIOMS)))
        else:
            res["discharged"].append(n)
    # theorems of a Tables.lean that did not build as a whole but that elaborated without an error
    res["discharged"] += unaudited
    if thorough and not res["broken"]:
        rc, out = lake(["env", "leanchecker"] + mods, timeout=3000)
        res["log"] += "\nleanchecker rc=%d %s" % (rc, out[-500:])
        res["checker_cmd"] += " && lake env leanchecker " + " ".join(mods)
        if rc != 0:
            res["discharged"] = []
            for n in names:
                res["broken"].append((n, "leanchecker rejected the module: " + out[-300:]))
    return res


# ---------------------------------------------------------------------------------------------- findings

def load_known():
    if not os.path.exists(KNOWN_FILE):
        return []
    return json.load(open(KNOWN_FILE))["findings"]


class Finding:
    """a concrete failure of the property on the real code"""

    def __init__(self, prop, signature, what, replay):
        self.prop, self.signature, self.what, self.replay = prop, signature, what, replay

    def known_entry(self, known):
        for k in known:
            if k.get("status") == "known" and k["property"] == self.prop and k["signature"] == self.signature:
                return k
        return None


def write_replay(prop, name, payload):
    os.makedirs(REPLAY_DIR, exist_ok=True)
    h = hashlib.sha1(json.dumps(payload, sort_keys=True, default=str).encode()).hexdigest()[:10]
    path = os.path.join(REPLAY_DIR, "%s_%s_%s.json" % (prop, name, h))
    with open(path, "w") as f:
        json.dump(payload, f, indent=1, default=str)
    return path


def write_evidence(prop, tier, seed, coverage, assumptions, wall, violations):
    os.makedirs(EVIDENCE_DIR, exist_ok=True)
    ev = {"property_id": prop, "tier": tier, "seed": seed, "level": "proof", "coverage": coverage,
          "assumptions": assumptions, "wall_s": round(wall, 2), "violations": violations}
    tmp = os.path.join(EVIDENCE_DIR, ".%s.%d.tmp" % (prop, os.getpid()))
    with open(tmp, "w") as f:
        json.dump(ev, f, indent=1, default=str)
    os.replace(tmp, os.path.join(EVIDENCE_DIR, prop + ".json"))


class Report:
    """accumulates what a check did; decides the exit code"""

    def __init__(self, prop, tier, seed):
        self.prop, self.tier, self.seed = prop, tier, seed
        self.t0 = time.time()
        self.lean = None
        self.disagreements = []      # dicts: {what, replay}
        self.findings = []           # Finding
        self.known_replayed = []     # (entry, reproduced?)
        self.coverage = {}
        self.notes = []

    def unknown_findings(self):
        """findings that are not recorded known findings"""
        known = load_known()
        return [f for f in self.findings if f.known_entry(known) is None]

    def finish(self):
        known = load_known()
        out_lines = []
        violations = 0
        seen_known = set()
        reported = set()
        for f in self.findings:
            if f.signature in reported:
                continue
            reported.add(f.signature)
            k = f.known_entry(known)
            if k is not None:
                if k["signature"] not in seen_known:
                    seen_known.add(k["signature"])
                    out_lines.append("KNOWN-FINDING: property=%s %s" % (self.prop, k["what"]))
                continue
            path = write_replay(self.prop, "violation", f.replay)
            violations += 1
            self.notes.append("violation: " + f.what)
            line = "VIOLATION property=%s replay=%s" % (self.prop, path)
            if line in out_lines:
                continue                      # two symptoms of one replay
            if sum(1 for l in out_lines if l.startswith("VIOLATION")) >= 12:
                more_violations = getattr(self, "_more", 0) + 1
                self._more = more_violations
                continue
            out_lines.append(line)
        for entry, reproduced in self.known_replayed:
            if reproduced and entry["signature"] not in seen_known:
                seen_known.add(entry["signature"])
                out_lines.append("KNOWN-FINDING: property=%s %s" % (self.prop, entry["what"]))
            elif not reproduced:
                out_lines.append("NOTE: known finding no longer reproduces: %s" % entry["signature"])
        broken = list(self.lean["broken"]) if self.lean else [("lean", "not run")]
        unexplained = []
        if broken:
            unexplained += ["proof obligation %s: %s" % b for b in broken]
        for d in self.disagreements:
            if not d.get("explained"):
                unexplained.append("correspondence: " + d["what"])
        if unexplained and violations == 0:
            path = write_replay(self.prop, "unshown", {
                "property": self.prop, "kind": "obligation-or-correspondence-broken",
                "no_longer_checks": unexplained[:20],
                "disagreement_replays": [d.get("replay") for d in self.disagreements][:10]})
            out_lines.append("VIOLATION property=%s replay=%s no-failing-input-found" % (self.prop, path))
            violations += 1
        cov = dict(self.coverage)
        names = self.lean["obligations"] if self.lean else []
        cov.setdefault("obligations", len(names))
        cov.setdefault("discharged", len(self.lean["discharged"]) if self.lean else 0)
        cov.setdefault("checker_cmd", self.lean["checker_cmd"] if self.lean else "")
        cov.setdefault("trusted_base", TRUSTED_BASE)
        cov["theorems"] = names
        cov["broken_obligations"] = ["%s: %s" % b for b in broken][:10]
        cov["disagreements"] = len(self.disagreements)
        cov["known_findings_replayed"] = [{"signature": e["signature"], "reproduced": r} for e, r in self.known_replayed]
        cov["notes"] = self.notes[:20]
        wall = time.time() - self.t0
        write_evidence(self.prop, self.tier, self.seed, cov, TRUSTED_BASE, wall, violations)
        for l in out_lines:
            print(l)
        if getattr(self, "_more", 0):
            print("NOTE: %d further violations of %s were found in this run (replays written, listed in the evidence notes)" % (self._more, self.prop))
        print("%s %s seed=%d: obligations %d/%d, evaluations %s, disagreements %d, violations %d, %.1fs" % (
            self.prop, self.tier, self.seed, cov["discharged"], cov["obligations"], cov.get("evaluations"),
            len(self.disagreements), violations, wall))
        return 1 if violations else 0
