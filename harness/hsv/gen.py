"""Generators of calls and histories. Every random choice comes from one
random.Random seeded from VERIF_SEED."""
import random

from .enc import OTHER
from . import oracle
from .calls import *  # noqa

DEFAULTS = ["md5", "sha1", "sha256", "sha384", "sha512"]
OTHERS = ["sha224", "sha3_224", "sha3_256", "sha3_384", "sha3_512", "blake2b", "blake2s"]


def spellings(alg):
    """accepted spellings of a hashlib algorithm name"""
    out = {alg, alg.upper(), alg.capitalize()}
    if alg.startswith("sha3_"):
        out |= {alg.replace("_", "-"), alg.replace("_", "-").upper()}
    elif alg.startswith("sha"):
        n = alg[3:]
        out |= {"sha-" + n, "SHA-" + n, "sha_" + n, "SHA_" + n, "s-h-a" + n}
    elif alg == "md5":
        out |= {"MD-5", "md_5", "m-d-5"}
    elif alg.startswith("blake"):
        out |= {"BLAKE-" + alg[5:], "blake_" + alg[5:], "blaKe" + alg[5:]}
    return sorted(out)


BAD_ALGOS = ["sha999", "md4", "sha3-256x", "", " ", "sha 256", "SHA3_2_56", "ſha256", "blake2", "sha2567",
             "sha", "sha3", "sha3_", "md", "256", "3_2", "a1", "5, sha1"]      # fragments of supported names


class Universe:
    def __init__(self, rng, contents, store_alg="SHA-256", ns="https://ns.dataone.org/service/types/v2.0#SystemMetadata",
                 pids=None, content_bytes=None, formats=None):
        self.rng = rng
        self.contents = contents
        self.alg = oracle.DATAONE[store_alg]
        self.ns = ns
        self.pids = pids or ["p", "pq", "P", "q", "p/../x"]
        cb = content_bytes if content_bytes is not None else [b"", b"a", b"hello world", b"x" * 8192, b"y" * 20000]
        self.toks = [contents.add(b) for b in cb]
        # zero-padded contents: a tail of whole read buffers of NUL bytes, a single NUL, nothing but NULs
        self.zero_tail = [contents.add(b) for b in (b"\0", b"data then padding" * 100 + b"\0" * 16384, b"\0" * 8192)]
        self.formats = formats if formats is not None else [None, ns, "f1", "f2", "", "a b", " f1", "f2\n"]
        never = contents.add(b"never stored content")
        self.never_cid = contents.digest(never, self.alg)
        self.junk_cid = "a" * len(self.never_cid)

    # ------------------------------------------------------------------ pieces
    def pid(self):
        return self.rng.choice(self.pids)

    def tok(self):
        return self.rng.choice(self.toks)

    def cid_of(self, tok):
        return self.contents.digest(tok, self.alg)

    def some_cid(self):
        r = self.rng.random()
        if r < 0.6:
            return self.cid_of(self.tok())
        if r < 0.72:
            # another spelling of an address that may exist: addresses are opaque, case included
            c = self.cid_of(self.tok())
            return c.upper() if r < 0.68 else c[:-1] + c[-1].upper() + ""
        if r < 0.86:
            return self.never_cid
        return self.junk_cid

    def add_shard_mate(self, of_tok, nhex=3):
        """a different content whose address shares its first `nhex` hex characters with that of `of_tok`: the two
        objects (and nothing else) live under the same first-level shard directories for every width up to nhex"""
        import hashlib
        want = self.contents.digest(of_tok, self.alg)[:nhex]
        k = 0
        while True:
            b = b"shard mate %d of %d" % (k, of_tok)
            if hashlib.new(self.alg, b).hexdigest()[:nhex] == want:
                t = self.contents.add(b)
                self.toks = self.toks + [t]
                return t
            k += 1

    def add_pid_mate(self, of_pid, nhex=3):
        """another pid whose hash shares its first `nhex` hex characters with that of `of_pid`: their metadata
        directories and pid references sit under the same first-level shard directories"""
        import hashlib
        want = hashlib.new(self.alg, of_pid.encode("utf-8")).hexdigest()[:nhex]
        k = 0
        while True:
            q = "mate%d" % k
            if q != of_pid and hashlib.new(self.alg, q.encode("utf-8")).hexdigest()[:nhex] == want:
                self.pids = self.pids + [q]
                return q
            k += 1

    def data_ok(self, tok=None):
        tok = self.tok() if tok is None else tok
        kind = self.rng.choice(getattr(self, "kinds", ("str", "str", "Path", "file", "bytesio", "buffered")))
        n = len(self.contents.by_tok[tok])
        off = self.rng.choice([0, 0, 1, n // 2, n])
        return ("ok", tok, kind, off if kind in ("file", "bytesio", "buffered", "gzip", "stalename") else 0)

    def data_any(self):
        r = self.rng.random()
        if r < 0.9:
            return self.data_ok()
        return self.rng.choice([("bad", None), ("bad", 5), ("bad", b"bytes"), ("bad", ("stream", "text")), ("bad", ("stream", "raw")),
                                ("bad", ("stream", "stringio")), ("blank", ""), ("blank", "  "),
                                ("nofile", "str"), ("nofile", "Path")])

    def alg_spelling(self, pool=None):
        a = self.rng.choice(pool or (DEFAULTS + OTHERS))
        return a, self.rng.choice(spellings(a))

    def fmt(self):
        return self.rng.choice(self.formats)

    def validation(self, tok, p_wrong=0.3):
        """(checksum, checksum_algorithm, size) for content tok: right, wrong, upper-case, absent"""
        rng = self.rng
        checksum = csalg = size = None
        if rng.random() < 0.6:
            a, sp = self.alg_spelling()
            if rng.random() < 0.2:
                a = sp = self.alg          # the store's own algorithm, spelled as the store spells it
            d = self.contents.digest(tok, a)
            r = rng.random()
            if r < p_wrong:
                d = self.wrong_digest(d)
            elif r < p_wrong + 0.25:
                d = d.upper()
            checksum, csalg = d, sp
        if rng.random() < 0.5:
            n = len(self.contents.by_tok[tok])
            size = n if rng.random() > p_wrong else n + rng.choice([1, -1, 7])
        return checksum, csalg, size

    def wrong_digest(self, d):
        """a checksum that does not match d: same alphabet, or a caller's typo outside ASCII"""
        r = self.rng.random()
        if r < 0.7:
            return ("0" if d[0] != "0" else "1") + d[1:]
        if r < 0.85:
            return "\uff10" + d[1:]          # FULLWIDTH DIGIT ZERO
        return d[:-1] + "\u00e9"

    def om_of(self, tok, extra=()):
        digests = {a: self.contents.digest(tok, a) for a in DEFAULTS + list(extra)}
        return ("om", self.cid_of(tok), len(self.contents.by_tok[tok]), digests)

    # ------------------------------------------------------------------ calls
    def rand_call(self, weights=None):
        rng = self.rng
        w = weights or {
            "store": 5, "store_data": 1.5, "tag": 2, "div": 2, "delete": 3, "retrieve": 1.5,
            "hex": 1, "smeta": 2, "rmeta": 1, "dmeta": 1.5, "bad": 1,
        }
        kinds = list(w)
        k = rng.choices(kinds, [w[x] for x in kinds])[0]
        if k == "store":
            tok = self.tok()
            cs, ca, size = self.validation(tok) if rng.random() < 0.6 else (None, None, None)
            add = None
            if rng.random() < 0.4:
                add = self.alg_spelling()[1]
                if ca is not None and rng.random() < 0.35:
                    add = ca               # the caller names the same algorithm twice
            return store_object(self.pid(), self.data_ok(tok), add, cs, ca, size)
        if k == "store_data":
            return store_object(None, self.data_ok())
        if k == "tag":
            return tag_object(self.pid(), self.some_cid())
        if k == "div":
            tok = self.tok()
            extra = [self.rng.choice(OTHERS)] if rng.random() < 0.3 else []
            a, sp = self.alg_spelling()
            d = self.contents.digest(tok, a)
            r = rng.random()
            if r < 0.3:
                d = self.wrong_digest(d)
            elif r < 0.55:
                d = d.upper()
            n = len(self.contents.by_tok[tok])
            size = rng.choice([n, n, n, n + 1, None]) if n > 0 else rng.choice([None, 1])
            om = self.om_of(tok, extra)
            if rng.random() < 0.12:
                om = (om[0], om[1].upper(), om[2], om[3])
            return delete_if_invalid_object(om, d, sp, size)
        if k == "delete":
            return delete_object(self.pid())
        if k == "retrieve":
            return retrieve_object(self.pid())
        if k == "hex":
            return get_hex_digest(self.pid(), self.alg_spelling(getattr(self, "hex_pool", None))[1])
        if k == "smeta":
            return store_metadata(self.pid(), self.data_ok(), self.fmt())
        if k == "rmeta":
            return retrieve_metadata(self.pid(), self.fmt())
        if k == "dmeta":
            return delete_metadata(self.pid(), self.fmt())
        return self.bad_call()

    def bad_sarg(self):
        return self.rng.choice([None, "", " ", "a b", "x\ty", "\n", "a b", OTHER,
                                "p\r", "\x0cq", "a\x0bb", "a\x85b", "x\xa0", "\u2028p", "p\x1c", "q\u3000"])   # every kind of white space

    def bad_call(self):
        """one (sometimes two) invalid parameters"""
        rng = self.rng
        k = rng.choice(["store_pid", "store_data", "store_size", "store_algo", "store_unpaired", "tag", "div", "smeta",
                        "rmeta", "dmeta", "hex", "retrieve", "delete"])
        tok = self.tok()
        if k == "store_pid":
            return store_object(rng.choice(["", " ", "a b", "x\ty", OTHER, "p\r", "pq\r\n", "\x0cq", "a\x85b", "\u2028p"]), self.data_any())
        if k == "store_data":
            return store_object(rng.choice([self.pid(), None]), rng.choice(
                [("bad", None), ("bad", 5), ("bad", b"bytes"), ("bad", ("stream", "text")), ("bad", ("stream", "raw")),
                 ("bad", ("stream", "stringio")), ("blank", ""), ("blank", " \n"), ("nofile", "str"), ("nofile", "Path")]))
        if k == "store_size":
            return store_object(self.pid(), self.data_ok(tok), None, None, None, rng.choice([0, -1, OTHER, True, False]))
        if k == "store_algo":
            bad = rng.choice(BAD_ALGOS + [OTHER])
            if rng.random() < 0.5:
                return store_object(self.pid(), self.data_ok(tok), bad)
            return store_object(self.pid(), self.data_ok(tok), None, "abc", bad)
        if k == "store_unpaired":
            if rng.random() < 0.5:
                return store_object(self.pid(), self.data_ok(tok), None, rng.choice(["abc", "", " "]), None)
            return store_object(self.pid(), self.data_ok(tok), None, rng.choice([None, "", "a b"]), "sha256")
        if k == "tag":
            if rng.random() < 0.5:
                return tag_object(self.bad_sarg(), self.some_cid())
            return tag_object(self.pid(), self.bad_sarg())
        if k == "div":
            which = rng.choice(["om", "cs", "ca", "ca", "size", "several"])
            if which == "several":
                om = rng.choice([None, ("bad",), self.om_of(tok)])
                cs = rng.choice([self.bad_sarg(), "abc"])
                ca = rng.choice([self.bad_sarg(), "sha256", rng.choice(BAD_ALGOS)])
                size = rng.choice([None, 3, 0, -2, OTHER])
                return delete_if_invalid_object(om, cs, ca, size)
            # exactly one invalid parameter; the others as a caller with a real (possibly
            # invalid) object would pass them, so that a late argument check has something to destroy
            n = len(self.contents.by_tok[tok])
            a, sp = self.alg_spelling()
            cs = self.contents.digest(tok, a)
            if rng.random() < 0.4:
                cs = ("0" if cs[0] != "0" else "1") + cs[1:]
            size = rng.choice([n, n + 1, n + 7, None])
            om = self.om_of(tok)
            if which == "om":
                om = rng.choice([None, ("bad",)])
            elif which == "cs":
                cs = self.bad_sarg()
            elif which == "ca":
                sp = rng.choice([self.bad_sarg()] + BAD_ALGOS)
            else:
                size = rng.choice([0, -2, OTHER])
            return delete_if_invalid_object(om, cs, sp, size)
        if k == "smeta":
            r = rng.random()
            if r < 0.4:
                return store_metadata(self.bad_sarg(), self.data_ok(), self.fmt())
            if r < 0.7:
                return store_metadata(self.pid(), rng.choice([("bad", None), ("bad", 7), ("bad", ("stream", "text")), ("bad", ("stream", "stringio")), ("blank", ""),
                                                              ("nofile", "str")]), self.fmt())
            return store_metadata(self.pid(), self.data_ok(), rng.choice([" ", "\t\n", OTHER]))
        if k == "rmeta":
            return retrieve_metadata(self.bad_sarg(), rng.choice([None, "f1", " "]))
        if k == "dmeta":
            return delete_metadata(self.bad_sarg(), rng.choice([None, "f1", " "]))
        if k == "hex":
            if rng.random() < 0.5:
                return get_hex_digest(self.bad_sarg(), "sha256")
            return get_hex_digest(self.pid(), rng.choice(BAD_ALGOS + [None, OTHER]))
        if k == "retrieve":
            return retrieve_object(self.bad_sarg())
        return delete_object(self.bad_sarg())

    def lifecycle_patterns(self):
        """short scripted histories that every sequential check runs before its random ones: the life cycles in
        which state kept *outside* the store directory (memos, caches, counters on the instance) goes stale"""
        rng = self.rng
        p, q = rng.sample(self.pids[:3] if len(self.pids) >= 3 else self.pids + ["zz"], 2)
        if getattr(self, "pattern_pids", None):
            p, q = self.pattern_pids
        if len(self.toks) >= 2:
            A, B = rng.sample(self.toks, 2)
        else:
            A = B = self.toks[0]
        a1 = self.alg_spelling(getattr(self, "hex_pool", None))[1]
        f = rng.choice([x for x in self.formats if isinstance(x, str) and x.strip()] or ["f1"])
        cidA = self.cid_of(A)
        out = []
        # two (pid, format) pairs whose concatenations coincide: each keeps its own document (both orders)
        for (a_, b_) in getattr(self, "twins", []):
            for (x, y) in ((a_, b_), (b_, a_)):
                out.append([store_metadata(x[0], self.data_ok(A), x[1]), store_metadata(y[0], self.data_ok(B), y[1]),
                            retrieve_metadata(x[0], x[1]), retrieve_metadata(y[0], y[1]), delete_metadata(y[0], y[1]),
                            retrieve_metadata(y[0], y[1]), retrieve_metadata(x[0], x[1]),
                            store_metadata(y[0], self.data_ok(A), y[1]), delete_metadata(x[0], None),
                            retrieve_metadata(y[0], y[1]), retrieve_metadata(x[0], x[1])])
        # a pid deleted and stored again with other content while another pid keeps the old object alive:
        # once for every ordered pair of the first pids (one may be a prefix / suffix / variant of the other)
        pool = list(self.pattern_pids) if getattr(self, "pattern_pids", None) else list(self.pids[:3])
        pairs = [(x, y) for x in pool for y in pool if x != y] or [(p, q)]
        for (x, y) in pairs:
            out.append([store_object(x, self.data_ok(A)), store_object(y, self.data_ok(A)), get_hex_digest(x, a1),
                        retrieve_object(x), delete_object(x), store_object(x, self.data_ok(B)), get_hex_digest(x, a1),
                        retrieve_object(x), get_hex_digest(y, a1), retrieve_object(y)])
        # ... and the same with the same content again: the list a pid was removed from takes new entries
        for (x, y) in pairs[:2]:
            out.append([store_object(x, self.data_ok(A)), store_object(y, self.data_ok(A)), delete_object(x),
                        store_object(x, self.data_ok(A)), retrieve_object(y), retrieve_object(x), delete_object(y),
                        retrieve_object(x), get_hex_digest(x, a1)])
        # last reference deleted, same content stored again
        out.append([store_object(p, self.data_ok(A)), get_hex_digest(p, a1), delete_object(p), store_object(q, self.data_ok(A)),
                    retrieve_object(q), get_hex_digest(q, a1), store_object(p, self.data_ok(A)), retrieve_object(p)])
        # document overwritten, deleted, stored again, then the object deleted
        out.append([store_object(p, self.data_ok(A)), store_metadata(p, self.data_ok(A), f), retrieve_metadata(p, f),
                    store_metadata(p, self.data_ok(B), f), retrieve_metadata(p, f), delete_metadata(p, f),
                    retrieve_metadata(p, f), store_metadata(p, self.data_ok(A), f), retrieve_metadata(p, f),
                    store_metadata(q, self.data_ok(B), f), delete_object(p), retrieve_metadata(p, f), retrieve_metadata(q, f)])
        # references that exist before the bytes do: two pids tagged, one deleted, the content arrives under a third
        z = next((x for x in self.pids if x not in (p, q) and isinstance(x, str) and x.strip() == x and x and " " not in x), "zz")
        out.append([tag_object(p, cidA), tag_object(q, cidA), retrieve_object(q), delete_object(p), store_object(z, self.data_ok(A)),
                    retrieve_object(q), retrieve_object(z), delete_object(z), retrieve_object(q), get_hex_digest(q, a1)])
        # a pid's documents deleted as a whole and stored again; then another pid's documents deleted as a whole
        out.append([store_metadata(p, self.data_ok(A), f), store_metadata(p, self.data_ok(B), None), delete_metadata(p, None),
                    store_metadata(p, self.data_ok(B), f), store_metadata(p, self.data_ok(A), None), store_metadata(q, self.data_ok(A), f),
                    delete_metadata(q, None), retrieve_metadata(p, f), retrieve_metadata(p, None), store_object(q, self.data_ok(A)),
                    store_metadata(q, self.data_ok(B), f), delete_object(q), retrieve_metadata(p, f), retrieve_metadata(p, None)])
        # stepwise path: data only, tag, delete, and again
        out.append([store_object(None, self.data_ok(A)), tag_object(p, cidA), retrieve_object(p), get_hex_digest(p, a1),
                    delete_object(p), retrieve_object(p), store_object(None, self.data_ok(A)), tag_object(q, cidA),
                    tag_object(p, cidA), retrieve_object(p), delete_object(q), retrieve_object(p)])
        return out

    def history(self, n, weights=None):
        return [self.rand_call(weights) for _ in range(n)]
