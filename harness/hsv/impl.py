"""Adapter around a real FileHashStore living in a scratch directory."""
import io
import logging
import os
import shutil
import tempfile
from pathlib import Path

from .enc import OTHER, enc_str, py_sarg, py_iarg
from . import oracle

logging.disable(logging.CRITICAL)

BASE_DIRS = {"objects", "objects/tmp", "metadata", "metadata/tmp", "refs", "refs/tmp", "refs/pids", "refs/cids"}
IGNORED_FILES = {"hashstore.yaml", "python_client.log"}


def scratch_base():
    base = "/dev/shm" if os.path.isdir("/dev/shm") and os.access("/dev/shm", os.W_OK) else None
    return tempfile.mkdtemp(prefix="hsv-", dir=base)


def exc_name(e: BaseException) -> str:
    if isinstance(e, FileNotFoundError):
        return "FileNotFoundError"
    if isinstance(e, FileExistsError):
        return "FileExistsError"
    if isinstance(e, OSError):
        return "OSError"
    return type(e).__name__


import threading as _threading
_STAGED = _threading.local()
_STAGE_LOCK = _threading.Lock()

class Real:
    def __init__(self, contents, depth=3, width=2, store_alg="SHA-256",
                 ns="https://ns.dataone.org/service/types/v2.0#SystemMetadata", base=None, root=None, props=None,
                 mp=False, relative=False):
        from hashstore.filehashstore import FileHashStore
        self.own_base = base is None
        self.base = base or scratch_base()
        self.root = root or os.path.join(self.base, "store")
        self.inputs = os.path.join(self.base, "inputs")
        os.makedirs(self.inputs, exist_ok=True)
        self.contents = contents
        self.ns = ns
        self.props = props or {
            "store_path": self.root, "store_depth": depth, "store_width": width,
            "store_algorithm": store_alg, "store_metadata_namespace": ns,
        }
        self._old_cwd = None
        if relative and props is None and root is None:
            # the store path as many callers give it: relative to the working directory (one such store at a time)
            self._old_cwd = os.getcwd()
            os.chdir(self.base)
            self.props["store_path"] = "store"
        if mp:
            old = os.environ.get("USE_MULTIPROCESSING")
            os.environ["USE_MULTIPROCESSING"] = "True"
            try:
                self.store = FileHashStore(properties=self.props)
            finally:
                if old is None:
                    os.environ.pop("USE_MULTIPROCESSING", None)
                else:
                    os.environ["USE_MULTIPROCESSING"] = old
        else:
            self.store = FileHashStore(properties=self.props)
        self.mp = mp
        self.last_stream = None   # (stream, offset) of the last caller-supplied stream
        self.open_streams = []

    # ------------------------------------------------------------------ arguments
    def input_path(self, tok):
        p = os.path.join(self.inputs, "c%d" % tok)
        if not os.path.exists(p):
            with open(p, "wb") as f:
                f.write(self.contents.by_tok[tok])
        return p

    def stage(self, tok):
        """a staging file of the caller holding the content: handed to one call, reused (rewritten in place) afterwards"""
        import threading
        with _STAGE_LOCK:
            self._nstage = getattr(self, "_nstage", 0) + 1
            n = self._nstage
        p = os.path.join(self.inputs, "stage%d-c%d" % (n, tok))
        with open(p, "wb") as f:
            f.write(self.contents.by_tok[tok])
        # per calling thread: a call reuses only the staging files it was given itself
        tl = _STAGED.__dict__.setdefault("by_real", {})
        tl.setdefault(id(self), []).append(p)
        return p

    def reuse_staging(self):
        """what callers do with a staging file once the call has returned: write something else into it"""
        mine = _STAGED.__dict__.get("by_real", {}).pop(id(self), [])
        for p in mine:
            try:
                with open(p, "r+b") as f:
                    f.write(b"\x00the caller has reused this staging file\n")
                    f.truncate()
            except OSError:
                pass

    def py_data(self, d):
        self.last_stream = None
        if d[0] == "bad":
            if isinstance(d[1], (tuple, list)) and d[1] and d[1][0] == "stream":
                # streams that are not buffered binary ones: text mode, unbuffered (raw), in-memory text
                p = os.path.join(self.inputs, "not-binary-buffered")
                with open(p, "wb") as f:
                    f.write(b"content handed over through the wrong kind of stream\n")
                s_ = {"text": lambda: open(p, "r"), "raw": lambda: open(p, "rb", buffering=0),
                      "stringio": lambda: io.StringIO("in-memory text")}[d[1][1]]()
                self.open_streams.append(s_)
                return s_
            return d[1]
        if d[0] == "blank":
            return d[1]
        if d[0] == "nofile":
            p = os.path.join(self.inputs, "does-not-exist")
            return p if d[1] == "str" else Path(p)
        _, tok, kind, off = d
        if kind == "str":
            return self.stage(tok)
        if kind == "Path":
            return Path(self.stage(tok))
        data = self.contents.by_tok[tok]
        off = min(off, len(data))
        if kind == "file":
            s = open(self.input_path(tok), "rb")
        elif kind == "bytesio":
            s = io.BytesIO(data)
        elif kind == "buffered":
            s = io.BufferedReader(io.BytesIO(data))
        elif kind == "rwfile":
            # the caller has just produced the data through a read/write stream and hands that stream over
            # as it stands: position at the end, the tail possibly still in the stream's own buffer
            with _STAGE_LOCK:
                self._nrw = getattr(self, "_nrw", 0) + 1
                p = os.path.join(self.inputs, "rw%d-c%d" % (self._nrw, tok))
            s = open(p, "w+b")
            s.write(data)
            self.last_stream = (s, len(data))
            self.open_streams.append(s)
            return s
        elif kind == "gzip":
            # a buffered binary stream whose name is a (shorter or longer) file that does not hold the content
            import gzip
            p = os.path.join(self.inputs, "c%d.gz" % tok)
            if not os.path.exists(p):
                with gzip.open(p, "wb") as g:
                    g.write(data)
            s = gzip.GzipFile(p, "rb")
        elif kind == "stalename":
            # an open stream whose name has meanwhile been given to another, shorter file
            with _STAGE_LOCK:
                self._nrw = getattr(self, "_nrw", 0) + 1
                p = os.path.join(self.inputs, "stale%d-c%d" % (self._nrw, tok))
            with open(p, "wb") as f:
                f.write(data)
            s = open(p, "rb")
            os.rename(p, p + ".moved")
            with open(p, "wb") as f:
                f.write(b"x")
        else:
            raise ValueError(kind)
        s.seek(off)
        self.last_stream = (s, off)
        self.open_streams.append(s)
        return s

    def py_om(self, om):
        from hashstore.filehashstore import ObjectMetadata
        if om is None:
            return None
        if om[0] == "bad":
            return {"cid": "x"}
        _, cid, size, digests = om
        return ObjectMetadata("HashStoreNoPid", cid, size, dict(digests))

    # ------------------------------------------------------------------ execution
    def _decoys(self):
        """In the relative-path mode the working directory is the caller's: it may hold files of its own whose
        names happen to be the address of a stored object. For the duration of one call, every object that is
        in the store has such a namesake in the working directory (other bytes). Only objects that exist: what
        the resolver does for an address that holds nothing is not at issue here."""
        made = []
        if self._old_cwd is None:
            return made
        objs = os.path.join(self.root, "objects")
        for dp, _dn, fn in os.walk(objs):
            rel = os.path.relpath(dp, objs)
            if rel.split(os.sep)[0] == "tmp":
                continue
            for f in fn:
                name = ("" if rel == "." else rel.replace(os.sep, "")) + f
                if name.endswith("_delete") or os.path.exists(name):
                    continue
                try:
                    with open(name, "wb") as fh:
                        fh.write(b"a file of the caller's that happens to be named like an address\n")
                    made.append(name)
                except OSError:
                    pass
        return made

    def run(self, call):
        """Execute; return the canonical result line (same format as the driver's)."""
        decoys = self._decoys() if call.name in ("retrieve_object", "get_hex_digest", "delete_object",
                                                 "delete_if_invalid_object") else []
        try:
            v = self._invoke(call)
        except Exception as e:  # noqa
            return "err " + exc_name(e)
        finally:
            self.reuse_staging()
            for n_ in decoys:
                try:
                    os.remove(n_)
                except OSError:
                    pass
        return "ok " + v

    def _invoke(self, call):
        a = call.args
        s = self.store
        n = call.name
        if n == "store_object":
            om = s.store_object(py_sarg(a["pid"]), self.py_data(a["data"]), py_sarg(a["additional_algorithm"]),
                                py_sarg(a["checksum"]), py_sarg(a["checksum_algorithm"]), py_iarg(a["expected_object_size"]))
            return self.show_om(om)
        if n == "tag_object":
            r = s.tag_object(py_sarg(a["pid"]), py_sarg(a["cid"]))
            return "unit" if r is None else repr(r)
        if n == "delete_if_invalid_object":
            r = s.delete_if_invalid_object(self.py_om(a["object_metadata"]), py_sarg(a["checksum"]),
                                           py_sarg(a["checksum_algorithm"]), py_iarg(a["expected_file_size"]))
            return "unit" if r is None else repr(r)
        if n == "store_metadata":
            r = s.store_metadata(py_sarg(a["pid"]), self.py_data(a["data"]), py_sarg(a["format_id"]))
            rel = os.path.relpath(r, self.root)
            return "path " + rel
        if n == "retrieve_object":
            st = s.retrieve_object(py_sarg(a["pid"]))
            try:
                data = st.read()
            finally:
                st.close()
            return "content " + self.contents.tok_of(data)
        if n == "retrieve_metadata":
            st = s.retrieve_metadata(py_sarg(a["pid"]), py_sarg(a["format_id"]))
            try:
                data = st.read()
            finally:
                st.close()
            return "content " + self.contents.tok_of(data)
        if n == "delete_object":
            r = s.delete_object(py_sarg(a["pid"]))
            return "unit" if r is None else repr(r)
        if n == "delete_metadata":
            r = s.delete_metadata(py_sarg(a["pid"]), py_sarg(a["format_id"]))
            return "unit" if r is None else repr(r)
        if n == "get_hex_digest":
            r = s.get_hex_digest(py_sarg(a["pid"]), py_sarg(a["algorithm"]))
            return "hex " + r
        raise ValueError(n)

    @staticmethod
    def show_om(om):
        ds = ",".join("%s=%s" % (k, v) for k, v in sorted(om.hex_digests.items()))
        return "meta cid=%s size=%d digests=%s" % (om.cid, om.obj_size, ds)

    def stream_status(self):
        """closed / position of the last caller-supplied stream, or None"""
        if self.last_stream is None:
            return None
        s, off = self.last_stream
        if s.closed:
            return ("closed", None, off)
        return ("open", s.tell(), off)

    # ------------------------------------------------------------------ state
    def state(self, root=None):
        return snapshot_lines(root or self.root, self.contents)

    def locks(self):
        s = self.store
        def f(name):
            for suf in ("_th", "_mp"):
                if hasattr(s, name + suf):
                    return ",".join(enc_str(x) if x != "" else "-" for x in list(getattr(s, name + suf)))
            return "?"
        return "locks objPid=[%s] refPid=[%s] cid=[%s] doc=[%s]" % (
            f("object_locked_pids"), f("reference_locked_pids"), f("object_locked_cids"), f("metadata_locked_docs"))

    def close(self):
        for s in self.open_streams:
            try:
                s.close()
            except Exception:
                pass
        if self._old_cwd is not None:
            try:
                os.chdir(self._old_cwd)
            except OSError:
                pass
            self._old_cwd = None
        if self.own_base:
            shutil.rmtree(self.base, ignore_errors=True)


def snapshot_lines(root, contents):
    """Canonical state lines of a store directory (same format as the driver's `state`)."""
    lines = []
    tmp_counts = {"objects/tmp": 0, "metadata/tmp": 0, "refs/tmp": 0}
    for dirpath, dirnames, filenames in os.walk(root):
        rel = os.path.relpath(dirpath, root)
        rel = "" if rel == "." else rel.replace(os.sep, "/")
        if rel and rel not in BASE_DIRS:
            lines.append("D " + rel)
        for fn in filenames:
            frel = (rel + "/" + fn) if rel else fn
            if frel in IGNORED_FILES:
                continue
            full = os.path.join(dirpath, fn)
            if rel in tmp_counts:
                tmp_counts[rel] += 1
                continue
            with open(full, "rb") as f:
                data = f.read()
            if frel.startswith("refs/"):
                try:
                    txt = data.decode("utf-8")
                    lines.append("F %s text:%s" % (frel, enc_str(txt)))
                except UnicodeDecodeError:
                    lines.append("F %s bytes:%s" % (frel, data.hex()))
            else:
                lines.append("F %s %s" % (frel, contents.tok_of(data)))
    for k, v in tmp_counts.items():
        lines.append("T %s %d" % (k, v))
    lines.sort()
    return lines
