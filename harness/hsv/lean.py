"""The Lean model behind its line protocol."""
import os
import subprocess

from .enc import enc_str
from . import oracle

VERIF = os.path.dirname(os.path.dirname(os.path.dirname(os.path.abspath(__file__))))
DRIVER = os.path.join(VERIF, "lean", ".lake", "build", "bin", "hsdriver")


class ModelError(Exception):
    pass


class Model:
    def __init__(self, contents, depth=3, width=2, store_alg="SHA-256", ns="https://ns.dataone.org/service/types/v2.0#SystemMetadata"):
        if not os.path.exists(DRIVER):
            raise ModelError("driver not built: " + DRIVER)
        self.p = subprocess.Popen([DRIVER], stdin=subprocess.PIPE, stdout=subprocess.PIPE, text=True, bufsize=1)
        self.contents = contents
        self.alg = oracle.DATAONE[store_alg]
        self.ns = ns
        self.sent_h = set()
        self.sent_c = set()
        self.lines = []  # everything sent (for replay files)
        r = self.req("cfg %d %d %s %s" % (depth, width, enc_str(self.alg), enc_str(ns)))
        assert r == "ok", r

    def send(self, line):
        self.lines.append(line)
        self.p.stdin.write(line + "\n")

    def read(self):
        self.p.stdin.flush()
        out = self.p.stdout.readline()
        if out == "":
            raise ModelError("driver died")
        out = out.rstrip("\n")
        if out == "bad-op" or "!missing!" in out or "33.109.105.115.115" in out:
            raise ModelError("driver: %r after %r" % (out, self.lines[-1]))
        return out

    def req(self, line):
        self.send(line)
        return self.read()

    def req_block(self, line):
        self.send(line)
        res = []
        while True:
            l = self.read()
            if l == ".":
                return res
            res.append(l)

    def need_str(self, s):
        if s not in self.sent_h:
            self.sent_h.add(s)
            self.send("H %s %s" % (enc_str(s), enc_str(oracle.h_id(self.alg, s))))

    def need_tok(self, tok):
        if tok not in self.sent_c:
            self.sent_c.add(tok)
            for a in oracle.HASHLIB_ALGOS:
                self.send("D %s %d %s" % (enc_str(a), tok, enc_str(self.contents.digest(tok, a))))
            self.send("S %d %d" % (tok, len(self.contents.by_tok[tok])))

    def call(self, wire):
        return self.req("call " + wire)

    def crash(self, n, wire):
        return self.req("crash %d %s" % (n, wire))

    def state(self):
        return self.req_block("state")

    def log(self):
        return self.req_block("log")

    def locks(self):
        return self.req("locks")

    def reset(self):
        assert self.req("reset") == "ok"

    def fault(self, kind, nth, persistent, target):
        assert self.req("fault %s %d %s %s" % (kind, nth, "P" if persistent else "1", target)) == "ok"

    def close(self):
        try:
            self.p.stdin.close()
            self.p.wait(timeout=5)
        except Exception:
            self.p.kill()
