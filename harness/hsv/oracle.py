"""Digest tables computed with hashlib directly (never through hashstore)."""
import hashlib

HASHLIB_ALGOS = [
    "md5", "sha1", "sha256", "sha384", "sha512",
    "sha224", "sha3_224", "sha3_256", "sha3_384", "sha3_512", "blake2b", "blake2s",
]
DATAONE = {"MD5": "md5", "SHA-1": "sha1", "SHA-256": "sha256", "SHA-384": "sha384", "SHA-512": "sha512"}


def spec_bytes(spec) -> bytes:
    if "hex" in spec:
        return bytes.fromhex(spec["hex"])
    pat = bytes.fromhex(spec["pattern"])
    n = spec["len"]
    return (pat * (n // len(pat) + 1))[:n] if pat else b""


def bytes_spec(data: bytes):
    if len(data) <= 64:
        return {"hex": data.hex()}
    for plen in (1, 2, 3, 4, 7, 8, 16):
        pat = data[:plen]
        if (pat * (len(data) // plen + 1))[: len(data)] == data:
            return {"pattern": pat.hex(), "len": len(data)}
    return {"hex": data.hex()}


class Contents:
    """token <-> bytes registry"""

    def __init__(self):
        self.by_tok = {}
        self.by_bytes = {}

    def add(self, data: bytes) -> int:
        if data in self.by_bytes:
            return self.by_bytes[data]
        tok = len(self.by_tok) + 1
        self.by_tok[tok] = data
        self.by_bytes[data] = tok
        return tok

    def to_json(self):
        return {str(t): bytes_spec(b) for t, b in self.by_tok.items()}

    @staticmethod
    def from_json(js):
        c = Contents()
        for t in sorted(js, key=int):
            b = spec_bytes(js[t])
            assert int(t) == len(c.by_tok) + 1, "tokens must be dense"
            c.by_tok[int(t)] = b
            c.by_bytes.setdefault(b, int(t))
        return c

    def tok_of(self, data: bytes) -> str:
        t = self.by_bytes.get(data)
        if t is None:
            return "tok:?" + hashlib.sha1(data).hexdigest()[:12] + ":%d" % len(data)
        return "tok:%d" % t

    def digest(self, tok: int, alg: str) -> str:
        return hashlib.new(alg, self.by_tok[tok]).hexdigest()


def h_id(alg: str, s: str) -> str:
    return hashlib.new(alg, s.encode("utf-8")).hexdigest()
