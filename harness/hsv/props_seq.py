"""Sequential properties: generator slice, owned channels (what the property judges, spec vs real)
and projection (what ties the model to the code, model vs real)."""
import os
import random

from . import gen, oracle, seq
from .calls import *  # noqa
from .enc import OTHER

ALREADY = {"err HashStoreRefsAlreadyExists", "err PidRefsAlreadyExistsError"}
ARG_ERRORS = {"err ValueError", "err TypeError", "err UnsupportedAlgorithm", "err AttributeError", "err KeyError",
              "err PidRefsDoesNotExist"}
READ_ONLY = {"retrieve_object", "retrieve_metadata", "get_hex_digest"}


def has_validation(call):
    a = call.args
    if call.name == "store_object":
        return a["checksum"] is not None or a["checksum_algorithm"] is not None or a["expected_object_size"] is not None
    return call.name == "delete_if_invalid_object"


class SeqProp:
    id = None
    stream_kinds = ("str", "Path")          # data kinds the generator uses
    quick = (60, 30)                         # histories, length
    thorough = (600, 40)
    projection_channels = {"class", "concrete", "locks"}

    def universe(self, rng, contents, store_alg):
        u = gen.Universe(rng, contents, store_alg=store_alg)
        u.kinds = self.stream_kinds
        return u

    def history(self, u, n):
        return u.history(n, self.weights())

    def weights(self):
        return None

    def owned(self, call, s, ctx):
        return set()

    def projection(self, call, s, ctx):
        return self.projection_channels


class C01(SeqProp):
    id = "C01"
    stream_kinds = ("str", "Path", "file", "bytesio", "buffered", "file", "rwfile", "gzip", "stalename")
    projection_channels = {"class", "cid", "size", "content", "concrete", "locks"}

    def weights(self):
        return {"store": 6, "store_data": 2, "tag": 1, "div": 1, "delete": 2, "retrieve": 5, "hex": 0.5,
                "smeta": 1, "rmeta": 0.3, "dmeta": 0.5, "bad": 0.3}

    def universe(self, rng, contents, store_alg):
        u = super().universe(rng, contents, store_alg)
        # sizes around multiples of the read buffer (4096 on tmpfs/ext4 block size, 8192 default)
        for b in (4096, 8192):
            for n in (b - 1, b, b + 1, 2 * b, 3 * b + 7):
                u.toks.append(contents.add(bytes([(n * 7 + i) % 251 for i in range(16)]) * (n // 16) + b"z" * (n % 16)))
        u.toks = u.zero_tail + u.toks       # first, so that the scripted life cycles use them too
        return u

    def owned(self, call, s, ctx):
        own = {"stream"}
        if call.name == "store_object" and s["class"] == "ok meta":
            own |= {"class", "cid", "size"}
        if call.name == "retrieve_object" and s["class"] == "ok content":
            own |= {"class", "content"}
        return own


class C02(SeqProp):
    id = "C02"
    projection_channels = {"class", "digests", "hex"}

    def weights(self):
        return {"store": 8, "store_data": 2, "hex": 6, "delete": 3, "tag": 0.5, "div": 0.5, "retrieve": 0.2,
                "smeta": 0.2, "rmeta": 0.1, "dmeta": 0.1, "bad": 0.5}

    def universe(self, rng, contents, store_alg):
        u = super().universe(rng, contents, store_alg)
        if rng.random() < 0.6:
            # few pids, few contents, few digest algorithms: the same (pid, algorithm) question is then asked again
            # after the pid was deleted and stored with other content, while other pids keep the old object alive
            u.pids = ["p", "q", "pq"]
            u.toks = rng.sample(u.toks, 2)
            u.hex_pool = rng.sample(gen.DEFAULTS + gen.OTHERS, 2)
        return u

    def owned(self, call, s, ctx):
        if call.name == "store_object" and s["class"] == "ok meta":
            return {"class", "digests"}
        if call.name == "get_hex_digest" and s["class"] == "ok hex":
            return {"class", "hex"}
        return set()

    def projection(self, call, s, ctx):
        if call.name in ("store_object", "get_hex_digest"):
            return self.projection_channels
        return set()


class C03(SeqProp):
    id = "C03"

    def weights(self):
        return {"store": 6, "store_data": 1, "tag": 5, "div": 1.5, "delete": 3, "retrieve": 1, "hex": 0,
                "smeta": 0, "rmeta": 0, "dmeta": 0, "bad": 0.2}

    def universe(self, rng, contents, store_alg):
        u = super().universe(rng, contents, store_alg)
        u.pids = ["p", "pq", "q"]
        u.toks = u.toks[:3]
        return u

    def owned(self, call, s, ctx):
        if call.name in ("store_object", "tag_object") and (s["class"] in ALREADY or s["class"].startswith("ok")):
            return {"class", "abs.bind", "abs.refobjs"}
        return set()

    def projection(self, call, s, ctx):
        if call.name == "delete_object" and seq.dangling(ctx["prev_abs"], call.args["pid"]):
            return set()      # clearing a dangling binding is C05's business
        if call.name in ("store_object", "tag_object", "delete_object", "delete_if_invalid_object"):
            return self.projection_channels
        return {"concrete"}


class C04(SeqProp):
    id = "C04"
    projection_channels = {"class", "content", "concrete", "locks"}

    def weights(self):
        return {"store": 6, "store_data": 1, "tag": 2, "div": 3, "delete": 4, "retrieve": 0, "hex": 0.2,
                "smeta": 1, "rmeta": 0.2, "dmeta": 1, "bad": 0.5}

    def universe(self, rng, contents, store_alg):
        u = super().universe(rng, contents, store_alg)
        u.pids = ["p", "pq", "q", "r"]
        u.toks = u.toks[1:3]          # two contents, so pids share objects
        u.add_shard_mate(u.toks[0])   # ... and a third one filed next to the first (same shard directories)
        return u

    def history(self, u, n):
        h = []
        for c in u.history(max(1, n // 3), self.weights()):
            h.append(c)
            for p in u.rng.sample(u.pids, 2):
                h.append(retrieve_object(p))
        return h

    def owned(self, call, s, ctx):
        own = {"abs.refobjs"}
        if call.name == "retrieve_object" and s["class"] == "ok content":
            own |= {"class", "content"}
        if call.name == "delete_object" and s["class"].startswith("ok") and not seq.dangling(
                ctx["prev_abs"], call.args["pid"]):
            own |= {"abs.objs"}
        return own

    def projection(self, call, s, ctx):
        if call.name == "delete_object" and seq.dangling(ctx["prev_abs"], call.args["pid"]):
            return set()
        return self.projection_channels


class C05(SeqProp):
    id = "C05"
    quick = (80, 30)
    thorough = (1000, 40)
    projection_channels = {"class", "cid", "size", "content", "path", "concrete", "locks"}

    def universe(self, rng, contents, store_alg):
        u = super().universe(rng, contents, store_alg)
        u.pids = ["p", "pq", "q"] if rng.random() < 0.7 else ["p", "pq", "P", "q", "p/../x"]
        u.toks = u.toks[:3]
        return u

    def weights(self):
        return {"store": 5, "store_data": 1.5, "tag": 3, "div": 2, "delete": 4, "retrieve": 0.7, "hex": 0.3,
                "smeta": 1, "rmeta": 0.2, "dmeta": 0.7, "bad": 0.7}

    def owned(self, call, s, ctx):
        own = {"abs.objs", "abs.bind", "exact"}
        if call.name == "delete_object" and s["class"].startswith("ok"):
            own |= {"class"}
        return own


class C06(SeqProp):
    id = "C06"

    def weights(self):
        return {"store": 7, "store_data": 2, "tag": 0.7, "div": 6, "delete": 1.5, "retrieve": 0.2, "hex": 0,
                "smeta": 0, "rmeta": 0, "dmeta": 0, "bad": 0.3}

    def universe(self, rng, contents, store_alg):
        u = super().universe(rng, contents, store_alg)
        u.toks = u.toks[:3]
        u.add_shard_mate(u.toks[1])
        return u

    def owned(self, call, s, ctx):
        if has_validation(call) and (s["class"].startswith("ok") or s["class"] in (
                "err NonMatchingChecksum", "err NonMatchingObjSize")):
            return {"class", "abs.objs", "abs.bind", "tmp"}
        return set()

    def projection(self, call, s, ctx):
        if call.name in ("store_object", "delete_if_invalid_object"):
            return self.projection_channels
        return {"concrete"}


class C11(SeqProp):
    id = "C11"
    projection_channels = {"class", "content", "path", "concrete", "locks"}

    def weights(self):
        return {"store": 1.5, "store_data": 0, "tag": 0.3, "div": 0, "delete": 2, "retrieve": 0, "hex": 0,
                "smeta": 7, "rmeta": 5, "dmeta": 4, "bad": 0.4}

    def universe(self, rng, contents, store_alg):
        u = super().universe(rng, contents, store_alg)
        u.pids = ["ab", "a", "p", "pq"]
        u.formats = [None, u.ns, "f1", "f2", "", "c", "bc", "a b"]
        u.add_pid_mate("p")             # a pid filed next to "p" (same shard directories under metadata/ and refs/pids/)
        u.twins = [(("ab", "c"), ("a", "bc"))]   # pid + format coincide
        return u

    def owned(self, call, s, ctx):
        own = {"abs.docs"}
        if call.name in ("store_metadata", "retrieve_metadata", "delete_metadata"):
            own |= {"class", "content", "path"}
        return own

    def projection(self, call, s, ctx):
        if call.name in ("store_metadata", "retrieve_metadata", "delete_metadata", "delete_object"):
            return self.projection_channels
        return {"concrete"}


class C17(SeqProp):
    id = "C17"

    def weights(self):
        return {"store": 3, "store_data": 2, "tag": 1, "div": 1, "delete": 3, "retrieve": 2, "hex": 2,
                "smeta": 3, "rmeta": 2, "dmeta": 1, "bad": 10}

    def owned(self, call, s, ctx):
        if s["class"] in ARG_ERRORS or call.name in READ_ONLY:
            return {"class", "unchanged", "locks"}
        return set()

    def projection(self, call, s, ctx):
        if s["class"] in ARG_ERRORS or call.name in READ_ONLY:
            return self.projection_channels
        return set()


ADVERSARIAL = [
    "a/b", "../x", "..", ".", "/etc/passwd", "a/../../b", ".hidden", "-rf", "--", "*", "?", "[a-z]", "$(touch_x)",
    "`id`", ";rm", "a;b", "a|b", "a&b", "a'b", 'a"b', "a\\b", "a\\", "%s%s", "{0}", "~", "~root", "C:\\x",
    "\x00", "a\x00b", "\x01", "\x7f", "é", "e\u0301", "ß", "ẞ", "İ", "ı", "K", "\U0001F600", "\U00010000x",
    "\ufeffbom", "\u200b", "\u202e", "pid", "pi", "id", "PID", "Pid", "pid.", ".pid", "pidpid", "pid/pid",
    "x" * 5000, "y" * 4999 + "/", "\u00e9" * 1500, "\u6f22" * 700 + "-A", "\u6f22" * 700 + "-B", "\U0001F600" * 400,
    "z" * 1023 + "\u00e9", "z" * 1024 + "\u00e9" + "tail", "w" * 2048, "a=b", "a:b", "#frag", "?q=1", "http://x/y?z#w", "_delete", "p_delete",
]
# distinct strings that some normalisation would identify (canonical / compatibility equivalence, case folding)
EQUIVALENT_PAIRS = [("caf\u00e9", "cafe\u0301"), ("\uac00", "\u1100\u1161"), ("\u212b", "\u00c5"), ("\ufb01x", "fix"),
                    ("stra\u00dfe", "strasse"), ("\u01c4", "D\u017d"), ("\u0387", "\u00b7"), ("a\u0323\u0307", "a\u0307\u0323")]
ADVERSARIAL += [os.path.abspath(__file__), os.path.dirname(os.path.abspath(__file__))]   # name an existing file / directory
REJECTED_IDS = ["a b", "a\tb", "a\nb", "a\rb", "\x85x", "x\xa0", "\u1680", "a\u2028b", "a\u3000", "\x1c", " lead", "trail "]


class C18(SeqProp):
    id = "C18"
    quick = (50, 30)
    thorough = (500, 40)
    projection_channels = {"class", "content", "path", "concrete", "locks"}

    def universe(self, rng, contents, store_alg):
        u = super().universe(rng, contents, store_alg)
        base = rng.sample(ADVERSARIAL, 4)
        if rng.random() < 0.5:
            base[0] = rng.choice([a for a in ADVERSARIAL if len(a) > 300])
        # pairs related by prefix / suffix / case
        root = rng.choice(base)
        u.pids = base + [root + "x", "x" + root, root.upper(), root.lower(), rng.choice(REJECTED_IDS)]
        u.toks = u.toks[:3]
        u.formats = [None, u.ns] + rng.sample(ADVERSARIAL, 3) + [rng.choice(REJECTED_IDS), ""]
        a, b = rng.choice(EQUIVALENT_PAIRS)
        if rng.random() < 0.5:
            a, b = b, a
        u.pids = u.pids[:2] + [a, b] + u.pids[4:]
        u.pattern_pids = [a, b]           # the scripted life cycles run on the pair
        if rng.random() < 0.5:
            u.formats += [a, b]
        return u

    def weights(self):
        return {"store": 5, "store_data": 0.5, "tag": 2, "div": 0.5, "delete": 3, "retrieve": 2, "hex": 0.5,
                "smeta": 4, "rmeta": 2, "dmeta": 2, "bad": 0.3}

    def owned(self, call, s, ctx):
        return {"class", "content", "abs.objs", "abs.bind", "abs.docs", "exact", "outside"}


SEQ_PROPS = {c.id: c for c in (C01, C02, C03, C04, C05, C06, C11, C17, C18)}
