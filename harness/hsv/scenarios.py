"""Scripted scenarios (start state + one call under test) shared by the crash (C09, C10),
fault (C13, C08) and schedule (C07, C12, C16) checks."""
from . import oracle
from .calls import *  # noqa

NS = "https://ns.dataone.org/service/types/v2.0#SystemMetadata"


class Scenario:
    def __init__(self, name, start, call, pid, data_tok=None):
        self.name, self.start, self.call, self.pid, self.data_tok = name, start, call, pid, data_tok


def build(contents, store_alg="SHA-256", size_class=0):
    """size_class: 0 -> 1 byte, 1 -> one buffer, 2 -> multi-buffer contents"""
    sizes = [(1, 3), (4096, 8192), (20000, 3 * 8192 + 7)][size_class]
    A = contents.add(b"A" * sizes[0] + (b"\0" * 12288 if size_class == 2 else b""))   # multi-buffer: zero-padded tail
    B = contents.add(bytes((i * 31 + 7) % 256 for i in range(sizes[1])))
    M1 = contents.add(b"<meta v1>" * max(1, sizes[0] // 9))
    M2 = contents.add(b"<meta v2/>" * max(1, sizes[1] // 10))
    alg = oracle.DATAONE[store_alg]
    cidA, cidB = contents.digest(A, alg), contents.digest(B, alg)
    never = contents.digest(contents.add(b"never stored"), alg)

    def d(t):
        return ("ok", t, "str", 0)
    S = []
    S.append(Scenario("store-new", [store_object("q", d(B))], store_object("p", d(A)), "p", A))
    S.append(Scenario("store-new-empty-store", [], store_object("p", d(A)), "p", A))
    S.append(Scenario("store-duplicate-content", [store_object("q", d(A)), store_metadata("q", d(M1))],
                      store_object("p", d(A)), "p", A))
    S.append(Scenario("store-existing-unreferenced", [store_object(None, d(A)), store_object("q", d(B))],
                      store_object("p", d(A)), "p", A))
    S.append(Scenario("store-data-only-new", [store_object("q", d(B))], store_object(None, d(A)), None, A))
    S.append(Scenario("store-data-only-existing", [store_object("q", d(A))], store_object(None, d(A)), None, A))
    S.append(Scenario("store-validated", [store_object("q", d(B))],
                      store_object("p", d(A), "sha224", contents.digest(A, "md5").upper(), "MD5", len(contents.by_tok[A])), "p", A))
    S.append(Scenario("store-invalid-checksum", [store_object("q", d(B))],
                      store_object("p", d(A), None, "00" + contents.digest(A, "sha1")[2:], "sha1", None), "p", A))
    S.append(Scenario("store-rejected-bound", [store_object("p", d(B)), store_object("q", d(A))],
                      store_object("p", d(A)), "p", B))
    S.append(Scenario("tag-new-list", [store_object(None, d(A)), store_object("q", d(B))], tag_object("p", cidA), "p", A))
    S.append(Scenario("tag-existing-list", [store_object("q", d(A))], tag_object("p", cidA), "p", A))
    S.append(Scenario("tag-missing-cid", [store_object("q", d(B))], tag_object("p", never), "p", None))
    S.append(Scenario("delete-sole-with-metadata",
                      [store_object("p", d(A)), store_metadata("p", d(M1)), store_metadata("p", d(M2), "f2"),
                       store_object("q", d(B)), store_metadata("q", d(M1))], delete_object("p"), "p", A))
    S.append(Scenario("delete-shared", [store_object("p", d(A)), store_object("q", d(A)), store_metadata("q", d(M1))],
                      delete_object("p"), "p", A))
    S.append(Scenario("delete-shared-first-listed", [store_object("q", d(A)), store_object("p", d(A)), store_object("r", d(A))],
                      delete_object("q"), "q", A))
    S.append(Scenario("delete-no-metadata", [store_object("p", d(A)), store_object("q", d(B))], delete_object("p"), "p", A))
    S.append(Scenario("delete-dangling", [tag_object("p", never), tag_object("q", never)], delete_object("p"), "p", None))
    S.append(Scenario("metadata-new", [store_object("q", d(A)), store_metadata("q", d(M1))],
                      store_metadata("p", d(M1)), "p", M1))
    S.append(Scenario("metadata-overwrite", [store_metadata("p", d(M1)), store_metadata("q", d(M1))],
                      store_metadata("p", d(M2)), "p", M2))
    S.append(Scenario("metadata-delete-one", [store_metadata("p", d(M1)), store_metadata("p", d(M2), "f2"), store_metadata("q", d(M1))],
                      delete_metadata("p", "f2"), "p", None))
    S.append(Scenario("metadata-delete-all", [store_metadata("p", d(M1)), store_metadata("p", d(M2), "f2"), store_metadata("q", d(M1))],
                      delete_metadata("p", None), "p", None))
    S.append(Scenario("validate-invalid-unreferenced", [store_object(None, d(A)), store_object("q", d(B))],
                      delete_if_invalid_object(("om", cidA, len(contents.by_tok[A]),
                                                {a: contents.digest(A, a) for a in ("md5", "sha1", "sha256", "sha384", "sha512")}),
                                               "00" + contents.digest(A, "md5")[2:], "md5", None), None, A))
    return S
