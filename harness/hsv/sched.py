"""Deterministic scheduler for real threads running real API calls on one FileHashStore.
Only one worker runs at a time; workers hand control back at every scheduling point:
 * every mutating file-system primitive / open-for-writing (through trace.Tracer.on_point),
 * every entry into a lock-list critical section (`with <condition>:`),
 * `condition.wait()` (the worker sleeps until a `notify()` makes it runnable again).
A schedule is the list of worker indices chosen at the decision points."""
import threading

from . import trace

YIELD_KINDS = {"mkdirs", "mkTmp", "openWrite", "rename", "remove", "truncate", "truncated", "tmpWrite"}   # os.link / os.rmdir arrive as rename / remove sites


class Deadlock(Exception):
    pass


class SchedCondition:
    """stands in for threading.Condition / multiprocessing.Condition on the store instance"""

    def __init__(self, sched, name):
        self.sched, self.name = sched, name
        self.waiters = []

    def __enter__(self):
        self.sched.yield_point(("lock", self.name))
        return self

    def __exit__(self, *a):
        return False

    def acquire(self, *a, **k):
        return True

    def release(self):
        pass

    def wait(self, timeout=None):
        if timeout is None:
            self.sched.sleep_on(self)
            return True
        # a bounded wait ends by a notify or because the time is up. Under the scheduler the waiter stays
        # runnable: choosing it means "the time is up" (the holder may be arbitrarily slow), unless it was
        # notified meanwhile.
        t = self.sched.me()
        self.waiters.append(t)
        self.sched.yield_point(("timed-wait", self.name))
        if t in self.waiters:
            self.waiters.remove(t)
            return False
        return True

    def wait_for(self, predicate, timeout=None):
        """threading.Condition.wait_for: wait until the predicate holds; with a timeout, give up after one
        bounded wait that ends with the predicate still false (the time is up) and return its value"""
        result = predicate()
        while not result:
            self.wait(timeout)
            result = predicate()
            if timeout is not None:
                break
        return result

    def notify(self, n=1):
        for _ in range(n):
            if self.waiters:
                t = self.waiters.pop(0)
                self.sched.wake(t)

    def notify_all(self):
        self.notify(len(self.waiters))


class Sched:
    def __init__(self, real, calls, mp_mode=False):
        self.real = real
        self.calls = calls
        self.n = len(calls)
        self.cv = threading.Condition()
        self.state = ["new"] * self.n          # new | ready | running | asleep | done
        self.pending = [None] * self.n          # label of the point a ready worker stands at
        self.current = None
        self.results = [None] * self.n
        self.schedule = []                      # worker indices of the steps that passed their point
        self.trace = []                         # (worker, label) of every resumed step
        self.tid = {}
        self.blocked_attempts = 0
        self.tmp_write_points = False           # writes into temp files are scheduling points too (C09's concurrent part)
        self.on_event = None                    # optional observer: on_event(kind, relpath) after every mutating primitive
        self.install_conditions(mp_mode)

    # ------------------------------------------------------------------ store instrumentation
    def install_conditions(self, mp_mode):
        s = self.real.store
        suffix = "_mp" if mp_mode else "_th"
        s.use_multiprocessing = bool(mp_mode)
        for cond, lst in (("object_pid_condition", "object_locked_pids"), ("object_cid_condition", "object_locked_cids"),
                          ("metadata_condition", "metadata_locked_docs"), ("reference_pid_condition", "reference_locked_pids")):
            setattr(s, cond + suffix, SchedCondition(self, cond))
            setattr(s, lst + suffix, [])

    def me(self):
        return self.tid.get(threading.get_ident())

    # ------------------------------------------------------------------ worker side
    def yield_point(self, label):
        t = self.me()
        if t is None:
            return
        with self.cv:
            self.state[t] = "ready"
            self.pending[t] = label
            self.current = None
            self.cv.notify_all()
            while self.current != t:
                self.cv.wait()
            self.state[t] = "running"

    def sleep_on(self, cond):
        t = self.me()
        with self.cv:
            # the step that brought us here did not pass its point: it found the identifier held
            if self.schedule and self.schedule[-1] == t:
                self.schedule.pop()
                self.blocked_attempts += 1
            cond.waiters.append(t)
            self.state[t] = "asleep"
            self.current = None
            self.cv.notify_all()
            while self.current != t:
                self.cv.wait()
            self.state[t] = "running"

    def wake(self, t):
        # called by the running worker inside notify(): t becomes runnable (it will re-test)
        if self.state[t] == "ready":
            return                      # a bounded waiter: it is runnable already
        self.state[t] = "ready"
        self.pending[t] = ("woken", None)

    def on_point(self, kind, target):
        if kind in YIELD_KINDS:
            self.yield_point((kind, target))

    def worker(self, i):
        self.tid[threading.get_ident()] = i
        self.yield_point(("start", None))
        try:
            self.results[i] = self.real.run(self.calls[i])
        finally:
            with self.cv:
                self.state[i] = "done"
                self.current = None
                self.cv.notify_all()

    # ------------------------------------------------------------------ scheduler side
    def run(self, chooser, max_steps=4000):
        """chooser(runnable, pending, step_no) -> worker index. Returns 'ok' or 'deadlock'."""
        threads = [threading.Thread(target=self.worker, args=(i,), daemon=True) for i in range(self.n)]
        tracer = trace.Tracer(self.real.root, on_point=self.on_point,
                              on_event=(lambda kind, rel: self.on_event(kind, rel)) if self.on_event else None)
        tracer.point_on_tmp_write = self.tmp_write_points
        tracer.on_flock_wait = lambda rel: self.yield_point(("flock-wait", rel))
        # the truncate of an r+ rewrite is a scheduling point too
        orig_event = tracer.event

        def event(kind, rel):
            orig_event(kind, rel)
        tracer.event = event
        with tracer:
            self._patch_truncate(tracer)
            for th in threads:
                th.start()
            steps = 0
            outcome = "ok"
            spin = 0
            while True:
                with self.cv:
                    waited = 0
                    while self.current is not None or any(st == "new" for st in self.state):
                        self.cv.wait(timeout=5)
                        waited += 5
                        if waited >= 20:
                            break
                    if waited >= 20 and (self.current is not None or any(st == "new" for st in self.state)):
                        # a worker is blocked outside the scheduler's control (workers are daemons: abandoned)
                        outcome = "stuck"
                        break
                    runnable = [i for i in range(self.n) if self.state[i] == "ready"]
                    if not runnable:
                        if all(st == "done" for st in self.state):
                            break
                        outcome = "deadlock"
                        break
                    # a worker retrying a file lock runs only when nobody else can
                    pref = [i for i in runnable if not (self.pending[i] and self.pending[i][0] == "flock-wait")]
                    if pref:
                        runnable, spin = pref, 0
                    else:
                        spin += 1
                        if spin > 50:
                            outcome = "deadlock"
                            break
                    steps += 1
                    if steps > max_steps:
                        outcome = "livelock"
                        break
                    pick = chooser(runnable, [self.pending[i] for i in range(self.n)], steps)
                    if pick not in runnable:
                        pick = runnable[0]
                    self.schedule.append(pick)
                    self.trace.append((pick, self.pending[pick]))
                    self.current = pick
                    self.cv.notify_all()
            self.outcome = outcome
        return outcome

    def _patch_truncate(self, tracer):
        sched = self
        orig = trace._Proxy.truncate

        def truncate(pself, *a):
            if "+" in pself._mode:
                sched.yield_point(("truncate", pself._rel))
            return orig(pself, *a)
        self._orig_truncate = orig
        trace._Proxy.truncate = truncate

    def cleanup(self):
        if hasattr(self, "_orig_truncate"):
            trace._Proxy.truncate = self._orig_truncate
