"""Sequential engine: one history on three machines —
   the concrete Lean model (`call`), the abstract Lean spec (`scall`) and the real store —
   compared channel by channel after every call."""
import json
import os

from . import impl, lean, oracle, abstraction
from .calls import Call

DEFAULT_NS = "https://ns.dataone.org/service/types/v2.0#SystemMetadata"


def parse_result(line):
    """'ok meta cid=.. size=.. digests=..' -> channel dict"""
    out = {}
    if line.startswith("err "):
        out["class"] = line
        return out
    body = line[3:]
    kind = body.split(" ", 1)[0]
    out["class"] = "ok " + kind
    if kind == "meta":
        parts = dict(p.split("=", 1) for p in body.split(" ")[1:])
        out["cid"] = parts["cid"]
        out["size"] = parts["size"]
        out["digests"] = parts["digests"]
    elif kind in ("content", "hex", "path"):
        out[kind] = body.split(" ", 1)[1] if " " in body else ""
    return out


def split_abs(lines):
    return {"abs.objs": [l for l in lines if l.startswith("O ")],
            "abs.bind": [l for l in lines if l.startswith("B ")],
            "abs.docs": [l for l in lines if l.startswith("M ")]}


class Step:
    """everything observed for one call"""
    __slots__ = ("i", "call", "model", "spec", "real", "model_state", "real_state", "spec_abs", "real_abs",
                 "exact", "model_locks", "real_locks", "stream", "outside")


def chan_diff(a, b, channels=None):
    """channels on which dicts a and b differ -> {chan: (a, b)}"""
    out = {}
    for k in set(a) | set(b):
        if channels is not None and k not in channels:
            continue
        if a.get(k) != b.get(k):
            out[k] = (a.get(k), b.get(k))
    return out


class Trio:
    """model + spec (one driver process) + real store, same configuration"""

    def __init__(self, contents, depth=3, width=2, store_alg="SHA-256", ns=DEFAULT_NS, base=None, mp=False, relative=False):
        self.contents = contents
        self.cfg = dict(depth=depth, width=width, store_alg=store_alg, ns=ns)
        # the store first: in multiprocessing mode it forks a manager process, which must not inherit the driver's pipes
        self.real = impl.Real(contents, depth, width, store_alg, ns, base=base, mp=mp, relative=relative)
        self.model = lean.Model(contents, depth, width, store_alg, ns)
        self.hung = False
        self.known = abstraction.Known(oracle.DATAONE[store_alg], ns)
        self.ns = ns
        self.i = 0

    def prepare(self, call):
        for s in call.hash_strings(self.ns):
            self.model.need_str(s)
        for t in call.toks():
            self.model.need_tok(t)
        self.known.note_call(call)

    def run(self, call, with_state=True):
        self.i += 1
        self.prepare(call)
        st = Step()
        st.i, st.call = self.i, call
        w = call.wire()
        st.model = self.model.call(w)
        st.spec = self.model.req("scall " + w)
        st.real = self.run_real(call)
        st.stream = self.real.stream_status()
        if with_state:
            st.model_state = self.model.state()
            st.real_state = self.real.state()
            st.spec_abs = self.model.req_block("sstate")
            tree = abstraction.read_tree(self.real.root)
            st.real_abs = abstraction.abs_lines(tree, self.known, self.contents)
            st.exact = abstraction.exactness(tree, self.known)
            st.model_locks = self.model.locks()
            st.real_locks = self.real.locks()
            st.outside = sorted(os.listdir(self.real.base))
        return st

    CALL_TIMEOUT = 20.0

    def run_real(self, call):
        """the real call, on a watched thread: a sequential call that does not return is a result, not a hang of
        the check. Afterwards the instance is given up (later calls are answered without being made)."""
        if self.hung:
            return "err CallDidNotReturn"
        import threading
        box = []
        th = threading.Thread(target=lambda: box.append(self.real.run(call)), daemon=True)
        th.start()
        th.join(self.CALL_TIMEOUT)
        if th.is_alive() or not box:
            self.hung = True
            return "err CallDidNotReturn"
        return box[0]

    def close(self):
        self.real.close()
        self.model.close()


def observe(st):
    """channel dicts (model, spec, real) of a step"""
    m = parse_result(st.model)
    s = parse_result(st.spec)
    r = parse_result(st.real)
    if st.model_state is not None:
        m["concrete"] = st.model_state
        r["concrete"] = st.real_state
        s.update(split_abs(st.spec_abs))
        r.update(split_abs(st.real_abs))
        # the model's abstract view is not printed separately: its concrete state is compared in full
        s["exact"] = []
        r["exact"] = st.exact
        m["locks"] = st.model_locks
        r["locks"] = st.real_locks
        s["locks"] = "locks objPid=[] refPid=[] cid=[] doc=[]"
        # objects that some pid references (by the specification's bindings)
        refd = {l.split(" ")[2] for l in s["abs.bind"]}
        s["abs.refobjs"] = [l for l in s["abs.objs"] if l.split(" ")[1] in refd]
        r["abs.refobjs"] = [l for l in r["abs.objs"] if l.split(" ")[1] in refd]
        s["outside"] = ["inputs", "store"]
        r["outside"] = st.outside
        s["tmp"] = ["T metadata/tmp 0", "T objects/tmp 0", "T refs/tmp 0"]
        r["tmp"] = [l for l in st.real_state if l.startswith("T ")]
    if st.stream is not None:
        status, pos, off = st.stream
        r["stream"] = "%s@%s" % (status, pos)
        s["stream"] = "open@%s" % off
    return m, s, r


MODEL_CHANNELS = {"class", "cid", "size", "digests", "content", "hex", "path", "concrete", "locks"}


class SeqOutcome:
    def __init__(self):
        self.disagreements = []   # (history_json, step index, {chan: (model, real)})
        self.findings = []        # (history_json, step index, {chan: (spec, real)})
        self.steps = 0
        self.histories = 0
        self.branches = {}        # (call name, result class) -> count
        self.samples = []
        self.distinct = set()     # (call name, spec result class, abstract state changed?)


def run_history(history, cfg, contents, outcome, owned, projection=None, stop_on_first=True, with_state=True, mp=False):
    """Run one history. `owned(call, spec_channels)` -> set of channels the property judges on this call.
    `projection(call)` -> set of channels compared between model and real (None = all)."""
    trio = Trio(contents, mp=mp, **cfg)
    outcome.histories += 1
    prev_real = trio.real.state() if with_state else None
    prev_abs = None
    try:
        for idx, call in enumerate(history):
            st = trio.run(call, with_state=with_state)
            outcome.steps += 1
            m, s, r = observe(st)
            prev_abs_before = prev_abs
            if with_state:
                s["unchanged"] = True
                r["unchanged"] = (st.real_state == prev_real)
                prev_real = st.real_state
                changed = (st.spec_abs != prev_abs)
                prev_abs = st.spec_abs
                outcome.distinct.add((call.name, s["class"], changed))
            key = (call.name, s["class"])
            outcome.branches[key] = outcome.branches.get(key, 0) + 1
            ctx = {"prev_abs": prev_abs_before or []}
            proj = projection(call, s, ctx) if projection else None
            mchan = MODEL_CHANNELS if proj is None else (MODEL_CHANNELS & proj)
            d = chan_diff(m, r, mchan)
            own = owned(call, s, ctx)
            f = chan_diff(s, r, own)
            if f:
                outcome.findings.append((history[: idx + 1], idx, f))
            if d and not outcome.disagreements:
                outcome.disagreements.append((history[: idx + 1], idx, d))
            # a property failure ends the history; a mere model/code disagreement does not: the rest of
            # the history is the first place to look for the failing input
            if f and stop_on_first:
                return False
        return not outcome.disagreements
    finally:
        trio.close()


def shrink(history, cfg, contents_factory, pred, max_runs=150):
    """delta-debug a failing history; pred(history) -> True if it still fails the same way"""
    h = list(history)
    runs = 0
    n = 2
    while len(h) >= 2 and runs < max_runs:
        chunk = max(1, len(h) // n)
        reduced = False
        for i in range(0, len(h) - 1, chunk):   # never drop the last (failing) call
            cand = h[:i] + h[i + chunk:]
            if not cand or cand[-1] is not h[-1]:
                cand = [c for c in cand if c is not h[-1]] + [h[-1]]
            runs += 1
            if pred(cand):
                h = cand
                n = max(n - 1, 2)
                reduced = True
                break
        if not reduced:
            if chunk == 1:
                break
            n = min(n * 2, len(h))
    return h


def diff_lines(a, b):
    sa, sb = set(a), set(b)
    return (sorted(sa - sb), sorted(sb - sa))


def dangling(prev_abs, pid):
    """is `pid` bound, in the specification state `prev_abs`, to a cid whose object is absent?"""
    from .enc import enc_str
    if not isinstance(pid, str):
        return False
    cid = None
    for l in prev_abs:
        if l.startswith("B " + enc_str(pid) + " "):
            cid = l.split(" ")[2]
    if cid is None:
        return False
    return not any(l.startswith("O " + cid + " ") for l in prev_abs)


def history_json(history):
    return [c.to_json() for c in history]


def history_from_json(js):
    return [Call.from_json(c) for c in js]
