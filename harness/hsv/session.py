"""Run the same calls on the Lean model and on the real store; compare."""
from . import impl, lean, oracle


class Mismatch(Exception):
    def __init__(self, step, call, what, model, real):
        super().__init__("%s mismatch at step %d %r\n  model: %s\n  real : %s" % (what, step, call, model, real))
        self.step, self.call, self.what, self.model, self.real = step, call, what, model, real


class Session:
    def __init__(self, contents, depth=3, width=2, store_alg="SHA-256",
                 ns="https://ns.dataone.org/service/types/v2.0#SystemMetadata", with_model=True):
        self.contents = contents
        self.cfg = dict(depth=depth, width=width, store_alg=store_alg, ns=ns)
        self.real = impl.Real(contents, depth, width, store_alg, ns)
        self.model = lean.Model(contents, depth, width, store_alg, ns) if with_model else None
        self.ns = ns
        self.step = 0
        self.trace = []   # (call, model result, real result)

    def prepare(self, call):
        m = self.model
        for s in call.hash_strings(self.ns):
            m.need_str(s)
        for t in call.toks():
            m.need_tok(t)

    def run(self, call, compare_state=True):
        """Returns (model_result, real_result); raises Mismatch on disagreement."""
        self.step += 1
        self.prepare(call)
        mr = self.model.call(call.wire())
        rr = self.real.run(call)
        self.trace.append((call, mr, rr))
        if mr != rr:
            raise Mismatch(self.step, call, "result", mr, rr)
        if compare_state:
            self.compare_state(call)
        return mr, rr

    def compare_state(self, call=None):
        ms = self.model.state()
        rs = self.real.state()
        if ms != rs:
            d = diff_lines(ms, rs)
            raise Mismatch(self.step, call, "state", d[0], d[1])
        ml, rl = self.model.locks(), self.real.locks()
        if ml != rl:
            raise Mismatch(self.step, call, "locks", ml, rl)

    def close(self):
        self.real.close()
        if self.model:
            self.model.close()


def diff_lines(a, b):
    sa, sb = set(a), set(b)
    return (sorted(sa - sb), sorted(sb - sa))
