"""Translation of the synchronisation text of filehashstore.py (re-done with `ast` on every run):

 * every section `if self.use_multiprocessing: A else: B` outside `__init__` becomes a pair of token
   lists (A with the suffix `_mp` taken off attribute names, B with `_th` taken off); logging calls and
   assignments of message strings are dropped, everything else is kept (unknown statements as `other:…`);
 * the two tables of synchronisation objects `__init__` creates (attribute, constructor, argument);
 * the lock-order edges of the class: an abstract interpretation of every method over the set of
   "locked identifier" lists it may hold (append = acquire, remove = release, calls to methods of the
   class are followed), which records an edge (held list -> list being acquired) at every acquire.

Lean side: Props/Tables.lean proves that the token lists are the canonical acquire / release /
check texts whose semantics `Locks.Step` is, that the two modes are mirror images, that the tables of
`__init__` are the expected ones (cross-process kinds in multiprocessing mode), and that every edge
goes up in `LockClass.rank` (the hypothesis `hord` of `Step.request`, the order ConcSafe relies on)."""
import ast

LOGGERS = ("fhs_logger", "logging")


def _strip(name, suffix):
    if suffix and name.endswith(suffix):
        return name[: -len(suffix)]
    return name


def _self_attr(node):
    """self.X -> 'X', else None"""
    if isinstance(node, ast.Attribute) and isinstance(node.value, ast.Name) and node.value.id == "self":
        return node.attr
    return None


def _is_logging_call(call):
    f = call.func
    if not isinstance(f, ast.Attribute):
        return False
    v = f.value
    if isinstance(v, ast.Name) and v.id == "logging":
        return True
    return _self_attr(v) == "fhs_logger"


def _is_message(value):
    """a string literal, f-string, or concatenation / tuple of those"""
    if isinstance(value, (ast.JoinedStr,)):
        return True
    if isinstance(value, ast.Constant) and isinstance(value.value, str):
        return True
    if isinstance(value, ast.BinOp) and isinstance(value.op, ast.Add):
        return _is_message(value.left) or _is_message(value.right)
    if isinstance(value, ast.Tuple):
        return all(_is_message(e) for e in value.elts)
    return False


def _var(node):
    if isinstance(node, ast.Name):
        return node.id
    return "?" + ast.dump(node)[:60]


def _membership(test, sfx):
    """`v in self.L` / `v not in self.L` -> (v, 'in'|'not in', L)"""
    if isinstance(test, ast.Compare) and len(test.ops) == 1 and len(test.comparators) == 1:
        lst = _self_attr(test.comparators[0])
        if lst is not None and isinstance(test.ops[0], (ast.In, ast.NotIn)):
            return _var(test.left), ("in" if isinstance(test.ops[0], ast.In) else "not in"), _strip(lst, sfx)
    return None


def tokens(stmts, sfx):
    out = []
    for s in stmts:
        if isinstance(s, ast.Expr) and isinstance(s.value, ast.Call):
            c = s.value
            if _is_logging_call(c):
                continue
            f = c.func
            if isinstance(f, ast.Attribute):
                obj = _self_attr(f.value)
                if obj is not None and f.attr in ("wait", "notify", "notify_all", "wait_for") and not c.args and not c.keywords:
                    out.append("%s %s" % (f.attr, _strip(obj, sfx)))
                    continue
                if obj is not None and f.attr in ("append", "remove") and len(c.args) == 1 and not c.keywords:
                    out.append("%s %s %s" % (f.attr, _strip(obj, sfx), _var(c.args[0])))
                    continue
            out.append("other:" + ast.dump(s)[:120])
        elif isinstance(s, ast.Expr) and isinstance(s.value, ast.Constant):
            continue                                    # a docstring / stray literal
        elif isinstance(s, ast.Assign) and _is_message(s.value):
            continue
        elif isinstance(s, ast.With):
            names = []
            for it in s.items:
                a = _self_attr(it.context_expr)
                names.append(_strip(a, sfx) if a is not None else "?" + ast.dump(it.context_expr)[:60])
            out.append("with " + ",".join(names))
            out += tokens(s.body, sfx)
            out.append("end")
        elif isinstance(s, ast.While):
            m = _membership(s.test, sfx)
            out.append("while %s %s %s" % m if m else "while ?" + ast.dump(s.test)[:80])
            out += tokens(s.body, sfx)
            if s.orelse:
                out.append("else")
                out += tokens(s.orelse, sfx)
            out.append("end")
        elif isinstance(s, ast.If):
            m = _membership(s.test, sfx)
            out.append("if %s %s %s" % m if m else "if ?" + ast.dump(s.test)[:80])
            out += tokens(s.body, sfx)
            if s.orelse:
                out.append("else")
                out += tokens(s.orelse, sfx)
            out.append("end")
        elif isinstance(s, ast.Raise):
            e = s.exc
            if isinstance(e, ast.Call) and isinstance(e.func, ast.Name):
                out.append("raise " + e.func.id)
            elif isinstance(e, ast.Name):
                out.append("raise " + e.id)
            else:
                out.append("raise ?")
        elif isinstance(s, ast.Pass):
            continue
        else:
            out.append("other:" + ast.dump(s)[:120])
    return out


def _is_mode_test(test):
    return _self_attr(test) == "use_multiprocessing"


def _class_def(tree):
    for n in tree.body:
        if isinstance(n, ast.ClassDef) and n.name == "FileHashStore":
            return n
    return None


def sections(tree):
    """[(function, ordinal, mp tokens, th tokens)] for every mode test outside __init__; mode tests
    that are not plain `if self.use_multiprocessing:` statements are reported as a section whose
    texts are ['other:…'] so that they cannot go unnoticed."""
    cls = _class_def(tree)
    out = []
    if cls is None:
        return out
    for fn in cls.body:
        if not isinstance(fn, ast.FunctionDef) or fn.name == "__init__":
            continue
        k = 0
        plain = set()
        for n in ast.walk(fn):
            if isinstance(n, ast.If) and _is_mode_test(n.test):
                plain.add(id(n.test))
        # source order
        ifs = sorted((n for n in ast.walk(fn) if isinstance(n, ast.If) and _is_mode_test(n.test)),
                     key=lambda n: (n.lineno, n.col_offset))
        for n in ifs:
            out.append((fn.name, k, tokens(n.body, "_mp"), tokens(n.orelse, "_th")))
            k += 1
        for n in ast.walk(fn):
            if isinstance(n, ast.Attribute) and _self_attr(n) == "use_multiprocessing" and id(n) not in plain:
                out.append((fn.name, k, ["other:mode flag used at line %d" % n.lineno], ["other:?"]))
                k += 1
    return out


def _ctor(value, sfx):
    """constructor text of a synchronisation object"""
    if isinstance(value, ast.List) and not value.elts:
        return ("list", "")
    if isinstance(value, ast.Call):
        f = value.func
        # multiprocessing.Manager().list()
        if isinstance(f, ast.Attribute) and f.attr == "list" and isinstance(f.value, ast.Call) \
                and isinstance(f.value.func, ast.Attribute) and f.value.func.attr == "Manager" \
                and isinstance(f.value.func.value, ast.Name) and not value.args:
            return (f.value.func.value.id + ".Manager.list", "")
        if isinstance(f, ast.Attribute) and isinstance(f.value, ast.Name):
            arg = ""
            if value.args:
                a = _self_attr(value.args[0])
                arg = _strip(a, sfx) if a is not None else "?"
            return (f.value.id + "." + f.attr, arg)
    return ("?" + ast.dump(value)[:60], "")


def init_tables(tree):
    """(mp table, th table): [(attribute without suffix, constructor, argument)]"""
    cls = _class_def(tree)
    if cls is None:
        return None, None
    for fn in cls.body:
        if isinstance(fn, ast.FunctionDef) and fn.name == "__init__":
            for n in ast.walk(fn):
                if isinstance(n, ast.If) and _is_mode_test(n.test):
                    def table(stmts, sfx):
                        rows = []
                        for s in stmts:
                            if isinstance(s, ast.Assign) and len(s.targets) == 1 and _self_attr(s.targets[0]) is not None:
                                c, a = _ctor(s.value, sfx)
                                rows.append((_strip(_self_attr(s.targets[0]), sfx), c, a))
                            elif isinstance(s, ast.Expr) and isinstance(s.value, ast.Constant):
                                continue
                            else:
                                rows.append(("other:" + ast.dump(s)[:80], "", ""))
                        return rows
                    return table(n.body, "_mp"), table(n.orelse, "_th")
    return None, None


def mode_flag(tree):
    """the text that computes the mode flag: (environment variable, default, compared with)"""
    cls = _class_def(tree)
    for n in ast.walk(cls) if cls else []:
        if isinstance(n, ast.Assign) and len(n.targets) == 1 and _self_attr(n.targets[0]) == "use_multiprocessing":
            v = n.value
            if isinstance(v, ast.Compare) and len(v.ops) == 1 and isinstance(v.ops[0], ast.Eq) \
                    and isinstance(v.comparators[0], ast.Constant) and isinstance(v.left, ast.Call) \
                    and isinstance(v.left.func, ast.Attribute) and v.left.func.attr == "getenv" \
                    and all(isinstance(a, ast.Constant) for a in v.left.args) and len(v.left.args) == 2:
                return (str(v.left.args[0].value), str(v.left.args[1].value), str(v.comparators[0].value))
            return ("?" + ast.dump(v)[:80], "", "")
    return None


# ------------------------------------------------------------------------------------- lock-order edges

def _is_locked_list(name):
    return "_locked_" in name


def _base(name):
    for sfx in ("_mp", "_th"):
        if name.endswith(sfx):
            return name[: -len(sfx)]
    return name


class _Order:
    def __init__(self, cls):
        self.methods = {fn.name: fn for fn in cls.body if isinstance(fn, ast.FunctionDef)}
        self.edges = set()
        self.memo = {}
        self.stack = []

    # --- expressions: calls in evaluation order (approximately source order)
    def calls(self, node):
        cs = [n for n in ast.walk(node) if isinstance(n, ast.Call)]
        cs.sort(key=lambda n: (getattr(n, "end_lineno", n.lineno), getattr(n, "end_col_offset", n.col_offset)))
        return cs

    def do_call(self, c, held):
        f = c.func
        if isinstance(f, ast.Attribute):
            obj = _self_attr(f.value)
            if obj is not None and _is_locked_list(obj) and f.attr == "append":
                lst = _base(obj)
                for h in held:
                    self.edges.add((h, lst))
                return held | {lst}
            if obj is not None and _is_locked_list(obj) and f.attr == "remove":
                return held - {_base(obj)}
            m = _self_attr(f)
            if m is not None and m in self.methods:
                return self.method(m, held)
        return held

    def expr(self, node, held):
        for c in self.calls(node):
            held = self.do_call(c, held)
        return held

    def method(self, name, held):
        key = (name, frozenset(held))
        if key in self.memo:
            return self.memo[key]
        if key in self.stack:
            return held
        self.stack.append(key)
        res = self.block(self.methods[name].body, set(held))
        self.stack.pop()
        self.memo[key] = res
        return res

    def block(self, stmts, held):
        for s in stmts:
            held = self.stmt(s, held)
        return held

    def stmt(self, s, held):
        if isinstance(s, (ast.FunctionDef, ast.ClassDef, ast.AsyncFunctionDef)):
            return held
        if isinstance(s, ast.If):
            held = self.expr(s.test, held)
            return self.block(s.body, set(held)) | self.block(s.orelse, set(held))
        if isinstance(s, (ast.For, ast.While)):
            held = self.expr(s.iter if isinstance(s, ast.For) else s.test, held)
            after = self.block(s.body, set(held))
            after2 = self.block(s.body, set(after | held))      # a second turn of the loop
            return held | after | after2 | self.block(s.orelse, set(held))
        if isinstance(s, ast.With):
            for it in s.items:
                held = self.expr(it.context_expr, held)
            return self.block(s.body, held)
        if isinstance(s, ast.Try):
            before = set(held)
            body = self.block(s.body, set(held))
            mid = before | body
            out = set(body)
            for h in s.handlers:
                out |= self.block(h.body, set(mid))
            out |= self.block(s.orelse, set(body))
            if s.finalbody:
                # edges of the finally block on the exceptional paths too; the state that goes on is
                # the one after a normal end
                self.block(s.finalbody, set(mid | out))
                out = self.block(s.finalbody, set(out))
            return out
        # simple statements: follow the calls
        return self.expr(s, held)


def lock_order_edges(tree):
    cls = _class_def(tree)
    if cls is None:
        return None
    o = _Order(cls)
    for name in sorted(o.methods):
        if name.startswith("__"):
            continue
        o.method(name, set())
    return sorted(o.edges)


# ------------------------------------------------------------------------------------- acquire sites

def _appended_list(stmts):
    """the locked-identifier list some statement of the block (mode sections looked into) appends to,
    with the appended variable: (list, var) or None"""
    for s in stmts:
        for n in ast.walk(s):
            if isinstance(n, ast.Call) and isinstance(n.func, ast.Attribute) and n.func.attr == "append":
                obj = _self_attr(n.func.value)
                if obj is not None and _is_locked_list(obj) and len(n.args) == 1:
                    return _base(obj), _var(n.args[0])
    return None


def _removed_lists(stmts, acquirers, releasers):
    """(list, var) pairs some statement of the block releases: inline `remove`, or a call of a release method"""
    out = set()
    for s in stmts:
        for n in ast.walk(s):
            if isinstance(n, ast.Call) and isinstance(n.func, ast.Attribute):
                obj = _self_attr(n.func.value)
                if n.func.attr == "remove" and obj is not None and _is_locked_list(obj) and len(n.args) == 1:
                    out.add((_base(obj), _var(n.args[0])))
                m = _self_attr(n.func)
                if m in releasers and len(n.args) == 1:
                    out.add((releasers[m], _var(n.args[0])))
    return out


def acquire_sites(tree):
    """[(function, list, variable, guard)] for every place where a method other than the acquire methods
    themselves claims an identifier: a call of an acquire method, or an inline acquire section.
    guard = 'finally-of-enclosing-try'  the statement stands at the head of the body of a `try` whose `finally`
                                         releases the same identifier of the same list (only claims, logging and
                                         message strings and path computations before it: nothing that can fail between the entry of the
                                         `try` and the claim, so the `finally` never releases what was not claimed)
            'finally-of-enclosing-try-but-not-at-its-head'  guarded, but something that can fail comes first
            'finally-of-next-try'       the very next statement is such a `try`
            'none'                      neither: an exception (or an early exit) in between leaks the claim"""
    cls = _class_def(tree)
    if cls is None:
        return None
    acquirers, releasers = {}, {}
    for fn in cls.body:
        if isinstance(fn, ast.FunctionDef):
            ap = _appended_list(fn.body)
            if fn.name.startswith("_synchronize_") and ap:
                acquirers[fn.name] = ap[0]
            if fn.name.startswith("_release_"):
                for n in ast.walk(fn):
                    if isinstance(n, ast.Call) and isinstance(n.func, ast.Attribute) and n.func.attr == "remove":
                        obj = _self_attr(n.func.value)
                        if obj is not None and _is_locked_list(obj):
                            releasers[fn.name] = _base(obj)
    out = []

    def claim_of(stmt):
        """(list, var) if the statement is a claim"""
        if isinstance(stmt, ast.Expr) and isinstance(stmt.value, ast.Call):
            m = _self_attr(stmt.value.func)
            if m in acquirers and len(stmt.value.args) == 1:
                return acquirers[m], _var(stmt.value.args[0])
        if isinstance(stmt, ast.If) and _is_mode_test(stmt.test):
            return _appended_list(stmt.body) or _appended_list(stmt.orelse)
        if isinstance(stmt, ast.With):
            return _appended_list(stmt.body)
        return None

    def quiet(stmt):
        """a statement that cannot fail between the entry of a `try` and a claim: logging, a message string"""
        if isinstance(stmt, ast.Expr) and isinstance(stmt.value, ast.Call) and _is_logging_call(stmt.value):
            return True
        if isinstance(stmt, ast.Expr) and isinstance(stmt.value, ast.Constant):
            return True
        if isinstance(stmt, ast.Assign) and _is_message(stmt.value):
            return True
        # a path computed from an identifier: string work, no file-system call
        if isinstance(stmt, ast.Assign) and isinstance(stmt.value, ast.Call):
            m = _self_attr(stmt.value.func)
            if m is not None and (m == "_get_store_path" or (m.startswith("_get_hashstore_") and m.endswith("_path"))):
                return True
        return False

    def walk(fname, stmts, enclosing, head=frozenset()):
        """enclosing: set of (list, var) released by the finally blocks of the enclosing try statements;
        head: those of them whose `try` body is `stmts` itself (so that position in the body can be judged)"""
        for idx, st in enumerate(stmts):
            c = claim_of(st)
            if c is not None:
                nxt = stmts[idx + 1] if idx + 1 < len(stmts) else None
                if c in enclosing:
                    # at the head of the guarding try: only claims and statements that cannot fail come before it
                    at_head = c in head and all(claim_of(x) is not None or quiet(x) for x in stmts[:idx])
                    g = "finally-of-enclosing-try" if at_head else "finally-of-enclosing-try-but-not-at-its-head"
                elif isinstance(nxt, ast.Try) and c in _removed_lists(nxt.finalbody, acquirers, releasers):
                    g = "finally-of-next-try"
                else:
                    g = "none"
                out.append((fname, c[0], c[1], g))
                continue
            if isinstance(st, ast.Try):
                rel = _removed_lists(st.finalbody, acquirers, releasers)
                walk(fname, st.body, enclosing | rel, frozenset(rel))
                for h in st.handlers:
                    walk(fname, h.body, enclosing)
                walk(fname, st.orelse, enclosing)
                walk(fname, st.finalbody, enclosing)
            elif isinstance(st, (ast.If, ast.For, ast.While)):
                walk(fname, st.body, enclosing)
                walk(fname, st.orelse, enclosing)
            elif isinstance(st, ast.With):
                walk(fname, st.body, enclosing)
            elif isinstance(st, (ast.FunctionDef, ast.AsyncFunctionDef)):
                walk(fname + "." + st.name, st.body, set())

    for fn in cls.body:
        if isinstance(fn, ast.FunctionDef) and fn.name not in acquirers and fn.name != "__init__":
            walk(fn.name, fn.body, set())
    return out


API_METHODS = ["store_object", "tag_object", "delete_if_invalid_object", "store_metadata", "retrieve_object",
               "retrieve_metadata", "delete_object", "delete_metadata", "get_hex_digest"]
LIST_ORDER = ["object_locked_pids", "reference_locked_pids", "object_locked_cids", "metadata_locked_docs"]


def public_acquires(tree):
    """[(API method, lists it may claim an identifier of, calls followed)] in the order of the classes"""
    cls = _class_def(tree)
    if cls is None:
        return None
    out = []
    for m in API_METHODS:
        o = _Order(cls)
        if m not in o.methods:
            out.append((m, ["?missing"]))
            continue
        acquired = set()
        orig = o.do_call

        def do_call(c, held, _orig=orig, _acq=acquired):
            r = _orig(c, held)
            _acq.update(r - held)
            return r
        o.do_call = do_call
        o.method(m, set())
        out.append((m, [x for x in LIST_ORDER if x in acquired] + sorted(x for x in acquired if x not in LIST_ORDER)))
    return out


def extract(src):
    tree = ast.parse(src)
    mp, th = init_tables(tree)
    return {"sections": sections(tree), "init_mp": mp, "init_th": th, "mode_flag": mode_flag(tree),
            "edges": lock_order_edges(tree), "sites": acquire_sites(tree), "public": public_acquires(tree)}


if __name__ == "__main__":
    import json, os, sys
    repo = os.environ.get("HASHSTORE_REPO", "/repo")
    print(json.dumps(extract(open(os.path.join(repo, "src", "hashstore", "filehashstore.py")).read()), indent=1))
