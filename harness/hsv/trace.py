"""Interception of the file-system primitives hashstore uses, restricted to one store root.
Applied from outside (monkeypatching) — no source hooks. Gives: the ordered primitive trace,
a callback after every mutating primitive (crash states), and single-fault injection."""
import builtins
import errno as _errno
import fcntl
import io
import os
import pathlib
import threading

MUTATING = {"mkdirs", "mkTmp", "removeTmp", "publish", "retire", "remove", "append", "rewrite", "truncate", "copy",
            "rename", "link", "rmdir"}
TMP_DIRS = ("objects/tmp", "metadata/tmp", "refs/tmp")


class FaultPlan:
    """the nth (0-based) primitive of `kind` addressed to `path` (relative to the root) fails with errno;
    persistent: every later primitive addressed to the same path fails too"""

    def __init__(self, kind, path, nth, persistent, err=_errno.EIO):
        self.kind, self.path, self.nth, self.persistent, self.err = kind, path, nth, persistent, err
        self.seen = 0
        self.fired = False

    def check(self, kind, path):
        if self.fired:
            return self.persistent and path == self.path
        if kind == self.kind and path == self.path:
            if self.seen == self.nth:
                self.fired = True
                self.seen += 1
                return True
            self.seen += 1
        return False


class _Proxy:
    """file object wrapper making write / truncate / close observable"""

    def __init__(self, tracer, f, rel, mode):
        self._t, self._f, self._rel, self._mode = tracer, f, rel, mode
        self._wrote = False

    def __getattr__(self, n):
        return getattr(self._f, n)

    def __iter__(self):
        return iter(self._f)

    def __enter__(self):
        self._f.__enter__()
        return self

    def __exit__(self, *a):
        self.close()
        return False

    def write(self, data):
        self._wrote = True
        if self._t.point_on_tmp_write and self._t.on_point and self._t.is_tmp(self._rel):
            # a scheduling point inside the filling of a temp file (enabled by C09's concurrent part only): what
            # another thread does to a temp file that is not private shows between two writes
            self._t.on_point("tmpWrite", self._rel)
        return self._f.write(data)

    def writelines(self, lines):
        self._wrote = True
        r = self._f.writelines(lines)
        if "+" in self._mode:
            self._f.flush()
            self._t.event("rewrite", self._rel)
            self._wrote = False
        return r

    def truncate(self, *a):
        r = self._f.truncate(*a)
        if "+" in self._mode:
            self._t.event("truncate", self._rel)
        return r

    def close(self):
        if self._f.closed:
            return
        self._f.close()
        if self._wrote and "a" in self._mode:
            self._t.event("append", self._rel)
        elif self._wrote and "w" in self._mode and not self._t.is_tmp(self._rel):
            self._t.event("copy", self._rel)


class Tracer:
    def __init__(self, root, fault=None, on_event=None, on_point=None, sort_listdir=True):
        self.root = os.path.realpath(root)
        self.fault = fault
        self.on_event = on_event        # called after every mutating primitive: on_event(kind, relpath)
        self.on_point = on_point        # called before every primitive (scheduling point): on_point(kind, relpath)
        self.events = []                # (kind, relpath) of every primitive, in order
        self.sites = []                 # (sitekind, relpath) fault sites passed, in order
        self.fd_path = {}
        self.on_flock_wait = None       # set by the thread scheduler: called when a flock would block
        self.sort_listdir = sort_listdir
        self.point_on_tmp_write = False
        self._depth = threading.local()
        self._saved = None

    # ------------------------------------------------------------------ helpers
    def rel(self, p):
        try:
            p = os.fspath(p)
        except TypeError:
            return None
        if isinstance(p, bytes):
            return None
        ap = os.path.abspath(p)
        if ap == self.root:
            return ""
        if ap.startswith(self.root + os.sep):
            return ap[len(self.root) + 1:].replace(os.sep, "/")
        return None

    @staticmethod
    def is_tmp(rel):
        return any(rel.startswith(t + "/") for t in TMP_DIRS)

    @staticmethod
    def tmp_dir(rel):
        for t in TMP_DIRS:
            if rel.startswith(t + "/") or rel == t:
                return t
        return None

    def target(self, rel):
        """the address a primitive on `rel` is compared by: tmp files are addressed by their directory"""
        return self.tmp_dir(rel) or rel

    def inner(self):
        return getattr(self._depth, "n", 0) > 0

    def site(self, kind, rel):
        """a fault site: may raise"""
        tgt = self.target(rel)
        if self.on_point:
            self.on_point(kind, tgt)
        self.sites.append((kind, tgt))
        if self.fault is not None and self.fault.check(kind, tgt):
            raise OSError(self.fault.err, os.strerror(self.fault.err) + " (injected)", os.path.join(self.root, rel))

    def event(self, kind, rel):
        tgt = self.target(rel) if kind in ("mkTmp", "removeTmp") else rel
        self.events.append((kind, tgt))
        if kind in MUTATING and self.on_event:
            self.on_event(kind, tgt)

    # ------------------------------------------------------------------ patched primitives
    def _rename(self, src, dst, *a, **k):
        rs, rd = self.rel(src), self.rel(dst)
        if rd is None or rs is None:
            return self._saved["os.rename"](src, dst, *a, **k)
        self.site("rename", rd)
        r = self._saved["os.rename"](src, dst, *a, **k)
        if self.is_tmp(rs):
            self.event("publish", rd)
        elif rd.endswith("_delete"):
            self.event("retire", rs)
        else:
            self.event("rename", rd)
        return r

    def _link(self, src, dst, *a, **k):
        """os.link / os.symlink: a new name appears at `dst` (the unchanged code never links)"""
        rd = self.rel(dst)
        if rd is None:
            return self._saved["os.link"](src, dst, *a, **k)
        self.site("rename", rd)          # a scheduling point and a fault site like the move it stands in for
        r = self._saved["os.link"](src, dst, *a, **k)
        self.event("link", rd)
        return r

    def _symlink(self, src, dst, *a, **k):
        rd = self.rel(dst)
        if rd is None:
            return self._saved["os.symlink"](src, dst, *a, **k)
        self.site("rename", rd)
        r = self._saved["os.symlink"](src, dst, *a, **k)
        self.event("link", rd)
        return r

    def _rmdir(self, path, *a, **k):
        r = self.rel(path)
        if r is None:
            return self._saved["os.rmdir"](path, *a, **k)
        self.site("remove", r)
        res = self._saved["os.rmdir"](path, *a, **k)
        self.event("rmdir", r)
        return res

    def _truncate_path(self, path, length):
        r = self.rel(path) if not isinstance(path, int) else self.fd_path.get(path)
        if r is None:
            return self._saved["os.truncate"](path, length)
        self.site("openWrite", r)
        res = self._saved["os.truncate"](path, length)
        self.event("truncate" if self.is_tmp(r) else "copy", r)
        return res

    def _remove(self, path, *a, **k):
        r = self.rel(path)
        if r is None:
            return self._saved["os.remove"](path, *a, **k)
        self.site("remove", r)
        res = self._saved["os.remove"](path, *a, **k)
        self.event("removeTmp" if self.is_tmp(r) else "remove", r)
        return res

    def _makedirs(self, name, mode=0o777, exist_ok=False):
        r = self.rel(name)
        if r is None or self.inner():
            return self._saved["os.makedirs"](name, mode, exist_ok)
        self.site("mkdirs", r)
        self._depth.n = getattr(self._depth, "n", 0) + 1
        try:
            try:
                return self._saved["os.makedirs"](name, mode, exist_ok)
            finally:
                self._depth.n -= 1
                self.event("mkdirs", r)
        except FileExistsError:
            raise

    def _path_mkdir(self, pself, mode=0o777, parents=False, exist_ok=False):
        r = self.rel(pself)
        if r is None or self.inner():
            return self._saved["Path.mkdir"](pself, mode, parents, exist_ok)
        self.site("mkdirs", r)
        self._depth.n = getattr(self._depth, "n", 0) + 1
        try:
            return self._saved["Path.mkdir"](pself, mode, parents, exist_ok)
        finally:
            self._depth.n -= 1
            self.event("mkdirs", r)

    def _os_open(self, path, flags, mode=0o777, *a, **k):
        r = self.rel(path)
        if r is None:
            return self._saved["os.open"](path, flags, mode, *a, **k)
        creating = bool(flags & os.O_CREAT) and bool(flags & os.O_EXCL)
        if creating and self.is_tmp(r):
            self.site("mkTmp", r)
            fd = self._saved["os.open"](path, flags, mode, *a, **k)
            self.fd_path[fd] = r
            self.event("mkTmp", r)
            return fd
        if flags & (os.O_CREAT | os.O_WRONLY | os.O_RDWR | os.O_TRUNC) and not self.is_tmp(r) and \
                r not in ("hashstore.yaml", "python_client.log"):
            # a permanent path created or opened for writing through a raw descriptor: an in-place write
            existed = os.path.exists(path)
            self.site("openWrite", r)
            fd = self._saved["os.open"](path, flags, mode, *a, **k)
            self.fd_path[fd] = r
            if not existed or flags & os.O_TRUNC:
                self.event("copy", r)
            return fd
        return self._saved["os.open"](path, flags, mode, *a, **k)

    def _open(self, file, mode="r", *a, **k):
        if isinstance(file, int) or k.get("opener") is not None:
            # an already-open descriptor, or tempfile's opener (its os.open is seen as mkTmp)
            return self._saved["open"](file, mode, *a, **k)
        r = self.rel(file)
        if r is None or r in ("hashstore.yaml", "python_client.log"):
            return self._saved["open"](file, mode, *a, **k)
        writing = any(c in mode for c in "wa+x")
        if writing:
            self.site("openWrite", r)
        else:
            self.site("openRead", r)
        f = self._saved["open"](file, mode, *a, **k)
        try:
            self.fd_path[f.fileno()] = r
        except Exception:
            pass
        if writing:
            if ("w" in mode or "x" in mode) and not self.is_tmp(r):
                # a permanent path was just created or emptied in place: a state a crash or a reader can see
                self.event("copy", r)
                # ... and a point at which another thread may run: the file is there and empty
                self.site("truncated", r)
                px = _Proxy(self, f, r, mode)
                px._wrote = True          # whatever reaches the file (write(), sendfile on the descriptor) ends at close
                return px
            return _Proxy(self, f, r, mode)
        self.events.append(("read", r))
        return f

    def _flock(self, fd, op):
        r = self.fd_path.get(fd if isinstance(fd, int) else fd.fileno())
        if r is not None:
            self.site("flock", r)
        import fcntl as _fcntl
        if self.on_flock_wait is not None and r is not None and (op & (_fcntl.LOCK_EX | _fcntl.LOCK_SH)) and not (op & _fcntl.LOCK_NB):
            # under the thread scheduler a blocking flock must not block the process: the holder may be a worker
            # parked at a scheduling point. Try without blocking; tell the scheduler when the file is held.
            while True:
                try:
                    return self._saved["fcntl.flock"](fd, op | _fcntl.LOCK_NB)
                except BlockingIOError:
                    self.on_flock_wait(r)
        return self._saved["fcntl.flock"](fd, op)

    def _listdir(self, path="."):
        res = self._saved["os.listdir"](path)
        if self.sort_listdir and self.rel(path) is not None:
            return sorted(res)
        return res

    # ------------------------------------------------------------------ install / remove
    def __enter__(self):
        self._saved = {
            "os.rename": os.rename, "os.remove": os.remove, "os.unlink": os.unlink, "os.makedirs": os.makedirs,
            "Path.mkdir": pathlib.Path.mkdir, "os.open": os.open, "open": builtins.open, "io.open": io.open,
            "fcntl.flock": fcntl.flock, "os.listdir": os.listdir, "os.replace": os.replace, "os.link": os.link,
            "os.symlink": os.symlink, "os.rmdir": os.rmdir, "os.truncate": os.truncate,
        }
        os.replace = self._rename           # _rename calls the saved os.rename: same system call family
        os.link = self._link
        os.symlink = self._symlink
        os.rmdir = self._rmdir
        os.truncate = self._truncate_path
        os.rename = self._rename
        os.remove = self._remove
        os.unlink = self._remove
        os.makedirs = self._makedirs
        pathlib.Path.mkdir = lambda pself, mode=0o777, parents=False, exist_ok=False: self._path_mkdir(pself, mode, parents, exist_ok)
        os.open = self._os_open
        builtins.open = self._open
        io.open = self._open
        fcntl.flock = self._flock
        os.listdir = self._listdir
        return self

    def __exit__(self, *a):
        s = self._saved
        os.rename, os.remove, os.unlink, os.makedirs = s["os.rename"], s["os.remove"], s["os.unlink"], s["os.makedirs"]
        pathlib.Path.mkdir = s["Path.mkdir"]
        os.open, builtins.open, io.open = s["os.open"], s["open"], s["io.open"]
        fcntl.flock, os.listdir = s["fcntl.flock"], s["os.listdir"]
        os.replace, os.link, os.symlink, os.rmdir, os.truncate = \
            s["os.replace"], s["os.link"], s["os.symlink"], s["os.rmdir"], s["os.truncate"]
        return False
