/-
  Driver — line protocol around the executable model (no proofs here).
  One request per line on stdin, one or more answer lines on stdout.
  Strings are sent as '.'-joined decimal code points ("-" = empty string).
-/
import HSModel.Spec
import HSModel.Config
import HSModel.Cli
import HSModel.Conc
open HS

def decStr (s : String) : Option Str :=
  if s == "-" then some []
  else (s.splitOn ".").mapM fun p => p.toNat?.map Char.ofNat

def encStr (s : Str) : String :=
  if s.isEmpty then "-" else ".".intercalate (s.map fun c => toString c.toNat)

def decSArg (s : String) : Option SArg :=
  if s == "N" then some .none else if s == "O" then some .other
  else if s.startsWith "S:" then (decStr (s.drop 2).toString).map .str else none

def decIArg (s : String) : Option IArg :=
  if s == "N" then some .none else if s == "O" then some .other
  else if s.startsWith "I:" then ((s.drop 2).toString.toInt?).map .int else none

def decData (s : String) : Option DataArg :=
  if s == "B" then some .bad else if s == "K" then some .blankStr
  else if s == "F" then some .noFile
  else if s.startsWith "T:" then ((s.drop 2).toString.toNat?).map .ok else none

def decPairs (s : String) : Option (List (Str × Str)) :=
  if s == "-" then some [] else
  (s.splitOn ",").mapM fun kv => match kv.splitOn "=" with
    | [k, v] => do pure ((← decStr k), (← decStr v))
    | _ => none

def decObjMeta (s : String) : Option (Option ObjMeta) :=
  if s == "N" then some none
  else match s.splitOn ":" with
    | ["M", cid, size, ds] => do
        pure (some { cid := (← decStr cid), size := (← size.toNat?), digests := (← decPairs ds) })
    | _ => none

structure Tables where
  hId : List (Str × Str) := []
  dig : List ((Str × Tok) × Str) := []
  size : List (Tok × Nat) := []

def missing : Str := "!missing!".toList

def Tables.oracle (t : Tables) : Oracle :=
  { hId := fun s => ((t.hId.find? (·.1 = s)).map (·.2)).getD (missing ++ s)
    dig := fun a c => ((t.dig.find? (·.1 = (a, c))).map (·.2)).getD missing
    size := fun c => ((t.size.find? (·.1 = c)).map (·.2)).getD 999999999 }

structure DState where
  cfg : Config := { depth := 3, width := 2, alg := "sha256".toList, ns := [] }
  tabs : Tables := {}
  w : World := { st := Store.empty }
  a : Abs := Abs.empty

def decCall (ws : List String) : Option Call :=
  match ws with
  | ["store_object", p, d, a, c, ca, s] => do
      pure (.storeObject (← decSArg p) (← decData d) (← decSArg a) (← decSArg c) (← decSArg ca) (← decIArg s))
  | ["tag_object", p, c] => do pure (.tagObject (← decSArg p) (← decSArg c))
  | ["delete_if_invalid_object", om, c, ca, s] => do
      pure (.deleteIfInvalid (← decObjMeta om) (← decSArg c) (← decSArg ca) (← decIArg s))
  | ["store_metadata", p, d, f] => do pure (.storeMetadata (← decSArg p) (← decData d) (← decSArg f))
  | ["retrieve_object", p] => do pure (.retrieveObject (← decSArg p))
  | ["retrieve_metadata", p, f] => do pure (.retrieveMetadata (← decSArg p) (← decSArg f))
  | ["delete_object", p] => do pure (.deleteObject (← decSArg p))
  | ["delete_metadata", p, f] => do pure (.deleteMetadata (← decSArg p) (← decSArg f))
  | ["get_hex_digest", p, a] => do pure (.getHexDigest (← decSArg p) (← decSArg a))
  | _ => none

def strOf (s : Str) : String := String.ofList s

def pathStr (cfg : Config) (l : Loc) : String :=
  "/".intercalate ((l.path cfg.depth cfg.width).map strOf)

def showPairs (l : List (Str × Str)) : String :=
  let l := l.toArray.qsort (fun a b => strOf a.1 < strOf b.1) |>.toList
  ",".intercalate (l.map fun kv => strOf kv.1 ++ "=" ++ strOf kv.2)

def showVal (cfg : Config) : Val → String
  | .unit => "unit"
  | .objMeta m => s!"meta cid={strOf m.cid} size={m.size} digests={showPairs m.digests}"
  | .content t => s!"content tok:{t}"
  | .path l => s!"path {pathStr cfg l}"
  | .hex s => s!"hex {strOf s}"

def showResult (cfg : Config) : Except Exc Val → String
  | .ok v => "ok " ++ showVal cfg v
  | .error e => "err " ++ e.name

/-- proper directory prefixes created by `mkdirs` for (area, key) -/
def dirLines (cfg : Config) (a : Area) (k : Str) : List String :=
  let base := a.dir
  let toks := (shardPy cfg.depth cfg.width k).map strOf
  let toks := match a with
    | .mdata => toks
    | _ => toks.dropLast
  (List.range toks.length).map fun i => "/".intercalate (base ++ toks.take (i + 1))

def stateLines (cfg : Config) (s : Store) : List String :=
  let fs :=
    (s.objs.entries.map fun (c, t) => s!"F {pathStr cfg (.obj c)} tok:{t}") ++
    (s.pidRefs.entries.map fun (k, x) => s!"F {pathStr cfg (.pidRef k)} text:{encStr x}") ++
    (s.cidRefs.entries.map fun (c, x) => s!"F {pathStr cfg (.cidRef c)} text:{encStr x}") ++
    (s.mdocs.entries.map fun ((d, n), t) => s!"F {pathStr cfg (.mdoc d n)} tok:{t}") ++
    [s!"T objects/tmp {s.tmpObj}", s!"T metadata/tmp {s.tmpMeta}", s!"T refs/tmp {s.tmpRefs}"]
  let ds := (s.dirs.flatMap fun (a, k) => dirLines cfg a k).eraseDups.map fun d => "D " ++ d
  (fs ++ ds).toArray.qsort (· < ·) |>.toList

def absLines (a : Abs) : List String :=
  let ls :=
    (a.objs.entries.map fun (c, t) => s!"O {strOf c} tok:{t}") ++
    (a.bind.entries.map fun (p, c) => s!"B {encStr p} {strOf c}") ++
    (a.docs.entries.map fun ((p, f), t) => s!"M {encStr p} {encStr f} tok:{t}")
  ls.toArray.qsort (· < ·) |>.toList

def showLocks (l : Locks) : String :=
  let f (xs : List Str) := ",".intercalate (xs.map encStr)
  s!"locks objPid=[{f l.objPid}] refPid=[{f l.refPid}] cid=[{f l.cid}] doc=[{f l.doc}]"

def decKind : String → Option SiteKind
  | "mkdirs" => some .mkdirs | "mkTmp" => some .mkTmp | "openWrite" => some .openWrite
  | "rename" => some .rename | "remove" => some .remove | "flock" => some .flock
  | "openRead" => some .openRead | _ => none

def decArea : String → Option Area
  | "obj" => some .obj | "pidRef" => some .pidRef | "cidRef" => some .cidRef
  | "mdata" => some .mdata | _ => none
def decTmpArea : String → Option TmpArea
  | "obj" => some .obj | "mdata" => some .mdata | "refs" => some .refs | _ => none

def decLoc : List String → Option Loc
  | ["obj", c] => (decStr c).map .obj
  | ["pidRef", k] => (decStr k).map .pidRef
  | ["cidRef", c] => (decStr c).map .cidRef
  | ["mdoc", d, n] => do pure (.mdoc (← decStr d) (← decStr n))
  | _ => none

def decTarget : List String → Option Target
  | "loc" :: r => (decLoc r).map .loc
  | ["dir", a, k] => do pure (.dir (← decArea a) (← decStr k))
  | ["tmp", a] => (decTmpArea a).map .tmp
  | _ => none

def showLoc (cfg : Config) (l : Loc) : String := pathStr cfg l

def showEff (cfg : Config) : Eff → String
  | .mkdirs a k => s!"mkdirs {"/".intercalate (dirLines cfg a k).reverse.head?.toList}"
  | .mkTmp a => s!"mkTmp {"/".intercalate a.dir}"
  | .removeTmp a => s!"removeTmp {"/".intercalate a.dir}"
  | .publishObj c _ => s!"publish {showLoc cfg (.obj c)}"
  | .publishDoc d n _ => s!"publish {showLoc cfg (.mdoc d n)}"
  | .publishPidRef k _ => s!"publish {showLoc cfg (.pidRef k)}"
  | .publishCidRef c _ => s!"publish {showLoc cfg (.cidRef c)}"
  | .retire l => s!"retire {showLoc cfg l}"
  | .remove l => s!"remove {showLoc cfg l}"
  | .appendCid c _ => s!"append {showLoc cfg (.cidRef c)}"
  | .rewriteCid c _ => s!"rewrite {showLoc cfg (.cidRef c)}"
  | .truncateCid c _ => s!"truncate {showLoc cfg (.cidRef c)}"

def decOptInt (s : String) : Option (Option Int) :=
  if s == "X" then some none else s.toInt?.map some

def decPropVal (s : String) : Option PropVal :=
  if s == "M" then some .missing else if s == "N" then some .none
  else match s.splitOn ":" with
    | ["I", i] => i.toInt?.map .int
    | ["S", x, a] => do pure (.str (← decStr x) (← decOptInt a))
    | ["O", a] => (decOptInt a).map .other
    | _ => none

def decExisting (s : String) : Option Existing :=
  match s.splitOn ":" with
  | ["Y", d, w, a, n] => do pure (.yaml (← d.toInt?) (← w.toInt?) (← decStr a) (← decStr n))
  | ["N", r, dd] => some (.noYaml (r == "1") (dd == "1"))
  | _ => none

def showPropVal : PropVal → String
  | .missing => "M" | .none => "N" | .int i => s!"I:{i}"
  | .str s _ => "S:" ++ encStr s | .other _ => "O"

def showOpen : OpenResult → String
  | .refused e => "err " ++ e.name
  | .opened => "ok opened"
  | .created d w a n => s!"ok created {d} {w} {strOf a} {showPropVal n}"

def encSArg : SArg → String
  | .none => "N" | .other => "O" | .str s => "S:" ++ encStr s
def encIArg : IArg → String
  | .none => "N" | .other => "O" | .int i => s!"I:{i}"
def encData : DataArg → String
  | .bad => "B" | .blankStr => "K" | .noFile => "F" | .ok t => s!"T:{t}"

def encCall : Call → String
  | .storeObject p d a c ca s => s!"store_object {encSArg p} {encData d} {encSArg a} {encSArg c} {encSArg ca} {encIArg s}"
  | .tagObject p c => s!"tag_object {encSArg p} {encSArg c}"
  | .deleteIfInvalid _ c ca s => s!"delete_if_invalid_object ? {encSArg c} {encSArg ca} {encIArg s}"
  | .storeMetadata p d f => s!"store_metadata {encSArg p} {encData d} {encSArg f}"
  | .retrieveObject p => s!"retrieve_object {encSArg p}"
  | .retrieveMetadata p f => s!"retrieve_metadata {encSArg p} {encSArg f}"
  | .deleteObject p => s!"delete_object {encSArg p}"
  | .deleteMetadata p f => s!"delete_metadata {encSArg p} {encSArg f}"
  | .getHexDigest p a => s!"get_hex_digest {encSArg p} {encSArg a}"

def decOptStr (s : String) : Option (Option Str) :=
  if s == "N" then some none
  else if s.startsWith "S:" then (decStr (s.drop 2).toString).map some else none

def decVerb : String → Option Verb
  | "getchecksum" => some .getchecksum | "storeobject" => some .storeobject
  | "storemetadata" => some .storemetadata | "retrieveobject" => some .retrieveobject
  | "retrievemetadata" => some .retrievemetadata | "deleteobject" => some .deleteobject
  | "deletemetadata" => some .deletemetadata | _ => none

def showKind : SiteKind → String
  | .mkdirs => "mkdirs" | .mkTmp => "mkTmp" | .openWrite => "openWrite" | .rename => "rename"
  | .remove => "remove" | .flock => "flock" | .openRead => "openRead"

def showArea : Area → String
  | .obj => "obj" | .pidRef => "pidRef" | .cidRef => "cidRef" | .mdata => "mdata"
def showTmpArea : TmpArea → String
  | .obj => "obj" | .mdata => "mdata" | .refs => "refs"

def encLoc : Loc → String
  | .obj c => "obj " ++ encStr c | .pidRef k => "pidRef " ++ encStr k
  | .cidRef c => "cidRef " ++ encStr c | .mdoc d n => s!"mdoc {encStr d} {encStr n}"

def encTarget : Target → String
  | .loc l => "loc " ++ encLoc l
  | .dir a k => s!"dir {showArea a} {encStr k}"
  | .tmp a => "tmp " ++ showTmpArea a

def targetPath (cfg : Config) : Target → String
  | .loc l => pathStr cfg l
  | .dir a k => (dirLines cfg a k).getLast?.getD ("/".intercalate a.dir)
  | .tmp a => "/".intercalate a.dir

def handle (st : DState) (line : String) : DState × List String :=
  let ws := (line.trimAscii.toString.splitOn " ").filter (· ≠ "")
  match ws with
  | ["cfg", d, w, a, ns] =>
    match d.toNat?, w.toNat?, decStr a, decStr ns with
    | some d, some w, some a, some ns =>
      ({ st with cfg := { depth := d, width := w, alg := a, ns := ns }, w := { st := Store.empty }, a := Abs.empty }, ["ok"])
    | _, _, _, _ => (st, ["bad-op"])
  | ["reset"] => ({ st with w := { st := Store.empty }, a := Abs.empty }, ["ok"])
  | ["H", s, h] =>
    match decStr s, decStr h with
    | some s, some h => ({ st with tabs := { st.tabs with hId := (s, h) :: st.tabs.hId } }, [])
    | _, _ => (st, ["bad-op"])
  | ["D", a, t, h] =>
    match decStr a, t.toNat?, decStr h with
    | some a, some t, some h => ({ st with tabs := { st.tabs with dig := ((a, t), h) :: st.tabs.dig } }, [])
    | _, _, _ => (st, ["bad-op"])
  | ["S", t, n] =>
    match t.toNat?, n.toNat? with
    | some t, some n => ({ st with tabs := { st.tabs with size := (t, n) :: st.tabs.size } }, [])
    | _, _ => (st, ["bad-op"])
  | "call" :: r =>
    match decCall r with
    | none => (st, ["bad-op"])
    | some c =>
      let w0 := { st.w with log := [] }
      let (res, w') := (c.prog st.cfg st.tabs.oracle).run w0
      ({ st with w := { w' with fault := none } }, [showResult st.cfg res])
  | "crash" :: n :: r =>
    match n.toNat?, decCall r with
    | some n, some c =>
      let w0 := { st.w with log := [] }
      let (res, w') := Prog.crashAt n (c.prog st.cfg st.tabs.oracle) w0
      let out := match res with
        | none => "crashed"
        | some r => "completed " ++ showResult st.cfg r
      ({ st with w := { w' with lk := {}, fault := none } }, [out])
    | _, _ => (st, ["bad-op"])
  | "fault" :: k :: n :: p :: tgt =>
    match decKind k, n.toNat?, decTarget tgt with
    | some k, some n, some t =>
      ({ st with w := { st.w with fault := some { kind := k, target := t, nth := n, persistent := p == "P" } } }, ["ok"])
    | _, _, _ => (st, ["bad-op"])
  | "scall" :: r =>
    match decCall r with
    | none => (st, ["bad-op"])
    | some c =>
      let (res, a') := Abs.step st.cfg st.tabs.oracle st.a c
      ({ st with a := a' }, [showResult st.cfg res])
  | ["open", ex, pa, de, wi, al, ns] =>
    match decExisting ex, decPropVal pa, decPropVal de, decPropVal wi, decPropVal al, decPropVal ns with
    | some ex, some pa, some de, some wi, some al, some ns =>
      (st, [showOpen (openStore ex { path := pa, depth := de, width := wi, alg := al, ns := ns })])
    | _, _, _, _, _, _ => (st, ["bad-op"])
  | ["dispatch", df, vs, pid, path, algo, cks, ca, sz, fmt] =>
    let verbs := if vs == "-" then some [] else (vs.splitOn ",").mapM decVerb
    let pathD : Option (Option DataArg) := if path == "N" then some none else (decData path).map some
    match decStr df, verbs, decOptStr pid, pathD, decOptStr algo, decOptStr cks, decOptStr ca, decOptStr sz, decOptStr fmt with
    | some df, some verbs, some pid, some pathD, some algo, some cks, some ca, some sz, some fmt =>
      let o : CliOpts := { verbs := verbs, pid := pid, path := pathD, algo := algo, checksum := cks,
                           checksumAlgo := ca, objSize := sz, formatid := fmt }
      (st, [match dispatch df o with
        | .error e => "err " ++ e.name
        | .ok none => "none"
        | .ok (some c) => "call " ++ encCall c])
    | _, _, _, _, _, _, _, _, _ => (st, ["bad-op"])
  | ["pyint", x] =>
    match decStr x with
    | some x => (st, [match pyIntStr x with | some i => s!"{i}" | none => "X"])
    | none => (st, ["bad-op"])
  | ["shard", d, w, x] =>
    match d.toNat?, w.toNat?, decStr x with
    | some d, some w, some x => (st, ["shard " ++ "/".intercalate ((shardPy d w x).map strOf)])
    | _, _, _ => (st, ["bad-op"])
  | ["clean", x] =>
    match decStr x with
    | some x => (st, [match cleanAlgorithm x with | .ok c => "ok " ++ strOf c | .error e => "err " ++ e.name])
    | none => (st, ["bad-op"])
  | ["isspace", n] =>
    match n.toNat? with
    | some n => (st, [if isSpace (Char.ofNat n) then "1" else "0"])
    | none => (st, ["bad-op"])
  | ["sstate"] => (st, absLines st.a ++ ["."])
  | "conc" :: sched :: r =>
    -- conc <i.j.k…|-> call … ;; call … ;; …
    let callsStr := (" ".intercalate r).splitOn " ;; "
    let calls := callsStr.mapM fun cs => decCall ((cs.splitOn " ").filter (· ≠ ""))
    let sch : Option (List Nat) := if sched == "-" then some [] else (sched.splitOn ".").mapM (·.toNat?)
    match calls, sch with
    | some calls, some sch =>
      let c0 : Conf := { w := { st.w with log := [], fault := none },
                         ts := calls.map fun c => TState.fresh (c.prog st.cfg st.tabs.oracle) }
      let (c1, used) := runSchedule 100000 c0 sch 0
      let res := c1.ts.map fun t => match t with
        | .finished r => showResult st.cfg r
        | .fresh _ => "pending fresh"
        | .at e _ => if (TState.at e (fun _ => .ret (.error .modelBug))).enabled c1.w then "pending ready" else "pending blocked"
      ({ st with w := c1.w },
        res ++ [s!"used {used}", s!"finished {c1.allFinished}", s!"anyEnabled {c1.anyEnabled}", "."])
    | _, _ => (st, ["bad-op"])
  | "snaps" :: r =>
    match decCall r with
    | none => (st, ["bad-op"])
    | some c =>
      let (res, _, snaps) := Prog.runSnap (c.prog st.cfg st.tabs.oracle) { st.w with log := [], fault := none } []
      (st, (snaps.flatMap fun s => stateLines st.cfg s ++ ["--"]) ++ [showResult st.cfg res, "."])
  | "sites" :: r =>
    match decCall r with
    | none => (st, ["bad-op"])
    | some c =>
      let (_, _, evs) := Prog.runLog (c.prog st.cfg st.tabs.oracle) { st.w with log := [], fault := none } []
      let ls := evs.flatMap fun e => e.sites.map fun (k, t) =>
        s!"{showKind k}|{targetPath st.cfg t}|{encTarget t}"
      (st, ls ++ ["."])
  | ["state"] => (st, stateLines st.cfg st.w.st ++ ["."])
  | ["log"] => (st, st.w.log.map (showEff st.cfg) ++ ["."])
  | ["locks"] => (st, [showLocks st.w.lk])
  | [] => (st, [])
  | _ => (st, ["bad-op"])

partial def loop (h : IO.FS.Stream) (out : IO.FS.Stream) (st : DState) : IO Unit := do
  let line ← h.getLine
  if line.isEmpty then return ()
  let (st', outs) := handle st line
  for o in outs do out.putStrLn o
  out.flush
  loop h out st'

def main : IO Unit := do
  loop (← IO.getStdin) (← IO.getStdout) {}
