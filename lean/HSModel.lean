-- This module serves as the root of the `HSModel` library.
-- Import modules here that should be built as part of the library.
import HSModel.Basic
