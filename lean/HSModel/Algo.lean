/-
  HSModel.Algo — algorithm tables and normalisation
  (`_clean_algorithm` 2183-2207, `_check_arg_algorithms_and_checksum` 2097-2127,
   `_refine_algorithm_list` 2149-2181, `_set_default_algorithms` 469-505).
  The tables are re-extracted from the source on every run into
  `Generated.lean`; `Props/Tables.lean` proves they equal the ones below.
-/
import HSModel.Types
namespace HS

def defaultAlgos : List Str :=
  ["md5".toList, "sha1".toList, "sha256".toList, "sha384".toList, "sha512".toList]

def otherAlgos : List Str :=
  ["sha224".toList, "sha3_224".toList, "sha3_256".toList, "sha3_384".toList,
   "sha3_512".toList, "blake2b".toList, "blake2s".toList]

def supportedAlgos : List Str := defaultAlgos ++ otherAlgos

/-- DataONE controlled names accepted as store algorithm, with their hashlib
    translation (`lookup_algo`). -/
def dataoneAlgos : List (Str × Str) :=
  [("MD5".toList, "md5".toList), ("SHA-1".toList, "sha1".toList),
   ("SHA-256".toList, "sha256".toList), ("SHA-384".toList, "sha384".toList),
   ("SHA-512".toList, "sha512".toList)]

def lookupAlgo (a : Str) : Option Str := (dataoneAlgos.find? (·.1 = a)).map (·.2)

def digitCount (s : Str) : Nat := (s.filter isAsciiDigit).length

/-- the string transformation of `_clean_algorithm` before the support test -/
def cleanString (s : Str) : Str :=
  if digitCount s > 3 then (lower s).map (fun c => if c = '-' then '_' else c)
  else (lower s).filter (fun c => c ≠ '-' ∧ c ≠ '_')

/-- `_clean_algorithm`; `dflt` is the instance's current default list. -/
def cleanAlgorithmWith (dflt : List Str) (s : Str) : Except Exc Str :=
  let c := cleanString s
  if c ∈ dflt ∨ c ∈ otherAlgos then .ok c else .error .unsupportedAlgorithm

def cleanAlgorithm (s : Str) : Except Exc Str := cleanAlgorithmWith defaultAlgos s

/-- `_check_arg_algorithms_and_checksum(additional, checksum, checksum_algorithm)`
    with store algorithm (hashlib name) `alg`. Returns the two cleaned names. -/
def checkArgAlgorithmsAndChecksum (alg : Str) (additional checksum csAlg : SArg) :
    Except Exc (Option Str × Option Str) := do
  let add' ← match additional with
    | .none => pure none
    | .other => throw Exc.typeError            -- `for char in <non-string>`
    | .str a => if a = alg then pure none else (cleanAlgorithm a).map some
  match checksum with
    | .none => pure ()
    | _ => let _ ← checkString csAlg; pure ()
  let cs' ← match csAlg with
    | .none => pure none
    | .other => (do let _ ← checkString checksum; throw Exc.typeError)
    | .str a => do
        let _ ← checkString checksum
        (cleanAlgorithm a).map some
  pure (add', cs')

/-- `_refine_algorithm_list` (repaired: works on a copy of the instance list).
    Arguments are already-cleaned names. The result is a *set* in Python; the
    model keeps a duplicate-free list in a canonical order (defaults, then
    checksum algorithm, then additional algorithm). -/
def refineAlgorithmList (dflt : List Str) (additional csAlg : Option Str) : List Str :=
  let l1 := match csAlg with
    | some c => if c ∈ otherAlgos ∧ c ∉ dflt then dflt ++ [c] else dflt
    | none => dflt
  match additional with
    | some a => if a ∈ otherAlgos ∧ a ∉ l1 then l1 ++ [a] else l1
    | none => l1

/-- As found at the pinned commit: the per-call list *is* the instance list, so
    appended names persist on the instance. Returns (per-call key list, new
    instance list). Kept only to state the refutation of C02 for the as-found
    code (`Props/C02.lean`). -/
def refineAsFound (inst : List Str) (additional csAlg : Option Str) : List Str × List Str :=
  let l1 := match csAlg with
    | some c => if c ∈ otherAlgos then inst ++ [c] else inst
    | none => inst
  let l2 := match additional with
    | some a => if a ∈ otherAlgos then l1 ++ [a] else l1
    | none => l1
  (l2.eraseDups, l2)

end HS
