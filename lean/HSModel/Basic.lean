def hello := "world"
