/-
  HSModel.Basic — strings as `List Char`, finite maps as association lists.
  No imports outside core: every model file must stay Mathlib-free so that the
  driver can be run with plain `lean --run`.
-/
namespace HS

/-- Strings of the model. `List Char` keeps proofs inside core `List` lemmas. -/
abbrev Str := List Char

/-- Content token: the model never looks inside a byte content; the harness maps
    tokens to actual bytes and supplies digests/sizes through the `Oracle`. -/
abbrev Tok := Nat

/-- Finite map as association list; `get` returns the first binding. -/
structure FMap (K : Type) (V : Type) where
  entries : List (K × V)
  deriving Repr

namespace FMap
variable {K V : Type} [DecidableEq K]

def empty : FMap K V := ⟨[]⟩

def getL : List (K × V) → K → Option V
  | [], _ => none
  | (k', v) :: r, k => if k' = k then some v else getL r k

def get (m : FMap K V) (k : K) : Option V := getL m.entries k

def delL : List (K × V) → K → List (K × V)
  | [], _ => []
  | (k', v) :: r, k => if k' = k then delL r k else (k', v) :: delL r k

def del (m : FMap K V) (k : K) : FMap K V := ⟨delL m.entries k⟩

def set (m : FMap K V) (k : K) (v : V) : FMap K V := ⟨(k, v) :: delL m.entries k⟩

def contains (m : FMap K V) (k : K) : Bool := (m.get k).isSome

def keys (m : FMap K V) : List K := m.entries.map (·.1)

theorem getL_delL_self (l : List (K × V)) (k : K) : getL (delL l k) k = none := by
  induction l with
  | nil => rfl
  | cons a r ih =>
    obtain ⟨k', v⟩ := a
    by_cases h : k' = k
    · simp [delL, h, ih]
    · simp [delL, getL, h, ih]

theorem getL_delL_ne (l : List (K × V)) (k j : K) (h : k ≠ j) :
    getL (delL l k) j = getL l j := by
  induction l with
  | nil => rfl
  | cons a r ih =>
    obtain ⟨k', v⟩ := a
    by_cases h1 : k' = k
    · subst h1
      simp [delL, getL, h, ih]
    · by_cases h2 : k' = j
      · subst h2
        simp [delL, getL, h1]
      · simp [delL, getL, h1, h2, ih]

@[simp] theorem get_empty (k : K) : (empty : FMap K V).get k = none := rfl

theorem get_set (m : FMap K V) (k j : K) (v : V) :
    (m.set k v).get j = if k = j then some v else m.get j := by
  unfold set get
  by_cases h : k = j
  · simp [getL, h]
  · simp [getL, h, getL_delL_ne _ _ _ h]

theorem get_del (m : FMap K V) (k j : K) :
    (m.del k).get j = if k = j then none else m.get j := by
  unfold del get
  by_cases h : k = j
  · subst h; simp [getL_delL_self]
  · simp [h, getL_delL_ne _ _ _ h]

@[simp] theorem get_set_self (m : FMap K V) (k : K) (v : V) : (m.set k v).get k = some v := by
  simp [get_set]

@[simp] theorem get_del_self (m : FMap K V) (k : K) : (m.del k).get k = none := by
  simp [get_del]

theorem get_set_ne (m : FMap K V) {k j : K} (v : V) (h : k ≠ j) :
    (m.set k v).get j = m.get j := by simp [get_set, h]

theorem get_del_ne (m : FMap K V) {k j : K} (h : k ≠ j) :
    (m.del k).get j = m.get j := by simp [get_del, h]

theorem contains_iff (m : FMap K V) (k : K) : m.contains k = true ↔ ∃ v, m.get k = some v := by
  unfold contains
  cases m.get k <;> simp

/-- Extensional equality of maps (what an observer of the directory sees). -/
def Equiv (m₁ m₂ : FMap K V) : Prop := ∀ k, m₁.get k = m₂.get k

end FMap

/-- No two distinct strings of `U` collide under `h`. A hypothesis of theorems,
    never an axiom. -/
def NoColl (h : Str → Str) (U : List Str) : Prop :=
  ∀ a, a ∈ U → ∀ b, b ∈ U → h a = h b → a = b

/-- `h` is injective on all strings (used only in satisfiability examples). -/
def Inj (h : Str → Str) : Prop := ∀ a b, h a = h b → a = b

theorem NoColl_of_Inj {h : Str → Str} (hi : Inj h) (U : List Str) : NoColl h U :=
  fun a _ b _ e => hi a b e

end HS
