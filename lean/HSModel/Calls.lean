/-
  HSModel.Calls — the public calls of FileHashStore, written against `Prog`,
  following the Python control flow branch by branch (line numbers refer to
  src/hashstore/filehashstore.py at the pinned commit).
-/
import HSModel.Prog
import HSModel.Algo
namespace HS

structure Config where
  depth : Nat
  width : Nat
  alg   : Str      -- hashlib name of the store algorithm
  ns    : Str      -- default metadata namespace
  deriving Repr, DecidableEq

/-- Digests are parameters (never computed by the model). -/
structure Oracle where
  hId  : Str → Str          -- store-algorithm digest of the UTF-8 bytes of a string
  dig  : Str → Tok → Str    -- digest of a content under a hashlib algorithm name
  size : Tok → Nat

/-- the `data` / `metadata` argument -/
inductive DataArg
  | bad          -- not str / Path / BufferedIOBase (incl. None) → TypeError
  | blankStr     -- a str that is empty after strip → TypeError
  | noFile       -- str / Path that is not an existing file → ValueError from `Stream`
  | ok (t : Tok) -- a path, Path or stream whose whole content is `t`
  deriving DecidableEq, Repr

/-- `ObjectMetadata` as passed to `delete_if_invalid_object` -/
structure ObjMeta where
  cid : Str
  size : Nat
  digests : List (Str × Str)
  deriving DecidableEq, Repr

inductive Val
  | unit
  | objMeta (m : ObjMeta)
  | content (t : Tok)
  | path (l : Loc)
  | hex (s : Str)
  deriving DecidableEq, Repr

def checkArgData : DataArg → Except Exc Unit
  | .bad => .error .typeError
  | .blankStr => .error .typeError
  | _ => .ok ()

/-- `Stream(data)` -/
def openStream : DataArg → Except Exc Tok
  | .ok t => .ok t
  | _ => .error .valueError

/-- `_check_arg_format_id` (2129-2147): `None` → default namespace; a non-empty
    string that is blank after strip → ValueError; anything else as is. -/
def checkArgFormatId (ns : Str) : SArg → Except Exc Str
  | .none => .ok ns
  | .other => .error .attributeError
  | .str s => if s ≠ [] ∧ strip s = [] then .error .valueError else .ok s

def lookupDigest (ds : List (Str × Str)) (a : Str) : Option Str :=
  (ds.find? (·.1 = a)).map (·.2)

section calls
variable (cfg : Config) (o : Oracle)

/-- `_find_object` (1027-1105): the cid of `pid`, or the classification error -/
def findObject (pid : Str) : PE Str := do
  let k := o.hId pid
  if !(← isFile (.pidRef k)) then throw Exc.pidRefsDoesNotExist
  let cid ← readRef (.pidRef k)
  if !(← isFile (.cidRef cid)) then throw Exc.orphanPidRefsFileFound
  let t ← readRef (.cidRef cid)
  if !inRefs pid t then throw Exc.pidNotFoundInCidRefsFile
  if !(← isFile (.obj cid)) then throw Exc.refsFileExistsButCidObjMissing
  let _ ← isFile (.mdoc (o.hId pid) (o.hId (pid ++ cfg.ns)))   -- sysmeta probe
  return cid

/-- `_verify_hashstore_references` (2016-2071) -/
def verifyRefs (pid cid : Str) : PE Unit := do
  let k := o.hId pid
  if !(← isFile (.pidRef k)) then throw Exc.pidRefsFileNotFound
  if !(← isFile (.cidRef cid)) then throw Exc.cidRefsFileNotFound
  let c ← readRef (.pidRef k)
  if c ≠ cid then throw Exc.pidRefsContentError
  let t ← readRef (.cidRef cid)
  if !inRefs pid t then throw Exc.cidRefsContentError

/-- `_update_refs_file(path, pid, "add")` (1871-1886) -/
def updateRefsAdd (cid pid : Str) : PE Unit := do
  if !(← isFile (.cidRef cid)) then throw Exc.fileNotFound
  let t ← readRef (.cidRef cid)
  if !inRefs pid t then eff (.appendCid cid (pid ++ ['\n']))

/-- `_update_refs_file(path, pid, "remove")` (1871-1900) -/
def updateRefsRemove (cid pid : Str) : PE Unit := do
  if !(← isFile (.cidRef cid)) then throw Exc.fileNotFound
  -- open r+, flock, readlines: the read goes through the handle opened for
  -- writing, so its fault sites are those of the `rewriteCid` that follows
  let t ← readOpen (.cidRef cid)
  let new := removeLines pid t
  eff (.rewriteCid cid new)
  eff (.truncateCid cid new.length)

/-- `_write_refs_file(tmp_root, id, kind)` (1829-1858): temp in refs/tmp -/
def writeRefsTmp : PE Unit := do
  eff (.mkTmp .refs)
  openTmpWrite .refs

/-- `_delete_marked_files` (1750-1763): removal errors are swallowed -/
def deleteMarked : List Loc → PE Unit
  | [] => pure ()
  | l :: r => do
    tryCatch (eff (.remove l)) (fun _ => pure ())
    deleteMarked r

/-- `_mark_pid_refs_file_for_deletion` (1765-1781): errors swallowed -/
def markPidRef (k : Str) : PE (List Loc) :=
  tryCatch (do eff (.retire (.pidRef k)); pure [Loc.marker (.pidRef k)]) (fun _ => pure [])

/-- `_remove_pid_and_handle_cid_refs_deletion` (1783-1805): errors swallowed -/
def removePidAndHandle (pid cid : Str) : PE (List Loc) :=
  tryCatch (do
    updateRefsRemove cid pid
    if ← sizeIsZero cid then
      eff (.retire (.cidRef cid))
      pure [Loc.marker (.cidRef cid)]
    else pure []) (fun _ => pure [])

/-- `_validate_and_check_cid_lock` (1807-1827) -/
def validateAndCheckCidLock (cid cidToCheck : Str) : PE Unit := do
  let _ ← PE.ofExcept (checkString (.str cid))
  let _ ← PE.ofExcept (checkString (.str cidToCheck))
  if cid ≠ cidToCheck then throw Exc.valueError
  if !(← isLocked .cid cid) then throw Exc.identifierNotLocked

/-- `_untag_object` (1554-1676) -/
def untagObject (pid cid : Str) : PE Unit := do
  let _ ← PE.ofExcept (checkString (.str pid))
  let _ ← PE.ofExcept (checkString (.str cid))
  if !(← isLocked .refPid pid) then throw Exc.identifierNotLocked
  let k := o.hId pid
  tryCatch (do
      let c ← findObject cfg o pid
      validateAndCheckCidLock cid c
      let d1 ← markPidRef k
      let d2 ← removePidAndHandle pid cid
      deleteMarked (d1 ++ d2))
    fun e => match e with
      | .orphanPidRefsFileFound => do
          let c ← readRef (.pidRef k)
          validateAndCheckCidLock cid c
          let d1 ← markPidRef k
          deleteMarked d1
      | .refsFileExistsButCidObjMissing => do
          let c ← readRef (.pidRef k)
          validateAndCheckCidLock cid c
          let d1 ← markPidRef k
          let d2 ← removePidAndHandle pid cid
          deleteMarked (d1 ++ d2)
      | .pidNotFoundInCidRefsFile => do
          let c ← readRef (.pidRef k)
          validateAndCheckCidLock cid c
          let d1 ← markPidRef k
          deleteMarked d1
      | .pidRefsDoesNotExist => do
          if !(← isLocked .cid cid) then throw Exc.identifierNotLocked
          let d2 ← removePidAndHandle pid cid
          deleteMarked d2
      | e => throw e

/-- `_store_hashstore_refs_files` (1447-1552) -/
def storeRefs (pid cid : Str) : PE Unit :=
  let k := o.hId pid
  PE.withFinally (do
    acquire .refPid pid
    acquire .cid cid
    tryCatch (do
        eff (.mkdirs .pidRef k)
        eff (.mkdirs .cidRef cid)
        let pf ← isFile (.pidRef k)
        let cf ← isFile (.cidRef cid)
        if pf && cf then
          -- verify, then raise HashStoreRefsAlreadyExists whatever the outcome (1474-1487)
          tryCatch (do verifyRefs o pid cid; throw Exc.hashStoreRefsAlreadyExists)
            (fun _ => throw Exc.hashStoreRefsAlreadyExists)
        else if pf then
          throw Exc.pidRefsAlreadyExists
        else if cf then do
          writeRefsTmp
          eff (.publishPidRef k cid)
          let t ← readRef (.cidRef cid)
          if !inRefs pid t then updateRefsAdd cid pid
          verifyRefs o pid cid
        else do
          writeRefsTmp
          writeRefsTmp
          eff (.publishPidRef k cid)
          eff (.publishCidRef cid (pid ++ ['\n']))
          verifyRefs o pid cid)
      fun e => match e with
        | .hashStoreRefsAlreadyExists => throw e
        | .pidRefsAlreadyExists => throw e
        | e => do untagObject cfg o pid cid; throw e)
    (do release .cid cid; release .refPid pid)

/-- `tag_object` (584-598) -/
def tagObject (pid cid : SArg) : PE Val := do
  let p ← PE.ofExcept (checkString pid)
  let c ← PE.ofExcept (checkString cid)
  storeRefs cfg o p c
  return .unit

/-- the size test of `_verify_object_information` (1954-1955): an expected size
    is given, is positive, and differs from the true size -/
def sizeMismatch (expSize : IArg) (trueSize : Nat) : Bool :=
  match expSize with
  | .int i => decide (i > 0 ∧ i ≠ (trueSize : Int))
  | _ => false

/-- the digest a checksum is compared with: the pre-computed / supplied one when
    the algorithm is a key of `digests`, otherwise the one computed on demand -/
def digestFor (digests : List (Str × Str)) (onDemand : Str → Str) (a : Str) : Str :=
  match lookupDigest digests a with
  | some d => d
  | none => onDemand a

inductive Verdict | valid | badSize | badChecksum
  deriving DecidableEq, Repr

/-- the comparison part of `_verify_object_information` (1931-2014).
    `digests`: what was computed / supplied; `onDemand a`: the digest under `a`
    computed from the object when `a` is not a key of `digests`.
    Repaired behaviour: both paths compare against the lower-cased checksum. -/
def verdict (digests : List (Str × Str)) (onDemand : Str → Str) (trueSize : Nat)
    (expSize : IArg) (checksum : Option Str) (csAlg : Option Str) : Verdict :=
  if sizeMismatch expSize trueSize then .badSize else
  match checksum, csAlg with
  | some c, some a =>
    if digestFor digests onDemand a ≠ lower c then .badChecksum else .valid
  | _, _ => .valid

/-- as found at the pinned commit (1987): the on-demand path compares without
    lower-casing. Only used to state the refutation in `Props/C06.lean`. -/
def verdictAsFound (digests : List (Str × Str)) (onDemand : Str → Str) (trueSize : Nat)
    (expSize : IArg) (checksum : Option Str) (csAlg : Option Str) : Verdict :=
  if sizeMismatch expSize trueSize then .badSize else
  match checksum, csAlg with
  | some c, some a =>
    match lookupDigest digests a with
      | some d => if d ≠ lower c then .badChecksum else .valid
      | none => if onDemand a ≠ c then .badChecksum else .valid
  | _, _ => .valid

def Verdict.exc : Verdict → Option Exc
  | .valid => none | .badSize => some .nonMatchingObjSize | .badChecksum => some .nonMatchingChecksum

/-- `get_hex_digest` after argument checks (1011-1023) -/
def hexDigestCore (pid alg : Str) : PE Str := do
  let cid ← findObject cfg o pid
  if !(← isFile (.obj cid)) then throw Exc.valueError
  let t ← readObj cid
  return o.dig alg t

/-- `_move_and_get_checksums` (1198-1334) together with
    `_write_to_tmp_file_and_get_hex_digests` (1336-1416).
    `pid`: `none` for the data-only path. -/
def moveAndGetChecksums (pid : Option Str) (t : Tok) (add cs : Option Str)
    (checksum : Option Str) (expSize : IArg) : PE ObjMeta := do
  let algs := refineAlgorithmList defaultAlgos add cs
  eff (.mkTmp .obj)
  let digests := algs.map fun a => (a, o.dig a t)
  let size := o.size t
  let cid := o.dig cfg.alg t
  let v := verdict digests (fun a => o.dig a t) size expSize checksum cs
  if !(← isFile (.obj cid)) then
    match v.exc with
    | some e =>
        if pid.isSome then eff (.removeTmp .obj)
        throw e
    | none => pure ()
    eff (.mkdirs .obj cid)
    tryCatch (eff (.publishObj cid t)) fun err => do
      if ← isFile (.obj cid) then
        -- 1263-1286: look the pid up and compare digests
        match pid with
        | none => throw Exc.valueError      -- get_hex_digest(None, …)
        | some p =>
          let d ← hexDigestCore cfg o p cfg.alg
          if d = cid then throw err
          else do eff (.remove (.obj cid)); throw err
      else do
        eff (.removeTmp .obj)
        throw err
  else
    -- 1297-1332: verify against the existing object; the temp copy is always discarded
    match v.exc, pid with
    | some e, some _ => do
        -- `_verify_object_information` removes the temp file before raising; if
        -- that removal fails, the `finally` clause tries once more
        tryCatch (eff (.removeTmp .obj)) (fun e' => do eff (.removeTmp .obj); throw e')
        throw e
    | some e, none => do
        eff (.removeTmp .obj)
        throw e
    | none, _ => eff (.removeTmp .obj)
  return { cid := cid, size := size, digests := digests }

/-- the checksum as `_verify_object_information` receives it: the string, if one was given -/
def strArg : SArg → Option Str
  | .str c => some c
  | _ => none

/-- `store_object` (509-582) -/
def storeObject (pid : SArg) (data : DataArg) (additional checksum csAlg : SArg)
    (expSize : IArg) : PE Val := do
  match pid with
  | .none =>
    PE.ofExcept (checkArgData data)
    let t ← PE.ofExcept (openStream data)
    let m ← moveAndGetChecksums cfg o none t none none none .none
    return .objMeta m
  | _ =>
    let p ← PE.ofExcept (checkString pid)
    PE.ofExcept (checkArgData data)
    PE.ofExcept (checkInteger expSize)
    let (add', cs') ← PE.ofExcept (checkArgAlgorithmsAndChecksum cfg.alg additional checksum csAlg)
    if ← inProgress p then throw Exc.storeObjectInProgress
    PE.withFinally (do
        acquire .objPid p
        let t ← PE.ofExcept (openStream data)
        let m ← moveAndGetChecksums cfg o (some p) t add' cs' (strArg checksum) expSize
        let _ ← tagObject cfg o (.str p) (.str m.cid)
        return .objMeta m)
      (release .objPid p)

/-- `_delete_object_only` (2073-2095) -/
def deleteObjectOnly (cid : Str) : PE Unit :=
  PE.withFinally (do
      acquire .cid cid
      if ← isFile (.cidRef cid) then pure ()
      else
        -- `_delete("objects", cid)`: locating a missing object raises FileNotFoundError
        if ← isFile (.obj cid) then eff (.remove (.obj cid)) else throw Exc.fileNotFound)
    (release .cid cid)

/-- `delete_if_invalid_object` (600-645). `om = none`: the argument is not an
    `ObjectMetadata`. -/
def deleteIfInvalidObject (om : Option ObjMeta) (checksum csAlg : SArg) (expSize : IArg) :
    PE Val := do
  let c ← PE.ofExcept (checkString checksum)
  let a ← PE.ofExcept (checkString csAlg)
  PE.ofExcept (checkInteger expSize)
  match om with
  | none => throw Exc.valueError
  | some m =>
    let a' ← PE.ofExcept (cleanAlgorithm a)
    -- size first (1954-1969), then checksum (1970-2014)
    if sizeMismatch expSize m.size then
      deleteObjectOnly m.cid
      throw Exc.nonMatchingObjSize
    let d ← match lookupDigest m.digests a' with
      | some d => pure d
      | none => do
          -- on demand: needs the store algorithm's entry and the object itself
          match lookupDigest m.digests cfg.alg with
          | none => throw Exc.keyError
          | some oc =>
            if !(← isFile (.obj oc)) then throw Exc.fileNotFound
            let t ← readObj oc
            pure (o.dig a' t)
    if d ≠ lower c then
      deleteObjectOnly m.cid
      throw Exc.nonMatchingChecksum
    return .unit

/-- the document-name lock of the metadata calls (665-705) -/
def withDocLock {α : Type} (doc : Str) (body : PE α) : PE α := do
  acquire .doc doc
  PE.withFinally body (release .doc doc)

/-- `store_metadata` (647-705) with `_put_metadata` (1678-1725) -/
def storeMetadata (pid : SArg) (data : DataArg) (fmt : SArg) : PE Val := do
  let p ← PE.ofExcept (checkString pid)
  PE.ofExcept (checkArgData data)
  let f ← PE.ofExcept (checkArgFormatId cfg.ns fmt)
  let doc := o.hId (p ++ f)
  let dir := o.hId p
  withDocLock doc do
    let t ← PE.ofExcept (openStream data)
    eff (.mkTmp .mdata)
    tryCatch (do
        eff (.mkdirs .mdata dir)
        eff (.publishDoc dir doc t)
        return .path (.mdoc dir doc))
      fun e => do
        eff (.removeTmp .mdata)
        throw e

/-- `retrieve_object` (707-726) -/
def retrieveObject (pid : SArg) : PE Val := do
  let p ← PE.ofExcept (checkString pid)
  let cid ← findObject cfg o p
  if cid = [] then throw Exc.valueError
  let t ← readObj cid
  return .content t

/-- `retrieve_metadata` (728-751) -/
def retrieveMetadata (pid : SArg) (fmt : SArg) : PE Val := do
  let p ← PE.ofExcept (checkString pid)
  let f ← PE.ofExcept (checkArgFormatId cfg.ns fmt)
  let dir := o.hId p
  let doc := o.hId (p ++ f)
  if ← isFile (.mdoc dir doc) then
    let t ← readDoc dir doc
    return .content t
  else throw Exc.valueError

/-- delete-all loop of `delete_metadata` (893-952) -/
def retireDocs (dir : Str) : List Str → PE (List Loc)
  | [] => pure []
  | n :: r => do
    withDocLock n (eff (.retire (.mdoc dir n)))
    let rest ← retireDocs dir r
    pure (Loc.marker (.mdoc dir n) :: rest)

/-- `delete_metadata` (886-1004) -/
def deleteMetadataCore (p : Str) (fmt : Option Str) : PE Unit := do
  let dir := o.hId p
  match fmt with
  | none =>
    match ← listDocs dir with
    | none => pure ()
    | some names =>
      let marked ← retireDocs dir names
      deleteMarked marked
  | some f =>
    let doc := o.hId (p ++ f)
    withDocLock doc do
      -- `_delete("metadata", path)`: not-found is swallowed (2352-2357)
      if ← isFile (.mdoc dir doc) then eff (.remove (.mdoc dir doc)) else pure ()

def deleteMetadata (pid : SArg) (fmt : SArg) : PE Val := do
  let p ← PE.ofExcept (checkString pid)
  let f ← PE.ofExcept (checkArgFormatId cfg.ns fmt)
  deleteMetadataCore o p (match fmt with | .none => none | _ => some f)
  return .unit

/-- `delete_object` (753-884), with the repaired missing-object branch -/
def deleteObject (pid : SArg) : PE Val := do
  let p ← PE.ofExcept (checkString pid)
  let k := o.hId p
  PE.withFinally (do
      acquire .objPid p
      tryCatch (do
          let cid ← findObject cfg o p
          acquire .cid cid
          PE.withFinally (do
              eff (.retire (.pidRef k))
              updateRefsRemove cid p
              let mut marked := [Loc.marker (.pidRef k)]
              if ← sizeIsZero cid then
                eff (.retire (.cidRef cid))
                eff (.retire (.obj cid))
                marked := marked ++ [Loc.marker (.cidRef cid), Loc.marker (.obj cid)]
              deleteMarked marked
              deleteMetadataCore o p none
              return .unit)
            (release .cid cid))
        fun e => match e with
          | .orphanPidRefsFileFound => do
              eff (.retire (.pidRef k))
              deleteMetadataCore o p none
              deleteMarked [Loc.marker (.pidRef k)]
              return .unit
          | .refsFileExistsButCidObjMissing => do
              let c ← readRef (.pidRef k)
              eff (.retire (.pidRef k))
              let extra ← PE.withFinally (do
                  acquire .cid c
                  let t ← readRef (.cidRef c)
                  if inRefs p t then
                    updateRefsRemove c p
                    if ← sizeIsZero c then
                      eff (.retire (.cidRef c))
                      pure [Loc.marker (.cidRef c)]
                    else pure []
                  else pure [])
                (release .cid c)
              deleteMetadataCore o p none
              deleteMarked ([Loc.marker (.pidRef k)] ++ extra)
              return .unit
          | .pidNotFoundInCidRefsFile => do
              eff (.retire (.pidRef k))
              deleteMetadataCore o p none
              deleteMarked [Loc.marker (.pidRef k)]
              return .unit
          | e => throw e)
    (release .objPid p)

/-- `get_hex_digest` (1006-1023) -/
def getHexDigest (pid alg : SArg) : PE Val := do
  let p ← PE.ofExcept (checkString pid)
  let a ← PE.ofExcept (checkString alg)
  let a' ← PE.ofExcept (cleanAlgorithm a)
  let d ← hexDigestCore cfg o p a'
  return .hex d

end calls

/-- One public call with its arguments. -/
inductive Call
  | storeObject (pid : SArg) (data : DataArg) (additional checksum csAlg : SArg) (size : IArg)
  | tagObject (pid cid : SArg)
  | deleteIfInvalid (om : Option ObjMeta) (checksum csAlg : SArg) (size : IArg)
  | storeMetadata (pid : SArg) (data : DataArg) (fmt : SArg)
  | retrieveObject (pid : SArg)
  | retrieveMetadata (pid fmt : SArg)
  | deleteObject (pid : SArg)
  | deleteMetadata (pid fmt : SArg)
  | getHexDigest (pid alg : SArg)
  deriving DecidableEq, Repr

/-- the pid string a call is addressed to, if it has one -/
def Call.pidStr : Call → Option Str
  | .storeObject (.str p) .. => some p
  | .tagObject (.str p) _ => some p
  | .storeMetadata (.str p) .. => some p
  | .retrieveObject (.str p) => some p
  | .retrieveMetadata (.str p) _ => some p
  | .deleteObject (.str p) => some p
  | .deleteMetadata (.str p) _ => some p
  | .getHexDigest (.str p) _ => some p
  | _ => none

def Call.prog (cfg : Config) (o : Oracle) : Call → PE Val
  | .storeObject p d a c ca s => HS.storeObject cfg o p d a c ca s
  | .tagObject p c => HS.tagObject cfg o p c
  | .deleteIfInvalid om c ca s => HS.deleteIfInvalidObject cfg o om c ca s
  | .storeMetadata p d f => HS.storeMetadata cfg o p d f
  | .retrieveObject p => HS.retrieveObject cfg o p
  | .retrieveMetadata p f => HS.retrieveMetadata cfg o p f
  | .deleteObject p => HS.deleteObject cfg o p
  | .deleteMetadata p f => HS.deleteMetadata cfg o p f
  | .getHexDigest p a => HS.getHexDigest cfg o p a

end HS
