/-
  HSModel.Chars — character classes used by the argument checkers
  (`_check_string`, `_check_arg_format_id`, `_clean_algorithm`, `str.strip`).
  `isSpace` is Python's `str.isspace` (29 code points; tied to the interpreter
  by an exhaustive sweep over all 0x110000 code points on every run).
-/
import HSModel.Basic
namespace HS

/-- Python `str.isspace()` for one character. -/
def isSpace (c : Char) : Bool :=
  let n := c.toNat
  (9 ≤ n && n ≤ 13) || (28 ≤ n && n ≤ 32) || n == 0x85 || n == 0xA0 || n == 0x1680 ||
  (0x2000 ≤ n && n ≤ 0x200A) || n == 0x2028 || n == 0x2029 || n == 0x202F ||
  n == 0x205F || n == 0x3000

def isAsciiDigit (c : Char) : Bool := 48 ≤ c.toNat && c.toNat ≤ 57

/-- `str.lower()` restricted to what can matter for membership in an ASCII
    table: ASCII letters, and KELVIN SIGN (U+212A) whose lower-case is `k`.
    Every other non-ASCII character lower-cases to something containing a
    non-ASCII character (exhaustive sweep on every run), so the lowered string
    is outside every ASCII table either way. -/
def lowerChar (c : Char) : Char :=
  if 65 ≤ c.toNat ∧ c.toNat ≤ 90 then Char.ofNat (c.toNat + 32)
  else if c.toNat = 0x212A then 'k' else c

def lower (s : Str) : Str := s.map lowerChar

/-- ASCII-only lower (what `checksum.lower()` can change in a hex string). -/
def upperChar (c : Char) : Char :=
  if 97 ≤ c.toNat ∧ c.toNat ≤ 122 then Char.ofNat (c.toNat - 32) else c
def upper (s : Str) : Str := s.map upperChar

/-- `s.strip()` -/
def lstrip (s : Str) : Str := s.dropWhile isSpace
def rstrip (s : Str) : Str := (s.reverse.dropWhile isSpace).reverse
def strip (s : Str) : Str := rstrip (lstrip s)

def hasSpace (s : Str) : Bool := s.any isSpace

/-- `_check_string` on a non-None argument: rejected iff empty after strip or
    containing any whitespace character. (`None` is a separate constructor of
    the argument types.) -/
def checkStringOk (s : Str) : Bool := !(strip s == [] || hasSpace s)

/-- lower-case hex digit -/
def isLowerHex (c : Char) : Bool :=
  (48 ≤ c.toNat && c.toNat ≤ 57) || (97 ≤ c.toNat && c.toNat ≤ 102)
def IsLowerHexStr (s : Str) : Prop := ∀ c ∈ s, isLowerHex c = true

end HS
