/-
  HSModel.Cli — the command-line client's dispatch (hashstoreclient.py 731-904):
  which API call, with which argument values and *types*, one invocation makes.
  All options arrive from argparse as strings (or None when absent).
-/
import HSModel.Calls
namespace HS

/-- the verbs, in the order of `main()`'s `elif` chain -/
inductive Verb
  | getchecksum | storeobject | storemetadata | retrieveobject | retrievemetadata
  | deleteobject | deletemetadata
  deriving DecidableEq, Repr

structure CliOpts where
  verbs : List Verb                 -- flags given (any subset); the first in chain order wins
  pid : Option Str
  path : Option DataArg             -- `-path` as the data argument it denotes (file with content / no such file / blank)
  algo : Option Str
  checksum : Option Str
  checksumAlgo : Option Str
  objSize : Option Str
  formatid : Option Str
  deriving Repr

def chainOrder : List Verb :=
  [.getchecksum, .storeobject, .storemetadata, .retrieveobject, .retrievemetadata,
   .deleteobject, .deletemetadata]

def firstVerb (vs : List Verb) : Option Verb := chainOrder.find? (fun v => v ∈ vs)

def optS : Option Str → SArg
  | some s => .str s
  | none => .none

/-- Python's `int(str)` as far as the client needs it (repaired client: the
    size option is converted before it reaches the API) -/
def pyIntOfStr (s : Str) : Option Int :=
  let t := strip s
  let (neg, ds) := match t with
    | '-' :: r => (true, r)
    | '+' :: r => (false, r)
    | r => (false, r)
  if ds = [] ∨ ¬ ds.all isAsciiDigit then none
  else
    let n : Nat := ds.foldl (fun acc c => acc * 10 + (c.toNat - 48)) 0
    some (if neg then -(n : Int) else (n : Int))

/-- `none` = no verb flag: `main()` does nothing after opening the store.
    `defaultFmt` is `store_metadata_namespace` read from hashstore.yaml. -/
def dispatch (defaultFmt : Str) (o : CliOpts) : Except Exc (Option Call) :=
  let fmt : Str := match o.formatid with | some f => f | none => defaultFmt
  match firstVerb o.verbs with
  | none => .ok none
  | some .getchecksum =>
    match o.pid, o.algo with
    | none, _ => .error .valueError
    | _, none => .error .valueError
    | some p, some a => .ok (some (.getHexDigest (.str p) (.str a)))
  | some .storeobject =>
    match o.pid, o.path with
    | none, _ => .error .valueError
    | _, none => .error .valueError
    | some p, some d =>
      match o.objSize with
      | none => .ok (some (.storeObject (.str p) d (optS o.algo) (optS o.checksum) (optS o.checksumAlgo) .none))
      | some s => match pyIntOfStr s with
        | none => .error .valueError       -- int("abc")
        | some i => .ok (some (.storeObject (.str p) d (optS o.algo) (optS o.checksum) (optS o.checksumAlgo) (.int i)))
  | some .storemetadata =>
    match o.pid, o.path with
    | none, _ => .error .valueError
    | _, none => .error .valueError
    | some p, some d => .ok (some (.storeMetadata (.str p) d (.str fmt)))
  | some .retrieveobject =>
    match o.pid with
    | none => .error .valueError
    | some p => .ok (some (.retrieveObject (.str p)))
  | some .retrievemetadata =>
    match o.pid with
    | none => .error .valueError
    | some p => .ok (some (.retrieveMetadata (.str p) (.str fmt)))
  | some .deleteobject =>
    match o.pid with
    | none => .error .valueError
    | some p => .ok (some (.deleteObject (.str p)))
  | some .deletemetadata =>
    match o.pid with
    | none => .error .valueError
    | some p => .ok (some (.deleteMetadata (.str p) (.str fmt)))

/-- as found at the pinned commit: `-obj_size` was forwarded as the string it
    arrived as, which `_check_integer` rejects with TypeError (defect D6) -/
def sizeArgAsFound : Option Str → IArg
  | none => .none
  | some _ => .other

end HS
