/-
  HSModel.CliTable — the client's dispatch as a table (the form the translator
  harness/hsv/clitext.py produces from `main()` on every run) and its generic interpretation.
  `Props/C20.lean` proves that the hand-written `dispatch` of `Cli.lean` IS the interpretation of
  the table, and `Props/Tables.lean` that the table is the one translated from the source.
-/
import HSModel.Cli
namespace HS.CliTable

/-- one verb of the `elif` chain, as translated: its flag, the variables it requires (in order; a
    missing one raises ValueError), the conversions `v = f(v)` applied when `v` is given, the API
    method called and the variables passed to it in order, and what is done with the result
    besides printing -/
structure Row where
  dest : Str
  required : List Str
  conv : List (Str × Str)
  method : Str
  args : List Str
  post : List Str
  deriving DecidableEq, Repr

/-- a translated row (as `GeneratedSync.clientRows` holds it) as a `Row` -/
def Row.ofTuple (t : Str × List Str × List (Str × Str) × Str × List Str × List Str) : Row :=
  { dest := t.1, required := t.2.1, conv := t.2.2.1, method := t.2.2.2.1, args := t.2.2.2.2.1, post := t.2.2.2.2.2 }

/-- the option variables of `main()`: (variable, argparse destination) -/
def varSources : List (Str × Str) :=
  [ ("store_path".toList, "store_path".toList), ("logging_level_arg".toList, "logging_level".toList),
    ("pid".toList, "object_pid".toList), ("path".toList, "object_path".toList),
    ("algorithm".toList, "object_algorithm".toList), ("checksum".toList, "object_checksum".toList),
    ("checksum_algorithm".toList, "object_checksum_algorithm".toList), ("size".toList, "object_size".toList),
    ("formatid".toList, "object_formatid".toList), ("knbvm_test".toList, "knbvm_flag".toList) ]

/-- `if formatid is None: formatid = default_formatid` -/
def formatDefault : Str × Str := ("formatid".toList, "default_formatid".toList)

def rd (s : String) : Str := s.toList

/-- the table of `main()` -/
def verbTable : List Row :=
  [ { dest := rd "client_getchecksum", required := [rd "pid", rd "algorithm"], conv := [],
      method := rd "get_hex_digest", args := [rd "pid", rd "algorithm"], post := [] },
    { dest := rd "client_storeobject", required := [rd "pid", rd "path"], conv := [(rd "size", rd "int")],
      method := rd "store_object",
      args := [rd "pid", rd "path", rd "algorithm", rd "checksum", rd "checksum_algorithm", rd "size"], post := [] },
    { dest := rd "client_storemetadata", required := [rd "pid", rd "path"], conv := [],
      method := rd "store_metadata", args := [rd "pid", rd "path", rd "formatid"], post := [] },
    { dest := rd "client_retrieveobject", required := [rd "pid"], conv := [],
      method := rd "retrieve_object", args := [rd "pid"],
      post := [rd "object_content = object_stream.read(1000).decode('utf-8')", rd "object_stream.close()"] },
    { dest := rd "client_retrievemetadata", required := [rd "pid"], conv := [],
      method := rd "retrieve_metadata", args := [rd "pid", rd "formatid"],
      post := [rd "metadata_content = metadata_stream.read(1000).decode('utf-8')", rd "metadata_stream.close()"] },
    { dest := rd "client_deleteobject", required := [rd "pid"], conv := [],
      method := rd "delete_object", args := [rd "pid"], post := [] },
    { dest := rd "client_deletemetadata", required := [rd "pid"], conv := [],
      method := rd "delete_metadata", args := [rd "pid", rd "formatid"], post := [] } ]

/-! ### names resolved -/

inductive Var | pid | path | algorithm | checksum | checksumAlgorithm | size | formatid
  deriving DecidableEq, Repr
inductive Meth | getHexDigest | storeObject | storeMetadata | retrieveObject | retrieveMetadata
  | deleteObject | deleteMetadata
  deriving DecidableEq, Repr

def varOfName (s : Str) : Option Var :=
  if s = rd "pid" then some .pid else if s = rd "path" then some .path
  else if s = rd "algorithm" then some .algorithm else if s = rd "checksum" then some .checksum
  else if s = rd "checksum_algorithm" then some .checksumAlgorithm else if s = rd "size" then some .size
  else if s = rd "formatid" then some .formatid else none

def methOfName (s : Str) : Option Meth :=
  if s = rd "get_hex_digest" then some .getHexDigest else if s = rd "store_object" then some .storeObject
  else if s = rd "store_metadata" then some .storeMetadata else if s = rd "retrieve_object" then some .retrieveObject
  else if s = rd "retrieve_metadata" then some .retrieveMetadata else if s = rd "delete_object" then some .deleteObject
  else if s = rd "delete_metadata" then some .deleteMetadata else none

def verbOfDest (s : Str) : Option Verb :=
  if s = rd "client_getchecksum" then some .getchecksum else if s = rd "client_storeobject" then some .storeobject
  else if s = rd "client_storemetadata" then some .storemetadata
  else if s = rd "client_retrieveobject" then some .retrieveobject
  else if s = rd "client_retrievemetadata" then some .retrievemetadata
  else if s = rd "client_deleteobject" then some .deleteobject
  else if s = rd "client_deletemetadata" then some .deletemetadata else none

structure RowE where
  verb : Verb
  required : List Var
  sizeToInt : Bool            -- the conversion `size = int(size)`
  meth : Meth
  args : List Var
  deriving DecidableEq, Repr

def allSome {α : Type} : List (Option α) → Option (List α)
  | [] => some []
  | none :: _ => none
  | some a :: r => (allSome r).map (a :: ·)

/-- a translated row with its names resolved; `none` when a name is unknown or a conversion other
    than `size = int(size)` is present -/
def Row.resolve (r : Row) : Option RowE :=
  match verbOfDest r.dest, allSome (r.required.map varOfName), methOfName r.method, allSome (r.args.map varOfName) with
  | some v, some rq, some m, some as =>
    if r.conv = [] then some { verb := v, required := rq, sizeToInt := false, meth := m, args := as }
    else if r.conv = [(rd "size", rd "int")] then some { verb := v, required := rq, sizeToInt := true, meth := m, args := as }
    else none
  | _, _, _, _ => none

def tableE : List RowE :=
  [ ⟨.getchecksum, [.pid, .algorithm], false, .getHexDigest, [.pid, .algorithm]⟩,
    ⟨.storeobject, [.pid, .path], true, .storeObject, [.pid, .path, .algorithm, .checksum, .checksumAlgorithm, .size]⟩,
    ⟨.storemetadata, [.pid, .path], false, .storeMetadata, [.pid, .path, .formatid]⟩,
    ⟨.retrieveobject, [.pid], false, .retrieveObject, [.pid]⟩,
    ⟨.retrievemetadata, [.pid], false, .retrieveMetadata, [.pid, .formatid]⟩,
    ⟨.deleteobject, [.pid], false, .deleteObject, [.pid]⟩,
    ⟨.deletemetadata, [.pid], false, .deleteMetadata, [.pid, .formatid]⟩ ]

/-! ### the generic interpretation -/

/-- is the variable given on the command line? -/
def given (o : CliOpts) : Var → Bool
  | .pid => o.pid.isSome | .path => o.path.isSome | .algorithm => o.algo.isSome
  | .checksum => o.checksum.isSome | .checksumAlgorithm => o.checksumAlgo.isSome
  | .size => o.objSize.isSome | .formatid => true          -- defaulted from hashstore.yaml

inductive ArgVal
  | s (x : SArg)
  | d (x : Option DataArg)
  | i (x : IArg)

/-- the value a variable has when the API is called (`sz`: the size after the row's conversions) -/
def valOf (df : Str) (o : CliOpts) (sz : IArg) : Var → ArgVal
  | .pid => .s (optS o.pid) | .path => .d o.path | .algorithm => .s (optS o.algo)
  | .checksum => .s (optS o.checksum) | .checksumAlgorithm => .s (optS o.checksumAlgo)
  | .size => .i sz
  | .formatid => .s (.str (match o.formatid with | some f => f | none => df))

/-- the API call a method name and positional values denote -/
def build : Meth → List ArgVal → Option Call
  | .getHexDigest, [.s p, .s a] => some (.getHexDigest p a)
  | .storeObject, [.s p, .d (some d), .s a, .s c, .s ca, .i z] => some (.storeObject p d a c ca z)
  | .storeMetadata, [.s p, .d (some d), .s f] => some (.storeMetadata p d f)
  | .retrieveObject, [.s p] => some (.retrieveObject p)
  | .retrieveMetadata, [.s p, .s f] => some (.retrieveMetadata p f)
  | .deleteObject, [.s p] => some (.deleteObject p)
  | .deleteMetadata, [.s p, .s f] => some (.deleteMetadata p f)
  | _, _ => none

/-- one row: required variables, conversions, call -/
def runRow (df : Str) (o : CliOpts) (r : RowE) : Except Exc (Option Call) :=
  if r.required.any (fun v => !given o v) then .error .valueError
  else
    let sz : Except Exc IArg :=
      match o.objSize with
      | none => .ok .none
      | some s => if r.sizeToInt then (match pyIntOfStr s with | some i => .ok (.int i) | none => .error .valueError)
                  else .ok (sizeArgAsFound (some s))
    match sz with
    | .error e => .error e
    | .ok z => match build r.meth (r.args.map (valOf df o z)) with
      | some c => .ok (some c)
      | none => .error .modelBug

/-- the `elif` chain: the first row whose flag is given -/
def dispatchT (t : List RowE) (df : Str) (o : CliOpts) : Except Exc (Option Call) :=
  match t.find? (fun r => r.verb ∈ o.verbs) with
  | none => .ok none
  | some r => runRow df o r

end HS.CliTable
