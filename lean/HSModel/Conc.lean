/-
  HSModel.Conc — interleaving semantics over the same program texts.
  A thread's step runs from one scheduling point to the next. Scheduling points
  (both here and in the scheduler harness that drives the real threads) are:
  every mutating file-system primitive, every open-for-writing, and every entry
  into a lock-list critical section (acquire, release, in-progress test).
  An acquire is enabled only while the identifier is absent from its list.
-/
import HSModel.Calls
namespace HS

/-- is this primitive a scheduling point? -/
def Ev.boundary : Ev → Bool
  | .eff (.rewriteCid ..) => false     -- the point is the `open(…, "r+")` before the read (`readOpen`)
  | .eff _ => true
  | .readOpen _ => true
  | .openTmpWrite _ => true
  | .acquire .. => true
  | .release .. => true
  | .inProgress _ => true
  | _ => false

/-- a thread: what remains of its call, or its result -/
inductive TState
  | fresh (p : Prog (Except Exc Val))      -- not started
  | at (e : Ev) (k : Resp → Prog (Except Exc Val))   -- stopped just before boundary primitive `e`
  | finished (r : Except Exc Val)

/-- run non-boundary primitives until the next boundary or the end (fuel bounds the walk) -/
def runToBoundary : Nat → Prog (Except Exc Val) → World → TState × World
  | 0, p, w => (.fresh p, w)
  | _, .ret r, w => (.finished r, w)
  | n + 1, .op e k, w =>
    if e.boundary then (.at e k, w)
    else let rw := respond w e; runToBoundary n (k rw.1) rw.2

/-- can the thread take a step? (an acquire waits while the identifier is held) -/
def TState.enabled (w : World) : TState → Bool
  | .fresh _ => true
  | .at (.acquire c i) _ => !((w.lk.get c).contains i)
  | .at _ _ => true
  | .finished _ => false

/-- one step of a thread -/
def TState.step (fuel : Nat) (w : World) : TState → TState × World
  | .fresh p => runToBoundary fuel p w
  | .at e k => let rw := respond w e; runToBoundary fuel (k rw.1) rw.2
  | .finished r => (.finished r, w)

structure Conf where
  w : World
  ts : List TState

/-- follow a schedule (thread indices); stops at the first choice that is not enabled.
    Returns the configuration and the number of choices consumed. -/
def runSchedule (fuel : Nat) : Conf → List Nat → Nat → Conf × Nat
  | c, [], n => (c, n)
  | c, i :: rest, n =>
    match c.ts[i]? with
    | none => (c, n)
    | some t =>
      if t.enabled c.w then
        let (t', w') := t.step fuel c.w
        runSchedule fuel { w := w', ts := c.ts.set i t' } rest (n + 1)
      else (c, n)

def Conf.allFinished (c : Conf) : Bool := c.ts.all fun t => match t with | .finished _ => true | _ => false
def Conf.anyEnabled (c : Conf) : Bool := c.ts.any fun t => t.enabled c.w

end HS
