/-
  HSModel.Config — the decision `FileHashStore.__init__` takes about a
  properties dictionary (82-133, 230-288, 364-467): pure decision logic.
-/
import HSModel.Algo
namespace HS

/-- a value found under a key of the properties dictionary. For strings and
    other non-int values the harness attaches the outcome of Python's own
    `int(value)` (`none` = it raises); for plain decimal strings the model's
    `pyIntStr` must agree with it (checked by the correspondence). -/
inductive PropVal
  | missing                         -- key absent
  | none                            -- value None
  | int (i : Int)
  | str (s : Str) (asInt : Option Int)
  | other (asInt : Option Int)      -- float, bool, …
  deriving DecidableEq, Repr

def PropVal.toInt : PropVal → Option Int
  | .int i => some i
  | .str _ a => a
  | .other a => a
  | _ => Option.none

/-- `int(s)` for an optional sign and ASCII digits, surrounded by blanks -/
def pyIntStr (s : Str) : Option Int :=
  let t := strip s
  let (neg, ds) := match t with
    | '-' :: r => (true, r)
    | '+' :: r => (false, r)
    | r => (false, r)
  if ds = [] ∨ ¬ ds.all isAsciiDigit then Option.none
  else
    let n : Nat := ds.foldl (fun acc c => acc * 10 + (c.toNat - 48)) 0
    some (if neg then -(n : Int) else (n : Int))

structure Props where
  path  : PropVal
  depth : PropVal
  width : PropVal
  alg   : PropVal
  ns    : PropVal
  deriving DecidableEq, Repr

/-- what is at the store path before the call -/
inductive Existing
  | yaml (depth width : Int) (alg ns : Str)     -- a hashstore.yaml with these values
  | noYaml (rootExists dataDirs : Bool)         -- no yaml; does the path exist; objects/ metadata/ or refs/ present
  deriving DecidableEq, Repr

/-- a required key must be present and not None -/
def chkPresent : PropVal → Except Exc Unit
  | .missing => .error .keyError
  | .none => .error .valueError
  | _ => .ok ()

/-- … and depth / width must also convert with `int()` -/
def chkInt (v : PropVal) : Except Exc Int :=
  match chkPresent v with
  | .error e => .error e
  | .ok _ => match v.toInt with
    | some d => .ok d
    | Option.none => .error .valueError

/-- `_validate_properties`: every required key present and not None; depth and
    width convertible with `int()` (keys are examined in the order of
    `property_required_keys`) -/
def validateProps (p : Props) : Except Exc (Int × Int) := do
  chkPresent p.path
  let d ← chkInt p.depth
  let w ← chkInt p.width
  chkPresent p.alg
  chkPresent p.ns
  pure (d, w)

def PropVal.isStr (v : PropVal) (s : Str) : Bool :=
  match v with
  | .str t _ => t = s
  | _ => false

/-- outcome of the constructor: refused with an error, or accepted; when
    accepted and no yaml existed, the configuration that is written -/
inductive OpenResult
  | refused (e : Exc)
  | opened                                       -- existing configuration, nothing written
  | created (depth width : Int) (alg : Str) (ns : PropVal)
  deriving DecidableEq, Repr

def acceptedStoreAlgs : List Str := dataoneAlgos.map (·.1)

def openStore (ex : Existing) (p : Props) : OpenResult :=
  match validateProps p with
  | .error e => .refused e
  | .ok (d, w) =>
    match ex with
    | .yaml yd yw ya yn =>
      -- compared in the order of `property_required_keys`
      if yd ≠ d then .refused .valueError
      else if yw ≠ w then .refused .valueError
      else if ¬ p.alg.isStr ya then .refused .valueError
      else if ¬ p.ns.isStr yn then .refused .valueError
      else .opened
    | .noYaml rootExists dataDirs =>
      if rootExists ∧ dataDirs then .refused .runtimeError
      else match p.alg with
        | .str a _ => if a ∈ acceptedStoreAlgs then .created d w a p.ns else .refused .valueError
        | _ => .refused .valueError

end HS
