/-
  HSModel.Locks — the monitor behind the four "locked identifier" lists:
  acquire = `while id in list: condition.wait()` then `append`;
  release = `remove` + `condition.notify()` (wakes ONE waiter of that class, who
  may be waiting for a different identifier and will then go back to sleep).
  The model is independent of the synchronisation mode (threads / processes)
  and of the number of threads (a system is a family of threads indexed by ℕ).
-/
import HSModel.Store
namespace HS

structure Lock where
  cls : LockClass
  id  : Str
  deriving DecidableEq, Repr

def LockClass.rank : LockClass → Nat
  | .objPid => 0 | .refPid => 1 | .cid => 2 | .doc => 3

/-- what a thread is doing, as far as locks are concerned -/
inductive TStatus
  | running                 -- not at an acquire
  | testing (l : Lock)      -- awake, inside the condition's mutex, about to test `l in list`
  | asleep (l : Lock)       -- in `condition.wait()`, wants `l`
  | done                    -- the call has returned
  deriving DecidableEq, Repr

structure Thread where
  held : List Lock
  st   : TStatus
  deriving DecidableEq, Repr

/-- any number of threads -/
abbrev Sys := Nat → Thread

def upd (s : Sys) (i : Nat) (t : Thread) : Sys := fun j => if j = i then t else s j

@[simp] theorem upd_same (s : Sys) (i : Nat) (t : Thread) : upd s i t i = t := by simp [upd]
theorem upd_other (s : Sys) (i j : Nat) (t : Thread) (h : j ≠ i) : upd s i t j = s j := by simp [upd, h]

def Sys.holds (s : Sys) (l : Lock) : Prop := ∃ i, l ∈ (s i).held

/-- the lock-level transitions -/
inductive Step : Sys → Sys → Prop
  /-- a running thread reaches an acquire of `l` (respecting the order of classes) -/
  | request (s : Sys) (i : Nat) (l : Lock) (hr : (s i).st = .running)
      (hord : ∀ h ∈ (s i).held, h.cls.rank < l.cls.rank) :
      Step s (upd s i { s i with st := .testing l })
  /-- the test finds the identifier in the list: wait -/
  | sleep (s : Sys) (i : Nat) (l : Lock) (ht : (s i).st = .testing l) (hheld : s.holds l) :
      Step s (upd s i { s i with st := .asleep l })
  /-- the test finds it absent: append, go on -/
  | take (s : Sys) (i : Nat) (l : Lock) (ht : (s i).st = .testing l) (hfree : ¬ s.holds l) :
      Step s (upd s i { held := (s i).held ++ [l], st := .running })
  /-- release with nobody waiting on that class's condition -/
  | releaseNone (s : Sys) (i : Nat) (l : Lock) (hr : (s i).st = .running) (hl : l ∈ (s i).held)
      (hnone : ∀ j l', (s j).st = .asleep l' → l'.cls ≠ l.cls) :
      Step s (upd s i { s i with held := (s i).held.erase l })
  /-- release and `notify()`: one sleeper `j` of that class wakes and will re-test -/
  | releaseWake (s : Sys) (i j : Nat) (l l' : Lock) (hr : (s i).st = .running) (hl : l ∈ (s i).held)
      (hu : (s j).st = .asleep l') (hc : l'.cls = l.cls) :
      Step s (upd (upd s i { s i with held := (s i).held.erase l }) j { s j with st := .testing l' })
  /-- the call returns; it holds nothing (lock discipline of the programs) -/
  | finish (s : Sys) (i : Nat) (hr : (s i).st = .running) (hh : (s i).held = []) :
      Step s (upd s i { s i with st := .done })

/-- a thread can move unless it is asleep or done -/
def Thread.enabled (t : Thread) : Prop := t.st = .running ∨ ∃ l, t.st = .testing l

end HS
