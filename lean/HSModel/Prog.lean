/-
  HSModel.Prog — API calls are written once, as programs in a free monad over
  file-system / lock primitives. Every semantics the properties need
  (sequential, effect log, crash prefix, fault plan, interleaving) is an
  interpreter of the same program text.
-/
import HSModel.Store
namespace HS

/-- Primitive requests. -/
inductive Ev
  | isFile (l : Loc)                  -- os.path.isfile (a probe: never fails)
  | readRef (l : Loc)                 -- open 'r' + read of a reference file
  | readOpen (l : Loc)                -- read through a handle that is already open (r+)
  | readObj (cid : Str)               -- open 'rb' of an object (retrieval / digest)
  | readDoc (dir doc : Str)           -- open 'rb' of a metadata document
  | sizeIsZero (cid : Str)            -- os.path.getsize(cid list) == 0
  | listDocs (dir : Str)              -- exists + listdir + isfile filter; `none` = no directory
  | openTmpWrite (a : TmpArea)        -- open(tmp, 'w') of a refs temp file (site only)
  | eff (e : Eff)
  | inProgress (pid : Str)            -- store_object's `pid in object_locked_pids`
  | acquire (c : LockClass) (id : Str)
  | release (c : LockClass) (id : Str)
  | isLocked (c : LockClass) (id : Str)
  deriving DecidableEq, Repr

inductive Resp
  | unit
  | bool (b : Bool)
  | text (t : Str)
  | tok (t : Tok)
  | names (l : Option (List Str))
  | err (e : Exc)
  deriving DecidableEq, Repr

inductive Prog (α : Type) : Type
  | ret : α → Prog α
  | op : Ev → (Resp → Prog α) → Prog α

namespace Prog
def bind {α β : Type} : Prog α → (α → Prog β) → Prog β
  | .ret a, f => f a
  | .op e k, f => .op e fun r => bind (k r) f
instance : Monad Prog where
  pure := .ret
  bind := bind
end Prog

/-- programs that may raise -/
def PE (α : Type) : Type := Prog (Except Exc α)

namespace PE
def mk {α : Type} (p : Prog (Except Exc α)) : PE α := p
def run' {α : Type} (p : PE α) : Prog (Except Exc α) := p
def pure' {α : Type} (a : α) : PE α := Prog.ret (.ok a)
def throw' {α : Type} (e : Exc) : PE α := Prog.ret (.error e)
def bind' {α β : Type} (m : PE α) (f : α → PE β) : PE β :=
  Prog.bind m fun r => match r with
    | .ok a => f a
    | .error e => Prog.ret (.error e)
/-- `try m except Exception as e: h e` -/
def tryCatch' {α : Type} (m : PE α) (h : Exc → PE α) : PE α :=
  Prog.bind m fun r => match r with
    | .ok a => Prog.ret (.ok a)
    | .error e => h e
/-- `try m finally fin` (an exception of `fin` replaces the outcome of `m`) -/
def withFinally {α : Type} (m : PE α) (fin : PE Unit) : PE α :=
  Prog.bind m fun r => Prog.bind fin fun f => match f with
    | .ok _ => Prog.ret r
    | .error e => Prog.ret (.error e)
instance : Monad PE where
  pure := pure'
  bind := bind'
instance : MonadExcept Exc PE where
  throw := throw'
  tryCatch := tryCatch'
/-- lift a pure `Except` -/
def ofExcept {α : Type} : Except Exc α → PE α
  | .ok a => pure' a
  | .error e => throw' e
/-- issue a primitive and decode its response -/
def prim {α : Type} (e : Ev) (dec : Resp → Except Exc α) : PE α :=
  Prog.op e fun r => Prog.ret (dec r)
end PE

/-! ### primitive wrappers -/
open PE in
def isFile (l : Loc) : PE Bool :=
  prim (.isFile l) fun | .bool b => .ok b | .err e => .error e | _ => .error .modelBug
open PE in
def readRef (l : Loc) : PE Str :=
  prim (.readRef l) fun | .text t => .ok t | .err e => .error e | _ => .error .modelBug
open PE in
def readOpen (l : Loc) : PE Str :=
  prim (.readOpen l) fun | .text t => .ok t | .err e => .error e | _ => .error .modelBug
open PE in
def readObj (c : Str) : PE Tok :=
  prim (.readObj c) fun | .tok t => .ok t | .err e => .error e | _ => .error .modelBug
open PE in
def readDoc (d n : Str) : PE Tok :=
  prim (.readDoc d n) fun | .tok t => .ok t | .err e => .error e | _ => .error .modelBug
open PE in
def sizeIsZero (c : Str) : PE Bool :=
  prim (.sizeIsZero c) fun | .bool b => .ok b | .err e => .error e | _ => .error .modelBug
open PE in
def listDocs (d : Str) : PE (Option (List Str)) :=
  prim (.listDocs d) fun | .names l => .ok l | .err e => .error e | _ => .error .modelBug
open PE in
def unitPrim (e : Ev) : PE Unit :=
  prim e fun | .unit => .ok () | .err e => .error e | _ => .error .modelBug
def eff (e : Eff) : PE Unit := unitPrim (.eff e)
def openTmpWrite (a : TmpArea) : PE Unit := unitPrim (.openTmpWrite a)
def acquire (c : LockClass) (id : Str) : PE Unit := unitPrim (.acquire c id)
def release (c : LockClass) (id : Str) : PE Unit := unitPrim (.release c id)
open PE in
def inProgress (pid : Str) : PE Bool :=
  prim (.inProgress pid) fun | .bool b => .ok b | .err e => .error e | _ => .error .modelBug
open PE in
def isLocked (c : LockClass) (id : Str) : PE Bool :=
  prim (.isLocked c id) fun | .bool b => .ok b | .err e => .error e | _ => .error .modelBug

/-! ### worlds and the sequential interpreter -/

/-- Which kind of primitive a fault plan makes fail. -/
inductive SiteKind | mkdirs | mkTmp | openWrite | rename | remove | flock | openRead
  deriving DecidableEq, Repr

/-- What a primitive is addressed to (its *destination*). -/
inductive Target
  | loc (l : Loc)
  | dir (a : Area) (key : Str)
  | tmp (a : TmpArea)
  deriving DecidableEq, Repr

/-- One injected failure: the `nth` (0-based) primitive of kind `kind` addressed
    to `target` fails; if `persistent`, every later primitive addressed to the
    same target fails too (until the call returns). -/
structure Fault where
  kind : SiteKind
  target : Target
  nth : Nat
  persistent : Bool
  seen : Nat := 0          -- matching primitives met so far
  fired : Bool := false
  deriving Repr, DecidableEq

structure World where
  st : Store
  lk : Locks := {}
  fault : Option Fault := none
  log : List Eff := []        -- effects applied so far, oldest first
  deriving Repr

/-- the sites (kind, destination) a primitive passes through, in syscall order -/
def Ev.sites : Ev → List (SiteKind × Target)
  | .readRef l => [(.openRead, .loc l)]
  | .readObj c => [(.openRead, .loc (.obj c))]
  | .readDoc d n => [(.openRead, .loc (.mdoc d n))]
  | .openTmpWrite a => [(.openWrite, .tmp a)]
  | .eff (.mkdirs a k) => [(.mkdirs, .dir a k)]
  | .eff (.mkTmp a) => [(.mkTmp, .tmp a)]
  | .eff (.removeTmp a) => [(.remove, .tmp a)]
  | .eff (.publishObj c _) => [(.rename, .loc (.obj c))]
  | .eff (.publishDoc d n _) => [(.rename, .loc (.mdoc d n))]
  | .eff (.publishPidRef k _) => [(.rename, .loc (.pidRef k))]
  | .eff (.publishCidRef c _) => [(.rename, .loc (.cidRef c))]
  | .eff (.retire l) => [(.rename, .loc l.marker)]
  | .eff (.remove l) => [(.remove, .loc l)]
  | .eff (.appendCid c _) => [(.openWrite, .loc (.cidRef c)), (.flock, .loc (.cidRef c))]
  | .eff (.rewriteCid c _) => [(.openWrite, .loc (.cidRef c)), (.flock, .loc (.cidRef c))]
  | _ => []

/-- Does the plan make this primitive fail? Returns the updated plan.
    A one-off `rename` fault does **not** fail the move: `shutil.move` falls
    back to copy + unlink, which reaches the same final state; it is recorded
    as fired. A persistent one fails the fallback's `open(dst,'wb')` too. -/
def Fault.check (f : Fault) (e : Ev) : Bool × Fault :=
  let ss := e.sites
  if f.fired then
    if f.persistent ∧ ss.any (fun s => s.2 = f.target) then (true, f) else (false, f)
  else
    if ss.any (fun s => s.1 = f.kind ∧ s.2 = f.target) then
      if f.seen = f.nth then
        let f' := { f with fired := true, seen := f.seen + 1 }
        if f.kind = .rename ∧ ¬ f.persistent then (false, f') else (true, f')
      else (false, { f with seen := f.seen + 1 })
    else (false, f)

def applyEff (w : World) (e : Eff) : Resp × World :=
  match w.st.apply e with
  | some s => (.unit, { w with st := s, log := w.log ++ [e] })
  | none => (.err .fileNotFound, w)

/-- consult the fault plan: does this primitive fail? (only the plan changes) -/
def faultStep (w : World) (e : Ev) : Bool × World :=
  match w.fault with
  | none => (false, w)
  | some f => ((f.check e).1, { w with fault := some (f.check e).2 })

/-- answer of the world to a primitive that does not fail by injection -/
def respondCore (w : World) : Ev → Resp × World
  | .isFile l => (.bool (w.st.isFile l), w)
  | .readRef (.pidRef k) =>
      (match w.st.pidRefs.get k with | some t => .text t | none => .err .fileNotFound, w)
  | .readRef (.cidRef c) =>
      (match w.st.cidRefs.get c with | some t => .text t | none => .err .fileNotFound, w)
  | .readRef _ => (.err .modelBug, w)
  | .readOpen (.cidRef c) =>
      (match w.st.cidRefs.get c with | some t => .text t | none => .err .fileNotFound, w)
  | .readOpen _ => (.err .modelBug, w)
  | .readObj c => (match w.st.objs.get c with | some t => .tok t | none => .err .fileNotFound, w)
  | .readDoc d n =>
      (match w.st.mdocs.get (d, n) with | some t => .tok t | none => .err .fileNotFound, w)
  | .sizeIsZero c =>
      (match w.st.cidRefs.get c with | some t => .bool t.isEmpty | none => .err .fileNotFound, w)
  | .listDocs d =>
      (.names (if (Area.mdata, d) ∈ w.st.dirs then some (w.st.listDocs d) else none), w)
  | .openTmpWrite _ => (.unit, w)
  | .eff x => applyEff w x
  | .inProgress p => (.bool (p ∈ w.lk.objPid), w)
  | .acquire c id =>
      if id ∈ w.lk.get c then (.err .blocked, w)
      else (.unit, { w with lk := w.lk.put c (w.lk.get c ++ [id]) })
  | .release c id =>
      if id ∈ w.lk.get c then (.unit, { w with lk := w.lk.put c ((w.lk.get c).erase id) })
      else (.err .valueError, w)
  | .isLocked c id => (.bool (id ∈ w.lk.get c), w)

/-- answer of the world to a primitive, sequential semantics -/
def respond (w : World) (e : Ev) : Resp × World :=
  if (faultStep w e).1 then (.err .osError, (faultStep w e).2) else respondCore (faultStep w e).2 e

namespace Prog
/-- sequential big-step run -/
def run {α : Type} : Prog α → World → α × World
  | .ret a, w => (a, w)
  | .op e k, w => let rw := respond w e; run (k rw.1) rw.2

/-- sequential run that also returns the primitives issued, in order -/
def runLog {α : Type} : Prog α → World → List Ev → α × World × List Ev
  | .ret a, w, acc => (a, w, acc.reverse)
  | .op e k, w, acc => let rw := respond w e; runLog (k rw.1) rw.2 (e :: acc)

/-- sequential run that also returns the store after every file-system effect
    (the states a crash or a concurrent reader can observe) -/
def runSnap {α : Type} : Prog α → World → List Store → α × World × List Store
  | .ret a, w, acc => (a, w, acc.reverse)
  | .op e k, w, acc =>
    let rw := respond w e
    match e with
    | .eff _ => if rw.2.log.length > w.log.length then runSnap (k rw.1) rw.2 (rw.2.st :: acc)
                else runSnap (k rw.1) rw.2 acc
    | _ => runSnap (k rw.1) rw.2 acc

def Ev.isMutating : Ev → Bool
  | .eff _ => true
  | _ => false

/-- run, but stop just before the `(n+1)`-th file-system effect (a crash) -/
def crashAt {α : Type} : Nat → Prog α → World → Option α × World
  | _, .ret a, w => (some a, w)
  | n, .op e k, w =>
    match e, n with
    | .eff _, 0 => (none, w)
    | .eff _, n + 1 => let rw := respond w e; crashAt n (k rw.1) rw.2
    | _, n => let rw := respond w e; crashAt n (k rw.1) rw.2
end Prog

end HS
