/- helper lemmas about the abstract specification (no property statements here) -/
import HSModel.Spec
namespace HS

theorem bind_eq_ok {ε α β : Type} (x : Except ε α) (f : α → Except ε β) (b : β) :
    (x >>= f) = .ok b ↔ ∃ a, x = .ok a ∧ f a = .ok b := by
  cases x with
  | error e => simp [bind, Except.bind]
  | ok a => simp [bind, Except.bind]

@[simp] theorem ok_bind {ε α β : Type} (a : α) (f : α → Except ε β) : (Except.ok a >>= f) = f a := rfl
@[simp] theorem error_bind {ε α β : Type} (e : ε) (f : α → Except ε β) :
    ((Except.error e : Except ε α) >>= f) = .error e := rfl
@[simp] theorem pure_ok {ε α : Type} (a : α) : (pure a : Except ε α) = .ok a := rfl

theorem pure_eq_ok {ε α : Type} (a b : α) : (pure a : Except ε α) = .ok b ↔ a = b := by
  simp [pure, Except.pure]

namespace FMap
variable {K V : Type} [DecidableEq K]

theorem mem_of_getL {l : List (K × V)} {k : K} {v : V} (h : getL l k = some v) : (k, v) ∈ l := by
  induction l with
  | nil => simp [getL] at h
  | cons a r ih =>
    obtain ⟨k', v'⟩ := a
    by_cases hk : k' = k
    · subst hk
      simp [getL] at h
      simp [h]
    · simp [getL, hk] at h
      exact List.mem_cons_of_mem _ (ih h)

theorem get_del_some {m : FMap K V} {k c : K} {v : V} (h : (m.del k).get c = some v) :
    m.get c = some v := by
  rw [get_del] at h
  split at h
  · cases h
  · exact h

theorem mem_of_get {m : FMap K V} {k : K} {v : V} (h : m.get k = some v) : (k, v) ∈ m.entries :=
  mem_of_getL h

end FMap

namespace Abs

theorem referenced_of_get {a : Abs} {q c : Str} (h : a.bind.get q = some c) :
    a.referenced c = true := by
  unfold referenced
  rw [List.any_eq_true]
  exact ⟨(q, c), FMap.mem_of_get h, by simp⟩

theorem tag_bound {a : Abs} {p c : Str} (c' : Str) (h : a.bind.get p = some c) :
    a.tag p c' = (.error (if a.referenced c' then .hashStoreRefsAlreadyExists
                          else .pidRefsAlreadyExists), a) := by
  unfold tag
  rw [h]

theorem tag_unbound {a : Abs} {p : Str} (c' : Str) (h : a.bind.get p = none) :
    a.tag p c' = (.ok (), { a with bind := a.bind.set p c' }) := by
  unfold tag
  rw [h]

theorem addObj_bind (a : Abs) (c : Str) (t : Tok) : (a.addObj c t).bind = a.bind := by
  unfold addObj; split <;> rfl

theorem addObj_docs (a : Abs) (c : Str) (t : Tok) : (a.addObj c t).docs = a.docs := by
  unfold addObj; split <;> rfl

theorem addObj_keeps (a : Abs) (c c' : Str) (t t' : Tok) (h : a.objs.get c' = some t') :
    (a.addObj c t).objs.get c' = some t' := by
  unfold addObj
  split
  · exact h
  · rename_i hc
    have : c ≠ c' := by
      intro e; subst e
      apply hc
      rw [FMap.contains_iff]; exact ⟨_, h⟩
    simp [FMap.get_set_ne _ _ this, h]

theorem addObj_get_self (a : Abs) (c : Str) (t : Tok) :
    (a.addObj c t).objs.get c = some t ∨ ∃ t', a.objs.get c = some t' ∧ (a.addObj c t).objs.get c = some t' := by
  unfold addObj
  split
  · rename_i hc
    rw [FMap.contains_iff] at hc
    obtain ⟨v, hv⟩ := hc
    exact Or.inr ⟨v, hv, hv⟩
  · left; simp

end Abs
end HS

namespace HS
namespace FMap
variable {K V : Type} [DecidableEq K]

theorem getL_filter_keys (l : List (K × V)) (keep : K → Bool) (k : K) :
    getL (l.filter fun e => keep e.1) k = if keep k then getL l k else none := by
  induction l with
  | nil => simp [getL]
  | cons a r ih =>
    obtain ⟨k', v⟩ := a
    by_cases hk : keep k' = true
    · simp only [List.filter_cons, hk, if_true, getL]
      by_cases he : k' = k
      · subst he; simp [hk]
      · simp [he, ih]
    · simp only [List.filter_cons, hk]
      simp only [Bool.false_eq_true, if_false, getL, ih]
      by_cases he : k' = k
      · subst he; simp [hk]
      · simp [he]

end FMap

namespace Abs
theorem dropDocs_get (a : Abs) (p q g : Str) :
    (a.dropDocs p).get (q, g) = if q = p then none else a.docs.get (q, g) := by
  unfold dropDocs FMap.get
  have := FMap.getL_filter_keys a.docs.entries (fun k => decide (k.1 ≠ p)) (q, g)
  simp only [decide_not, Bool.not_eq_eq_eq_not, Bool.not_true, decide_eq_false_iff_not] at this
  by_cases h : q = p
  · subst h
    simp only [if_true]
    simpa using this
  · simp only [h, if_false]
    simpa [h] using this
end Abs
end HS
