/-
  Acq — which classes of identifiers a call may claim or release, for every sequence of answers.
  Helper lemmas for C08 / C16 (tie of the model's calls to the source's claims).
-/
import HSModel.Proofs.Shape
import HSModel.Proofs.Disc
namespace HS
variable (cfg : Config) (o : Oracle)

/-- only identifiers of the classes `cs` are claimed or released -/
def AcqIn (cs : List LockClass) : Ev → Prop
  | .acquire c _ => c ∈ cs
  | .release c _ => c ∈ cs
  | _ => True

theorem acqIn_of_notLock (cs : List LockClass) (e : Ev) (h : NotLock e) : AcqIn cs e := by
  cases e <;> first | trivial | exact h.elim

theorem acqIn_mono {cs cs' : List LockClass} (h : ∀ c ∈ cs, c ∈ cs') (e : Ev) (he : AcqIn cs e) : AcqIn cs' e := by
  cases e <;> first | trivial | exact h _ he

/-- lift a lock-free helper -/
theorem allEv_acqIn_of_nl {α : Type} (cs : List LockClass) (m : PE α) (h : m.AllEv NotLock) : m.AllEv (AcqIn cs) :=
  Prog.allEv_mono _ (acqIn_of_notLock cs) h

macro "acq_step" : tactic => `(tactic| first
  | (show _ ∈ _; decide)
  | allev_step
  | exact allEv_acqIn_of_nl _ _ (findObject_nl _ _ _)
  | exact allEv_acqIn_of_nl _ _ (verifyRefs_nl _ _ _)
  | exact allEv_acqIn_of_nl _ _ (updateRefsAdd_nl _ _)
  | exact allEv_acqIn_of_nl _ _ (updateRefsRemove_nl _ _)
  | exact allEv_acqIn_of_nl _ _ writeRefsTmp_nl
  | exact allEv_acqIn_of_nl _ _ (deleteMarked_nl _)
  | exact allEv_acqIn_of_nl _ _ (markPidRef_nl _)
  | exact allEv_acqIn_of_nl _ _ (removePidAndHandle_nl _ _)
  | exact allEv_acqIn_of_nl _ _ (validateAndCheckCidLock_nl _ _)
  | exact allEv_acqIn_of_nl _ _ (untagObject_nl _ _ _ _)
  | exact allEv_acqIn_of_nl _ _ (hexDigestCore_nl _ _ _ _)
  | exact allEv_acqIn_of_nl _ _ (moveAndGetChecksums_nl _ _ _ _ _ _ _ _)
  | (simp [AcqIn]; done))

theorem storeRefs_acq (pid cid : Str) : (storeRefs cfg o pid cid).AllEv (AcqIn [.refPid, .cid]) := by
  unfold storeRefs; repeat acq_step

theorem tagObject_acq (pid cid : SArg) : (tagObject cfg o pid cid).AllEv (AcqIn [.refPid, .cid]) := by
  unfold tagObject; repeat (first | exact storeRefs_acq cfg o _ _ | acq_step)

theorem storeObject_acq (p : SArg) (d : DataArg) (a c ca : SArg) (sz : IArg) :
    (storeObject cfg o p d a c ca sz).AllEv (AcqIn [.objPid, .refPid, .cid]) := by
  unfold storeObject
  repeat (first
    | exact Prog.allEv_mono _ (acqIn_mono (by decide)) (tagObject_acq cfg o _ _)
    | acq_step)

theorem deleteObjectOnly_acq (cid : Str) : (deleteObjectOnly cid).AllEv (AcqIn [.cid]) := by
  unfold deleteObjectOnly; repeat acq_step

theorem deleteIfInvalid_acq (om : Option ObjMeta) (c ca : SArg) (s : IArg) :
    (deleteIfInvalidObject cfg o om c ca s).AllEv (AcqIn [.cid]) := by
  unfold deleteIfInvalidObject; repeat (first | exact deleteObjectOnly_acq _ | acq_step)

theorem withDocLock_acq {α : Type} (cs : List LockClass) (hd : LockClass.doc ∈ cs) (doc : Str) (body : PE α)
    (h : body.AllEv (AcqIn cs)) : (withDocLock doc body).AllEv (AcqIn cs) := by
  unfold withDocLock; repeat (first | exact h | exact hd | acq_step)

theorem storeMetadata_acq (p : SArg) (d : DataArg) (f : SArg) :
    (storeMetadata cfg o p d f).AllEv (AcqIn [.doc]) := by
  unfold storeMetadata; repeat (first | (apply withDocLock_acq _ (by decide)) | acq_step)

theorem retireDocs_acq (dir : Str) (names : List Str) : (retireDocs dir names).AllEv (AcqIn [.doc]) := by
  induction names with
  | nil => exact PE.allEv_pure _
  | cons n r ih => unfold retireDocs; repeat (first | exact ih | (apply withDocLock_acq _ (by decide)) | acq_step)

theorem deleteMetadataCore_acq (p : Str) (fmt : Option Str) : (deleteMetadataCore o p fmt).AllEv (AcqIn [.doc]) := by
  unfold deleteMetadataCore
  cases fmt with
  | none => simp only; repeat (first | exact retireDocs_acq _ _ | acq_step)
  | some f => simp only; repeat (first | (apply withDocLock_acq _ (by decide)) | acq_step)

theorem deleteMetadata_acq (p f : SArg) : (deleteMetadata cfg o p f).AllEv (AcqIn [.doc]) := by
  unfold deleteMetadata; repeat (first | exact deleteMetadataCore_acq o _ _ | acq_step)

set_option maxHeartbeats 1600000 in
theorem deleteObject_acq (pid : SArg) : (deleteObject cfg o pid).AllEv (AcqIn [.objPid, .cid, .doc]) := by
  unfold deleteObject
  repeat (first
    | exact Prog.allEv_mono _ (acqIn_mono (by decide)) (deleteMetadataCore_acq o _ _)
    | acq_step)

theorem retrieveObject_acq (pid : SArg) : (retrieveObject cfg o pid).AllEv (AcqIn []) := by
  unfold retrieveObject; repeat acq_step
theorem retrieveMetadata_acq (pid f : SArg) : (retrieveMetadata cfg o pid f).AllEv (AcqIn []) := by
  unfold retrieveMetadata; repeat acq_step
theorem getHexDigest_acq (pid a : SArg) : (getHexDigest cfg o pid a).AllEv (AcqIn []) := by
  unfold getHexDigest; repeat acq_step

/-- the classes of identifiers each call may claim -/
def classesOf : Call → List LockClass
  | .storeObject .. => [.objPid, .refPid, .cid]
  | .tagObject .. => [.refPid, .cid]
  | .deleteIfInvalid .. => [.cid]
  | .storeMetadata .. => [.doc]
  | .retrieveObject .. => []
  | .retrieveMetadata .. => []
  | .deleteObject .. => [.objPid, .cid, .doc]
  | .deleteMetadata .. => [.doc]
  | .getHexDigest .. => []

/-- every call, whatever the file system answers, claims and releases identifiers of its classes only -/
theorem call_acq (c : Call) : (c.prog cfg o).AllEv (AcqIn (classesOf c)) := by
  cases c with
  | storeObject p d a c ca s => exact storeObject_acq cfg o p d a c ca s
  | tagObject p c => exact tagObject_acq cfg o p c
  | deleteIfInvalid om c ca s => exact deleteIfInvalid_acq cfg o om c ca s
  | storeMetadata p d f => exact storeMetadata_acq cfg o p d f
  | retrieveObject p => exact retrieveObject_acq cfg o p
  | retrieveMetadata p f => exact retrieveMetadata_acq cfg o p f
  | deleteObject p => exact deleteObject_acq cfg o p
  | deleteMetadata p f => exact deleteMetadata_acq cfg o p f
  | getHexDigest p a => exact getHexDigest_acq cfg o p a

/-- the API method of the source a call of the model stands for -/
def apiName : Call → Str
  | .storeObject .. => "store_object".toList
  | .tagObject .. => "tag_object".toList
  | .deleteIfInvalid .. => "delete_if_invalid_object".toList
  | .storeMetadata .. => "store_metadata".toList
  | .retrieveObject .. => "retrieve_object".toList
  | .retrieveMetadata .. => "retrieve_metadata".toList
  | .deleteObject .. => "delete_object".toList
  | .deleteMetadata .. => "delete_metadata".toList
  | .getHexDigest .. => "get_hex_digest".toList

/-- one call of each kind (`classesOf` and `apiName` look at the kind only: `kind_only`) -/
def reps : List Call :=
  [ .storeObject .none .bad .none .none .none .none, .tagObject .none .none,
    .deleteIfInvalid none .none .none .none, .storeMetadata .none .bad .none, .retrieveObject .none,
    .retrieveMetadata .none .none, .deleteObject .none, .deleteMetadata .none .none, .getHexDigest .none .none ]

theorem kind_only (c : Call) : ∃ r ∈ reps, apiName r = apiName c ∧ classesOf r = classesOf c := by
  cases c with
  | storeObject => exact ⟨.storeObject .none .bad .none .none .none .none, by simp [reps], rfl, rfl⟩
  | tagObject => exact ⟨.tagObject .none .none, by simp [reps], rfl, rfl⟩
  | deleteIfInvalid => exact ⟨.deleteIfInvalid none .none .none .none, by simp [reps], rfl, rfl⟩
  | storeMetadata => exact ⟨.storeMetadata .none .bad .none, by simp [reps], rfl, rfl⟩
  | retrieveObject => exact ⟨.retrieveObject .none, by simp [reps], rfl, rfl⟩
  | retrieveMetadata => exact ⟨.retrieveMetadata .none .none, by simp [reps], rfl, rfl⟩
  | deleteObject => exact ⟨.deleteObject .none, by simp [reps], rfl, rfl⟩
  | deleteMetadata => exact ⟨.deleteMetadata .none .none, by simp [reps], rfl, rfl⟩
  | getHexDigest => exact ⟨.getHexDigest .none .none, by simp [reps], rfl, rfl⟩


end HS
