/-
  AllEv — "every primitive a program can ever issue satisfies P", for every
  sequence of responses (hence for every file-system state, every injected
  fault and every interleaving with other threads). Helper lemmas only.
-/
import HSModel.Calls
namespace HS

/-- all primitives of the program tree satisfy `P`, whatever the answers are -/
def Prog.AllEv {α : Type} (P : Ev → Prop) : Prog α → Prop
  | .ret _ => True
  | .op e k => P e ∧ ∀ r, Prog.AllEv P (k r)

namespace Prog
variable {α β : Type} {P : Ev → Prop}

theorem allEv_bind (m : Prog α) (f : α → Prog β) (hm : m.AllEv P) (hf : ∀ a, (f a).AllEv P) :
    (Prog.bind m f).AllEv P := by
  induction m with
  | ret a => exact hf a
  | op e k ih => exact ⟨hm.1, fun r => ih r (hm.2 r)⟩

theorem allEv_mono {Q : Ev → Prop} (m : Prog α) (h : ∀ e, P e → Q e) (hm : m.AllEv P) : m.AllEv Q := by
  induction m with
  | ret a => trivial
  | op e k ih => exact ⟨h e hm.1, fun r => ih r (hm.2 r)⟩
end Prog

/-- the same notion for programs that may raise -/
def PE.AllEv {α : Type} (P : Ev → Prop) (m : PE α) : Prop := Prog.AllEv P (m : Prog (Except Exc α))

namespace PE
variable {α β : Type} {P : Ev → Prop}

theorem allEv_pure (a : α) : (pure a : PE α).AllEv P := trivial
theorem allEv_throw (e : Exc) : (throw e : PE α).AllEv P := trivial
theorem allEv_throw' (e : Exc) : (PE.throw' e : PE α).AllEv P := trivial
theorem allEv_pure' (a : α) : (PE.pure' a : PE α).AllEv P := trivial

theorem allEv_bind (m : PE α) (f : α → PE β) (hm : m.AllEv P) (hf : ∀ a, (f a).AllEv P) :
    (m >>= f).AllEv P := by
  show Prog.AllEv P (PE.bind' m f)
  unfold PE.bind'
  apply Prog.allEv_bind _ _ hm
  intro r
  cases r with
  | ok a => exact hf a
  | error e => trivial

theorem allEv_tryCatch (m : PE α) (h : Exc → PE α) (hm : m.AllEv P) (hh : ∀ e, (h e).AllEv P) :
    (tryCatch m h).AllEv P := by
  show Prog.AllEv P (PE.tryCatch' m h)
  unfold PE.tryCatch'
  apply Prog.allEv_bind _ _ hm
  intro r
  cases r with
  | ok a => trivial
  | error e => exact hh e

theorem allEv_withFinally (m : PE α) (fin : PE Unit) (hm : m.AllEv P) (hf : fin.AllEv P) :
    (PE.withFinally m fin).AllEv P := by
  unfold PE.withFinally
  apply Prog.allEv_bind _ _ hm
  intro r
  apply Prog.allEv_bind _ _ hf
  intro f
  cases f <;> trivial

theorem allEv_ofExcept (x : Except Exc α) : (PE.ofExcept x).AllEv P := by
  cases x <;> trivial

theorem allEv_prim (e : Ev) (dec : Resp → Except Exc α) (h : P e) : (PE.prim e dec).AllEv P :=
  ⟨h, fun _ => trivial⟩

theorem allEv_ite (c : Prop) [Decidable c] (a b : PE α) (ha : a.AllEv P) (hb : b.AllEv P) :
    (if c then a else b).AllEv P := by
  split <;> assumption

end PE

section prims
variable {P : Ev → Prop}
theorem allEv_isFile (l : Loc) (h : P (.isFile l)) : (isFile l).AllEv P := PE.allEv_prim _ _ h
theorem allEv_readRef (l : Loc) (h : P (.readRef l)) : (readRef l).AllEv P := PE.allEv_prim _ _ h
theorem allEv_readOpen (l : Loc) (h : P (.readOpen l)) : (readOpen l).AllEv P := PE.allEv_prim _ _ h
theorem allEv_readObj (c : Str) (h : P (.readObj c)) : (readObj c).AllEv P := PE.allEv_prim _ _ h
theorem allEv_readDoc (d n : Str) (h : P (.readDoc d n)) : (readDoc d n).AllEv P := PE.allEv_prim _ _ h
theorem allEv_sizeIsZero (c : Str) (h : P (.sizeIsZero c)) : (sizeIsZero c).AllEv P := PE.allEv_prim _ _ h
theorem allEv_listDocs (d : Str) (h : P (.listDocs d)) : (listDocs d).AllEv P := PE.allEv_prim _ _ h
theorem allEv_eff (e : Eff) (h : P (.eff e)) : (eff e).AllEv P := PE.allEv_prim _ _ h
theorem allEv_openTmpWrite (a : TmpArea) (h : P (.openTmpWrite a)) : (openTmpWrite a).AllEv P :=
  PE.allEv_prim _ _ h
theorem allEv_acquire (c : LockClass) (i : Str) (h : P (.acquire c i)) : (acquire c i).AllEv P :=
  PE.allEv_prim _ _ h
theorem allEv_release (c : LockClass) (i : Str) (h : P (.release c i)) : (release c i).AllEv P :=
  PE.allEv_prim _ _ h
theorem allEv_inProgress (p : Str) (h : P (.inProgress p)) : (inProgress p).AllEv P :=
  PE.allEv_prim _ _ h
theorem allEv_isLocked (c : LockClass) (i : Str) (h : P (.isLocked c i)) : (isLocked c i).AllEv P :=
  PE.allEv_prim _ _ h
end prims

end HS

namespace HS

/-- like `AllEv`, and every value the program can return satisfies `Q` -/
def Prog.AllEvR {α : Type} (P : Ev → Prop) (Q : α → Prop) : Prog α → Prop
  | .ret a => Q a
  | .op e k => P e ∧ ∀ r, Prog.AllEvR P Q (k r)

namespace Prog
variable {α β : Type} {P : Ev → Prop}

theorem allEvR_bind {Q : α → Prop} {R : β → Prop} (m : Prog α) (f : α → Prog β)
    (hm : m.AllEvR P Q) (hf : ∀ a, Q a → (f a).AllEvR P R) : (Prog.bind m f).AllEvR P R := by
  induction m with
  | ret a => exact hf a hm
  | op e k ih => exact ⟨hm.1, fun r => ih r (hm.2 r)⟩

theorem allEvR_weaken {Q R : α → Prop} (m : Prog α) (h : ∀ a, Q a → R a) (hm : m.AllEvR P Q) :
    m.AllEvR P R := by
  induction m with
  | ret a => exact h a hm
  | op e k ih => exact ⟨hm.1, fun r => ih r (hm.2 r)⟩

theorem allEv_of_allEvR {Q : α → Prop} (m : Prog α) (hm : m.AllEvR P Q) : m.AllEv P := by
  induction m with
  | ret a => trivial
  | op e k ih => exact ⟨hm.1, fun r => ih r (hm.2 r)⟩

theorem allEvR_of_allEv (m : Prog α) (hm : m.AllEv P) : m.AllEvR P (fun _ => True) := by
  induction m with
  | ret a => trivial
  | op e k ih => exact ⟨hm.1, fun r => ih r (hm.2 r)⟩
end Prog

/-- postcondition on the value of a program that may raise (errors are unconstrained) -/
def okPost {α : Type} (Q : α → Prop) : Except Exc α → Prop
  | .ok a => Q a
  | .error _ => True

def PE.AllEvR {α : Type} (P : Ev → Prop) (Q : α → Prop) (m : PE α) : Prop :=
  Prog.AllEvR P (okPost Q) (m : Prog (Except Exc α))

namespace PE
variable {α β : Type} {P : Ev → Prop}

theorem allEv_of_allEvR {Q : α → Prop} (m : PE α) (h : m.AllEvR P Q) : m.AllEv P :=
  Prog.allEv_of_allEvR _ h

theorem allEvR_of_allEv (m : PE α) (h : m.AllEv P) : m.AllEvR P (fun _ => True) := by
  apply Prog.allEvR_weaken _ _ (Prog.allEvR_of_allEv _ h)
  intro a _; cases a <;> trivial

theorem allEvR_ofExcept (x : Except Exc α) : (PE.ofExcept x).AllEvR P (fun a => x = .ok a) := by
  cases x <;> simp [PE.ofExcept, PE.AllEvR, PE.pure', PE.throw', Prog.AllEvR, okPost]

theorem allEvR_pure {Q : α → Prop} (a : α) (h : Q a) : (pure a : PE α).AllEvR P Q := h
theorem allEvR_throw {Q : α → Prop} (e : Exc) : (throw e : PE α).AllEvR P Q := trivial

theorem allEvR_bind {Q : α → Prop} {R : β → Prop} (m : PE α) (f : α → PE β)
    (hm : m.AllEvR P Q) (hf : ∀ a, Q a → (f a).AllEvR P R) : (m >>= f).AllEvR P R := by
  show Prog.AllEvR P (okPost R) (PE.bind' m f)
  unfold PE.bind'
  apply Prog.allEvR_bind _ _ hm
  intro r hr
  cases r with
  | ok a => exact hf a hr
  | error e => trivial

/-- use a result postcondition to continue with plain `AllEv` -/
theorem allEv_bind_post {Q : α → Prop} (m : PE α) (f : α → PE β)
    (hm : m.AllEvR P Q) (hf : ∀ a, Q a → (f a).AllEv P) : (m >>= f).AllEv P := by
  apply allEv_of_allEvR (Q := fun _ => True)
  apply allEvR_bind _ _ hm
  intro a ha
  exact allEvR_of_allEv _ (hf a ha)

theorem allEvR_tryCatch {Q : α → Prop} (m : PE α) (h : Exc → PE α) (hm : m.AllEvR P Q)
    (hh : ∀ e, (h e).AllEvR P Q) : (tryCatch m h).AllEvR P Q := by
  show Prog.AllEvR P (okPost Q) (PE.tryCatch' m h)
  unfold PE.tryCatch'
  apply Prog.allEvR_bind _ _ hm
  intro r hr
  cases r with
  | ok a => exact hr
  | error e => exact hh e

theorem allEvR_withFinally {Q : α → Prop} (m : PE α) (fin : PE Unit) (hm : m.AllEvR P Q)
    (hf : fin.AllEv P) : (PE.withFinally m fin).AllEvR P Q := by
  unfold PE.withFinally
  apply Prog.allEvR_bind _ _ hm
  intro r hr
  apply Prog.allEvR_bind _ _ (Prog.allEvR_of_allEv _ hf)
  intro f _
  cases f with
  | ok _ => exact hr
  | error e => trivial

end PE
end HS
