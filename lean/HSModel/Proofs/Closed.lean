/-
  Closed — closed forms of calls on explicit worlds: the sequential run of a
  call, from a world with free locks and no fault plan, computed symbolically.
  Helper lemmas (the property statements that use them are in Props/).
-/
import HSModel.Proofs.RunSimpAttr
import HSModel.Calls
import HSModel.Proofs.TextLemmas
namespace HS

attribute [runsimp] PE.ofExcept PE.withFinally bind PE.bind' PE.pure' PE.throw' PE.tryCatch' Prog.bind
  Prog.run acquire release unitPrim PE.prim respond faultStep respondCore eff isFile readRef readOpen readObj
  readDoc sizeIsZero listDocs inProgress isLocked openTmpWrite Locks.get Locks.put applyEff Store.apply
  Store.isFile Store.retire Store.remove FMap.contains tryCatch pure throw Store.setTmp Store.tmpCount

theorem pyLines_single (p : Str) (hp : hasSpace p = false) : pyLines (p ++ ['\n']) = [p] := by
  have := pyLines_render [p] (by intro l hl; simp at hl; subst hl; exact hp)
  simpa [renderLines] using this

theorem checkString_of_ok {p : Str} (hp : checkStringOk p = true) : checkString (.str p) = .ok p := by
  simp [checkString, hp]

theorem nospace_of_ok {p : Str} (hp : checkStringOk p = true) : hasSpace p = false :=
  ((checkStringOk_iff p).mp hp).2

variable (cfg : Config) (o : Oracle)

/-- the world reached from `(st, log)` with free locks and no fault plan -/
def calmL (l : List Str) (st : Store) (log : List Eff) : World :=
  { st := st, lk := { objPid := l }, fault := none, log := log }

/-- … with no lock held at all -/
def calm (st : Store) (log : List Eff) : World := calmL [] st log

/-! ### tag_object -/

theorem tag_neither (l : List Str) (st : Store) (log : List Eff) (p c : Str) (hp : checkStringOk p = true)
    (hc : checkStringOk c = true) (h1 : st.pidRefs.get (o.hId p) = none) (h2 : st.cidRefs.get c = none) :
    (tagObject cfg o (.str p) (.str c)).run (calmL l st log) =
      (.ok .unit,
       calmL l { st with pidRefs := st.pidRefs.set (o.hId p) c, cidRefs := st.cidRefs.set c (p ++ ['\n']),
                          dirs := (Area.cidRef, c) :: (Area.pidRef, o.hId p) :: st.dirs }
         (log ++ [Eff.mkdirs Area.pidRef (o.hId p), Eff.mkdirs Area.cidRef c, Eff.mkTmp TmpArea.refs,
                  Eff.mkTmp TmpArea.refs, Eff.publishPidRef (o.hId p) c, Eff.publishCidRef c (p ++ ['\n'])])) := by
  simp [calmL, tagObject, storeRefs, runsimp, checkString_of_ok hp, checkString_of_ok hc, h1, h2, writeRefsTmp, verifyRefs, inRefs,
    pyLines_single p (nospace_of_ok hp)]

theorem tag_pid_only (l : List Str) (st : Store) (log : List Eff) (p c x : Str) (hp : checkStringOk p = true)
    (hc : checkStringOk c = true) (h1 : st.pidRefs.get (o.hId p) = some x) (h2 : st.cidRefs.get c = none) :
    (tagObject cfg o (.str p) (.str c)).run (calmL l st log) =
      (.error .pidRefsAlreadyExists,
       calmL l { st with dirs := (Area.cidRef, c) :: (Area.pidRef, o.hId p) :: st.dirs }
         (log ++ [Eff.mkdirs Area.pidRef (o.hId p), Eff.mkdirs Area.cidRef c])) := by
  simp [calmL, tagObject, storeRefs, runsimp, checkString_of_ok hp, checkString_of_ok hc, h1, h2]

theorem tag_both (l : List Str) (st : Store) (log : List Eff) (p c x t : Str) (hp : checkStringOk p = true)
    (hc : checkStringOk c = true) (h1 : st.pidRefs.get (o.hId p) = some x) (h2 : st.cidRefs.get c = some t) :
    (tagObject cfg o (.str p) (.str c)).run (calmL l st log) =
      (.error .hashStoreRefsAlreadyExists,
       calmL l { st with dirs := (Area.cidRef, c) :: (Area.pidRef, o.hId p) :: st.dirs }
         (log ++ [Eff.mkdirs Area.pidRef (o.hId p), Eff.mkdirs Area.cidRef c])) := by
  by_cases hx : x = c
  · by_cases hin : inRefs p t = true
    · simp [calmL, tagObject, storeRefs, runsimp, checkString_of_ok hp, checkString_of_ok hc, h1, h2, verifyRefs, hx, hin]
    · simp [calmL, tagObject, storeRefs, runsimp, checkString_of_ok hp, checkString_of_ok hc, h1, h2, verifyRefs, hx, hin]
  · simp [calmL, tagObject, storeRefs, runsimp, checkString_of_ok hp, checkString_of_ok hc, h1, h2, verifyRefs, hx]

/-- the cid already has a well-formed list: the pid reference is written and the
    pid appended (or found already listed) -/
theorem tag_cid_only (l : List Str) (st : Store) (log : List Eff) (p c : Str) (ls : List Str) (hp : checkStringOk p = true)
    (hc : checkStringOk c = true) (h1 : st.pidRefs.get (o.hId p) = none)
    (h2 : st.cidRefs.get c = some (renderLines ls)) (hls : ∀ l ∈ ls, hasSpace l = false) (hnot : p ∉ ls) :
    (tagObject cfg o (.str p) (.str c)).run (calmL l st log) =
      (.ok .unit,
       calmL l { st with pidRefs := st.pidRefs.set (o.hId p) c, cidRefs := st.cidRefs.set c (renderLines (ls ++ [p])),
                          dirs := (Area.cidRef, c) :: (Area.pidRef, o.hId p) :: st.dirs }
         (log ++ [Eff.mkdirs Area.pidRef (o.hId p), Eff.mkdirs Area.cidRef c, Eff.mkTmp TmpArea.refs,
                  Eff.publishPidRef (o.hId p) c, Eff.appendCid c (p ++ ['\n'])])) := by
  have hsp := nospace_of_ok hp
  have hin : inRefs p (renderLines ls) = false := by
    rw [inRefs_render p ls hls]; simpa using hnot
  have hls' : ∀ l ∈ ls ++ [p], hasSpace l = false := by
    intro l hl
    rcases List.mem_append.mp hl with h | h
    · exact hls l h
    · simp at h; subst h; exact hsp
  have hin' : inRefs p (renderLines (ls ++ [p])) = true := by
    rw [inRefs_render p _ hls']; simp
  simp [calmL, tagObject, storeRefs, runsimp, checkString_of_ok hp, checkString_of_ok hc, h1, h2, writeRefsTmp, verifyRefs, updateRefsAdd, hin,
    renderLines_snoc, hin']

end HS
