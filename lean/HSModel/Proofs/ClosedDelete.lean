/-
  ClosedDelete — closed forms of `delete_object` on explicit worlds (free locks,
  no fault plan). Helper lemmas.
-/
import HSModel.Proofs.MetaRun
import HSModel.Proofs.MetaDocs
namespace HS
variable (cfg : Config) (o : Oracle)

theorem renderLines_eq_nil (ls : List Str) : renderLines ls = [] ↔ ls = [] := by
  cases ls with
  | nil => simp [renderLines]
  | cons a r => simp [renderLines]

theorem delete_unknown (st : Store) (log : List Eff) (p : Str) (hp : checkStringOk p = true)
    (h1 : st.pidRefs.get (o.hId p) = none) :
    (deleteObject cfg o (.str p)).run (calm st log) = (.error .pidRefsDoesNotExist, calm st log) := by
  simp [calm, calmL, deleteObject, findObject, runsimp, checkString_of_ok hp, h1]

local macro "delete_simp" hp:ident h1:ident h2:ident hin:ident hls:ident p:ident ls:ident extra:term "," extra2:term : tactic =>
  `(tactic| simp [calm, calmL, deleteObject, findObject, runsimp, checkString_of_ok $hp, $h1:ident, $h2:ident, $hin:ident,
    updateRefsRemove, removeLines_render $p $ls $hls, overwrite_truncate, deleteMarked, renderLines_eq_nil,
    Prog.run_bind_pe, Prog.run_bind, Loc.marker, dmc_run_eq, dmc_lk, dmc_fault, dmc_pid, dmc_cid, dmc_obj, dmc_tr,
    dmc_to, $extra:term, $extra2:term])

/-- the pid is bound, listed, the object is there, other pids remain on the list -/
theorem delete_main_keep (st : Store) (log : List Eff) (p c : Str) (ls : List Str) (x : Tok)
    (hp : checkStringOk p = true)
    (h1 : st.pidRefs.get (o.hId p) = some c) (h2 : st.cidRefs.get c = some (renderLines ls))
    (hls : ∀ l ∈ ls, hasSpace l = false) (hin : p ∈ ls) (hobj : st.objs.get c = some x)
    (hrest : ls.filter (fun l => !decide (l = p)) ≠ []) :
    ∃ w', (deleteObject cfg o (.str p)).run (calm st log) = (.ok .unit, w') ∧
      w'.lk = {} ∧ w'.fault = none ∧ w'.st.tmpRefs = st.tmpRefs ∧ w'.st.tmpObj = st.tmpObj ∧
      w'.st.objs = st.objs ∧
      w'.st.pidRefs = ((st.pidRefs.del (o.hId p)).set (o.hId p ++ deleteSuffix) c).del (o.hId p ++ deleteSuffix) ∧
      w'.st.cidRefs = (st.cidRefs.set c (overwritePrefix (renderLines (ls.filter fun l => !decide (l = p)))
          (renderLines ls))).set c (renderLines (ls.filter fun l => !decide (l = p))) := by
  have hin' : inRefs p (renderLines ls) = true := by
    rw [inRefs_render p ls hls]; simpa using hin
  delete_simp hp h1 h2 hin' hls p ls hobj, hrest

/-- … and it was the last pid on the list: list and object go too -/
theorem delete_main_last (st : Store) (log : List Eff) (p c : Str) (ls : List Str) (x : Tok)
    (hp : checkStringOk p = true)
    (h1 : st.pidRefs.get (o.hId p) = some c) (h2 : st.cidRefs.get c = some (renderLines ls))
    (hls : ∀ l ∈ ls, hasSpace l = false) (hin : p ∈ ls) (hobj : st.objs.get c = some x)
    (hrest : ls.filter (fun l => !decide (l = p)) = []) :
    ∃ w', (deleteObject cfg o (.str p)).run (calm st log) = (.ok .unit, w') ∧
      w'.lk = {} ∧ w'.fault = none ∧ w'.st.tmpRefs = st.tmpRefs ∧ w'.st.tmpObj = st.tmpObj ∧
      w'.st.objs = ((st.objs.del c).set (c ++ deleteSuffix) x).del (c ++ deleteSuffix) ∧
      w'.st.pidRefs = ((st.pidRefs.del (o.hId p)).set (o.hId p ++ deleteSuffix) c).del (o.hId p ++ deleteSuffix) ∧
      w'.st.cidRefs = (((((st.cidRefs.set c (overwritePrefix [] (renderLines ls))).set c []).del c).set
          (c ++ deleteSuffix) [])).del (c ++ deleteSuffix) := by
  have hin' : inRefs p (renderLines ls) = true := by
    rw [inRefs_render p ls hls]; simpa using hin
  delete_simp hp h1 h2 hin' hls p ls hobj, hrest
  simp [renderLines]

/-- the object is missing (repaired branch): the references are cleaned the same way -/
theorem delete_missing_keep (st : Store) (log : List Eff) (p c : Str) (ls : List Str)
    (hp : checkStringOk p = true)
    (h1 : st.pidRefs.get (o.hId p) = some c) (h2 : st.cidRefs.get c = some (renderLines ls))
    (hls : ∀ l ∈ ls, hasSpace l = false) (hin : p ∈ ls) (hobj : st.objs.get c = none)
    (hrest : ls.filter (fun l => !decide (l = p)) ≠ []) :
    ∃ w', (deleteObject cfg o (.str p)).run (calm st log) = (.ok .unit, w') ∧
      w'.lk = {} ∧ w'.fault = none ∧ w'.st.tmpRefs = st.tmpRefs ∧ w'.st.tmpObj = st.tmpObj ∧
      w'.st.objs = st.objs ∧
      w'.st.pidRefs = ((st.pidRefs.del (o.hId p)).set (o.hId p ++ deleteSuffix) c).del (o.hId p ++ deleteSuffix) ∧
      w'.st.cidRefs = (st.cidRefs.set c (overwritePrefix (renderLines (ls.filter fun l => !decide (l = p)))
          (renderLines ls))).set c (renderLines (ls.filter fun l => !decide (l = p))) := by
  have hin' : inRefs p (renderLines ls) = true := by
    rw [inRefs_render p ls hls]; simpa using hin
  delete_simp hp h1 h2 hin' hls p ls hobj, hrest

theorem delete_missing_last (st : Store) (log : List Eff) (p c : Str) (ls : List Str)
    (hp : checkStringOk p = true)
    (h1 : st.pidRefs.get (o.hId p) = some c) (h2 : st.cidRefs.get c = some (renderLines ls))
    (hls : ∀ l ∈ ls, hasSpace l = false) (hin : p ∈ ls) (hobj : st.objs.get c = none)
    (hrest : ls.filter (fun l => !decide (l = p)) = []) :
    ∃ w', (deleteObject cfg o (.str p)).run (calm st log) = (.ok .unit, w') ∧
      w'.lk = {} ∧ w'.fault = none ∧ w'.st.tmpRefs = st.tmpRefs ∧ w'.st.tmpObj = st.tmpObj ∧
      w'.st.objs = st.objs ∧
      w'.st.pidRefs = ((st.pidRefs.del (o.hId p)).set (o.hId p ++ deleteSuffix) c).del (o.hId p ++ deleteSuffix) ∧
      w'.st.cidRefs = (((((st.cidRefs.set c (overwritePrefix [] (renderLines ls))).set c []).del c).set
          (c ++ deleteSuffix) [])).del (c ++ deleteSuffix) := by
  have hin' : inRefs p (renderLines ls) = true := by
    rw [inRefs_render p ls hls]; simpa using hin
  delete_simp hp h1 h2 hin' hls p ls hobj, hrest
  simp [renderLines]

/-! ### the same runs, documents side: the pid's directory is emptied -/

/-- what `delete_object(p)` leaves of the documents -/
structure DocsDropped (p : Str) (st st' : Store) : Prop where
  get : ∀ d m, st'.mdocs.get (d, m) = if d = o.hId p then none else st.mdocs.get (d, m)
  dirs : st'.dirs = st.dirs
  tmp : st'.tmpMeta = st.tmpMeta

local macro "delete_simp_docs" hp:ident h1:ident h2:ident hin:ident hls:ident p:ident ls:ident extra:term "," extra2:term "," hpl:ident : tactic =>
  `(tactic| simp [calm, calmL, deleteObject, findObject, runsimp, checkString_of_ok $hp, $h1:ident, $h2:ident, $hin:ident,
    updateRefsRemove, removeLines_render $p $ls $hls, overwrite_truncate, deleteMarked, renderLines_eq_nil,
    Prog.run_bind_pe, Prog.run_bind, Loc.marker, dmc_run_eq, dmc_lk, dmc_fault, dmc_pid, dmc_cid, dmc_obj, dmc_tr, dmc_to, dmc_all_get, dmc_all_dirs, dmc_all_tmp,
    $hpl:ident, $extra:term, $extra2:term])

theorem delete_docs (st : Store) (log : List Eff) (p c : Str) (ls : List Str)
    (hp : checkStringOk p = true)
    (h1 : st.pidRefs.get (o.hId p) = some c) (h2 : st.cidRefs.get c = some (renderLines ls))
    (hls : ∀ l ∈ ls, hasSpace l = false) (hin : p ∈ ls) (hpl : DocsPlainM st.mdocs st.dirs) :
    ∃ r w', (deleteObject cfg o (.str p)).run (calm st log) = (r, w') ∧ DocsDropped o p st w'.st := by
  have hin' : inRefs p (renderLines ls) = true := by
    rw [inRefs_render p ls hls]; simpa using hin
  by_cases hrest : ls.filter (fun l => !decide (l = p)) = []
  · cases hobj : st.objs.get c with
    | some x =>
      refine ⟨_, _, rfl, ?_⟩
      constructor
      · intro d m; delete_simp_docs hp h1 h2 hin' hls p ls hobj, hrest, hpl
      · delete_simp_docs hp h1 h2 hin' hls p ls hobj, hrest, hpl
      · delete_simp_docs hp h1 h2 hin' hls p ls hobj, hrest, hpl
    | none =>
      refine ⟨_, _, rfl, ?_⟩
      constructor
      · intro d m; delete_simp_docs hp h1 h2 hin' hls p ls hobj, hrest, hpl
      · delete_simp_docs hp h1 h2 hin' hls p ls hobj, hrest, hpl
      · delete_simp_docs hp h1 h2 hin' hls p ls hobj, hrest, hpl
  · cases hobj : st.objs.get c with
    | some x =>
      refine ⟨_, _, rfl, ?_⟩
      constructor
      · intro d m; delete_simp_docs hp h1 h2 hin' hls p ls hobj, hrest, hpl
      · delete_simp_docs hp h1 h2 hin' hls p ls hobj, hrest, hpl
      · delete_simp_docs hp h1 h2 hin' hls p ls hobj, hrest, hpl
    | none =>
      refine ⟨_, _, rfl, ?_⟩
      constructor
      · intro d m; delete_simp_docs hp h1 h2 hin' hls p ls hobj, hrest, hpl
      · delete_simp_docs hp h1 h2 hin' hls p ls hobj, hrest, hpl
      · delete_simp_docs hp h1 h2 hin' hls p ls hobj, hrest, hpl

end HS
