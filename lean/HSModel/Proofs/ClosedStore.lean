/-
  ClosedStore — the sequential run of `_move_and_get_checksums` and of
  `store_object` from a world with no fault plan. Helper lemmas.
-/
import HSModel.Proofs.ExactDelete
namespace HS
variable (cfg : Config) (o : Oracle)

/-- what placing the object leaves: references untouched, no temp residue, the
    only address that can appear is the content's own -/
structure Placed (t : Tok) (st st' : Store) : Prop where
  pid : st'.pidRefs = st.pidRefs
  cid : st'.cidRefs = st.cidRefs
  tr  : st'.tmpRefs = st.tmpRefs
  to  : st'.tmpObj = st.tmpObj
  obj : ∀ j x, st'.objs.get j = some x → st.objs.get j = some x ∨ j = o.dig cfg.alg t

theorem mv_run_pid (l : List Str) (st : Store) (log : List Eff) (p : Str) (t : Tok) (add cs cks : Option Str)
    (expSize : IArg) :
    ∃ r st' log', (moveAndGetChecksums cfg o (some p) t add cs cks expSize).run (calmL l st log) =
        (r, calmL l st' log') ∧ Placed cfg o t st st' ∧ (∀ m, r = .ok m → m.cid = o.dig cfg.alg t) := by
  cases hv : (verdict ((refineAlgorithmList defaultAlgos add cs).map fun a => (a, o.dig a t)) (fun a => o.dig a t)
      (o.size t) expSize cks cs).exc with
  | none =>
    cases ho : st.objs.get (o.dig cfg.alg t) with
    | none =>
      simp [calmL, moveAndGetChecksums, runsimp, hv, ho]
      refine ⟨_, _, ⟨rfl, rfl⟩, ⟨rfl, rfl, rfl, rfl, ?_⟩, ?_⟩
      · intro j x hx
        simp only at hx
        by_cases e : o.dig cfg.alg t = j
        · exact Or.inr e.symm
        · rw [FMap.get_set_ne _ _ e] at hx; exact Or.inl hx
      · intro m hm; cases hm; rfl
    | some y =>
      simp [calmL, moveAndGetChecksums, runsimp, hv, ho]
      refine ⟨_, _, ⟨rfl, rfl⟩, ⟨rfl, rfl, rfl, rfl, fun j x hx => Or.inl hx⟩, ?_⟩
      intro m hm; cases hm; rfl
  | some e =>
    cases ho : st.objs.get (o.dig cfg.alg t) with
    | none =>
      simp [calmL, moveAndGetChecksums, runsimp, hv, ho]
      refine ⟨_, _, ⟨rfl, rfl⟩, ⟨rfl, rfl, rfl, rfl, fun j x hx => Or.inl hx⟩, ?_⟩
      intro m hm; cases hm
    | some y =>
      simp [calmL, moveAndGetChecksums, runsimp, hv, ho]
      refine ⟨_, _, ⟨rfl, rfl⟩, ⟨rfl, rfl, rfl, rfl, fun j x hx => Or.inl hx⟩, ?_⟩
      intro m hm; cases hm

/-- the same run, with its result and the object map spelled out (for the refinement) -/
theorem mv_run_pid_spec (l : List Str) (st : Store) (log : List Eff) (p : Str) (t : Tok) (add cs cks : Option Str)
    (expSize : IArg) :
    let digests := (refineAlgorithmList defaultAlgos add cs).map fun a => (a, o.dig a t)
    let v := verdict digests (fun a => o.dig a t) (o.size t) expSize cks cs
    let cid := o.dig cfg.alg t
    ∃ st' log', (moveAndGetChecksums cfg o (some p) t add cs cks expSize).run (calmL l st log) =
        ((match v.exc with
          | some e => Except.error e
          | none => Except.ok { cid := cid, size := o.size t, digests := digests }), calmL l st' log') ∧
      st'.pidRefs = st.pidRefs ∧ st'.cidRefs = st.cidRefs ∧ st'.tmpRefs = st.tmpRefs ∧ st'.tmpObj = st.tmpObj ∧
      st'.mdocs = st.mdocs ∧ st'.tmpMeta = st.tmpMeta ∧ (∀ x ∈ st.dirs, x ∈ st'.dirs) ∧
      (∀ j, st'.objs.get j =
        if v.exc = none ∧ st.objs.get cid = none ∧ cid = j then some t else st.objs.get j) := by
  intro digests v cid
  cases hv : v.exc with
  | none =>
    have hv' : (verdict ((refineAlgorithmList defaultAlgos add cs).map fun a => (a, o.dig a t)) (fun a => o.dig a t)
      (o.size t) expSize cks cs).exc = none := hv
    cases ho : st.objs.get (o.dig cfg.alg t) with
    | none =>
      simp [calmL, moveAndGetChecksums, runsimp, hv', ho]
      refine ⟨_, ⟨⟨rfl, rfl⟩, rfl⟩, rfl, rfl, rfl, rfl, rfl, rfl, ?_, ?_⟩
      · intro a b hx; simp [hx]
      · intro j
        simp only
        rw [FMap.get_set]
    | some y =>
      simp [calmL, moveAndGetChecksums, runsimp, hv', ho]
      refine ⟨_, ⟨⟨rfl, rfl⟩, rfl⟩, rfl, rfl, rfl, rfl, rfl, rfl, fun a b hx => hx, ?_⟩
      intro j; rfl
  | some e =>
    have hv' : (verdict ((refineAlgorithmList defaultAlgos add cs).map fun a => (a, o.dig a t)) (fun a => o.dig a t)
      (o.size t) expSize cks cs).exc = some e := hv
    cases ho : st.objs.get (o.dig cfg.alg t) with
    | none =>
      simp [calmL, moveAndGetChecksums, runsimp, hv', ho]
    | some y =>
      simp [calmL, moveAndGetChecksums, runsimp, hv', ho]

/-- the data-only path (`store_object(None, data)`) -/
theorem mv_run_data (l : List Str) (st : Store) (log : List Eff) (t : Tok) :
    ∃ r st' log', (moveAndGetChecksums cfg o none t none none none .none).run (calmL l st log) =
        (r, calmL l st' log') ∧ Placed cfg o t st st' := by
  have hv : (verdict ((refineAlgorithmList defaultAlgos none none).map fun a => (a, o.dig a t)) (fun a => o.dig a t)
      (o.size t) .none none none).exc = none := by
    simp [verdict, sizeMismatch, Verdict.exc]
  cases ho : st.objs.get (o.dig cfg.alg t) with
  | none =>
    simp [calmL, moveAndGetChecksums, runsimp, hv, ho]
    refine ⟨_, _, ⟨rfl, rfl⟩, ⟨rfl, rfl, rfl, rfl, ?_⟩⟩
    intro j x hx
    simp only at hx
    by_cases e : o.dig cfg.alg t = j
    · exact Or.inr e.symm
    · rw [FMap.get_set_ne _ _ e] at hx; exact Or.inl hx
  | some y =>
    simp [calmL, moveAndGetChecksums, runsimp, hv, ho]
    exact ⟨_, _, ⟨rfl, rfl⟩, ⟨rfl, rfl, rfl, rfl, fun j x hx => Or.inl hx⟩⟩

/-- digests are never deletion markers (they are hexadecimal) -/
def PlainDigests : Prop := ∀ a t, Plain (o.dig a t)

theorem exact_placed (st st' : Store) (t : Tok) (h : RefsExact o st) (hp : Placed cfg o t st st')
    (hpl : Plain (o.dig cfg.alg t)) : RefsExact o st' := by
  refine ⟨?_, ?_, ?_, ?_, ?_⟩
  · intro k c hk; rw [hp.pid] at hk; rw [hp.cid]; exact h.pid_listed k c hk
  · intro c x hc; rw [hp.cid] at hc; rw [hp.pid]; exact h.list_ok c x hc
  · rw [hp.tr, hp.to]; exact h.no_tmp
  · intro c x hc; rw [hp.cid] at hc; exact h.cid_plain c x hc
  · intro c x hc
    rcases hp.obj c x hc with h' | h'
    · exact h.obj_plain c x h'
    · exact h' ▸ hpl

theorem store_exact (st : Store) (log : List Eff) (pid : SArg) (data : DataArg) (additional checksum csAlg : SArg)
    (expSize : IArg) (h : RefsExact o st) (hpd : PlainDigests o) :
    RefsExact o ((storeObject cfg o pid data additional checksum csAlg expSize).run (calm st log)).2.st := by
  by_cases hnone : pid = .none
  · subst hnone
    cases hd : checkArgData data with
    | error e =>
      have : (storeObject cfg o .none data additional checksum csAlg expSize).run (calm st log) = (.error e, calm st log) := by
        simp [storeObject, runsimp, hd, calm, calmL]
      rw [this]; exact h
    | ok _ =>
      cases hs : openStream data with
      | error e =>
        have : (storeObject cfg o .none data additional checksum csAlg expSize).run (calm st log) = (.error e, calm st log) := by
          simp [storeObject, runsimp, hd, hs, calm, calmL]
        rw [this]; exact h
      | ok t =>
        obtain ⟨r, st', log', hrun, hpl⟩ := mv_run_data cfg o [] st log t
        have : ((storeObject cfg o .none data additional checksum csAlg expSize).run (calm st log)).2 = calmL [] st' log' := by
          simp only [calmL] at hrun
          simp [storeObject, runsimp, hd, hs, calm, calmL, Prog.run_bind, Prog.run_bind_pe, hrun]
          cases r <;> rfl
        rw [this]; exact exact_placed cfg o st st' t h hpl (hpd _ _)
  · have hso : storeObject cfg o pid data additional checksum csAlg expSize =
        (do
          let p ← PE.ofExcept (checkString pid)
          PE.ofExcept (checkArgData data)
          PE.ofExcept (checkInteger expSize)
          let (add', cs') ← PE.ofExcept (checkArgAlgorithmsAndChecksum cfg.alg additional checksum csAlg)
          if ← inProgress p then throw Exc.storeObjectInProgress
          PE.withFinally (do
              acquire .objPid p
              let t ← PE.ofExcept (openStream data)
              let m ← moveAndGetChecksums cfg o (some p) t add' cs' (strArg checksum) expSize
              let _ ← tagObject cfg o (.str p) (.str m.cid)
              return .objMeta m)
            (release .objPid p) : PE Val) := by
      cases pid with
      | none => exact absurd rfl hnone
      | other => rfl
      | str s => rfl
    rw [hso]
    cases hpc : checkString pid with
    | error e =>
      simp [runsimp, calm_st]; exact h
    | ok p =>
      cases hd : checkArgData data with
      | error e =>
        simp [runsimp, hpc, hd, calm_st]; exact h
      | ok _ =>
        cases hi : checkInteger expSize with
        | error e => simp [runsimp, hpc, hd, hi, calm_st]; exact h
        | ok _ =>
          cases hac : checkArgAlgorithmsAndChecksum cfg.alg additional checksum csAlg with
          | error e => simp [runsimp, hpc, hd, hi, hac, calm_st]; exact h
          | ok ac =>
            obtain ⟨add', cs'⟩ := ac
            cases hs : openStream data with
            | error e =>
              simp [runsimp, hpc, hd, hi, hac, hs, calm, calmL]; exact h
            | ok t =>
              obtain ⟨r, st1, log1, hrun, hpl, hcid⟩ := mv_run_pid cfg o [p] st log p t add' cs'
                (strArg checksum) expSize
              have h1 := exact_placed cfg o st st1 t h hpl (hpd _ _)
              simp only [calmL] at hrun
              cases r with
              | error e =>
                simp [runsimp, hpc, hd, hi, hac, hs, calm, calmL, Prog.run_bind, Prog.run_bind_pe, hrun]; exact h1
              | ok m =>
                obtain ⟨r2, st2, log2, hrun2, h2, _⟩ := tag_run cfg o [p] st1 log1 (.str p) (.str m.cid) h1
                  (by intro c hc; cases hc; rw [hcid m rfl]; exact hpd _ _)
                simp only [calmL] at hrun2
                simp [runsimp, hpc, hd, hi, hac, hs, calm, calmL, Prog.run_bind, Prog.run_bind_pe, hrun, hrun2]
                cases r2 <;> simp [runsimp] <;> exact h2

end HS
