/-
  ConcInv — a static discipline under the interleaving semantics.
  `Prog.Safe P A Q`: every primitive the program can issue satisfies `P` and it ends
  with a result in `Q`, on every sequence of answers `r` to its primitives `e` that
  satisfies `A e r`.  If a world invariant `I` survives every `P`-primitive and
  every answer of a world in `I` satisfies `A`, then — any number of threads, any
  schedule, any granularity (`fuel`; `fuel = 1` is one primitive per step) — the
  invariant holds throughout and every thread that has returned returned a result
  in its `Q`.  Helper lemmas for C12 / C09 (readers beside writers).
-/
import HSModel.Proofs.Serial
import HSModel.Proofs.RunInv
namespace HS

def Prog.Safe {α : Type} (P : Ev → Prop) (A : Ev → Resp → Prop) (Q : α → Prop) : Prog α → Prop
  | .ret a => Q a
  | .op e k => P e ∧ ∀ r, A e r → Prog.Safe P A Q (k r)

namespace Prog
variable {α β : Type} {P : Ev → Prop} {A : Ev → Resp → Prop}

theorem safe_of_allEv (m : Prog α) (h : m.AllEv P) : m.Safe P A (fun _ => True) := by
  induction m with
  | ret a => trivial
  | op e k ih => exact ⟨h.1, fun r _ => ih r (h.2 r)⟩

theorem safe_bind {R : α → Prop} {Q : β → Prop} (m : Prog α) (f : α → Prog β)
    (hm : m.Safe P A R) (hf : ∀ a, R a → (f a).Safe P A Q) : (Prog.bind m f).Safe P A Q := by
  induction m with
  | ret a => exact hf a hm
  | op e k ih => exact ⟨hm.1, fun r hr => ih r (hm.2 r hr)⟩

theorem safe_weaken {Q R : α → Prop} (m : Prog α) (h : ∀ a, Q a → R a) (hm : m.Safe P A Q) :
    m.Safe P A R := by
  induction m with
  | ret a => exact h a hm
  | op e k ih => exact ⟨hm.1, fun r hr => ih r (hm.2 r hr)⟩
end Prog

/-- every answer of a world in `I` is one that `A` allows -/
def Answers (I : World → Prop) (A : Ev → Resp → Prop) : Prop :=
  ∀ w e, I w → A e (respond w e).1

section
variable {P : Ev → Prop} {A : Ev → Resp → Prop} {I : World → Prop}

theorem safe_runToBoundary (hp : Prog.Preserved P I) (ha : Answers I A) (Q : Except Exc Val → Prop)
    (fuel : Nat) (p : Prog (Except Exc Val)) (w : World) (hs : p.Safe P A Q) (hw : I w) :
    (runToBoundary fuel p w).1.prog.Safe P A Q ∧ I (runToBoundary fuel p w).2 := by
  induction fuel generalizing p w with
  | zero => exact ⟨hs, hw⟩
  | succ n ih =>
    cases p with
    | ret r => exact ⟨hs, hw⟩
    | op e k =>
      simp only [runToBoundary]
      split
      · exact ⟨hs, hw⟩
      · exact ih _ _ (hs.2 _ (ha w e hw)) (hp w e hs.1 hw)

theorem safe_step (hp : Prog.Preserved P I) (ha : Answers I A) (Q : Except Exc Val → Prop)
    (fuel : Nat) (t : TState) (w : World) (hs : t.prog.Safe P A Q) (hw : I w) :
    (t.step fuel w).1.prog.Safe P A Q ∧ I (t.step fuel w).2 := by
  cases t with
  | fresh p => exact safe_runToBoundary hp ha Q fuel p w hs hw
  | «at» e k =>
    show (runToBoundary fuel (k (respond w e).1) (respond w e).2).1.prog.Safe P A Q ∧ _
    exact safe_runToBoundary hp ha Q fuel _ _ (hs.2 _ (ha w e hw)) (hp w e hs.1 hw)
  | finished r => exact ⟨hs, hw⟩

/-- the invariant of a configuration: the world is in `I`, thread `i` is `Safe` for its own `Q i` -/
def SafeConf (P : Ev → Prop) (A : Ev → Resp → Prop) (I : World → Prop)
    (Q : Nat → Except Exc Val → Prop) (cf : Conf) : Prop :=
  I cf.w ∧ ∀ (i : Nat) (t : TState), cf.ts[i]? = some t → t.prog.Safe P A (Q i)

theorem safe_schedule (hp : Prog.Preserved P I) (ha : Answers I A) (Q : Nat → Except Exc Val → Prop)
    (fuel : Nat) (sched : List Nat) (cf : Conf) (n : Nat) (h : SafeConf P A I Q cf) :
    SafeConf P A I Q (runSchedule fuel cf sched n).1 := by
  induction sched generalizing cf n with
  | nil => exact h
  | cons i rest ih =>
    simp only [runSchedule]
    cases hti : cf.ts[i]? with
    | none => exact h
    | some t =>
      simp only
      split
      · have hst := safe_step hp ha (Q i) fuel t cf.w (h.2 i t hti) h.1
        apply ih
        refine ⟨hst.2, ?_⟩
        intro j tj hj
        simp only at hj
        by_cases e : i = j
        · subst e
          have hlt : i < cf.ts.length := by
            rcases List.getElem?_eq_some_iff.mp hti with ⟨hl, _⟩; exact hl
          rw [List.getElem?_set_self hlt] at hj
          cases hj; exact hst.1
        · rw [List.getElem?_set_ne e] at hj
          exact h.2 j tj hj
      · exact h

/-- a thread that has returned returned a result in its `Q` -/
theorem safe_finished {Q : Nat → Except Exc Val → Prop} {cf : Conf} (h : SafeConf P A I Q cf)
    (i : Nat) (r : Except Exc Val) (hi : cf.ts[i]? = some (.finished r)) : Q i r :=
  h.2 i _ hi

/-- the start: fresh threads running programs that are `Safe` -/
theorem safe_initial (Q : Nat → Except Exc Val → Prop) (progs : List (Prog (Except Exc Val))) (w0 : World)
    (hw : I w0) (hs : ∀ (i : Nat) (p : Prog (Except Exc Val)), progs[i]? = some p → p.Safe P A (Q i)) :
    SafeConf P A I Q { w := w0, ts := progs.map TState.fresh } := by
  refine ⟨hw, ?_⟩
  intro i t hi
  simp only [List.getElem?_map] at hi
  cases hp : progs[i]? with
  | none => simp [hp] at hi
  | some p =>
    simp only [hp, Option.map_some, Option.some.injEq] at hi
    subst hi
    exact hs i p hp
end

end HS
