/- the interleaving semantics extends the sequential one (helper lemmas) -/
import HSModel.Conc
namespace HS

/-- what a thread state will still compute if it runs alone from world `w` -/
def TState.rest : TState → World → Except Exc Val × World
  | .fresh p, w => p.run w
  | .at e k, w => (Prog.op e k).run w
  | .finished r, w => (r, w)

theorem runToBoundary_rest (fuel : Nat) (p : Prog (Except Exc Val)) (w : World) :
    (runToBoundary fuel p w).1.rest (runToBoundary fuel p w).2 = p.run w := by
  induction fuel generalizing p w with
  | zero => rfl
  | succ n ih =>
    cases p with
    | ret r => rfl
    | op e k =>
      simp only [runToBoundary]
      split
      · rfl
      · rw [ih]; rfl

/-- a step of a thread that runs alone does not change what it will compute -/
theorem step_rest (fuel : Nat) (t : TState) (w : World) :
    (t.step fuel w).1.rest (t.step fuel w).2 = t.rest w := by
  cases t with
  | fresh p => exact runToBoundary_rest fuel p w
  | «at» e k =>
    show (runToBoundary fuel (k (respond w e).1) (respond w e).2).1.rest
        (runToBoundary fuel (k (respond w e).1) (respond w e).2).2 = (Prog.op e k).run w
    rw [runToBoundary_rest]
    rfl
  | finished r => rfl

end HS
