/-
  ConcSafe — the lock discipline of the programs carried through the interleaving
  semantics: every thread holds (in the world's lists) exactly what its own
  account says, no identifier has two owners, and therefore some unfinished
  thread can always move. Helper lemmas; statements in Props/C08.lean.
-/
import HSModel.Proofs.Serial
namespace HS

/-- every lock list of the world is duplicate-free -/
def LkNodup (w : World) : Prop := ∀ c, (w.lk.get c).Nodup

/-- per-thread accounts `hs` (one list of held identifiers per thread) agree with the world -/
structure GInv (cf : Conf) (hs : List (List Lock)) : Prop where
  len : hs.length = cf.ts.length
  disc : ∀ (j : Nat) (t : TState) (h : List Lock), cf.ts[j]? = some t → hs[j]? = some h → t.prog.Disc Post0 h
  held : ∀ (j : Nat) (h : List Lock), hs[j]? = some h → Held h cf.w
  nodup : ∀ (j : Nat) (h : List Lock), hs[j]? = some h → h.Nodup
  excl : ∀ (j k : Nat) (h h' : List Lock) (l : Lock), hs[j]? = some h → hs[k]? = some h' → l ∈ h → l ∈ h' → j = k
  owned : ∀ (c : LockClass) (i : Str), i ∈ cf.w.lk.get c → ∃ (j : Nat) (h : List Lock), hs[j]? = some h ∧ (⟨c, i⟩ : Lock) ∈ h
  lknd : LkNodup cf.w

theorem disc_runToBoundary (fuel : Nat) (p : Prog (Except Exc Val)) (w : World) (hl : List Lock)
    (hd : p.Disc Post0 hl) :
    (runToBoundary fuel p w).1.prog.Disc Post0 hl ∧ (runToBoundary fuel p w).2.lk = w.lk := by
  induction fuel generalizing p w with
  | zero => exact ⟨hd, rfl⟩
  | succ n ih =>
    cases p with
    | ret r => exact ⟨hd, rfl⟩
    | op e k =>
      simp only [runToBoundary]
      split
      · exact ⟨hd, rfl⟩
      · rename_i hb
        have hn : NotLock e := by
          apply Classical.byContradiction
          intro hne; exact hb (boundary_of_lock e hne)
        obtain ⟨h1, h2⟩ := ih (k (respond w e).1) (respond w e).2 (disc_notLock hn hd _)
        exact ⟨h1, by rw [h2]; exact respond_lk_notLock w e hn⟩


/-- a thread's account after an enabled step -/
def stepAccount : TState → List Lock → List Lock
  | .at (.acquire c i) _, h => h ++ [⟨c, i⟩]
  | .at (.release c i) _, h => h.erase ⟨c, i⟩
  | _, h => h

/-- what an enabled step of a disciplined thread does to its own program and to the lock lists -/
theorem thread_step (fuel : Nat) (t : TState) (w : World) (h : List Lock) (hd : t.prog.Disc Post0 h)
    (hh : Held h w) (hen : t.enabled w = true) :
    (t.step fuel w).1.prog.Disc Post0 (stepAccount t h) ∧
    ((∃ c i k, t = .at (.acquire c i) k ∧ i ∉ w.lk.get c ∧ (t.step fuel w).2.lk = w.lk.put c (w.lk.get c ++ [i])) ∨
     (∃ c i k, t = .at (.release c i) k ∧ (⟨c, i⟩ : Lock) ∈ h ∧ (t.step fuel w).2.lk = w.lk.put c ((w.lk.get c).erase i)) ∨
     (stepAccount t h = h ∧ (t.step fuel w).2.lk = w.lk)) := by
  cases t with
  | fresh p =>
    obtain ⟨h1, h2⟩ := disc_runToBoundary fuel p w h hd
    exact ⟨h1, Or.inr (Or.inr ⟨rfl, h2⟩)⟩
  | finished r => exact ⟨hd, Or.inr (Or.inr ⟨rfl, rfl⟩)⟩
  | «at» e k =>
    have hstep : (TState.at e k).step fuel w = runToBoundary fuel (k (respond w e).1) (respond w e).2 := rfl
    rw [hstep]
    by_cases hnl : NotLock e
    · obtain ⟨h1, h2⟩ := disc_runToBoundary fuel (k (respond w e).1) (respond w e).2 h (disc_notLock hnl hd _)
      have hacc : stepAccount (.at e k) h = h := by cases e <;> first | rfl | exact hnl.elim
      rw [hacc]
      exact ⟨h1, Or.inr (Or.inr ⟨rfl, by rw [h2]; exact respond_lk_notLock w e hnl⟩)⟩
    · cases e with
      | acquire c i =>
        simp only [TState.prog, Prog.Disc] at hd
        have hfree : i ∉ w.lk.get c := by simpa [TState.enabled] using hen
        obtain ⟨w1, hr, _, hlk⟩ := respond_acquire_free w c i hfree
        rw [hr]
        obtain ⟨h1, h2⟩ := disc_runToBoundary fuel (k .unit) w1 (h ++ [⟨c, i⟩]) hd.2
        exact ⟨h1, Or.inl ⟨c, i, k, rfl, hfree, by rw [h2]; exact hlk⟩⟩
      | release c i =>
        simp only [TState.prog, Prog.Disc] at hd
        have hin : i ∈ w.lk.get c := hh _ hd.1
        obtain ⟨w1, hr, _, hlk⟩ := respond_release_held w c i hin
        rw [hr]
        obtain ⟨h1, h2⟩ := disc_runToBoundary fuel (k .unit) w1 (h.erase ⟨c, i⟩) hd.2
        exact ⟨h1, Or.inr (Or.inl ⟨c, i, k, rfl, hd.1, by rw [h2]; exact hlk⟩)⟩
      | _ => exact (hnl trivial).elim


theorem mem_put_append {lk : Locks} {c c' : LockClass} {i i' : Str} :
    i' ∈ (lk.put c (lk.get c ++ [i])).get c' ↔ i' ∈ lk.get c' ∨ (c' = c ∧ i' = i) := by
  by_cases hc : c = c'
  · subst hc; rw [Locks.get_put_same]; simp
  · rw [Locks.get_put_ne _ _ hc]
    constructor
    · exact Or.inl
    · rintro (h | ⟨h, _⟩)
      · exact h
      · exact (hc h.symm).elim

theorem mem_put_erase {lk : Locks} {c c' : LockClass} {i i' : Str} (hn : (lk.get c).Nodup) :
    i' ∈ (lk.put c ((lk.get c).erase i)).get c' ↔ i' ∈ lk.get c' ∧ ¬ (c' = c ∧ i' = i) := by
  by_cases hc : c = c'
  · subst hc; rw [Locks.get_put_same, List.Nodup.mem_erase_iff hn]
    constructor
    · rintro ⟨h1, h2⟩; exact ⟨h2, fun h => h1 h.2⟩
    · rintro ⟨h1, h2⟩; exact ⟨fun h => h2 ⟨rfl, h⟩, h1⟩
  · rw [Locks.get_put_ne _ _ hc]
    constructor
    · intro h; exact ⟨h, fun h' => hc h'.1.symm⟩
    · exact fun h => h.1

theorem getElem?_set' {α : Type} (l : List α) (j k : Nat) (x : α) (hj : j < l.length) :
    (l.set j x)[k]? = if j = k then some x else l[k]? := by
  by_cases e : j = k
  · subst e; simp [hj]
  · simp [e, List.getElem?_set_ne e]

/-- the invariant survives every enabled step of any thread -/
theorem ginv_step {cf : Conf} {hs : List (List Lock)} (g : GInv cf hs) (fuel j : Nat) (t : TState)
    (hj : cf.ts[j]? = some t) (hen : t.enabled cf.w = true) :
    ∃ hs', GInv { w := (t.step fuel cf.w).2, ts := cf.ts.set j (t.step fuel cf.w).1 } hs' := by
  have hjlt : j < cf.ts.length := by
    rcases Nat.lt_or_ge j cf.ts.length with h1 | h1
    · exact h1
    · rw [List.getElem?_eq_none h1] at hj; cases hj
  have hjlt' : j < hs.length := g.len ▸ hjlt
  have hhj : hs[j]? = some hs[j] := List.getElem?_eq_getElem hjlt'
  obtain ⟨hdisc, hcases⟩ := thread_step fuel t cf.w hs[j] (g.disc j t _ hj hhj) (g.held j _ hhj) hen
  refine ⟨hs.set j (stepAccount t hs[j]), ?_⟩
  have hts : ∀ k t', (cf.ts.set j (t.step fuel cf.w).1)[k]? = some t' →
      (k = j ∧ t' = (t.step fuel cf.w).1) ∨ (k ≠ j ∧ cf.ts[k]? = some t') := by
    intro k t' hk
    rw [getElem?_set' _ _ _ _ hjlt] at hk
    split at hk
    · rename_i e; cases hk; exact Or.inl ⟨e.symm, rfl⟩
    · rename_i e; exact Or.inr ⟨fun e' => e e'.symm, hk⟩
  have hhs : ∀ k h', (hs.set j (stepAccount t hs[j]))[k]? = some h' →
      (k = j ∧ h' = stepAccount t hs[j]) ∨ (k ≠ j ∧ hs[k]? = some h') := by
    intro k h' hk
    rw [getElem?_set' _ _ _ _ hjlt'] at hk
    split at hk
    · rename_i e; cases hk; exact Or.inl ⟨e.symm, rfl⟩
    · rename_i e; exact Or.inr ⟨fun e' => e e'.symm, hk⟩
  have hself : (hs.set j (stepAccount t hs[j]))[j]? = some (stepAccount t hs[j]) := by
    rw [getElem?_set' _ _ _ _ hjlt']; simp
  have hsame : ∀ (k : Nat) (h' : List Lock), k = j → hs[k]? = some h' → h' = hs[j] := by
    intro k h' e hk
    rw [e, hhj] at hk; exact (Option.some.inj hk).symm
  have hdiscAll : ∀ (k : Nat) (t' : TState) (h' : List Lock),
      (cf.ts.set j (t.step fuel cf.w).1)[k]? = some t' → (hs.set j (stepAccount t hs[j]))[k]? = some h' →
      t'.prog.Disc Post0 h' := by
    intro k t' h' hk1 hk2
    rcases hts k t' hk1 with ⟨e, rfl⟩ | ⟨e, hk1'⟩
    · rcases hhs k h' hk2 with ⟨_, rfl⟩ | ⟨e', _⟩
      · exact hdisc
      · exact (e' e).elim
    · rcases hhs k h' hk2 with ⟨e', _⟩ | ⟨_, hk2'⟩
      · exact (e e').elim
      · exact g.disc k t' h' hk1' hk2'
  rcases hcases with ⟨c, i, k0, rfl, hfree, hlk⟩ | ⟨c, i, k0, rfl, hmem, hlk⟩ | ⟨hacc, hlk⟩
  · -- acquire
    have hacc : stepAccount (.at (.acquire c i) k0) hs[j] = hs[j] ++ [⟨c, i⟩] := rfl
    have hnotin : ∀ (k : Nat) (h' : List Lock), hs[k]? = some h' → (⟨c, i⟩ : Lock) ∉ h' :=
      fun k h' hk hm => hfree (g.held k h' hk _ hm)
    refine ⟨by simp [g.len], hdiscAll, ?_, ?_, ?_, ?_, ?_⟩
    · intro k h' hk l hl
      show l.id ∈ ((TState.at (.acquire c i) k0).step fuel cf.w).2.lk.get l.cls
      rw [hlk, mem_put_append]
      rcases hhs k h' hk with ⟨_, rfl⟩ | ⟨_, hk'⟩
      · rw [hacc] at hl
        rcases List.mem_append.mp hl with hl | hl
        · exact Or.inl (g.held j _ hhj l hl)
        · simp only [List.mem_singleton] at hl; subst hl; exact Or.inr ⟨rfl, rfl⟩
      · exact Or.inl (g.held k h' hk' l hl)
    · intro k h' hk
      rcases hhs k h' hk with ⟨_, rfl⟩ | ⟨_, hk'⟩
      · rw [hacc, List.nodup_append]
        refine ⟨g.nodup j _ hhj, by simp, ?_⟩
        intro a ha b hb
        simp only [List.mem_singleton] at hb; subst hb
        intro e; subst e; exact hnotin j _ hhj ha
      · exact g.nodup k h' hk'
    · intro k1 k2 h1 h2 l hk1 hk2 hl1 hl2
      rcases hhs k1 h1 hk1 with ⟨e1, rfl⟩ | ⟨e1, hk1'⟩ <;> rcases hhs k2 h2 hk2 with ⟨e2, rfl⟩ | ⟨e2, hk2'⟩
      · rw [e1, e2]
      · rw [hacc] at hl1
        rcases List.mem_append.mp hl1 with hl1 | hl1
        · rw [e1]; exact g.excl j k2 _ _ l hhj hk2' hl1 hl2
        · simp only [List.mem_singleton] at hl1; subst hl1; exact (hnotin k2 h2 hk2' hl2).elim
      · rw [hacc] at hl2
        rcases List.mem_append.mp hl2 with hl2 | hl2
        · rw [e2]; exact g.excl k1 j _ _ l hk1' hhj hl1 hl2
        · simp only [List.mem_singleton] at hl2; subst hl2; exact (hnotin k1 h1 hk1' hl1).elim
      · exact g.excl k1 k2 h1 h2 l hk1' hk2' hl1 hl2
    · intro c' i' hm
      have hm' : i' ∈ (cf.w.lk.put c (cf.w.lk.get c ++ [i])).get c' := by rw [← hlk]; exact hm
      rw [mem_put_append] at hm'
      rcases hm' with hm' | ⟨rfl, rfl⟩
      · obtain ⟨k, h', hk, hl⟩ := g.owned c' i' hm'
        by_cases e : k = j
        · have := hsame k h' e hk
          subst this
          exact ⟨j, _, hself, by rw [hacc]; exact List.mem_append_left _ hl⟩
        · exact ⟨k, h', by rw [getElem?_set' _ _ _ _ hjlt']; simp [Ne.symm e, hk], hl⟩
      · exact ⟨j, _, hself, by rw [hacc]; simp⟩
    · intro c'
      show (((TState.at (.acquire c i) k0).step fuel cf.w).2.lk.get c').Nodup
      rw [hlk]
      by_cases hc : c = c'
      · subst hc; rw [Locks.get_put_same, List.nodup_append]
        refine ⟨g.lknd c, by simp, ?_⟩
        intro a ha b hb
        simp only [List.mem_singleton] at hb; subst hb
        intro e; subst e; exact hfree ha
      · rw [Locks.get_put_ne _ _ hc]; exact g.lknd c'
  · -- release
    have hacc : stepAccount (.at (.release c i) k0) hs[j] = hs[j].erase ⟨c, i⟩ := rfl
    have hndj := g.nodup j _ hhj
    refine ⟨by simp [g.len], hdiscAll, ?_, ?_, ?_, ?_, ?_⟩
    · intro k h' hk l hl
      show l.id ∈ ((TState.at (.release c i) k0).step fuel cf.w).2.lk.get l.cls
      rw [hlk, mem_put_erase (g.lknd c)]
      rcases hhs k h' hk with ⟨_, rfl⟩ | ⟨e, hk'⟩
      · rw [hacc, List.Nodup.mem_erase_iff hndj] at hl
        refine ⟨g.held j _ hhj l hl.2, ?_⟩
        rintro ⟨e1, e2⟩
        apply hl.1; cases l; simp only at e1 e2; subst e1; subst e2; rfl
      · refine ⟨g.held k h' hk' l hl, ?_⟩
        rintro ⟨e1, e2⟩
        have : l = ⟨c, i⟩ := by cases l; simp only at e1 e2; subst e1; subst e2; rfl
        subst this
        exact e (g.excl k j _ _ _ hk' hhj hl hmem)
    · intro k h' hk
      rcases hhs k h' hk with ⟨_, rfl⟩ | ⟨_, hk'⟩
      · rw [hacc]; exact hndj.erase _
      · exact g.nodup k h' hk'
    · intro k1 k2 h1 h2 l hk1 hk2 hl1 hl2
      have sub : ∀ (k : Nat) (h' : List Lock), (hs.set j (stepAccount (.at (.release c i) k0) hs[j]))[k]? = some h' → l ∈ h' →
          ∃ h'' : List Lock, hs[k]? = some h'' ∧ l ∈ h'' := by
        intro k h' hk hl
        rcases hhs k h' hk with ⟨e, rfl⟩ | ⟨_, hk'⟩
        · rw [hacc] at hl; exact ⟨_, e ▸ hhj, List.mem_of_mem_erase hl⟩
        · exact ⟨h', hk', hl⟩
      obtain ⟨a1, ha1, hb1⟩ := sub k1 h1 hk1 hl1
      obtain ⟨a2, ha2, hb2⟩ := sub k2 h2 hk2 hl2
      exact g.excl k1 k2 a1 a2 l ha1 ha2 hb1 hb2
    · intro c' i' hm
      have hm' : i' ∈ (cf.w.lk.put c ((cf.w.lk.get c).erase i)).get c' := by rw [← hlk]; exact hm
      rw [mem_put_erase (g.lknd c)] at hm'
      obtain ⟨k, h', hk, hl⟩ := g.owned c' i' hm'.1
      by_cases e : k = j
      · have := hsame k h' e hk
        subst this
        refine ⟨j, _, hself, ?_⟩
        rw [hacc, List.Nodup.mem_erase_iff hndj]
        refine ⟨?_, hl⟩
        intro e'; cases e'; exact hm'.2 ⟨rfl, rfl⟩
      · exact ⟨k, h', by rw [getElem?_set' _ _ _ _ hjlt']; simp [Ne.symm e, hk], hl⟩
    · intro c'
      show (((TState.at (.release c i) k0).step fuel cf.w).2.lk.get c').Nodup
      rw [hlk]
      by_cases hc : c = c'
      · subst hc; rw [Locks.get_put_same]; exact (g.lknd c).erase _
      · rw [Locks.get_put_ne _ _ hc]; exact g.lknd c'
  · -- no lock operation
    refine ⟨by simp [g.len], hdiscAll, ?_, ?_, ?_, ?_, ?_⟩
    · intro k h' hk
      apply held_of_lk_eq _ hlk
      rcases hhs k h' hk with ⟨_, rfl⟩ | ⟨_, hk'⟩
      · rw [hacc]; exact g.held j _ hhj
      · exact g.held k h' hk'
    · intro k h' hk
      rcases hhs k h' hk with ⟨_, rfl⟩ | ⟨_, hk'⟩
      · rw [hacc]; exact g.nodup j _ hhj
      · exact g.nodup k h' hk'
    · intro k1 k2 h1 h2 l hk1 hk2 hl1 hl2
      have sub : ∀ (k : Nat) (h' : List Lock), (hs.set j (stepAccount t hs[j]))[k]? = some h' → hs[k]? = some h' := by
        intro k h' hk
        rcases hhs k h' hk with ⟨e, rfl⟩ | ⟨_, hk'⟩
        · rw [hacc, e]; exact hhj
        · exact hk'
      exact g.excl k1 k2 h1 h2 l (sub _ _ hk1) (sub _ _ hk2) hl1 hl2
    · intro c' i' hm
      have hm' : i' ∈ cf.w.lk.get c' := by rw [← hlk]; exact hm
      obtain ⟨k, h', hk, hl⟩ := g.owned c' i' hm'
      by_cases e : k = j
      · have := hsame k h' e hk
        subst this
        exact ⟨j, _, hself, by rw [hacc]; exact hl⟩
      · exact ⟨k, h', by rw [getElem?_set' _ _ _ _ hjlt']; simp [Ne.symm e, hk], hl⟩
    · intro c'
      show ((t.step fuel cf.w).2.lk.get c').Nodup
      rw [hlk]; exact g.lknd c'


theorem ginv_schedule (fuel : Nat) (sched : List Nat) (cf : Conf) (n : Nat) (hs : List (List Lock)) (g : GInv cf hs) :
    ∃ hs', GInv (runSchedule fuel cf sched n).1 hs' := by
  induction sched generalizing cf n hs with
  | nil => exact ⟨hs, g⟩
  | cons j rest ih =>
    simp only [runSchedule]
    cases hj : cf.ts[j]? with
    | none => exact ⟨hs, g⟩
    | some t =>
      simp only
      by_cases hen : t.enabled cf.w = true
      · rw [if_pos hen]
        obtain ⟨hs', g'⟩ := ginv_step g fuel j t hj hen
        exact ih _ _ hs' g'
      · rw [if_neg hen]; exact ⟨hs, g⟩

theorem ginv_initial (progs : List (Prog (Except Exc Val))) (w0 : World) (h0 : w0.lk = {})
    (hd : ∀ p ∈ progs, p.Disc Post0 []) :
    GInv { w := w0, ts := progs.map .fresh } (progs.map fun _ => []) := by
  have hget : ∀ (j : Nat) (h : List Lock), (progs.map fun _ => ([] : List Lock))[j]? = some h → h = [] := by
    intro j h hj
    rw [List.getElem?_map] at hj
    cases hp : progs[j]? with
    | none => rw [hp] at hj; cases hj
    | some p => rw [hp] at hj; cases hj; rfl
  refine ⟨by simp, ?_, ?_, ?_, ?_, ?_, ?_⟩
  · intro j t h ht hh
    have := hget j h hh; subst this
    rw [List.getElem?_map] at ht
    cases hp : progs[j]? with
    | none => rw [hp] at ht; cases ht
    | some p => rw [hp] at ht; cases ht; exact hd p (List.mem_of_getElem? hp)
  · intro j h hh l hl
    have := hget j h hh; subst this; cases hl
  · intro j h hh
    have := hget j h hh; subst this; exact List.nodup_nil
  · intro j k h h' l hj _ hl _
    have := hget j h hj; subst this; cases hl
  · intro c i hi
    rw [show w0.lk = {} from h0] at hi
    cases c <;> cases hi
  · intro c
    show (w0.lk.get c).Nodup
    rw [h0]; cases c <;> exact List.nodup_nil

/-- a thread that is not enabled stands at an acquire of an identifier that is in the world's list -/
theorem blocked_at_acquire {t : TState} {w : World} (h : t.enabled w = false) :
    (∃ r, t = .finished r) ∨ ∃ c i k, t = .at (.acquire c i) k ∧ i ∈ w.lk.get c := by
  cases t with
  | fresh p => simp [TState.enabled] at h
  | finished r => exact Or.inl ⟨r, rfl⟩
  | «at» e k =>
    cases e <;> first | (simp [TState.enabled] at h; done) | skip
    rename_i c i
    right
    refine ⟨c, i, k, rfl, ?_⟩
    simpa [TState.enabled] using h

theorem rank_le_three' (c : LockClass) : c.rank ≤ 3 := by cases c <;> simp [LockClass.rank]

/-- **No deadlock.** In a configuration that satisfies the invariant, if some
    thread has not returned then some thread can move. (If none could, every
    unfinished thread would stand at an acquire of an identifier owned by
    another unfinished thread, whose own awaited identifier is of a strictly
    higher class — the programs acquire in class order — and there are only
    four classes.) -/
theorem ginv_no_deadlock {cf : Conf} {hs : List (List Lock)} (g : GInv cf hs)
    (hnf : cf.allFinished = false) : cf.anyEnabled = true := by
  apply Classical.byContradiction
  intro hne
  have hall : ∀ t ∈ cf.ts, t.enabled cf.w = false := by
    intro t ht
    cases he : t.enabled cf.w with
    | false => rfl
    | true =>
      exfalso; apply hne
      unfold Conf.anyEnabled
      rw [List.any_eq_true]
      exact ⟨t, ht, he⟩
  -- a blocked thread awaiting an identifier of rank r yields one awaiting a higher rank
  have key : ∀ (n : Nat) (j : Nat) (c : LockClass) (i : Str) (k : Resp → Prog (Except Exc Val)),
      cf.ts[j]? = some (.at (.acquire c i) k) → 3 - c.rank ≤ n → False := by
    intro n
    induction n with
    | zero =>
      intro j c i k hj hr
      -- rank 3: the owner awaits something of rank > 3
      have hb := blocked_at_acquire (hall _ (List.mem_of_getElem? hj))
      rcases hb with ⟨r, hr'⟩ | ⟨c1, i1, k1, he, hin⟩
      · cases hr'
      · cases he
        obtain ⟨o, ho, hho, hmem⟩ := g.owned c i hin
        have holt : o < cf.ts.length := by
          rcases Nat.lt_or_ge o hs.length with h1 | h1
          · exact g.len ▸ h1
          · rw [List.getElem?_eq_none h1] at hho; cases hho
        have hto : cf.ts[o]? = some cf.ts[o] := List.getElem?_eq_getElem holt
        have hdo := g.disc o _ ho hto hho
        rcases blocked_at_acquire (hall _ (List.mem_of_getElem? hto)) with ⟨r, hr'⟩ | ⟨c2, i2, k2, he2, _⟩
        · rw [hr'] at hdo
          have : ho = [] := hdo
          subst this; cases hmem
        · rw [he2] at hdo
          simp only [TState.prog, Prog.Disc] at hdo
          have := hdo.1 _ hmem
          have h3 := rank_le_three' c2
          simp only at this
          omega
    | succ n ih =>
      intro j c i k hj hr
      have hb := blocked_at_acquire (hall _ (List.mem_of_getElem? hj))
      rcases hb with ⟨r, hr'⟩ | ⟨c1, i1, k1, he, hin⟩
      · cases hr'
      · cases he
        obtain ⟨o, ho, hho, hmem⟩ := g.owned c i hin
        have holt : o < cf.ts.length := by
          rcases Nat.lt_or_ge o hs.length with h1 | h1
          · exact g.len ▸ h1
          · rw [List.getElem?_eq_none h1] at hho; cases hho
        have hto : cf.ts[o]? = some cf.ts[o] := List.getElem?_eq_getElem holt
        have hdo := g.disc o _ ho hto hho
        rcases blocked_at_acquire (hall _ (List.mem_of_getElem? hto)) with ⟨r, hr'⟩ | ⟨c2, i2, k2, he2, _⟩
        · rw [hr'] at hdo
          have : ho = [] := hdo
          subst this; cases hmem
        · have hdo' := hdo
          rw [he2] at hdo'
          simp only [TState.prog, Prog.Disc] at hdo'
          have := hdo'.1 _ hmem
          simp only at this
          exact ih o c2 i2 k2 (by rw [hto, he2]) (by omega)
  -- some thread is unfinished
  have : ∃ t ∈ cf.ts, ∀ r, t ≠ .finished r := by
    apply Classical.byContradiction
    intro hno
    have : cf.allFinished = true := by
      unfold Conf.allFinished
      rw [List.all_eq_true]
      intro t ht
      cases t with
      | finished r => rfl
      | fresh p => exact (hno ⟨_, ht, fun r => by intro e; cases e⟩).elim
      | «at» e k => exact (hno ⟨_, ht, fun r => by intro e'; cases e'⟩).elim
    rw [this] at hnf; cases hnf
  obtain ⟨t, ht, hnfin⟩ := this
  obtain ⟨j, hjlt, hjt⟩ := List.getElem_of_mem ht
  have hj : cf.ts[j]? = some t := by rw [List.getElem?_eq_getElem hjlt, hjt]
  rcases blocked_at_acquire (hall t ht) with ⟨r, hr⟩ | ⟨c, i, k, he, _⟩
  · exact hnfin r hr
  · subst he
    exact key 3 j c i k hj (by omega)


/-- when every thread has returned, no identifier is left in any list -/
theorem ginv_all_finished_free {cf : Conf} {hs : List (List Lock)} (g : GInv cf hs)
    (hf : cf.allFinished = true) : cf.w.lk = {} := by
  have hempty : ∀ (j : Nat) (h : List Lock), hs[j]? = some h → h = [] := by
    intro j h hh
    have hjlt : j < cf.ts.length := by
      rcases Nat.lt_or_ge j hs.length with h1 | h1
      · exact g.len ▸ h1
      · rw [List.getElem?_eq_none h1] at hh; cases hh
    have ht : cf.ts[j]? = some cf.ts[j] := List.getElem?_eq_getElem hjlt
    have hd := g.disc j _ h ht hh
    have hfin := List.all_eq_true.mp hf cf.ts[j] (List.getElem_mem hjlt)
    cases hc : cf.ts[j] with
    | finished r => rw [hc] at hd; exact hd
    | fresh p => rw [hc] at hfin; simp at hfin
    | «at» e k => rw [hc] at hfin; simp at hfin
  have hfree : ∀ c, cf.w.lk.get c = [] := by
    intro c
    cases hl : cf.w.lk.get c with
    | nil => rfl
    | cons i r =>
      obtain ⟨j, h, hh, hm⟩ := g.owned c i (by rw [hl]; exact List.mem_cons_self ..)
      rw [hempty j h hh] at hm; cases hm
  have h1 := hfree .objPid
  have h2 := hfree .refPid
  have h3 := hfree .cid
  have h4 := hfree .doc
  simp only [Locks.get] at h1 h2 h3 h4
  cases hlk : cf.w.lk with
  | mk a b c d =>
    rw [hlk] at h1 h2 h3 h4
    simp only at h1 h2 h3 h4
    subst h1; subst h2; subst h3; subst h4; rfl

end HS
