/-
  Converge — helper lemmas for C19 (the two ways of storing): inversion of the
  argument checks of store_object, the digest the post-hoc validation compares
  with, and the invariant "every object sits at the digest of its content" over
  histories of the specification. Property statements are in Props/C19.lean.
-/
import HSModel.Proofs.StepLemmas
import HSModel.Proofs.RefineAll
namespace HS.C19
open Abs
variable (cfg : Config) (o : Oracle)

theorem lookupDigest_map (l : List Str) (f : Str → Str) (x : Str) :
    lookupDigest (l.map fun a => (a, f a)) x = if x ∈ l then some (f x) else none := by
  unfold lookupDigest
  induction l with
  | nil => simp
  | cons a r ih =>
    simp only [List.map_cons, List.find?_cons]
    by_cases h : a = x
    · subst h; simp
    · simp only [h, decide_false, List.mem_cons]
      rw [ih]
      have : ¬ x = a := fun e => h e.symm
      simp [this]

/-- what is stored at the address of `t`, if anything, is `t` (follows from
    objects being stored under their digest and the digest being collision-free) -/
def AddressHolds (a : Abs) (t : Tok) : Prop := ∀ t', a.objs.get (o.dig cfg.alg t) = some t' → t' = t

theorem refine_none : refineAlgorithmList defaultAlgos none none = defaultAlgos := rfl

theorem addObj_get_own (a : Abs) (t : Tok) (h : AddressHolds cfg o a t) :
    (a.addObj (o.dig cfg.alg t) t).objs.get (o.dig cfg.alg t) = some t := by
  rcases addObj_get_self a (o.dig cfg.alg t) t with h1 | ⟨t', h1, h2⟩
  · exact h1
  · rw [h2, h t' h1]

theorem divDigest_true (a : Abs) (t : Tok) (a' : Str) (halg : cfg.alg ∈ defaultAlgos)
    (h : AddressHolds cfg o a t) :
    divDigest cfg o (a.addObj (o.dig cfg.alg t) t) (objMetaOf cfg o t none none) a' = .ok (o.dig a' t) := by
  unfold divDigest
  simp only [objMetaOf, refine_none, lookupDigest_map, halg, if_true]
  split
  · rename_i d hd
    split at hd
    · cases hd; rfl
    · cases hd
  · simp [addObj_get_own cfg o a t h]

theorem checkString_inv {x p : Str} (h : checkString (.str x) = .ok p) : checkStringOk x = true := by
  simp only [checkString] at h; split at h
  · assumption
  · cases h

theorem algs_inv {alg : Str} {additional : SArg} {c al : Str} {ac : Option Str × Option Str}
    (h : checkArgAlgorithmsAndChecksum alg additional (.str c) (.str al) = .ok ac) :
    checkStringOk c = true ∧ checkStringOk al = true ∧ ∃ a', cleanAlgorithm al = .ok a' ∧ ac.2 = some a' := by
  have key : ∀ (x : Except Exc (Option Str)),
      (do let add' ← x
          let _ ← checkString (SArg.str al)
          let _ ← checkString (SArg.str c)
          let cs' ← Except.map some (cleanAlgorithm al)
          pure (add', cs') : Except Exc (Option Str × Option Str)) = .ok ac →
      checkStringOk c = true ∧ checkStringOk al = true ∧ ∃ a', cleanAlgorithm al = .ok a' ∧ ac.2 = some a' := by
    intro x hx
    simp only [bind_eq_ok, pure_eq_ok] at hx
    obtain ⟨_, _, _, h1, _, h2, cs', h3, h4⟩ := hx
    subst h4
    refine ⟨checkString_inv h2, checkString_inv h1, ?_⟩
    cases hcl : cleanAlgorithm al with
    | error e => rw [hcl] at h3; cases h3
    | ok a' => rw [hcl] at h3; cases h3; exact ⟨a', rfl, rfl⟩
  unfold checkArgAlgorithmsAndChecksum at h
  cases additional with
  | none => exact key _ h
  | other => exact key _ h
  | str a =>
    simp only at h
    split at h
    · exact key _ h
    · exact key _ h

theorem storeArgs_inv {p0 p : Str} {t t0 : Tok} {additional : SArg} {add' cs' : Option Str} {c al : Str} {sz : IArg}
    (h : storeArgs cfg (.str p0) (.ok t0) additional (.str c) (.str al) sz = .ok (p, add', cs', t)) :
    p = p0 ∧ t = t0 ∧ checkStringOk p0 = true ∧ checkStringOk c = true ∧ checkStringOk al = true ∧
      checkInteger sz = .ok () ∧ ∃ a', cleanAlgorithm al = .ok a' ∧ cs' = some a' := by
  unfold storeArgs at h
  simp only [bind_eq_ok, pure_eq_ok] at h
  obtain ⟨p1, hp, _, _, _, hi, ac, hac, t1, ht, he⟩ := h
  have hp0 : checkStringOk p0 = true := by
    simp only [checkString] at hp; split at hp
    · assumption
    · cases hp
  have hp1 : p1 = p0 := checkString_str hp
  cases he
  simp only [openStream] at ht; cases ht
  obtain ⟨hc', hal', a', hcl, hcs⟩ := algs_inv hac
  exact ⟨hp1, rfl, hp0, hc', hal', hi, a', hcl, hcs⟩

/-- every object sits at the digest of its content -/
def Addressed (a : Abs) : Prop := ∀ c t, a.objs.get c = some t → c = o.dig cfg.alg t

theorem addressed_sub {a b : Abs} (h : Addressed cfg o a) (hsub : ∀ c t, b.objs.get c = some t → a.objs.get c = some t) :
    Addressed cfg o b := fun c t hb => h c t (hsub c t hb)

theorem addressed_addObj {a : Abs} (h : Addressed cfg o a) (t : Tok) :
    Addressed cfg o (a.addObj (o.dig cfg.alg t) t) := by
  intro c t' hg
  unfold addObj at hg
  split at hg
  · exact h c t' hg
  · simp only at hg
    by_cases e : o.dig cfg.alg t = c
    · subst e; rw [FMap.get_set_self] at hg; cases hg; rfl
    · rw [FMap.get_set_ne _ _ e] at hg; exact h c t' hg

theorem addressed_step {a : Abs} (h : Addressed cfg o a) (call : Call) : Addressed cfg o (step cfg o a call).2 := by
  cases call with
  | storeObject pid data additional checksum csAlg expSize =>
    simp only [step]
    split
    · unfold storeData
      split
      · exact h
      · exact addressed_addObj cfg o h _
    · unfold storeObj
      split
      · exact h
      · simp only
        split
        · exact h
        · simp only
          intro c t hg
          rw [tag_objs] at hg
          exact addressed_addObj cfg o h _ c t hg
  | tagObject pid cid =>
    intro c t hg
    simp only [step] at hg
    rw [tagObj_objs] at hg
    exact h c t hg
  | deleteIfInvalid om checksum csAlg expSize =>
    simp only [step]
    unfold divObj
    repeat' split
    all_goals first
      | exact h
      | exact addressed_sub cfg o h (fun c t hg => deleteOnly_objs_sub _ _ _ _ hg)
  | storeMetadata pid data fmt =>
    simp only [step]; unfold storeMeta
    repeat' split
    all_goals exact h
  | retrieveObject pid =>
    simp only [step]; unfold retrieveObj
    repeat' split
    all_goals exact h
  | retrieveMetadata pid fmt =>
    simp only [step]; unfold retrieveMeta
    repeat' split
    all_goals exact h
  | deleteObject pid =>
    simp only [step]; unfold deleteObj
    repeat' split
    all_goals first
      | exact h
      | (intro c t hg
         simp only at hg
         split at hg
         · exact h c t hg
         · exact h c t (FMap.get_del_some hg))
  | deleteMetadata pid fmt =>
    simp only [step]; unfold deleteMeta
    repeat' split
    all_goals exact h
  | getHexDigest pid alg =>
    simp only [step]; unfold hexDigest
    repeat' split
    all_goals exact h

theorem addressed_history (cs : List Call) {a : Abs} (h : Addressed cfg o a) :
    Addressed cfg o (specHist cfg o cs a).2 := by
  induction cs generalizing a with
  | nil => exact h
  | cons c r ih => exact ih (addressed_step cfg o h c)

theorem addressed_empty : Addressed cfg o Abs.empty := by
  intro c t h; simp [Abs.empty] at h

end HS.C19
