/-
  Disc — lock discipline of programs, for every sequence of answers of the file
  system (so also under every injected fault): locks are acquired in increasing
  class order, only held locks are released, and a program ends holding exactly
  what its postcondition says. Helper lemmas.
-/
import HSModel.Locks
import HSModel.Proofs.Shape
namespace HS

/-- `Disc post h m`: started while holding `h`, program `m` respects the lock
    order at every acquire, releases only what it holds, and whenever it returns
    value `a` while holding `h'`, `post h' a`. (An acquire continues only when it
    has been granted; a release of a held identifier always succeeds.) -/
def Prog.Disc {α : Type} (post : List Lock → α → Prop) : List Lock → Prog α → Prop
  | h, .ret a => post h a
  | h, .op (.acquire c i) k =>
      (∀ x ∈ h, x.cls.rank < c.rank) ∧ Prog.Disc post (h ++ [⟨c, i⟩]) (k .unit)
  | h, .op (.release c i) k =>
      (⟨c, i⟩ ∈ h) ∧ Prog.Disc post (h.erase ⟨c, i⟩) (k .unit)
  | h, .op (.isFile _) k => ∀ r, Prog.Disc post h (k r)
  | h, .op (.readRef _) k => ∀ r, Prog.Disc post h (k r)
  | h, .op (.readOpen _) k => ∀ r, Prog.Disc post h (k r)
  | h, .op (.readObj _) k => ∀ r, Prog.Disc post h (k r)
  | h, .op (.readDoc _ _) k => ∀ r, Prog.Disc post h (k r)
  | h, .op (.sizeIsZero _) k => ∀ r, Prog.Disc post h (k r)
  | h, .op (.listDocs _) k => ∀ r, Prog.Disc post h (k r)
  | h, .op (.openTmpWrite _) k => ∀ r, Prog.Disc post h (k r)
  | h, .op (.eff _) k => ∀ r, Prog.Disc post h (k r)
  | h, .op (.inProgress _) k => ∀ r, Prog.Disc post h (k r)
  | h, .op (.isLocked _ _) k => ∀ r, Prog.Disc post h (k r)

/-- primitives that are not lock operations -/
def NotLock : Ev → Prop
  | .acquire .. => False
  | .release .. => False
  | _ => True

namespace Prog
variable {α β : Type}

theorem disc_bind {Q : List Lock → α → Prop} {R : List Lock → β → Prop} (h : List Lock) (m : Prog α)
    (f : α → Prog β) (hm : m.Disc Q h) (hf : ∀ h' a, Q h' a → (f a).Disc R h') :
    (Prog.bind m f).Disc R h := by
  induction m generalizing h with
  | ret a => exact hf h a hm
  | op e k ih =>
    cases e <;> simp only [Prog.bind, Prog.Disc] at hm ⊢
    all_goals first
      | exact fun r => ih r h (hm r)
      | exact ⟨hm.1, ih _ _ hm.2⟩

theorem disc_weaken {Q R : List Lock → α → Prop} (h : List Lock) (m : Prog α)
    (hqr : ∀ h' a, Q h' a → R h' a) (hm : m.Disc Q h) : m.Disc R h := by
  induction m generalizing h with
  | ret a => exact hqr h a hm
  | op e k ih =>
    cases e <;> simp only [Prog.Disc] at hm ⊢
    all_goals first
      | exact fun r => ih r h (hm r)
      | exact ⟨hm.1, ih _ _ hm.2⟩

/-- a program without lock operations is lock-neutral -/
theorem disc_of_notLock (h : List Lock) (m : Prog α) (hm : m.AllEv NotLock) :
    m.Disc (fun h' _ => h' = h) h := by
  induction m with
  | ret a => rfl
  | op e k ih =>
    cases e <;> simp only [Prog.Disc]
    all_goals first
      | exact fun r => ih r (hm.2 r)
      | exact absurd hm.1 (by simp [NotLock])
end Prog

/-- lock-neutral: returns (normally or with an error) holding what it started with -/
def PE.Neutral {α : Type} (h : List Lock) (m : PE α) : Prop :=
  Prog.Disc (fun h' (_ : Except Exc α) => h' = h) h (m : Prog (Except Exc α))

namespace PE
variable {α β : Type}

theorem neutral_of_notLock (h : List Lock) (m : PE α) (hm : m.AllEv NotLock) : m.Neutral h :=
  Prog.disc_of_notLock h _ hm

theorem neutral_bind (h : List Lock) (m : PE α) (f : α → PE β) (hm : m.Neutral h)
    (hf : ∀ a, (f a).Neutral h) : (m >>= f).Neutral h := by
  show Prog.Disc _ h (PE.bind' m f)
  unfold PE.bind'
  apply Prog.disc_bind h _ _ hm
  intro h' r hr
  subst hr
  cases r with
  | ok a => exact hf a
  | error e => rfl

theorem neutral_pure (h : List Lock) (a : α) : (pure a : PE α).Neutral h := rfl
theorem neutral_throw (h : List Lock) (e : Exc) : (throw e : PE α).Neutral h := rfl
theorem neutral_ofExcept (h : List Lock) (x : Except Exc α) : (PE.ofExcept x).Neutral h := by
  cases x <;> rfl

theorem neutral_tryCatch (h : List Lock) (m : PE α) (hd : Exc → PE α) (hm : m.Neutral h)
    (hh : ∀ e, (hd e).Neutral h) : (tryCatch m hd).Neutral h := by
  show Prog.Disc _ h (PE.tryCatch' m hd)
  unfold PE.tryCatch'
  apply Prog.disc_bind h _ _ hm
  intro h' r hr
  subst hr
  cases r with
  | ok a => rfl
  | error e => exact hh e

/-- `try: acquire l; body finally: release l`, entered holding `h` with every held
    lock of a lower class -/
theorem neutral_locked (h : List Lock) (c : LockClass) (i : Str) (body : PE α)
    (hord : ∀ x ∈ h, x.cls.rank < c.rank) (hb : body.Neutral (h ++ [⟨c, i⟩])) :
    (PE.withFinally (do acquire c i; body) (release c i)).Neutral h := by
  unfold PE.withFinally
  apply Prog.disc_bind h _ _ (Q := fun h' _ => h' = h ++ [⟨c, i⟩])
  · show Prog.Disc _ h (PE.bind' (acquire c i) fun _ => body)
    unfold PE.bind' acquire unitPrim PE.prim
    simp only [Prog.bind, Prog.Disc]
    exact ⟨hord, hb⟩
  · intro h' r hr
    subst hr
    unfold release unitPrim PE.prim
    simp only [Prog.bind, Prog.Disc]
    refine ⟨by simp, ?_⟩
    have hnot : (⟨c, i⟩ : Lock) ∉ h := by
      intro hm
      have := hord _ hm
      simp at this
    rw [List.erase_append_right _ hnot]
    simp only [List.erase_cons_head, List.append_nil]

end PE
end HS

namespace HS
variable (cfg : Config) (o : Oracle)

/-! ### lock-free sub-programs -/
theorem findObject_nl (pid : Str) : (findObject cfg o pid).AllEv NotLock := by
  unfold findObject; repeat allev_step
theorem verifyRefs_nl (pid cid : Str) : (verifyRefs o pid cid).AllEv NotLock := by
  unfold verifyRefs; repeat allev_step
theorem updateRefsAdd_nl (pid cid : Str) : (updateRefsAdd cid pid).AllEv NotLock := by
  unfold updateRefsAdd; repeat allev_step
theorem updateRefsRemove_nl (pid cid : Str) : (updateRefsRemove cid pid).AllEv NotLock := by
  unfold updateRefsRemove; repeat allev_step
theorem writeRefsTmp_nl : writeRefsTmp.AllEv NotLock := by
  unfold writeRefsTmp; repeat allev_step
theorem deleteMarked_nl (l : List Loc) : (deleteMarked l).AllEv NotLock := by
  induction l with
  | nil => exact PE.allEv_pure _
  | cons a r ih => unfold deleteMarked; repeat (first | exact ih | allev_step)
theorem markPidRef_nl (k : Str) : (markPidRef k).AllEv NotLock := by
  unfold markPidRef; repeat allev_step
theorem removePidAndHandle_nl (pid cid : Str) : (removePidAndHandle pid cid).AllEv NotLock := by
  unfold removePidAndHandle; repeat (first | exact updateRefsRemove_nl _ _ | allev_step)
theorem validateAndCheckCidLock_nl (a b : Str) : (validateAndCheckCidLock a b).AllEv NotLock := by
  unfold validateAndCheckCidLock; repeat allev_step
theorem untagObject_nl (pid cid : Str) : (untagObject cfg o pid cid).AllEv NotLock := by
  unfold untagObject
  repeat (first
    | exact findObject_nl cfg o _
    | exact validateAndCheckCidLock_nl _ _
    | exact markPidRef_nl _
    | exact removePidAndHandle_nl _ _
    | exact deleteMarked_nl _
    | allev_step)
theorem hexDigestCore_nl (pid alg : Str) : (hexDigestCore cfg o pid alg).AllEv NotLock := by
  unfold hexDigestCore; repeat (first | exact findObject_nl cfg o _ | allev_step)
theorem moveAndGetChecksums_nl (pid : Option Str) (t : Tok) (add cs cks : Option Str) (sz : IArg) :
    (moveAndGetChecksums cfg o pid t add cs cks sz).AllEv NotLock := by
  unfold moveAndGetChecksums; repeat (first | exact hexDigestCore_nl cfg o _ _ | allev_step)

/-- step through a lock-neutral composition -/
macro "neutral_step" : tactic => `(tactic| first
  | exact PE.neutral_pure _ _
  | exact PE.neutral_throw _ _
  | exact PE.neutral_ofExcept _ _
  | apply PE.neutral_bind
  | apply PE.neutral_tryCatch
  | intro _
  | split
  | dsimp only)

/-! ### the calls -/

theorem storeRefs_neutral (h : List Lock) (hord : ∀ x ∈ h, x.cls.rank < LockClass.refPid.rank)
    (pid cid : Str) : (storeRefs cfg o pid cid).Neutral h := by
  unfold storeRefs
  -- withFinally (acquire refPid; acquire cid; body) (release cid; release refPid)
  unfold PE.withFinally
  apply Prog.disc_bind h _ _ (Q := fun h' _ => h' = h ++ [⟨.refPid, pid⟩] ++ [⟨.cid, cid⟩])
  · show Prog.Disc _ h (PE.bind' (acquire .refPid pid) _)
    unfold PE.bind' acquire unitPrim PE.prim
    simp only [Prog.bind, Prog.Disc]
    refine ⟨hord, ?_, ?_⟩
    · intro x hx
      rcases List.mem_append.mp hx with hx | hx
      · have := hord x hx; simp [LockClass.rank] at this ⊢; omega
      · simp at hx; subst hx; simp [LockClass.rank]
    · apply PE.neutral_tryCatch
      · apply PE.neutral_of_notLock
        repeat (first
          | exact verifyRefs_nl o _ _
          | exact updateRefsAdd_nl _ _
          | exact writeRefsTmp_nl
          | allev_step)
      · intro e
        split
        · exact PE.neutral_throw _ _
        · exact PE.neutral_throw _ _
        · apply PE.neutral_bind
          · exact PE.neutral_of_notLock _ _ (untagObject_nl cfg o _ _)
          · intro _; exact PE.neutral_throw _ _
  · intro h' r hr
    subst hr
    show Prog.Disc _ _ (Prog.bind (PE.bind' (release .cid cid) fun _ => release .refPid pid) _)
    unfold PE.bind' release unitPrim PE.prim
    simp only [Prog.bind, Prog.Disc]
    have h1 : (⟨.cid, cid⟩ : Lock) ∉ h ++ [⟨.refPid, pid⟩] := by
      intro hm
      rcases List.mem_append.mp hm with hm | hm
      · have := hord _ hm; simp [LockClass.rank] at this
      · simp at hm
    have h2 : (⟨.refPid, pid⟩ : Lock) ∉ h := by
      intro hm; have := hord _ hm; simp [LockClass.rank] at this
    refine ⟨by simp, ?_⟩
    rw [List.erase_append_right _ h1]
    simp only [List.erase_cons_head, List.append_nil]
    refine ⟨by simp, ?_⟩
    rw [List.erase_append_right _ h2]
    simp only [List.erase_cons_head, List.append_nil]

end HS

namespace HS
variable (cfg : Config) (o : Oracle)

theorem tagObject_neutral (h : List Lock) (hord : ∀ x ∈ h, x.cls.rank < LockClass.refPid.rank)
    (pid cid : SArg) : (tagObject cfg o pid cid).Neutral h := by
  unfold tagObject
  repeat (first | exact storeRefs_neutral cfg o h hord _ _ | neutral_step)

theorem storeObject_neutral (pid : SArg) (d : DataArg) (a c ca : SArg) (s : IArg) :
    (storeObject cfg o pid d a c ca s).Neutral [] := by
  unfold storeObject
  split
  · repeat (first
      | exact PE.neutral_of_notLock _ _ (moveAndGetChecksums_nl cfg o _ _ _ _ _ _)
      | neutral_step)
  · apply PE.neutral_bind; · exact PE.neutral_ofExcept _ _
    intro p
    apply PE.neutral_bind; · exact PE.neutral_ofExcept _ _
    intro _
    apply PE.neutral_bind; · exact PE.neutral_ofExcept _ _
    intro _
    apply PE.neutral_bind; · exact PE.neutral_ofExcept _ _
    intro ac
    apply PE.neutral_bind
    · apply PE.neutral_of_notLock; apply allEv_inProgress; trivial
    intro b
    have hbody : (PE.withFinally (do
          acquire .objPid p
          let t ← PE.ofExcept (openStream d)
          let m ← moveAndGetChecksums cfg o (some p) t ac.1 ac.2
            (match c with | .str c => some c | _ => none) s
          let _ ← tagObject cfg o (.str p) (.str m.cid)
          return Val.objMeta m) (release .objPid p)).Neutral [] := by
      apply PE.neutral_locked [] .objPid p
      · intro x hx; cases hx
      · apply PE.neutral_bind; · exact PE.neutral_ofExcept _ _
        intro t
        apply PE.neutral_bind
        · exact PE.neutral_of_notLock _ _ (moveAndGetChecksums_nl cfg o _ _ _ _ _ _)
        intro m
        apply PE.neutral_bind
        · apply tagObject_neutral
          intro x hx
          simp only [List.nil_append, List.mem_singleton] at hx
          subst hx
          simp [LockClass.rank]
        intro _
        exact PE.neutral_pure _ _
    dsimp only
    split
    · apply PE.neutral_bind; · exact PE.neutral_throw _ _
      intro _; exact hbody
    · exact hbody

theorem deleteObjectOnly_neutral (h : List Lock) (hord : ∀ x ∈ h, x.cls.rank < LockClass.cid.rank)
    (cid : Str) : (deleteObjectOnly cid).Neutral h := by
  unfold deleteObjectOnly
  apply PE.neutral_locked h .cid cid _ hord
  apply PE.neutral_of_notLock
  repeat allev_step

theorem deleteIfInvalid_neutral (om : Option ObjMeta) (c ca : SArg) (s : IArg) :
    (deleteIfInvalidObject cfg o om c ca s).Neutral [] := by
  unfold deleteIfInvalidObject
  repeat (first
    | exact deleteObjectOnly_neutral [] (by intro x hx; cases hx) _
    | (apply PE.neutral_of_notLock; (first | apply allEv_isFile | apply allEv_readObj); trivial)
    | neutral_step)

theorem withDocLock_neutral {α : Type} (h : List Lock) (hord : ∀ x ∈ h, x.cls.rank < LockClass.doc.rank)
    (doc : Str) (body : PE α) (hb : body.Neutral (h ++ [⟨.doc, doc⟩])) :
    (withDocLock doc body).Neutral h := by
  unfold withDocLock
  -- acquire; withFinally body release   =   the shape of `neutral_locked` with the acquire outside
  show Prog.Disc _ h (PE.bind' (acquire .doc doc) fun _ => PE.withFinally body (release .doc doc))
  unfold PE.bind' acquire unitPrim PE.prim PE.withFinally
  simp only [Prog.bind, Prog.Disc]
  refine ⟨hord, ?_⟩
  apply Prog.disc_bind _ _ _ hb
  intro h' r hr
  subst hr
  unfold release unitPrim PE.prim
  simp only [Prog.bind, Prog.Disc]
  have hnot : (⟨.doc, doc⟩ : Lock) ∉ h := by
    intro hm; have := hord _ hm; simp at this
  refine ⟨by simp, ?_⟩
  rw [List.erase_append_right _ hnot]
  simp only [List.erase_cons_head, List.append_nil]

theorem storeMetadata_neutral (pid : SArg) (d : DataArg) (f : SArg) :
    (storeMetadata cfg o pid d f).Neutral [] := by
  unfold storeMetadata
  repeat (first
    | (apply withDocLock_neutral [] (by intro x hx; cases hx))
    | (apply PE.neutral_of_notLock; apply allEv_eff; trivial)
    | neutral_step)

theorem retireDocs_neutral (h : List Lock) (hord : ∀ x ∈ h, x.cls.rank < LockClass.doc.rank)
    (dir : Str) (names : List Str) : (retireDocs dir names).Neutral h := by
  induction names with
  | nil => exact PE.neutral_pure _ _
  | cons n r ih =>
    unfold retireDocs
    apply PE.neutral_bind
    · apply withDocLock_neutral h hord
      apply PE.neutral_of_notLock; apply allEv_eff; trivial
    intro _
    apply PE.neutral_bind; · exact ih
    intro _
    exact PE.neutral_pure _ _

theorem deleteMetadataCore_neutral (h : List Lock) (hord : ∀ x ∈ h, x.cls.rank < LockClass.doc.rank)
    (p : Str) (fmt : Option Str) : (deleteMetadataCore o p fmt).Neutral h := by
  unfold deleteMetadataCore
  cases fmt with
  | none =>
    simp only
    apply PE.neutral_bind
    · apply PE.neutral_of_notLock; apply allEv_listDocs; trivial
    intro names
    split
    · exact PE.neutral_pure _ _
    · apply PE.neutral_bind; · exact retireDocs_neutral h hord _ _
      intro _
      exact PE.neutral_of_notLock _ _ (deleteMarked_nl _)
  | some f =>
    simp only
    apply withDocLock_neutral h hord
    apply PE.neutral_of_notLock
    repeat allev_step

theorem deleteMetadata_neutral (pid f : SArg) : (deleteMetadata cfg o pid f).Neutral [] := by
  unfold deleteMetadata
  repeat (first
    | exact deleteMetadataCore_neutral o [] (by intro x hx; cases hx) _ _
    | neutral_step)

theorem readonly_neutral (pid x : SArg) :
    (retrieveObject cfg o pid).Neutral [] ∧ (retrieveMetadata cfg o pid x).Neutral [] ∧
    (getHexDigest cfg o pid x).Neutral [] := by
  refine ⟨?_, ?_, ?_⟩
  · apply PE.neutral_of_notLock; unfold retrieveObject
    repeat (first | exact findObject_nl cfg o _ | allev_step)
  · apply PE.neutral_of_notLock; unfold retrieveMetadata
    repeat allev_step
  · apply PE.neutral_of_notLock; unfold getHexDigest
    repeat (first | exact hexDigestCore_nl cfg o _ _ | allev_step)

end HS

namespace HS
variable (cfg : Config) (o : Oracle)

/-- `acquire l` then `try body finally release l` -/
theorem neutral_acq_finally {α : Type} (h : List Lock) (c : LockClass) (i : Str) (body : PE α)
    (hord : ∀ x ∈ h, x.cls.rank < c.rank) (hb : body.Neutral (h ++ [⟨c, i⟩])) :
    (do acquire c i; PE.withFinally body (release c i) : PE α).Neutral h := by
  show Prog.Disc _ h (PE.bind' (acquire c i) fun _ => PE.withFinally body (release c i))
  unfold PE.bind' acquire unitPrim PE.prim PE.withFinally
  simp only [Prog.bind, Prog.Disc]
  refine ⟨hord, ?_⟩
  apply Prog.disc_bind _ _ _ hb
  intro h' r hr
  subst hr
  unfold release unitPrim PE.prim
  simp only [Prog.bind, Prog.Disc]
  have hnot : (⟨c, i⟩ : Lock) ∉ h := by
    intro hm; have := hord _ hm; simp at this
  refine ⟨by simp, ?_⟩
  rw [List.erase_append_right _ hnot]
  simp only [List.erase_cons_head, List.append_nil]

theorem ord_objPid_cid (p : Str) : ∀ x ∈ [(⟨.objPid, p⟩ : Lock)], x.cls.rank < LockClass.cid.rank := by
  intro x hx; simp only [List.mem_singleton] at hx; subst hx; simp [LockClass.rank]

theorem ord_objPid_doc (p : Str) : ∀ x ∈ [(⟨.objPid, p⟩ : Lock)], x.cls.rank < LockClass.doc.rank := by
  intro x hx; simp only [List.mem_singleton] at hx; subst hx; simp [LockClass.rank]

theorem ord_objPid_cid_doc (p c : Str) :
    ∀ x ∈ [(⟨.objPid, p⟩ : Lock)] ++ [⟨.cid, c⟩], x.cls.rank < LockClass.doc.rank := by
  intro x hx
  simp only [List.cons_append, List.nil_append, List.mem_cons, List.not_mem_nil, or_false] at hx
  rcases hx with rfl | rfl <;> simp [LockClass.rank]

theorem deleteObject_neutral (pid : SArg) : (deleteObject cfg o pid).Neutral [] := by
  unfold deleteObject
  apply PE.neutral_bind; · exact PE.neutral_ofExcept _ _
  intro p
  apply PE.neutral_locked [] .objPid p
  · intro x hx; cases hx
  · simp only [List.nil_append]
    apply PE.neutral_tryCatch
    · apply PE.neutral_bind
      · exact PE.neutral_of_notLock _ _ (findObject_nl cfg o _)
      intro cid
      apply neutral_acq_finally [⟨.objPid, p⟩] .cid cid _ (ord_objPid_cid p)
      repeat (first
        | exact deleteMetadataCore_neutral o _ (ord_objPid_cid_doc p cid) _ _
        | exact PE.neutral_of_notLock _ _ (deleteMarked_nl _)
        | exact PE.neutral_of_notLock _ _ (updateRefsRemove_nl _ _)
        | (apply PE.neutral_of_notLock; (first | apply allEv_eff | apply allEv_sizeIsZero); trivial)
        | neutral_step)
    · intro e
      split
      · repeat (first
          | exact deleteMetadataCore_neutral o _ (ord_objPid_doc p) _ _
          | exact PE.neutral_of_notLock _ _ (deleteMarked_nl _)
          | (apply PE.neutral_of_notLock; apply allEv_eff; trivial)
          | neutral_step)
      · apply PE.neutral_bind
        · apply PE.neutral_of_notLock; apply allEv_readRef; trivial
        intro c
        apply PE.neutral_bind
        · apply PE.neutral_of_notLock; apply allEv_eff; trivial
        intro _
        apply PE.neutral_bind
        · apply PE.neutral_locked [⟨.objPid, p⟩] .cid c _ (ord_objPid_cid p)
          apply PE.neutral_of_notLock
          repeat (first | exact updateRefsRemove_nl _ _ | allev_step)
        intro extra
        repeat (first
          | exact deleteMetadataCore_neutral o _ (ord_objPid_doc p) _ _
          | exact PE.neutral_of_notLock _ _ (deleteMarked_nl _)
          | neutral_step)
      · repeat (first
          | exact deleteMetadataCore_neutral o _ (ord_objPid_doc p) _ _
          | exact PE.neutral_of_notLock _ _ (deleteMarked_nl _)
          | (apply PE.neutral_of_notLock; apply allEv_eff; trivial)
          | neutral_step)
      · exact PE.neutral_throw _ _

/-- every public call: acquires in class order, releases what it holds, returns
    holding nothing — whatever the file system answers -/
theorem call_neutral (c : Call) : (c.prog cfg o).Neutral [] := by
  cases c with
  | storeObject p d a cks ca s => exact storeObject_neutral cfg o p d a cks ca s
  | tagObject p c => exact tagObject_neutral cfg o [] (by intro x hx; cases hx) p c
  | deleteIfInvalid om c ca s => exact deleteIfInvalid_neutral cfg o om c ca s
  | storeMetadata p d f => exact storeMetadata_neutral cfg o p d f
  | retrieveObject p => exact (readonly_neutral cfg o p .none).1
  | retrieveMetadata p f => exact (readonly_neutral cfg o p f).2.1
  | deleteObject p => exact deleteObject_neutral cfg o p
  | deleteMetadata p f => exact deleteMetadata_neutral cfg o p f
  | getHexDigest p a => exact (readonly_neutral cfg o p a).2.2

end HS
