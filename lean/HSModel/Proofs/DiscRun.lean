/-
  DiscRun — a lock-disciplined program, run sequentially from a world whose
  lock lists hold exactly what the program holds, is never blocked and leaves
  the lists holding exactly its postcondition's locks — under any fault plan.
-/
import HSModel.Proofs.Disc
import HSModel.Proofs.RunInv
namespace HS

/-- the four lists contain exactly the identifiers of `h`, class by class -/
def Matches (lk : Locks) (h : List Lock) : Prop :=
  ∀ c, lk.get c = (h.filter fun l => l.cls = c).map (·.id)

theorem locks_get_put (lk : Locks) (c d : LockClass) (v : List Str) :
    (lk.put c v).get d = if d = c then v else lk.get d := by
  cases c <;> cases d <;> simp [Locks.put, Locks.get]

theorem matches_empty : Matches {} [] := by
  intro c; cases c <;> rfl

theorem matches_nil_iff (lk : Locks) (h : Matches lk []) : lk = {} := by
  have h1 := h .objPid; have h2 := h .refPid; have h3 := h .cid; have h4 := h .doc
  simp [Locks.get] at h1 h2 h3 h4
  cases lk; simp_all

theorem filter_cls_empty (h : List Lock) (c : LockClass) (hord : ∀ x ∈ h, x.cls.rank < c.rank) :
    (h.filter fun l => l.cls = c) = [] := by
  rw [List.filter_eq_nil_iff]
  intro x hx
  have := hord x hx
  simp only [decide_eq_true_eq]
  intro e; rw [e] at this; omega

theorem matches_acquire (lk : Locks) (h : List Lock) (c : LockClass) (i : Str) (hm : Matches lk h)
    (hord : ∀ x ∈ h, x.cls.rank < c.rank) :
    i ∉ lk.get c ∧ Matches (lk.put c (lk.get c ++ [i])) (h ++ [⟨c, i⟩]) := by
  have hc : lk.get c = [] := by rw [hm c, filter_cls_empty h c hord]; rfl
  refine ⟨by rw [hc]; simp, ?_⟩
  intro d
  rw [locks_get_put]
  by_cases e : d = c
  · subst e
    simp only [if_true, hc, List.nil_append, List.filter_append, filter_cls_empty h d hord]
    simp
  · simp only [e, if_false, List.filter_append]
    rw [hm d]
    have : ([(⟨c, i⟩ : Lock)].filter fun l => l.cls = d) = [] := by
      simp [List.filter_cons]; intro e2; exact e e2.symm
    rw [this]; simp

/-- locks of pairwise different classes (what the class order gives) -/
def ClassDistinct (h : List Lock) : Prop := h.Pairwise fun a b => a.cls ≠ b.cls

theorem filter_erase_other (h : List Lock) (c d : LockClass) (i : Str) (e : ¬ d = c) :
    ((h.erase ⟨c, i⟩).filter fun l => l.cls = d) = (h.filter fun l => l.cls = d) := by
  induction h with
  | nil => rfl
  | cons a r ih =>
    by_cases ea : a = ⟨c, i⟩
    · subst ea
      simp only [List.erase_cons_head, List.filter_cons]
      have : ¬ c = d := fun e2 => e e2.symm
      simp [this]
    · rw [List.erase_cons_tail (by simpa using ea)]
      simp only [List.filter_cons, ih]

theorem classDistinct_nodup (h : List Lock) (hd : ClassDistinct h) : h.Nodup := by
  apply List.Pairwise.imp _ hd
  intro a b hab e2; exact hab (by rw [e2])

theorem class_unique (h : List Lock) (hd : ClassDistinct h) (a b : Lock) (ha : a ∈ h) (hb : b ∈ h)
    (hc : a.cls = b.cls) : a = b := by
  induction h with
  | nil => cases ha
  | cons x r ih =>
    have hd' := List.pairwise_cons.mp hd
    rcases List.mem_cons.mp ha with rfl | ha' <;> rcases List.mem_cons.mp hb with rfl | hb'
    · rfl
    · exact absurd hc (hd'.1 b hb')
    · exact absurd hc.symm (hd'.1 a ha')
    · exact ih hd'.2 ha' hb'

theorem filter_erase_same (h : List Lock) (c : LockClass) (i : Str) (hd : ClassDistinct h)
    (hin : (⟨c, i⟩ : Lock) ∈ h) : ((h.erase ⟨c, i⟩).filter fun l => l.cls = c) = [] := by
  rw [List.filter_eq_nil_iff]
  intro x hx
  simp only [decide_eq_true_eq]
  intro hc
  have hxh : x ∈ h := List.mem_of_mem_erase hx
  have : x = ⟨c, i⟩ := class_unique h hd x ⟨c, i⟩ hxh hin hc
  subst this
  exact (List.Nodup.not_mem_erase (classDistinct_nodup h hd)) hx

theorem filter_cls_singleton (h : List Lock) (c : LockClass) (i : Str) (hd : ClassDistinct h)
    (hin : (⟨c, i⟩ : Lock) ∈ h) : (h.filter fun l => l.cls = c) = [⟨c, i⟩] := by
  induction h with
  | nil => cases hin
  | cons a r ih =>
    have hd' := List.pairwise_cons.mp hd
    rcases List.mem_cons.mp hin with e | hr
    · subst e
      simp only [List.filter_cons, decide_true, if_true]
      congr 1
      rw [List.filter_eq_nil_iff]
      intro x hx
      have := hd'.1 x hx
      simp only [decide_eq_true_eq]
      exact fun e => this e.symm
    · have hne : a.cls ≠ c := hd'.1 _ hr
      simp only [List.filter_cons, hne, decide_false, Bool.false_eq_true, if_false]
      exact ih hd'.2 hr

theorem matches_release (lk : Locks) (h : List Lock) (c : LockClass) (i : Str) (hm : Matches lk h)
    (hd : ClassDistinct h) (hin : (⟨c, i⟩ : Lock) ∈ h) :
    i ∈ lk.get c ∧ Matches (lk.put c ((lk.get c).erase i)) (h.erase ⟨c, i⟩) ∧ ClassDistinct (h.erase ⟨c, i⟩) := by
  have hget : lk.get c = [i] := by rw [hm c, filter_cls_singleton h c i hd hin]; rfl
  refine ⟨by rw [hget]; simp, ?_, List.Pairwise.sublist (List.erase_sublist) hd⟩
  intro d
  rw [locks_get_put]
  by_cases e : d = c
  · subst e
    simp only [if_true, hget, List.erase_cons_head, filter_erase_same h d i hd hin]
    rfl
  · simp only [e, if_false, filter_erase_other h c d i e]
    exact hm d

theorem classDistinct_append (h : List Lock) (c : LockClass) (i : Str) (hd : ClassDistinct h)
    (hord : ∀ x ∈ h, x.cls.rank < c.rank) : ClassDistinct (h ++ [⟨c, i⟩]) := by
  unfold ClassDistinct
  rw [List.pairwise_append]
  refine ⟨hd, by simp, ?_⟩
  intro a ha b hb
  simp only [List.mem_singleton] at hb
  subst hb
  intro e
  have := hord a ha
  rw [e] at this
  simp at this

end HS

namespace HS

theorem respond_lk_other (w : World) (e : Ev) (hne : ∀ c i, e ≠ .acquire c i ∧ e ≠ .release c i) :
    (respond w e).2.lk = w.lk := by
  unfold respond
  split
  · exact faultStep_lk w e
  · rw [← faultStep_lk w e]
    cases e with
    | acquire c i => exact absurd rfl (hne c i).1
    | release c i => exact absurd rfl (hne c i).2
    | eff x => simp only [respondCore, applyEff]; split <;> rfl
    | readRef l => cases l <;> rfl
    | readOpen l => cases l <;> rfl
    | _ => rfl

theorem acquire_not_faulted (w : World) (c : LockClass) (i : Str) :
    (faultStep w (.acquire c i)).1 = false := by
  unfold faultStep
  split
  · rfl
  · rename_i f _
    simp only [Fault.check, Ev.sites, List.any_nil, Bool.false_eq_true, and_false, if_false,
      List.not_mem_nil]
    split <;> rfl

theorem release_not_faulted (w : World) (c : LockClass) (i : Str) :
    (faultStep w (.release c i)).1 = false := by
  unfold faultStep
  split
  · rfl
  · rename_i f _
    simp only [Fault.check, Ev.sites, List.any_nil, Bool.false_eq_true, and_false, if_false,
      List.not_mem_nil]
    split <;> rfl

/-- a disciplined program run sequentially: never blocked, ends holding exactly
    what the postcondition says — whatever the fault plan -/
theorem Prog.disc_run {α : Type} (post : List Lock → α → Prop) (m : Prog α) :
    ∀ (h : List Lock) (w : World), m.Disc post h → Matches w.lk h → ClassDistinct h →
      ∃ h', Matches (m.run w).2.lk h' ∧ ClassDistinct h' ∧ post h' (m.run w).1 := by
  induction m with
  | ret a => intro h w hd hm hc; exact ⟨h, hm, hc, hd⟩
  | op e k ih =>
    intro h w hd hm hc
    cases e with
    | acquire c i =>
      simp only [Prog.Disc] at hd
      obtain ⟨hnot, hm'⟩ := matches_acquire w.lk h c i hm hd.1
      have hresp : respond w (.acquire c i) =
          (.unit, { (faultStep w (.acquire c i)).2 with lk := w.lk.put c (w.lk.get c ++ [i]) }) := by
        unfold respond
        rw [acquire_not_faulted]
        simp only [Bool.false_eq_true, if_false, respondCore, faultStep_lk]
        rw [if_neg hnot]
      simp only [Prog.run, hresp]
      exact ih _ _ _ hd.2 hm' (classDistinct_append h c i hc hd.1)
    | release c i =>
      simp only [Prog.Disc] at hd
      obtain ⟨hin, hm', hc'⟩ := matches_release w.lk h c i hm hc hd.1
      have hresp : respond w (.release c i) =
          (.unit, { (faultStep w (.release c i)).2 with lk := w.lk.put c ((w.lk.get c).erase i) }) := by
        unfold respond
        rw [release_not_faulted]
        simp only [Bool.false_eq_true, if_false, respondCore, faultStep_lk]
        rw [if_pos hin]
      simp only [Prog.run, hresp]
      exact ih _ _ _ hd.2 hm' hc'
    | isFile l => simp only [Prog.Disc] at hd; simp only [Prog.run]
                  exact ih _ _ _ (hd _) (by rw [respond_lk_other w _ (by intro c i; constructor <;> simp)]; exact hm) hc
    | readRef l => simp only [Prog.Disc] at hd; simp only [Prog.run]
                   exact ih _ _ _ (hd _) (by rw [respond_lk_other w _ (by intro c i; constructor <;> simp)]; exact hm) hc
    | readOpen l => simp only [Prog.Disc] at hd; simp only [Prog.run]
                    exact ih _ _ _ (hd _) (by rw [respond_lk_other w _ (by intro c i; constructor <;> simp)]; exact hm) hc
    | readObj l => simp only [Prog.Disc] at hd; simp only [Prog.run]
                   exact ih _ _ _ (hd _) (by rw [respond_lk_other w _ (by intro c i; constructor <;> simp)]; exact hm) hc
    | readDoc d n => simp only [Prog.Disc] at hd; simp only [Prog.run]
                     exact ih _ _ _ (hd _) (by rw [respond_lk_other w _ (by intro c i; constructor <;> simp)]; exact hm) hc
    | sizeIsZero l => simp only [Prog.Disc] at hd; simp only [Prog.run]
                      exact ih _ _ _ (hd _) (by rw [respond_lk_other w _ (by intro c i; constructor <;> simp)]; exact hm) hc
    | listDocs l => simp only [Prog.Disc] at hd; simp only [Prog.run]
                    exact ih _ _ _ (hd _) (by rw [respond_lk_other w _ (by intro c i; constructor <;> simp)]; exact hm) hc
    | openTmpWrite l => simp only [Prog.Disc] at hd; simp only [Prog.run]
                        exact ih _ _ _ (hd _) (by rw [respond_lk_other w _ (by intro c i; constructor <;> simp)]; exact hm) hc
    | eff x => simp only [Prog.Disc] at hd; simp only [Prog.run]
               exact ih _ _ _ (hd _) (by rw [respond_lk_other w _ (by intro c i; constructor <;> simp)]; exact hm) hc
    | inProgress p => simp only [Prog.Disc] at hd; simp only [Prog.run]
                      exact ih _ _ _ (hd _) (by rw [respond_lk_other w _ (by intro c i; constructor <;> simp)]; exact hm) hc
    | isLocked c i => simp only [Prog.Disc] at hd; simp only [Prog.run]
                      exact ih _ _ _ (hd _) (by rw [respond_lk_other w _ (by intro c i; constructor <;> simp)]; exact hm) hc

end HS
