/-
  Exact — the concrete two-index invariant of the reference bookkeeping, and its
  preservation by the closed forms of the calls. Helper lemmas.
-/
import HSModel.Proofs.Closed
namespace HS

/-- not a deletion marker: the name does not end with `_delete`. Digests and
    identifier hashes are hexadecimal, hence plain. -/
def Plain (s : Str) : Prop := ¬ (deleteSuffix <:+ s)

theorem not_plain_marker (k : Str) : ¬ Plain (k ++ deleteSuffix) :=
  fun h => h (List.suffix_append k deleteSuffix)

theorem ne_marker_of_plain {j k : Str} (h : Plain j) : k ++ deleteSuffix ≠ j :=
  fun e => not_plain_marker k (e ▸ h)

/-- every pid reference is the hash of a well-formed pid that is listed by its
    cid; every cid list is the rendering of a non-empty duplicate-free list of
    well-formed pids, each of which is bound to exactly this cid; no temp residue -/
structure RefsExact (o : Oracle) (s : Store) : Prop where
  pid_listed : ∀ k c, s.pidRefs.get k = some c →
      ∃ p, k = o.hId p ∧ checkStringOk p = true ∧ ∃ t, s.cidRefs.get c = some t ∧ inRefs p t = true
  list_ok : ∀ c t, s.cidRefs.get c = some t →
      ∃ ls, t = renderLines ls ∧ ls ≠ [] ∧ ls.Nodup ∧
        ∀ p ∈ ls, checkStringOk p = true ∧ s.pidRefs.get (o.hId p) = some c
  no_tmp : s.tmpRefs = 0 ∧ s.tmpObj = 0
  cid_plain : ∀ c t, s.cidRefs.get c = some t → Plain c
  obj_plain : ∀ c x, s.objs.get c = some x → Plain c

theorem refsExact_empty (o : Oracle) : RefsExact o Store.empty :=
  ⟨by intro k c h; simp [Store.empty] at h, by intro c t h; simp [Store.empty] at h, ⟨rfl, rfl⟩,
   by intro c t h; simp [Store.empty] at h, by intro c t h; simp [Store.empty] at h⟩

theorem renderLines_inj (a b : List Str) (ha : ∀ l ∈ a, hasSpace l = false) (hb : ∀ l ∈ b, hasSpace l = false)
    (h : renderLines a = renderLines b) : a = b := by
  rw [← pyLines_render a ha, ← pyLines_render b hb, h]

variable (o : Oracle)

/-- changing only `dirs` keeps exactness -/
theorem refsExact_dirs (s : Store) (d : List (Area × Str)) (h : RefsExact o s) :
    RefsExact o { s with dirs := d } := ⟨h.pid_listed, h.list_ok, h.no_tmp, h.cid_plain, h.obj_plain⟩

theorem exact_tag_new_list (s : Store) (p c : Str) (d : List (Area × Str)) (h : RefsExact o s)
    (hp : checkStringOk p = true) (h1 : s.pidRefs.get (o.hId p) = none) (h2 : s.cidRefs.get c = none)
    (hcp : Plain c) :
    RefsExact o { s with pidRefs := s.pidRefs.set (o.hId p) c, cidRefs := s.cidRefs.set c (p ++ ['\n']),
                         dirs := d } := by
  have hr : p ++ ['\n'] = renderLines [p] := by simp [renderLines]
  have hsp := nospace_of_ok hp
  refine ⟨?_, ?_, h.no_tmp, ?_, h.obj_plain⟩
  rotate_left 2
  · intro c' t ht
    simp only at ht
    by_cases e : c = c'
    · exact e ▸ hcp
    · rw [FMap.get_set_ne _ _ e] at ht; exact h.cid_plain c' t ht
  · intro k c' hk
    simp only at hk ⊢
    by_cases e : o.hId p = k
    · subst e
      rw [FMap.get_set_self] at hk
      cases hk
      refine ⟨p, rfl, hp, p ++ ['\n'], by rw [FMap.get_set_self], ?_⟩
      rw [hr, inRefs_render p [p] (by intro l hl; simp at hl; subst hl; exact hsp)]; simp
    · rw [FMap.get_set_ne _ _ e] at hk
      obtain ⟨q, hq, hqok, t, ht, hin⟩ := h.pid_listed k c' hk
      have hc : c ≠ c' := by intro e2; subst e2; rw [h2] at ht; cases ht
      exact ⟨q, hq, hqok, t, by rw [FMap.get_set_ne _ _ hc]; exact ht, hin⟩
  · intro c' t ht
    simp only at ht ⊢
    by_cases e : c = c'
    · subst e
      rw [FMap.get_set_self] at ht
      cases ht
      refine ⟨[p], hr, by simp, by simp, ?_⟩
      intro q hq
      simp only [List.mem_singleton] at hq
      subst hq
      exact ⟨hp, by rw [FMap.get_set_self]⟩
    · rw [FMap.get_set_ne _ _ e] at ht
      obtain ⟨ls, hls, hne, hnd, hall⟩ := h.list_ok c' t ht
      refine ⟨ls, hls, hne, hnd, ?_⟩
      intro q hq
      obtain ⟨hqok, hqb⟩ := hall q hq
      refine ⟨hqok, ?_⟩
      have : o.hId p ≠ o.hId q := by intro e2; rw [e2] at h1; rw [h1] at hqb; cases hqb
      rw [FMap.get_set_ne _ _ this]; exact hqb

theorem exact_tag_append (s : Store) (p c : Str) (ls : List Str) (d : List (Area × Str)) (h : RefsExact o s)
    (hp : checkStringOk p = true) (h1 : s.pidRefs.get (o.hId p) = none)
    (h2 : s.cidRefs.get c = some (renderLines ls)) (hsp : ∀ l ∈ ls, hasSpace l = false) :
    RefsExact o { s with pidRefs := s.pidRefs.set (o.hId p) c, cidRefs := s.cidRefs.set c (renderLines (ls ++ [p])),
                         dirs := d } := by
  obtain ⟨ls0, hls0, hne0, hnd0, hall0⟩ := h.list_ok c _ h2
  have hsp0 : ∀ l ∈ ls0, hasSpace l = false := fun l hl => nospace_of_ok (hall0 l hl).1
  have hls : ls = ls0 := renderLines_inj ls ls0 hsp hsp0 hls0
  subst hls
  have hpsp := nospace_of_ok hp
  have hsp' : ∀ l ∈ ls ++ [p], hasSpace l = false := by
    intro l hl
    rcases List.mem_append.mp hl with h' | h'
    · exact hsp l h'
    · simp at h'; subst h'; exact hpsp
  have hnot : p ∉ ls := by
    intro hin
    have := (hall0 p hin).2
    rw [h1] at this; cases this
  refine ⟨?_, ?_, h.no_tmp, ?_, h.obj_plain⟩
  rotate_left 2
  · intro c' t ht
    simp only at ht
    by_cases e : c = c'
    · exact e ▸ h.cid_plain c _ h2
    · rw [FMap.get_set_ne _ _ e] at ht; exact h.cid_plain c' t ht
  · intro k c' hk
    simp only at hk ⊢
    by_cases e : o.hId p = k
    · subst e
      rw [FMap.get_set_self] at hk
      cases hk
      refine ⟨p, rfl, hp, _, by rw [FMap.get_set_self], ?_⟩
      rw [inRefs_render p _ hsp']; simp
    · rw [FMap.get_set_ne _ _ e] at hk
      obtain ⟨q, hq, hqok, t, ht, hin⟩ := h.pid_listed k c' hk
      by_cases hc : c = c'
      · subst hc
        rw [h2] at ht
        cases ht
        refine ⟨q, hq, hqok, _, by rw [FMap.get_set_self], ?_⟩
        rw [inRefs_render q ls hsp] at hin
        rw [inRefs_render q _ hsp']
        simp only [List.contains_eq_mem, decide_eq_true_eq] at hin ⊢
        exact List.mem_append_left _ hin
      · exact ⟨q, hq, hqok, t, by rw [FMap.get_set_ne _ _ hc]; exact ht, hin⟩
  · intro c' t ht
    simp only at ht ⊢
    by_cases e : c = c'
    · subst e
      rw [FMap.get_set_self] at ht
      cases ht
      refine ⟨ls ++ [p], rfl, by simp, ?_, ?_⟩
      · rw [List.nodup_append]
        refine ⟨hnd0, by simp, ?_⟩
        intro a ha b hb
        simp at hb; subst hb
        intro e2; subst e2; exact hnot ha
      · intro q hq
        rcases List.mem_append.mp hq with hq | hq
        · obtain ⟨hqok, hqb⟩ := hall0 q hq
          refine ⟨hqok, ?_⟩
          have : o.hId p ≠ o.hId q := by intro e2; rw [e2] at h1; rw [h1] at hqb; cases hqb
          rw [FMap.get_set_ne _ _ this]; exact hqb
        · simp at hq; subst hq
          exact ⟨hp, by rw [FMap.get_set_self]⟩
    · rw [FMap.get_set_ne _ _ e] at ht
      obtain ⟨ls', hls', hne, hnd, hall⟩ := h.list_ok c' t ht
      refine ⟨ls', hls', hne, hnd, ?_⟩
      intro q hq
      obtain ⟨hqok, hqb⟩ := hall q hq
      refine ⟨hqok, ?_⟩
      have : o.hId p ≠ o.hId q := by intro e2; rw [e2] at h1; rw [h1] at hqb; cases hqb
      rw [FMap.get_set_ne _ _ this]; exact hqb

end HS

namespace HS
variable (cfg : Config) (o : Oracle)

theorem calm_st (st : Store) (log : List Eff) : (calm st log).st = st := rfl

/-- `tag_object` (any arguments), run with only object-pid locks held: ends in
    a world of the same kind, and preserves the two-index invariant -/
theorem tag_run (l : List Str) (st : Store) (log : List Eff) (pid cid : SArg) (h : RefsExact o st)
    (hcp : ∀ c, cid = .str c → Plain c) :
    ∃ r st' log', (tagObject cfg o pid cid).run (calmL l st log) = (r, calmL l st' log') ∧
      RefsExact o st' ∧ st'.objs = st.objs := by
  cases hpc : checkString pid with
  | error e =>
    refine ⟨.error e, st, log, ?_, h, rfl⟩
    simp [tagObject, runsimp, hpc, calmL]
  | ok p =>
    cases hcc : checkString cid with
    | error e =>
      refine ⟨.error e, st, log, ?_, h, rfl⟩
      simp [tagObject, runsimp, hpc, hcc, calmL]
    | ok c =>
      have hp1 : pid = .str p := by
        cases pid <;> simp [checkString] at hpc
        rename_i s; split at hpc <;> simp_all
      have hc1 : cid = .str c := by
        cases cid <;> simp [checkString] at hcc
        rename_i s; split at hcc <;> simp_all
      subst hp1 hc1
      have hp : checkStringOk p = true := by
        simp only [checkString] at hpc; split at hpc <;> simp_all
      have hc : checkStringOk c = true := by
        simp only [checkString] at hcc; split at hcc <;> simp_all
      cases h1 : st.pidRefs.get (o.hId p) with
      | some x =>
        cases h2 : st.cidRefs.get c with
        | some t => exact ⟨_, _, _, tag_both cfg o l st log p c x t hp hc h1 h2, refsExact_dirs o st _ h, rfl⟩
        | none => exact ⟨_, _, _, tag_pid_only cfg o l st log p c x hp hc h1 h2, refsExact_dirs o st _ h, rfl⟩
      | none =>
        cases h2 : st.cidRefs.get c with
        | some t =>
          obtain ⟨ls, hls, hne, hnd, hall⟩ := h.list_ok c t h2
          subst hls
          have hsp : ∀ l ∈ ls, hasSpace l = false := fun l hl => nospace_of_ok (hall l hl).1
          have hnot : p ∉ ls := by
            intro hin; have := (hall p hin).2; rw [h1] at this; cases this
          exact ⟨_, _, _, tag_cid_only cfg o l st log p c ls hp hc h1 h2 hsp hnot,
            exact_tag_append o st p c ls _ h hp h1 h2 hsp, rfl⟩
        | none =>
          exact ⟨_, _, _, tag_neither cfg o l st log p c hp hc h1 h2,
            exact_tag_new_list o st p c _ h hp h1 h2 (hcp c rfl), rfl⟩

/-- `tag_object` (any arguments) preserves the two-index invariant -/
theorem tag_exact (st : Store) (log : List Eff) (pid cid : SArg) (h : RefsExact o st)
    (hcp : ∀ c, cid = .str c → Plain c) :
    RefsExact o ((tagObject cfg o pid cid).run (calm st log)).2.st := by
  obtain ⟨r, st', log', hrun, hex, _⟩ := tag_run cfg o [] st log pid cid h hcp
  unfold calm
  rw [hrun]; exact hex

end HS
