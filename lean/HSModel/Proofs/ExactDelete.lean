/-
  ExactDelete — `delete_object` preserves the two-index invariant. Helper lemmas.
-/
import HSModel.Proofs.Exact
import HSModel.Proofs.ClosedDelete
namespace HS

theorem FMap.get_retire_remove {V : Type} (m : FMap Str V) (k j : Str) (v : V) :
    (((m.del k).set (k ++ deleteSuffix) v).del (k ++ deleteSuffix)).get j =
      if k ++ deleteSuffix = j then none else if k = j then none else m.get j := by
  rw [FMap.get_del]
  split
  · rfl
  · rename_i h
    rw [FMap.get_set_ne _ _ h, FMap.get_del]

variable (o : Oracle)

/-- identifier hashes are never deletion markers (they are hexadecimal) -/
def PlainIds : Prop := ∀ p, Plain (o.hId p)

/-- the semantic effect of a completed `delete_object(p)` on the references -/
theorem exact_delete_core (s s' : Store) (p c : Str) (ls : List Str) (h : RefsExact o s)
    (hinj : ∀ q, o.hId q = o.hId p → q = p)
    (h1 : s.pidRefs.get (o.hId p) = some c) (h2 : s.cidRefs.get c = some (renderLines ls))
    (hls : ∀ l ∈ ls, hasSpace l = false)
    (hpid : ∀ j, s'.pidRefs.get j = if o.hId p = j then none else s.pidRefs.get j)
    (hcid : ∀ j, s'.cidRefs.get j =
      if c = j then (if ls.filter (fun l => !decide (l = p)) = [] then none
                     else some (renderLines (ls.filter fun l => !decide (l = p))))
      else s.cidRefs.get j)
    (hobj : ∀ j x, s'.objs.get j = some x → s.objs.get j = some x)
    (htmp : s'.tmpRefs = s.tmpRefs ∧ s'.tmpObj = s.tmpObj) : RefsExact o s' := by
  obtain ⟨ls0, hls0, _, hnd0, hall0⟩ := h.list_ok c _ h2
  have hsp0 : ∀ l ∈ ls0, hasSpace l = false := fun l hl => nospace_of_ok (hall0 l hl).1
  have hls' : ls = ls0 := renderLines_inj ls ls0 hls hsp0 hls0
  subst hls'
  have hrsp : ∀ l ∈ ls.filter (fun l => !decide (l = p)), hasSpace l = false :=
    fun l hl => hls l (List.mem_filter.1 hl).1
  refine ⟨?_, ?_, ?_, ?_, ?_⟩
  · intro k c' hk
    rw [hpid] at hk
    split at hk
    · cases hk
    · rename_i hne
      obtain ⟨q, hq, hqok, t, ht, hin⟩ := h.pid_listed k c' hk
      have hqp : q ≠ p := by intro e; subst e; exact hne hq.symm
      refine ⟨q, hq, hqok, ?_⟩
      by_cases e : c = c'
      · subst e
        rw [h2] at ht; cases ht
        rw [inRefs_render q ls hls] at hin
        have hmem : q ∈ ls.filter (fun l => !decide (l = p)) := by
          simp only [List.contains_eq_mem, decide_eq_true_eq] at hin
          exact List.mem_filter.2 ⟨hin, by simpa using hqp⟩
        have hne' : ls.filter (fun l => !decide (l = p)) ≠ [] := List.ne_nil_of_mem hmem
        refine ⟨_, by rw [hcid, if_pos rfl, if_neg hne'], ?_⟩
        rw [inRefs_render q _ hrsp]; simpa using hmem
      · exact ⟨t, by rw [hcid, if_neg e]; exact ht, hin⟩
  · intro c' t ht
    rw [hcid] at ht
    split at ht
    · rename_i e
      subst e
      split at ht
      · cases ht
      · rename_i hne
        cases ht
        refine ⟨_, rfl, hne, hnd0.filter _, ?_⟩
        intro q hq
        obtain ⟨hq1, hq2⟩ := List.mem_filter.1 hq
        have hqp : q ≠ p := by simpa using hq2
        obtain ⟨hqok, hqb⟩ := hall0 q hq1
        refine ⟨hqok, ?_⟩
        rw [hpid, if_neg (fun e => hqp (hinj q e.symm))]
        exact hqb
    · rename_i e
      obtain ⟨ls', hls', hne, hnd, hall⟩ := h.list_ok c' t ht
      refine ⟨ls', hls', hne, hnd, ?_⟩
      intro q hq
      obtain ⟨hqok, hqb⟩ := hall q hq
      refine ⟨hqok, ?_⟩
      have : o.hId p ≠ o.hId q := by
        intro e2
        have := hinj q e2.symm
        subst this
        rw [h1] at hqb; cases hqb; exact e rfl
      rw [hpid, if_neg this]; exact hqb
  · rw [htmp.1, htmp.2]; exact h.no_tmp
  · intro c' t ht
    rw [hcid] at ht
    split at ht
    · rename_i e; subst e; exact h.cid_plain c _ h2
    · exact h.cid_plain c' t ht
  · intro c' x hx
    exact h.obj_plain c' x (hobj c' x hx)


variable (cfg : Config)

theorem checkString_ok_inv {a : SArg} {p : Str} (h : checkString a = .ok p) :
    a = .str p ∧ checkStringOk p = true := by
  cases a <;> simp [checkString] at h
  rename_i s
  split at h <;> simp_all

/-- the effect of `delete_object(p)` on a bound pid, from a store whose indexes agree -/
theorem delete_effect (st : Store) (log : List Eff) (q c : Str) (h : RefsExact o st) (hpl : PlainIds o)
    (hinj : ∀ r, o.hId r = o.hId q → r = q) (hp : checkStringOk q = true)
    (h1 : st.pidRefs.get (o.hId q) = some c) :
    ∃ ls w', st.cidRefs.get c = some (renderLines ls) ∧ (∀ l ∈ ls, hasSpace l = false) ∧ q ∈ ls ∧
      (deleteObject cfg o (.str q)).run (calm st log) = (.ok .unit, w') ∧
      w'.lk = {} ∧ w'.fault = none ∧ w'.st.tmpRefs = st.tmpRefs ∧ w'.st.tmpObj = st.tmpObj ∧
      (∀ j, w'.st.pidRefs.get j = if o.hId q = j then none else st.pidRefs.get j) ∧
      (∀ j, w'.st.cidRefs.get j =
        if c = j then (if ls.filter (fun l => !decide (l = q)) = [] then none
                       else some (renderLines (ls.filter fun l => !decide (l = q))))
        else st.cidRefs.get j) ∧
      (∀ j, w'.st.objs.get j =
        if c = j ∧ ls.filter (fun l => !decide (l = q)) = [] then none else st.objs.get j) := by
  obtain ⟨q', hq, _, t, h2, hin⟩ := h.pid_listed _ _ h1
  have hqp : q' = q := hinj q' hq.symm
  subst hqp
  obtain ⟨ls, hls, _, _, hall⟩ := h.list_ok c t h2
  subst hls
  have hsp : ∀ l ∈ ls, hasSpace l = false := fun l hl => nospace_of_ok (hall l hl).1
  have hmem : q' ∈ ls := by
    rw [inRefs_render q' ls hsp] at hin; simpa using hin
  have hkm : st.pidRefs.get (o.hId q' ++ deleteSuffix) = none := by
    cases hx : st.pidRefs.get (o.hId q' ++ deleteSuffix) with
    | none => rfl
    | some y =>
      obtain ⟨r, hr, _⟩ := h.pid_listed _ _ hx
      exact absurd (hr ▸ hpl r) (not_plain_marker _)
  have hcm : st.cidRefs.get (c ++ deleteSuffix) = none := by
    cases hx : st.cidRefs.get (c ++ deleteSuffix) with
    | none => rfl
    | some y => exact absurd (h.cid_plain _ _ hx) (not_plain_marker _)
  have hom : st.objs.get (c ++ deleteSuffix) = none := by
    cases hx : st.objs.get (c ++ deleteSuffix) with
    | none => rfl
    | some y => exact absurd (h.obj_plain _ _ hx) (not_plain_marker _)
  have hpid : ∀ j, (((st.pidRefs.del (o.hId q')).set (o.hId q' ++ deleteSuffix) c).del
      (o.hId q' ++ deleteSuffix)).get j = if o.hId q' = j then none else st.pidRefs.get j := by
    intro j
    rw [FMap.get_retire_remove]
    split
    · rename_i e; subst e; rw [hkm]; split <;> rfl
    · rfl
  have hcl : ∀ j, ((((((st.cidRefs.set c (overwritePrefix [] (renderLines ls))).set c []).del c).set
      (c ++ deleteSuffix) [])).del (c ++ deleteSuffix)).get j = if c = j then none else st.cidRefs.get j := by
    intro j
    rw [FMap.get_retire_remove]
    split
    · rename_i e; subst e; rw [hcm]; split <;> rfl
    · split
      · rfl
      · rename_i e; rw [FMap.get_set_ne _ _ e, FMap.get_set_ne _ _ e]
  refine ⟨ls, ?_⟩
  by_cases hrest : ls.filter (fun l => !decide (l = q')) = []
  · cases hobj : st.objs.get c with
    | some x =>
      obtain ⟨w', hrun, hlk, hnf, htr, hto, hob, hpr, hcr⟩ :=
        delete_main_last cfg o st log q' c ls x hp h1 h2 hsp hmem hobj hrest
      refine ⟨w', h2, hsp, hmem, hrun, hlk, hnf, htr, hto, ?_, ?_, ?_⟩
      · intro j; rw [hpr]; exact hpid j
      · intro j; rw [hcr, hcl j, hrest]; simp
      · intro j
        rw [hob, FMap.get_retire_remove]
        by_cases e1 : c ++ deleteSuffix = j
        · subst e1
          have : ¬ (c = c ++ deleteSuffix) := by
            intro e; have := congrArg List.length e; simp [deleteSuffix] at this
          simp [this, hom]
        · by_cases e2 : c = j
          · simp [e1, e2, hrest]
          · simp [e1, e2]
    | none =>
      obtain ⟨w', hrun, hlk, hnf, htr, hto, hob, hpr, hcr⟩ :=
        delete_missing_last cfg o st log q' c ls hp h1 h2 hsp hmem hobj hrest
      refine ⟨w', h2, hsp, hmem, hrun, hlk, hnf, htr, hto, ?_, ?_, ?_⟩
      · intro j; rw [hpr]; exact hpid j
      · intro j; rw [hcr, hcl j, hrest]; simp
      · intro j
        rw [hob]
        by_cases e2 : c = j
        · subst e2; simp [hrest, hobj]
        · simp [e2]
  · have hck : ∀ j, ((st.cidRefs.set c (overwritePrefix (renderLines (ls.filter fun l => !decide (l = q')))
        (renderLines ls))).set c (renderLines (ls.filter fun l => !decide (l = q')))).get j =
        if c = j then some (renderLines (ls.filter fun l => !decide (l = q'))) else st.cidRefs.get j := by
      intro j
      rw [FMap.get_set]
      split
      · rfl
      · rename_i e; rw [FMap.get_set_ne _ _ e]
    cases hobj : st.objs.get c with
    | some x =>
      obtain ⟨w', hrun, hlk, hnf, htr, hto, hob, hpr, hcr⟩ :=
        delete_main_keep cfg o st log q' c ls x hp h1 h2 hsp hmem hobj hrest
      refine ⟨w', h2, hsp, hmem, hrun, hlk, hnf, htr, hto, ?_, ?_, ?_⟩
      · intro j; rw [hpr]; exact hpid j
      · intro j; rw [hcr, hck j, if_neg hrest]
      · intro j; rw [hob]; simp [hrest]
    | none =>
      obtain ⟨w', hrun, hlk, hnf, htr, hto, hob, hpr, hcr⟩ :=
        delete_missing_keep cfg o st log q' c ls hp h1 h2 hsp hmem hobj hrest
      refine ⟨w', h2, hsp, hmem, hrun, hlk, hnf, htr, hto, ?_, ?_, ?_⟩
      · intro j; rw [hpr]; exact hpid j
      · intro j; rw [hcr, hck j, if_neg hrest]
      · intro j; rw [hob]; simp [hrest]

/-- `delete_object` (any argument) preserves the two-index invariant; with a
    collision-free identifier hash at this pid -/
theorem delete_exact (st : Store) (log : List Eff) (pid : SArg) (h : RefsExact o st) (hpl : PlainIds o)
    (hinj : ∀ p q, pid = .str p → o.hId q = o.hId p → q = p) :
    RefsExact o ((deleteObject cfg o pid).run (calm st log)).2.st := by
  cases hpc : checkString pid with
  | error e =>
    have : (deleteObject cfg o pid).run (calm st log) = (.error e, calm st log) := by
      simp [deleteObject, runsimp, hpc, calm]
    rw [this]; exact h
  | ok p =>
    obtain ⟨hp1, hp⟩ := checkString_ok_inv hpc
    subst hp1
    cases h1 : st.pidRefs.get (o.hId p) with
    | none => rw [delete_unknown cfg o st log p hp h1]; exact h
    | some c =>
      obtain ⟨ls, w', h2, hsp, _, hrun, _, _, htr, hto, hpid, hcid, hobj⟩ :=
        delete_effect o cfg st log p c h hpl (fun r => hinj p r rfl) hp h1
      rw [hrun]
      refine exact_delete_core o st w'.st p c ls h (fun r => hinj p r rfl) h1 h2 hsp hpid hcid ?_ ⟨htr, hto⟩
      intro j y hy
      rw [hobj] at hy
      split at hy
      · cases hy
      · exact hy

end HS
