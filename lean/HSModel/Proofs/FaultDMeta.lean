/-
  FaultDMeta — `delete_metadata(pid, format)` under an arbitrary fault plan: the document is
  gone and the call returns, or an error is raised and every document is as before. Helper lemmas.
-/
import HSModel.Proofs.FaultMeta
set_option linter.unusedSimpArgs false
namespace HS
variable (cfg : Config) (o : Oracle)

/-- an existence probe is no fault site: it answers from the store and changes nothing -/
theorem respond_isFile (w : World) (l : Loc) :
    ∃ w1, respond w (.isFile l) = (.bool (w.st.isFile l), w1) ∧ w1.st = w.st ∧ w1.lk = w.lk := by
  have hnf : (faultStep w (.isFile l)).1 = false := by
    unfold faultStep
    split
    · rfl
    · rename_i f _
      simp only [Fault.check, Ev.sites, List.any_nil, Bool.false_eq_true, and_false, if_false,
        List.not_mem_nil]
      split <;> rfl
  unfold respond
  rw [hnf]
  simp only [Bool.false_eq_true, if_false, respondCore, faultStep_st]
  exact ⟨_, rfl, faultStep_st w _, faultStep_lk w _⟩

theorem FMap.delL_of_getL_none {K V : Type} [DecidableEq K] (l : List (K × V)) (k : K) (h : FMap.getL l k = none) :
    FMap.delL l k = l := by
  induction l with
  | nil => rfl
  | cons a r ih =>
    obtain ⟨k', v⟩ := a
    by_cases e : k' = k
    · simp [FMap.getL, e] at h
    · simp only [FMap.getL, e, if_false] at h
      simp [FMap.delL, e, ih h]

theorem FMap.del_of_get_none {K V : Type} [DecidableEq K] {m : FMap K V} {k : K} (h : m.get k = none) : m.del k = m := by
  cases m with
  | mk l => simp only [FMap.del]; congr; exact FMap.delL_of_getL_none l k h

theorem apply_remove_mdoc {s s' : Store} {d n : Str} (h : s.apply (.remove (.mdoc d n)) = some s') :
    s'.mdocs = s.mdocs.del (d, n) := by
  simp only [Store.apply, Store.remove] at h
  split at h
  · injection h with h; subst h; rfl
  · cases h

/-- `delete_metadata(p, f)` for one format, accepted arguments, the document's name free, under ANY
    fault plan and from any store: it returns and the document is gone (every other document as
    before), or it raises and every document is as before -/
theorem dmeta_error_or_effect (w : World) (p f : Str) (fmt : SArg) (hfmt : fmt ≠ .none)
    (hp : checkStringOk p = true) (hf : checkArgFormatId cfg.ns fmt = .ok f)
    (hfree : o.hId (p ++ f) ∉ w.lk.doc) :
    (((deleteMetadata cfg o (.str p) fmt).run w).1 = .ok .unit ∧
        ((deleteMetadata cfg o (.str p) fmt).run w).2.st.mdocs = w.st.mdocs.del (o.hId p, o.hId (p ++ f))) ∨
      (∃ e, ((deleteMetadata cfg o (.str p) fmt).run w).1 = .error e ∧
        ((deleteMetadata cfg o (.str p) fmt).run w).2.st.mdocs = w.st.mdocs) := by
  have hps : checkString (.str p) = .ok p := by simp [checkString, hp]
  obtain ⟨w1, h1, hs1, hl1⟩ := respond_acquire_free w .doc (o.hId (p ++ f)) hfree
  have hheld : ∀ w' : World, w'.lk = w1.lk → o.hId (p ++ f) ∈ w'.lk.get .doc := by
    intro w' e; rw [e, hl1]; simp [Locks.get, Locks.put]
  obtain ⟨w2, h2, hs2, hl2⟩ := respond_isFile w1 (.mdoc (o.hId p) (o.hId (p ++ f)))
  have hsel : (match fmt with | .none => (none : Option Str) | _ => some f) = some f := by
    cases fmt <;> first | rfl | exact absurd rfl hfmt
  simp only [deleteMetadata, deleteMetadataCore, hsel, withDocLock, PE.ofExcept, PE.withFinally, bind, PE.bind',
    PE.pure', PE.throw', Prog.bind, acquire, release, unitPrim, PE.prim, eff, isFile, pure, hps, hf,
    Prog.run, h1, h2]
  cases hb : w1.st.isFile (.mdoc (o.hId p) (o.hId (p ++ f))) with
  | false =>
    -- nothing to delete
    obtain ⟨w3, h3, hs3, _⟩ := respond_release_held w2 .doc (o.hId (p ++ f)) (hheld w2 hl2)
    simp only [Bool.false_eq_true, ↓reduceIte, Prog.bind, Prog.run, h3]
    left
    refine ⟨trivial, ?_⟩
    rw [hs3, hs2, hs1]
    have : w.st.mdocs.get (o.hId p, o.hId (p ++ f)) = none := by
      rw [hs1] at hb
      simpa [Store.isFile, FMap.contains] using hb
    exact (FMap.del_of_get_none this).symm
  | true =>
    simp only [↓reduceIte, Prog.bind, Prog.run]
    rcases respond_eff_cases w2 (.remove (.mdoc (o.hId p) (o.hId (p ++ f)))) with
      ⟨e3, w3, h3, hs3, hl3⟩ | ⟨s3, w3, ha3, h3, hs3, hl3⟩
    · obtain ⟨w4, h4, hs4, _⟩ := respond_release_held w3 .doc (o.hId (p ++ f)) (hheld w3 (by rw [hl3, hl2]))
      simp only [h3, Prog.bind, Prog.run, h4]
      exact Or.inr ⟨_, rfl, by rw [hs4, hs3, hs2, hs1]⟩
    · obtain ⟨w4, h4, hs4, _⟩ := respond_release_held w3 .doc (o.hId (p ++ f)) (hheld w3 (by rw [hl3, hl2]))
      simp only [h3, Prog.bind, Prog.run, h4]
      exact Or.inl ⟨trivial, by rw [hs4, hs3, apply_remove_mdoc ha3, hs2, hs1]⟩

end HS
