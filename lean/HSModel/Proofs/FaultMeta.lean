/-
  FaultMeta — `store_metadata` under an arbitrary fault plan: error or whole
  effect, and on error every document is as before. Helper lemmas.
-/
import HSModel.Proofs.RunInv
import HSModel.Proofs.DiscRun
import HSModel.Calls
namespace HS

/-- what the world can answer to a file-system effect, whatever the fault plan:
    an error and the same store, or success and the effect applied -/
theorem respond_eff_cases (w : World) (x : Eff) :
    (∃ e w1, respond w (.eff x) = (.err e, w1) ∧ w1.st = w.st ∧ w1.lk = w.lk) ∨
    (∃ s' w2, w.st.apply x = some s' ∧ respond w (.eff x) = (.unit, w2) ∧ w2.st = s' ∧ w2.lk = w.lk) := by
  unfold respond
  by_cases hf : (faultStep w (.eff x)).1 = true
  · left
    refine ⟨_, _, by rw [if_pos hf], faultStep_st w _, faultStep_lk w _⟩
  · rw [if_neg hf]
    simp only [respondCore, applyEff]
    rw [faultStep_st]
    cases ha : w.st.apply x with
    | none =>
      left
      exact ⟨_, _, rfl, faultStep_st w _, faultStep_lk w _⟩
    | some s' =>
      right
      exact ⟨s', _, rfl, rfl, rfl, faultStep_lk w _⟩

theorem respond_acquire_free (w : World) (c : LockClass) (i : Str) (h : i ∉ w.lk.get c) :
    ∃ w1, respond w (.acquire c i) = (.unit, w1) ∧ w1.st = w.st ∧ w1.lk = w.lk.put c (w.lk.get c ++ [i]) := by
  unfold respond
  rw [acquire_not_faulted]
  simp only [Bool.false_eq_true, if_false, respondCore, faultStep_lk]
  rw [if_neg h]
  exact ⟨_, rfl, faultStep_st w _, rfl⟩

theorem respond_release_held (w : World) (c : LockClass) (i : Str) (h : i ∈ w.lk.get c) :
    ∃ w1, respond w (.release c i) = (.unit, w1) ∧ w1.st = w.st ∧ w1.lk = w.lk.put c ((w.lk.get c).erase i) := by
  unfold respond
  rw [release_not_faulted]
  simp only [Bool.false_eq_true, if_false, respondCore, faultStep_lk]
  rw [if_pos h]
  exact ⟨_, rfl, faultStep_st w _, rfl⟩

variable (cfg : Config) (o : Oracle)

theorem apply_mkTmp_mdocs {s s' : Store} {a : TmpArea} (h : s.apply (.mkTmp a) = some s') : s'.mdocs = s.mdocs := by
  simp only [Store.apply, Option.some.injEq] at h
  subst h
  cases a <;> rfl

theorem apply_mkdirs_mdocs {s s' : Store} {a : Area} {k : Str} (h : s.apply (.mkdirs a k) = some s') :
    s'.mdocs = s.mdocs := by
  simp only [Store.apply, Option.some.injEq] at h
  subst h; rfl

theorem apply_removeTmp_mdocs {s s' : Store} {a : TmpArea} (h : s.apply (.removeTmp a) = some s') :
    s'.mdocs = s.mdocs := by
  simp only [Store.apply] at h
  split at h
  · cases h
  · injection h with h; subst h; cases a <;> rfl

theorem apply_publishDoc_mdocs {s s' : Store} {d n : Str} {t : Tok} (h : s.apply (.publishDoc d n t) = some s') :
    s'.mdocs = s.mdocs.set (d, n) t := by
  simp only [Store.apply] at h
  split at h
  · cases h
  · injection h with h; subst h; rfl

/-- `store_metadata` with accepted arguments, its document name free, under ANY
    fault plan: it returns the path and the document is the new one, or it
    returns an error and every document is as before -/
theorem smeta_error_or_effect (w : World) (p f : Str) (t : Tok) (fmt : SArg)
    (hp : checkStringOk p = true) (hf : checkArgFormatId cfg.ns fmt = .ok f)
    (hfree : o.hId (p ++ f) ∉ w.lk.doc) :
    (((storeMetadata cfg o (.str p) (.ok t) fmt).run w).1 = .ok (.path (.mdoc (o.hId p) (o.hId (p ++ f)))) ∧
        ((storeMetadata cfg o (.str p) (.ok t) fmt).run w).2.st.mdocs = w.st.mdocs.set (o.hId p, o.hId (p ++ f)) t) ∨
      (∃ e, ((storeMetadata cfg o (.str p) (.ok t) fmt).run w).1 = .error e ∧
        ((storeMetadata cfg o (.str p) (.ok t) fmt).run w).2.st.mdocs = w.st.mdocs) := by
  have hps : checkString (.str p) = .ok p := by simp [checkString, hp]
  obtain ⟨w1, h1, hs1, hl1⟩ := respond_acquire_free w .doc (o.hId (p ++ f)) hfree
  have hheld : ∀ w' : World, w'.lk = w1.lk → o.hId (p ++ f) ∈ w'.lk.get .doc := by
    intro w' e; rw [e, hl1]; simp [Locks.get, Locks.put]
  simp only [storeMetadata, withDocLock, PE.ofExcept, PE.withFinally, bind, PE.bind', PE.pure', PE.throw', PE.tryCatch',
    Prog.bind, acquire, release, unitPrim, PE.prim, eff, tryCatch, pure, throw, hps, hf, checkArgData, openStream,
    Prog.run, h1]
  rcases respond_eff_cases w1 (.mkTmp .mdata) with ⟨e2, w2, h2, hs2, hl2⟩ | ⟨s2, w2, ha2, h2, hs2, hl2⟩
  · -- temp file creation failed
    obtain ⟨w3, h3, hs3, _⟩ := respond_release_held w2 .doc (o.hId (p ++ f)) (hheld w2 hl2)
    simp only [h2, Prog.bind, Prog.run, h3]
    exact Or.inr ⟨e2, rfl, by rw [hs3, hs2, hs1]⟩
  · have hm2 : w2.st.mdocs = w.st.mdocs := by rw [hs2, apply_mkTmp_mdocs ha2, hs1]
    simp only [h2, Prog.bind, Prog.run]
    rcases respond_eff_cases w2 (.mkdirs .mdata (o.hId p)) with ⟨e3, w3, h3, hs3, hl3⟩ | ⟨s3, w3, ha3, h3, hs3, hl3⟩
    · -- mkdir failed: temp file removed (or not), error
      simp only [h3, Prog.bind, Prog.run]
      rcases respond_eff_cases w3 (.removeTmp .mdata) with ⟨e4, w4, h4, hs4, hl4⟩ | ⟨s4, w4, ha4, h4, hs4, hl4⟩
      · obtain ⟨w5, h5, hs5, _⟩ := respond_release_held w4 .doc (o.hId (p ++ f)) (hheld w4 (by rw [hl4, hl3, hl2]))
        simp only [h4, Prog.bind, Prog.run, h5]
        exact Or.inr ⟨_, rfl, by rw [hs5, hs4, hs3, hm2]⟩
      · obtain ⟨w5, h5, hs5, _⟩ := respond_release_held w4 .doc (o.hId (p ++ f)) (hheld w4 (by rw [hl4, hl3, hl2]))
        simp only [h4, Prog.bind, Prog.run, h5]
        exact Or.inr ⟨_, rfl, by rw [hs5, hs4, apply_removeTmp_mdocs ha4, hs3, hm2]⟩
    · have hm3 : w3.st.mdocs = w.st.mdocs := by rw [hs3, apply_mkdirs_mdocs ha3, hm2]
      simp only [h3, Prog.bind, Prog.run]
      rcases respond_eff_cases w3 (.publishDoc (o.hId p) (o.hId (p ++ f)) t) with
        ⟨e4, w4, h4, hs4, hl4⟩ | ⟨s4, w4, ha4, h4, hs4, hl4⟩
      · -- the move failed: temp file removed (or not), error, documents as before
        simp only [h4, Prog.bind, Prog.run]
        rcases respond_eff_cases w4 (.removeTmp .mdata) with ⟨e5, w5, h5, hs5, hl5⟩ | ⟨s5, w5, ha5, h5, hs5, hl5⟩
        · obtain ⟨w6, h6, hs6, _⟩ := respond_release_held w5 .doc (o.hId (p ++ f))
            (hheld w5 (by rw [hl5, hl4, hl3, hl2]))
          simp only [h5, Prog.bind, Prog.run, h6]
          exact Or.inr ⟨_, rfl, by rw [hs6, hs5, hs4, hm3]⟩
        · obtain ⟨w6, h6, hs6, _⟩ := respond_release_held w5 .doc (o.hId (p ++ f))
            (hheld w5 (by rw [hl5, hl4, hl3, hl2]))
          simp only [h5, Prog.bind, Prog.run, h6]
          exact Or.inr ⟨_, rfl, by rw [hs6, hs5, apply_removeTmp_mdocs ha5, hs4, hm3]⟩
      · -- the move happened: the call returns the path
        obtain ⟨w5, h5, hs5, _⟩ := respond_release_held w4 .doc (o.hId (p ++ f)) (hheld w4 (by rw [hl4, hl3, hl2]))
        simp only [h4, Prog.bind, Prog.run, h5]
        exact Or.inl ⟨trivial, by rw [hs5, hs4, apply_publishDoc_mdocs ha4, hm3]⟩

end HS
