/-
  HexReader — `get_hex_digest` beside any writers. Helper lemmas for C02 (uses the invariants of Props/C09).
-/
import HSModel.Props.C09
namespace HS.HexReader
open HS.C09
variable (cfg : Config) (o : Oracle)

/-- what `get_hex_digest` may return: the digest, under some supported algorithm, of content that sits
    at a cid some pid reference held -/
def HexOf (vs : List Str) (G : Str → Tok → Prop) (r : Except Exc Val) : Prop :=
  ∀ d, r = .ok (.hex d) → ∃ a t, d = o.dig a t ∧ ∃ c ∈ vs, G c t

theorem hexDigestCore_safe (P : Ev → Prop) (hP : ∀ e, NoEff e → P e) (vs : List Str) (ts : List Tok)
    (G : Str → Tok → Prop) (pid alg : Str) :
    SafeR P (GoodAnswers vs ts G) (fun d => ∃ t, d = o.dig alg t ∧ ∃ c ∈ vs, G c t) (hexDigestCore cfg o pid alg) := by
  unfold hexDigestCore
  apply safeR_bind _ _ (HS.C09.findObject_safe cfg o P hP vs ts G pid)
  intro cid hcid
  apply safeR_bind (Q := fun _ => True)
  · exact safeR_of_allEv _ (Prog.allEv_mono _ hP (by apply allEv_isFile; trivial))
  intro b _
  try dsimp only
  split
  · thr
  apply safeR_bind (Q := fun t => G cid t)
  · apply safeR_prim _ _ (hP (.readObj _) trivial)
    intro r hr
    cases r <;> first | trivial | exact hr
  intro t ht
  exact safeR_pure _ ⟨t, rfl, cid, hcid, ht⟩

theorem getHexDigest_safe (P : Ev → Prop) (hP : ∀ e, NoEff e → P e) (vs : List Str) (ts : List Tok)
    (G : Str → Tok → Prop) (pid alg : SArg) :
    Prog.Safe P (GoodAnswers vs ts G) (HexOf o vs G) (getHexDigest cfg o pid alg : Prog (Except Exc Val)) := by
  have h : SafeR P (GoodAnswers vs ts G) (fun v => ∀ d, v = Val.hex d → ∃ a t, d = o.dig a t ∧ ∃ c ∈ vs, G c t)
      (getHexDigest cfg o pid alg) := by
    unfold getHexDigest
    apply safeR_bind (Q := fun _ => True)
    · exact safeR_weaken _ (fun _ _ => trivial) (safeR_ofExcept _)
    intro p _
    apply safeR_bind (Q := fun _ => True)
    · exact safeR_weaken _ (fun _ _ => trivial) (safeR_ofExcept _)
    intro a _
    apply safeR_bind (Q := fun _ => True)
    · exact safeR_weaken _ (fun _ _ => trivial) (safeR_ofExcept _)
    intro a' _
    apply safeR_bind _ _ (hexDigestCore_safe cfg o P hP vs ts G p a')
    intro d hd
    apply safeR_pure
    intro d' e
    cases e
    obtain ⟨t, hdt, c, hc, hg⟩ := hd
    exact ⟨a', t, hdt, c, hc, hg⟩
  apply Prog.safe_weaken _ _ h
  intro r hr d e
  subst e
  exact hr d rfl

def hexPost (vs : List Str) : Option Call → Except Exc Val → Prop
  | some (.getHexDigest _ _) => HexOf o vs (AtDigest cfg o)
  | _ => fun _ => True

/-- **`get_hex_digest` returns a true digest, whatever races.** Any number of threads running any
    calls, from any world whose pid references hold values from `vs0` and whose objects sit at their
    digest, every schedule and granularity, any fault plan: a `get_hex_digest(pid, algorithm)` that
    has returned normally returned the digest, under a supported algorithm, of content `t` that sits
    at a cid which was in some pid reference at the start or which a `store_object` / `tag_object` of
    the set supplied — never a digest of foreign or partial bytes. -/
theorem hex_digest_true_under_every_interleaving (calls : List Call) (w0 : World) (vs0 : List Str) (ts0 : List Tok)
    (hv : ValuesFrom vs0 ts0 w0.st) (hob : ObjsAddressed cfg o w0.st) (fuel : Nat) (sched : List Nat) (n : Nat) :
    let cf := (runSchedule fuel { w := w0, ts := calls.map (fun c => TState.fresh (c.prog cfg o)) } sched n).1
    let vs := vs0 ++ calls.flatMap (cidsSupplied cfg o)
    ∀ (i : Nat) (d : Str) (pid alg : SArg), cf.ts[i]? = some (.finished (.ok (.hex d))) →
      calls[i]? = some (.getHexDigest pid alg) →
      ∃ a t, d = o.dig a t ∧ ∃ c ∈ vs, ∃ k, c = o.dig cfg.alg t ++ markers k := by
  intro cf vs i d pid alg hi hc
  let ts := ts0 ++ calls.flatMap docsSupplied
  let P : Ev → Prop := fun e => Supplies vs ts e ∧ PubAtDigest cfg o e
  let I : World → Prop := fun w => ValuesFrom vs ts w.st ∧ ObjsAddressed cfg o w.st
  have hpres : Prog.Preserved P I :=
    preserved_of_store (J := fun s => ValuesFrom vs ts s ∧ ObjsAddressed cfg o s)
      (fun s x s' hx ha hs => ⟨values_step vs ts s s' x hx.1 ha hs.1, objs_step cfg o s s' x hx.2 ha hs.2⟩)
  have hP : ∀ e, NoEff e → P e := fun e he => ⟨supplies_of_noEff vs ts e he, pubAtDigest_of_noEff cfg o e he⟩
  have hall : ∀ c ∈ calls, (c.prog cfg o : Prog (Except Exc Val)).AllEv P := by
    intro c hc'
    apply allEv_and
    · apply Prog.allEv_mono _ _ (call_supplies cfg o [] [] c)
      apply supplies_mono
      · intro v hv'
        simp only [List.nil_append] at hv'
        exact List.mem_append_right _ (List.mem_flatMap.mpr ⟨c, hc', hv'⟩)
      · intro t ht'
        simp only [List.nil_append] at ht'
        exact List.mem_append_right _ (List.mem_flatMap.mpr ⟨c, hc', ht'⟩)
    · exact Prog.allEv_mono _ (pubAtDigest_of_shape cfg o _) (call_shape cfg o c)
  have h0 : SafeConf P (GoodAnswers vs ts (AtDigest cfg o)) I (fun i => hexPost cfg o vs calls[i]?)
      { w := w0, ts := calls.map (fun c => TState.fresh (c.prog cfg o)) } := by
    refine ⟨⟨valuesFrom_mono hv (fun _ h => List.mem_append_left _ h) (fun _ h => List.mem_append_left _ h), hob⟩, ?_⟩
    intro j p hp
    simp only at hp
    cases hcj : calls[j]? with
    | none => rw [List.getElem?_map, hcj] at hp; cases hp
    | some c =>
      rw [List.getElem?_map, hcj] at hp
      cases hp
      have hmem : c ∈ calls := List.mem_of_getElem? hcj
      have key : Prog.Safe P (GoodAnswers vs ts (AtDigest cfg o)) (hexPost cfg o vs (some c))
          (c.prog cfg o : Prog (Except Exc Val)) := by
        cases c with
        | getHexDigest p' a' => exact getHexDigest_safe cfg o P hP vs ts _ p' a'
        | _ => exact Prog.safe_of_allEv _ (hall _ hmem)
      show Prog.Safe P _ (hexPost cfg o vs calls[j]?) _
      rw [hcj]; exact key
  have hfin := safe_schedule hpres (good_answers cfg o vs ts) _ fuel sched _ n h0
  have hq := safe_finished hfin i _ hi
  rw [hc] at hq
  obtain ⟨a, t, hd, c, hcv, k, hk⟩ := hq d rfl
  exact ⟨a, t, hd, c, hcv, k, hk⟩

end HS.HexReader
