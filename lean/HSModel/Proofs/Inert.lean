/-
  Inert — the read-only calls issue no primitive that changes a file or a lock list (for every
  sequence of answers). Helper lemmas for C17.
-/
import HSModel.Proofs.Reader
import HSModel.Proofs.Shape
namespace HS
open HS.C09
variable (cfg : Config) (o : Oracle)

/-- a primitive that changes neither a file nor a lock list -/
def Inert : Ev → Prop
  | .eff _ => False
  | .acquire .. => False
  | .release .. => False
  | .openTmpWrite _ => False
  | _ => True

theorem findObject_inert (pid : Str) : (findObject cfg o pid).AllEv Inert := by
  unfold findObject; repeat allev_step
theorem hexDigestCore_inert (pid alg : Str) : (hexDigestCore cfg o pid alg).AllEv Inert := by
  unfold hexDigestCore; repeat (first | exact findObject_inert cfg o _ | allev_step)
theorem retrieveObject_inert (pid : SArg) : (retrieveObject cfg o pid).AllEv Inert := by
  unfold retrieveObject; repeat (first | exact findObject_inert cfg o _ | allev_step)
theorem retrieveMetadata_inert (pid f : SArg) : (retrieveMetadata cfg o pid f).AllEv Inert := by
  unfold retrieveMetadata; repeat allev_step
theorem getHexDigest_inert (pid a : SArg) : (getHexDigest cfg o pid a).AllEv Inert := by
  unfold getHexDigest; repeat (first | exact hexDigestCore_inert cfg o _ _ | allev_step)

def ReadOnly : Call → Prop
  | .retrieveObject _ => True
  | .retrieveMetadata _ _ => True
  | .getHexDigest _ _ => True
  | _ => False

theorem readOnly_inert (c : Call) (h : ReadOnly c) : (c.prog cfg o).AllEv Inert := by
  cases c with
  | retrieveObject p => exact retrieveObject_inert cfg o p
  | retrieveMetadata p f => exact retrieveMetadata_inert cfg o p f
  | getHexDigest p a => exact getHexDigest_inert cfg o p a
  | _ => exact h.elim

theorem inert_preserved (s0 : Store) (l0 : Locks) :
    Prog.Preserved Inert (fun w => w.st = s0 ∧ w.lk = l0) := by
  intro w e he hw
  constructor
  · rcases respond_store_cases w e with h | ⟨x, s', rfl, _, _⟩
    · show (respond w e).2.st = s0
      rw [h]; exact hw.1
    · exact he.elim
  · have hn : NotLock e := by
      cases e <;> first | trivial | exact he.elim
    show (respond w e).2.lk = l0
    rw [respond_lk_notLock w e hn]; exact hw.2

end HS
