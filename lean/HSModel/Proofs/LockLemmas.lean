/- invariants of the monitor model and their preservation (helper lemmas) -/
import HSModel.Locks
namespace HS

/-- no identifier is held twice: neither by two threads nor twice by one -/
def Mutex (s : Sys) : Prop :=
  (∀ i j l, l ∈ (s i).held → l ∈ (s j).held → i = j) ∧ (∀ i, (s i).held.Nodup)

/-- a thread at an acquire wants a lock of a class above everything it holds -/
def Ordered (s : Sys) : Prop :=
  ∀ i l, ((s i).st = .testing l ∨ (s i).st = .asleep l) → ∀ h ∈ (s i).held, h.cls.rank < l.cls.rank

/-- no lost wake-up: whoever sleeps on a class's condition has a reason to be
    woken — some identifier of that class is held (its release will notify), or
    some thread of that class is awake and about to test -/
def NoLost (s : Sys) : Prop :=
  ∀ j l', (s j).st = .asleep l' →
    (∃ i h, h ∈ (s i).held ∧ h.cls = l'.cls) ∨ (∃ i l'', (s i).st = .testing l'' ∧ l''.cls = l'.cls)

/-- a finished call holds nothing -/
def DoneEmpty (s : Sys) : Prop := ∀ i, (s i).st = .done → (s i).held = []

def LockInv (s : Sys) : Prop := Mutex s ∧ Ordered s ∧ NoLost s ∧ DoneEmpty s

/-- every transition of the monitor preserves the four invariants -/
theorem inv_step (s s' : Sys) (h : LockInv s) (st : Step s s') : LockInv s' := by
  unfold LockInv Mutex Ordered NoLost DoneEmpty at *
  obtain ⟨⟨m1, m2⟩, ho, hn, hd⟩ := h
  cases st with
  | request i l hr hord =>
    refine ⟨⟨?_, ?_⟩, ?_, ?_, ?_⟩
    · intro a b lk; simp only [upd]; grind
    · intro a; simp only [upd]; grind
    · intro a lk; simp only [upd]; grind
    · intro j l' hj
      simp only [upd] at hj ⊢
      have hji : j ≠ i := by intro e; subst e; simp at hj
      simp only [hji, if_false] at hj
      rcases hn j l' hj with ⟨a, h, hm, hc⟩ | ⟨a, l2, hs, hc⟩
      · left; refine ⟨a, h, ?_, hc⟩; by_cases e : a = i <;> simp [e] <;> grind
      · right; refine ⟨a, l2, ?_, hc⟩; by_cases e : a = i <;> simp [e] <;> grind
    · intro a; simp only [upd]; grind
  | sleep i l ht hheld =>
    refine ⟨⟨?_, ?_⟩, ?_, ?_, ?_⟩
    · intro a b lk; simp only [upd]; grind
    · intro a; simp only [upd]; grind
    · intro a lk; simp only [upd]; grind
    · intro j l' hj
      simp only [upd] at hj ⊢
      by_cases hji : j = i
      · subst hji
        simp at hj
        subst hj
        obtain ⟨a, ha⟩ := hheld
        left
        refine ⟨a, l, ?_, rfl⟩
        by_cases e : a = j <;> simp [e] <;> grind
      · simp only [hji, if_false] at hj
        rcases hn j l' hj with ⟨a, h, hm, hc⟩ | ⟨a, l2, hs, hc⟩
        · left; refine ⟨a, h, ?_, hc⟩; by_cases e : a = i <;> simp [e] <;> grind
        · by_cases e : a = i
          · -- the tester that went to sleep was the witness: then what it wanted is held
            subst e
            rw [ht] at hs; cases hs
            obtain ⟨b, hb⟩ := hheld
            left
            refine ⟨b, l, ?_, hc⟩
            by_cases e2 : b = a <;> simp [e2] <;> grind
          · right; exact ⟨a, l2, by simp [e]; exact hs, hc⟩
    · intro a; simp only [upd]; grind
  | take i l ht hfree =>
    have hfree' : ∀ a, l ∉ (s a).held := fun a hm => hfree ⟨a, hm⟩
    refine ⟨⟨?_, ?_⟩, ?_, ?_, ?_⟩
    · intro a b lk; simp only [upd]; grind
    · intro a; simp only [upd]
      by_cases e : a = i
      · subst e; simp only [if_true]
        rw [List.nodup_append]
        refine ⟨m2 a, by simp, ?_⟩
        intro x hx y hy
        simp at hy; subst hy
        intro e2; subst e2; exact hfree' a hx
      · simp [e]; exact m2 a
    · intro a lk; simp only [upd]; grind
    · intro j l' hj
      simp only [upd] at hj ⊢
      have hji : j ≠ i := by intro e; subst e; simp at hj
      simp only [hji, if_false] at hj
      rcases hn j l' hj with ⟨a, h, hm, hc⟩ | ⟨a, l2, hs, hc⟩
      · left; refine ⟨a, h, ?_, hc⟩; by_cases e : a = i <;> simp [e] <;> grind
      · by_cases e : a = i
        · subst e
          rw [ht] at hs; cases hs
          left; exact ⟨a, l, by simp, hc⟩
        · right; exact ⟨a, l2, by simp [e]; exact hs, hc⟩
    · intro a; simp only [upd]; grind
  | releaseNone i l hr hl hnone =>
    refine ⟨⟨?_, ?_⟩, ?_, ?_, ?_⟩
    · intro a b lk; simp only [upd]
      have := @List.mem_of_mem_erase _ _ lk l (s i).held
      grind
    · intro a; simp only [upd]
      by_cases e : a = i
      · subst e; simp only [if_true]; exact (m2 a).erase l
      · simp [e]; exact m2 a
    · intro a lk; simp only [upd]; grind
    · intro j l' hj
      simp only [upd] at hj ⊢
      have hji : j ≠ i := by intro e; subst e; simp [hr] at hj
      simp only [hji, if_false] at hj
      have hcls := hnone j l' hj
      rcases hn j l' hj with ⟨a, h, hm, hc⟩ | ⟨a, l2, hs, hc⟩
      · left
        refine ⟨a, h, ?_, hc⟩
        by_cases e : a = i
        · subst e; simp only [if_true]
          have : h ≠ l := by intro e2; subst e2; exact hcls hc.symm
          exact (List.mem_erase_of_ne this).mpr hm
        · simp [e]; exact hm
      · right; refine ⟨a, l2, ?_, hc⟩
        by_cases e : a = i
        · subst e; rw [hr] at hs; cases hs
        · simp [e]; exact hs
    · intro a; simp only [upd]
      by_cases e : a = i
      · subst e; simp [hr]
      · simp [e]; exact hd a
  | releaseWake i j l l' hr hl hu hc =>
    have hij : i ≠ j := by intro e; subst e; rw [hr] at hu; cases hu
    refine ⟨⟨?_, ?_⟩, ?_, ?_, ?_⟩
    · intro a b lk; simp only [upd]
      have := @List.mem_of_mem_erase _ _ lk l (s i).held
      grind
    · intro a; simp only [upd]
      by_cases e : a = j
      · subst e; simp; exact m2 a
      · by_cases e2 : a = i
        · subst e2; simp [e]; exact (m2 a).erase l
        · simp [e, e2]; exact m2 a
    · intro a lk; simp only [upd]
      by_cases e : a = j
      · subst e; simp
        intro h1
        cases h1
        exact ho a l' (Or.inr hu)
      · by_cases e2 : a = i
        · subst e2; simp [e, hr]
        · simp [e, e2]; exact ho a lk
    · intro k l2 hk
      simp only [upd] at hk ⊢
      have hkj : k ≠ j := by intro e; subst e; simp at hk
      have hki : k ≠ i := by intro e; subst e; simp [hkj, hr] at hk
      simp only [hkj, hki, if_false] at hk
      rcases hn k l2 hk with ⟨a, h, hm, hc2⟩ | ⟨a, l3, hs, hc2⟩
      · by_cases e : a = i ∧ h = l
        · obtain ⟨e1, e2⟩ := e; subst e1; subst e2
          right
          exact ⟨j, l', by simp, by rw [hc]; exact hc2⟩
        · left
          refine ⟨a, h, ?_, hc2⟩
          by_cases ej : a = j
          · subst ej; simp; exact hm
          · by_cases ei : a = i
            · subst ei; simp [ej]
              have : h ≠ l := by intro e2; exact e ⟨rfl, e2⟩
              exact (List.mem_erase_of_ne this).mpr hm
            · simp [ej, ei]; exact hm
      · right
        refine ⟨a, l3, ?_, hc2⟩
        by_cases ej : a = j
        · subst ej; rw [hu] at hs; cases hs
        · by_cases ei : a = i
          · subst ei; rw [hr] at hs; cases hs
          · simp [ej, ei]; exact hs
    · intro a; simp only [upd]
      by_cases e : a = j
      · subst e; simp
      · by_cases e2 : a = i
        · subst e2; simp [e, hr]
        · simp [e, e2]; exact hd a
  | finish i hr hh =>
    refine ⟨⟨?_, ?_⟩, ?_, ?_, ?_⟩
    · intro a b lk; simp only [upd]; grind
    · intro a; simp only [upd]; grind
    · intro a lk; simp only [upd]; grind
    · intro j l' hj
      simp only [upd] at hj ⊢
      have hji : j ≠ i := by intro e; subst e; simp at hj
      simp only [hji, if_false] at hj
      rcases hn j l' hj with ⟨a, h, hm, hc⟩ | ⟨a, l2, hs, hc⟩
      · left; refine ⟨a, h, ?_, hc⟩
        by_cases e : a = i
        · subst e; rw [hh] at hm; cases hm
        · simp [e]; exact hm
      · right; refine ⟨a, l2, ?_, hc⟩
        by_cases e : a = i
        · subst e; rw [hr] at hs; cases hs
        · simp [e]; exact hs
    · intro a; simp only [upd]; grind

/-- all threads running and holding nothing -/
def Sys.initial : Sys := fun _ => { held := [], st := .running }

theorem inv_initial : LockInv Sys.initial := by
  unfold LockInv Mutex Ordered NoLost DoneEmpty Sys.initial
  refine ⟨⟨?_, ?_⟩, ?_, ?_, ?_⟩ <;> simp

/-- reachability -/
inductive Reach : Sys → Sys → Prop
  | refl (s : Sys) : Reach s s
  | step (s t u : Sys) : Reach s t → Step t u → Reach s u

theorem inv_reach (s t : Sys) (h : LockInv s) (r : Reach s t) : LockInv t := by
  induction r with
  | refl => exact h
  | step t u _ st ih => exact inv_step t u ih st

/-- nobody can move: every thread is asleep or done -/
def Stuck (s : Sys) : Prop := ∀ i, ¬ (s i).enabled

theorem stuck_cases (s : Sys) (hs : Stuck s) (i : Nat) : (∃ l, (s i).st = .asleep l) ∨ (s i).st = .done := by
  have := hs i
  unfold Thread.enabled at this
  cases h : (s i).st with
  | running => exact absurd (Or.inl h) this
  | testing l => exact absurd (Or.inr ⟨l, h⟩) this
  | asleep l => exact Or.inl ⟨l, rfl⟩
  | done => exact Or.inr rfl

/-- in a stuck state, a sleeper's wait chain climbs to a strictly higher class -/
theorem climb (s : Sys) (h : LockInv s) (hs : Stuck s) (j : Nat) (l : Lock) (hj : (s j).st = .asleep l) :
    ∃ k l', (s k).st = .asleep l' ∧ l.cls.rank < l'.cls.rank := by
  obtain ⟨_, ho, hn, hd⟩ := h
  rcases hn j l hj with ⟨a, hl, hm, hc⟩ | ⟨a, l2, ht, _⟩
  · rcases stuck_cases s hs a with ⟨l', hl'⟩ | hdone
    · refine ⟨a, l', hl', ?_⟩
      have := ho a l' (Or.inr hl') hl hm
      rw [hc] at this; exact this
    · have := hd a hdone
      rw [this] at hm; cases hm
  · exfalso
    exact hs a (Or.inr ⟨l2, ht⟩)

theorem rank_le_three (c : LockClass) : c.rank ≤ 3 := by cases c <;> simp [LockClass.rank]

/-- there is no infinite climb: classes are finitely ranked -/
theorem no_sleeper_when_stuck (s : Sys) (h : LockInv s) (hs : Stuck s) :
    ∀ n j l, (s j).st = .asleep l → 3 - l.cls.rank ≤ n → False := by
  intro n
  induction n with
  | zero =>
    intro j l hj hn
    obtain ⟨k, l', _, hlt⟩ := climb s h hs j l hj
    have := rank_le_three l'.cls
    omega
  | succ n ih =>
    intro j l hj hn
    obtain ⟨k, l', hk, hlt⟩ := climb s h hs j l hj
    exact ih k l' hk (by have := rank_le_three l'.cls; omega)

end HS
