/-
  MetaDocs — what `delete_metadata` does to the documents (sequential run, no
  fault plan): delete-all empties the pid's directory, delete-one removes one
  document. Helper lemmas.
-/
import HSModel.Proofs.MetaRun
import HSModel.Proofs.Exact
import HSModel.Proofs.AbsLemmas
namespace HS

/-- documents-side frame of a run -/
structure DocsFrame (w w' : World) : Prop where
  tmp : w'.st.tmpMeta = w.st.tmpMeta
  dirs : w'.st.dirs = w.st.dirs

theorem DocsFrame.refl (w : World) : DocsFrame w w := ⟨rfl, rfl⟩
theorem DocsFrame.trans {a b c : World} (h1 : DocsFrame a b) (h2 : DocsFrame b c) : DocsFrame a c :=
  ⟨h2.tmp.trans h1.tmp, h2.dirs.trans h1.dirs⟩

/-- removing a list of document locations: exactly those keys go -/
theorem deleteMarked_docs (names : List (Str × Str)) (w : World) (hnf : w.fault = none) :
    ∃ w', (deleteMarked (names.map fun dn => Loc.mdoc dn.1 dn.2)).run w = (.ok (), w') ∧ SameRefs w w' ∧
      DocsFrame w w' ∧ ∀ k, w'.st.mdocs.get k = if k ∈ names then none else w.st.mdocs.get k := by
  induction names generalizing w with
  | nil => exact ⟨w, rfl, SameRefs.refl w, DocsFrame.refl w, by intro k; simp⟩
  | cons a r ih =>
    obtain ⟨d, n⟩ := a
    cases hc : w.st.mdocs.contains (d, n) with
    | true =>
      let w1 : World := { w with st := { w.st with mdocs := w.st.mdocs.del (d, n) },
                                 log := w.log ++ [Eff.remove (.mdoc d n)] }
      obtain ⟨w', hr, hs, hf, hm⟩ := ih w1 hnf
      refine ⟨w', ?_, SameRefs.trans (show SameRefs w w1 from ⟨rfl, rfl, rfl, rfl, rfl, rfl, rfl⟩) hs,
        DocsFrame.trans (show DocsFrame w w1 from ⟨rfl, rfl⟩) hf, ?_⟩
      · obtain ⟨st, lk, fault, log⟩ := w
        simp only [FMap.contains] at hnf hc
        subst hnf
        simp only [List.map_cons, deleteMarked]
        simp [runsimp, hc]
        exact hr
      · intro k
        rw [hm k]
        show (if k ∈ r then none else (w.st.mdocs.del (d, n)).get k) = _
        by_cases hk : k = (d, n)
        · subst hk; simp
        · have : (d, n) ≠ k := fun e => hk e.symm
          simp [hk, FMap.get_del_ne _ this]
    | false =>
      obtain ⟨w', hr, hs, hf, hm⟩ := ih w hnf
      refine ⟨w', ?_, hs, hf, ?_⟩
      · obtain ⟨st, lk, fault, log⟩ := w
        simp only [FMap.contains] at hnf hc
        subst hnf
        simp only [List.map_cons, deleteMarked]
        simp [runsimp, hc]
        exact hr
      · intro k
        rw [hm k]
        by_cases hk : k = (d, n)
        · subst hk
          have : w.st.mdocs.get (d, n) = none := by
            simp only [FMap.contains] at hc
            cases hx : w.st.mdocs.get (d, n) with
            | none => rfl
            | some v => rw [hx] at hc; cases hc
          simp [this]
        · simp [hk]

/-- the retire loop: plain names go, only markers of the names can appear -/
theorem retireDocs_docs (dir : Str) (names : List Str) (w : World) (hnf : w.fault = none)
    (hdoc : w.lk.doc = []) (hnd : names.Nodup)
    (hpres : ∀ n ∈ names, (w.st.mdocs.get (dir, n)).isSome = true) :
    ∃ w', (retireDocs dir names).run w = (.ok (names.map fun n => Loc.marker (.mdoc dir n)), w') ∧
      SameRefs w w' ∧ DocsFrame w w' ∧
      (∀ d m, Plain m → w'.st.mdocs.get (d, m) = if d = dir ∧ m ∈ names then none else w.st.mdocs.get (d, m)) ∧
      (∀ d m, ¬ Plain m → w'.st.mdocs.get (d, m) ≠ none →
        (d = dir ∧ ∃ n ∈ names, m = n ++ deleteSuffix) ∨ w.st.mdocs.get (d, m) ≠ none) := by
  induction names generalizing w with
  | nil => exact ⟨w, rfl, SameRefs.refl w, DocsFrame.refl w, by intro d m _; simp, by intro d m _ h; exact Or.inr h⟩
  | cons n r ih =>
    have hn := hpres n (by simp)
    obtain ⟨v, hv⟩ := Option.isSome_iff_exists.1 hn
    have hr := List.nodup_cons.1 hnd
    let w1 : World := { w with st := { w.st with mdocs := (w.st.mdocs.del (dir, n)).set (dir, n ++ deleteSuffix) v },
                               log := w.log ++ [Eff.retire (.mdoc dir n)] }
    have hp1 : ∀ m ∈ r, (w1.st.mdocs.get (dir, m)).isSome = true := by
      intro m hm
      have hne : n ≠ m := fun h => hr.1 (h ▸ hm)
      show (((w.st.mdocs.del (dir, n)).set (dir, n ++ deleteSuffix) v).get (dir, m)).isSome = true
      rw [FMap.get_set]
      split
      · rfl
      · rw [FMap.get_del_ne _ (by intro h; exact hne (by injection h))]
        exact hpres m (List.mem_cons_of_mem _ hm)
    obtain ⟨w', hrun, hs, hf, ha, hb⟩ := ih w1 hnf hdoc hr.2 hp1
    refine ⟨w', ?_, SameRefs.trans (show SameRefs w w1 from ⟨rfl, rfl, rfl, rfl, rfl, rfl, rfl⟩) hs,
      DocsFrame.trans (show DocsFrame w w1 from ⟨rfl, rfl⟩) hf, ?_, ?_⟩
    · obtain ⟨st, lk, fault, log⟩ := w
      simp only at hnf hdoc hv
      subst hnf
      obtain ⟨l1, l2, l3, l4⟩ := lk
      simp only at hdoc
      subst hdoc
      simp only [retireDocs, withDocLock]
      simp [runsimp, hv]
      simp only [w1] at hrun
      rw [Prog.run_bind_pe, hrun]
      rfl
    · intro d m hpm
      rw [ha d m hpm]
      show (if d = dir ∧ m ∈ r then none else ((w.st.mdocs.del (dir, n)).set (dir, n ++ deleteSuffix) v).get (d, m)) = _
      have hmk : (dir, n ++ deleteSuffix) ≠ (d, m) := by
        intro e; injection e with _ e2; exact not_plain_marker n (e2 ▸ hpm)
      rw [FMap.get_set_ne _ _ hmk, FMap.get_del]
      by_cases h1 : d = dir ∧ m ∈ r
      · simp [h1]
      · by_cases h2 : (dir, n) = (d, m)
        · injection h2 with e1 e2; subst e1; subst e2; simp
        · have : ¬ (d = dir ∧ m = n) := fun ⟨a, b⟩ => h2 (by rw [a, b])
          simp only [h1, if_false, h2, List.mem_cons]
          by_cases h3 : d = dir
          · subst h3
            have hmn : m ≠ n := fun e => this ⟨rfl, e⟩
            have hmr : m ∉ r := fun e => h1 ⟨rfl, e⟩
            simp [hmn, hmr]
          · simp [h3]
    · intro d m hpm hne
      rcases hb d m hpm hne with ⟨hd, n', hn', hm'⟩ | h
      · exact Or.inl ⟨hd, n', List.mem_cons_of_mem _ hn', hm'⟩
      · have h' : ((w.st.mdocs.del (dir, n)).set (dir, n ++ deleteSuffix) v).get (d, m) ≠ none := h
        rw [FMap.get_set] at h'
        split at h'
        · rename_i e
          injection e with e1 e2
          exact Or.inl ⟨e1.symm, n, by simp, e2.symm⟩
        · rw [FMap.get_del] at h'
          split at h'
          · exact absurd rfl h'
          · exact Or.inr h'


theorem mem_listDocs (s : Store) (dir n : Str) (h : (s.mdocs.get (dir, n)).isSome = true) : n ∈ s.listDocs dir := by
  unfold Store.listDocs
  rw [mem_sortStrs, List.mem_eraseDups]
  obtain ⟨v, hv⟩ := Option.isSome_iff_exists.1 h
  have := FMap.mem_of_get hv
  exact List.mem_map.2 ⟨((dir, n), v), List.mem_filter.2 ⟨this, by simp⟩, rfl⟩

/-- documents are well named: every present document name is plain, and its directory exists -/
def DocsPlain (s : Store) : Prop :=
  ∀ d n t, s.mdocs.get (d, n) = some t → Plain n ∧ (Area.mdata, d) ∈ s.dirs

/-- `delete_metadata(pid)` (all formats): the pid's directory is emptied, nothing else changes -/
theorem dmc_all (o : Oracle) (p : Str) (w : World) (hnf : w.fault = none) (hdoc : w.lk.doc = [])
    (hpl : DocsPlain w.st) :
    DocsFrame w (dmcWorld o p none w) ∧
    ∀ d m, (dmcWorld o p none w).st.mdocs.get (d, m) = if d = o.hId p then none else w.st.mdocs.get (d, m) := by
  by_cases hd : (Area.mdata, o.hId p) ∈ w.st.dirs
  · obtain ⟨hnd, hpres⟩ := listDocs_spec w.st (o.hId p)
    obtain ⟨w1, h1, s1, f1, a1, b1⟩ := retireDocs_docs (o.hId p) (w.st.listDocs (o.hId p)) w hnf hdoc hnd hpres
    obtain ⟨w2, h2, s2, f2, m2⟩ := deleteMarked_docs ((w.st.listDocs (o.hId p)).map fun n => (o.hId p, n ++ deleteSuffix))
      w1 (s1.nf.trans hnf)
    have hw : dmcWorld o p none w = w2 := by
      unfold dmcWorld
      obtain ⟨st, lk, fault, log⟩ := w
      simp only at hnf hd
      subst hnf
      simp only [deleteMetadataCore]
      simp [runsimp, hd]
      rw [Prog.run_bind_pe, h1]
      simp only [List.map_map] at h2
      show (Prog.run (deleteMarked _) w1).2 = w2
      have h2' : Prog.run (deleteMarked (List.map (fun n => (Loc.mdoc (o.hId p) n).marker) (Store.listDocs st (o.hId p)))) w1
          = (Except.ok (), w2) := h2
      rw [h2']
    rw [hw]
    refine ⟨f1.trans f2, ?_⟩
    intro d m
    rw [m2]
    by_cases hmark : (d, m) ∈ (w.st.listDocs (o.hId p)).map fun n => (o.hId p, n ++ deleteSuffix)
    · simp only [hmark, if_true]
      obtain ⟨n, hn, he⟩ := List.mem_map.1 hmark
      injection he with e1 e2
      subst e1
      simp
    · simp only [hmark, if_false]
      by_cases hpm : Plain m
      · rw [a1 d m hpm]
        by_cases hdd : d = o.hId p
        · subst hdd
          simp only [true_and, if_true]
          split
          · rfl
          · rename_i hnot
            cases hx : w.st.mdocs.get (o.hId p, m) with
            | none => rfl
            | some v => exact absurd (mem_listDocs w.st _ m (by rw [hx]; rfl)) hnot
        · simp [hdd]
      · have hnone : w.st.mdocs.get (d, m) = none := by
          cases hx : w.st.mdocs.get (d, m) with
          | none => rfl
          | some v => exact absurd (hpl d m v hx).1 hpm
        cases hx : w1.st.mdocs.get (d, m) with
        | none => rw [hnone]; split <;> rfl
        | some v =>
          rcases b1 d m hpm (by rw [hx]; simp) with ⟨hd', n, hn, hm'⟩ | h
          · exact absurd (List.mem_map.2 ⟨n, hn, by rw [hd', hm']⟩) hmark
          · exact absurd hnone h
  · have hw : dmcWorld o p none w = w := by
      unfold dmcWorld
      obtain ⟨st, lk, fault, log⟩ := w
      simp only at hnf hd
      subst hnf
      simp only [deleteMetadataCore]
      simp [runsimp, hd]
    rw [hw]
    refine ⟨DocsFrame.refl w, ?_⟩
    intro d m
    split
    · rename_i e
      subst e
      cases hx : w.st.mdocs.get (o.hId p, m) with
      | none => rfl
      | some v => exact absurd (hpl _ m v hx).2 hd
    · rfl

/-- `delete_metadata(pid, format)`: that one document goes -/
theorem dmc_one (o : Oracle) (p f : Str) (w : World) (hnf : w.fault = none) (hdoc : w.lk.doc = []) :
    DocsFrame w (dmcWorld o p (some f) w) ∧
    ∀ k, (dmcWorld o p (some f) w).st.mdocs.get k =
      if k = (o.hId p, o.hId (p ++ f)) then none else w.st.mdocs.get k := by
  obtain ⟨st, lk, fault, log⟩ := w
  obtain ⟨l1, l2, l3, l4⟩ := lk
  simp only at hnf hdoc
  subst hnf; subst hdoc
  unfold dmcWorld
  simp only [deleteMetadataCore, withDocLock]
  cases hc : (st.mdocs.get (o.hId p, o.hId (p ++ f))).isSome with
  | true =>
    simp [runsimp, hc]
    refine ⟨⟨rfl, rfl⟩, ?_⟩
    intro a b
    rw [FMap.get_del]
    by_cases e : (o.hId p, o.hId (p ++ f)) = (a, b)
    · injection e with e1 e2; subst e1; subst e2; simp
    · have : ¬ (a = o.hId p ∧ b = o.hId (p ++ f)) := fun ⟨x, y⟩ => e (by rw [x, y])
      simp [e, this]
  | false =>
    simp [runsimp, hc]
    refine ⟨⟨rfl, rfl⟩, ?_⟩
    cases hx : st.mdocs.get (o.hId p, o.hId (p ++ f)) with
    | none => rfl
    | some v => rw [hx] at hc; cases hc


/-- `DocsPlain` on the two fields it reads (the form `simp` can discharge after projecting a record) -/
def DocsPlainM (m : FMap (Str × Str) Tok) (dirs : List (Area × Str)) : Prop :=
  ∀ d n t, m.get (d, n) = some t → Plain n ∧ (Area.mdata, d) ∈ dirs

theorem dmc_all_get (o : Oracle) (p : Str) (w : World) (hnf : w.fault = none) (hdoc : w.lk.doc = [])
    (hpl : DocsPlainM w.st.mdocs w.st.dirs) (d m : Str) :
    (dmcWorld o p none w).st.mdocs.get (d, m) = if d = o.hId p then none else w.st.mdocs.get (d, m) :=
  (dmc_all o p w hnf hdoc hpl).2 d m

theorem dmc_all_dirs (o : Oracle) (p : Str) (w : World) (hnf : w.fault = none) (hdoc : w.lk.doc = [])
    (hpl : DocsPlainM w.st.mdocs w.st.dirs) : (dmcWorld o p none w).st.dirs = w.st.dirs :=
  (dmc_all o p w hnf hdoc hpl).1.dirs

theorem dmc_all_tmp (o : Oracle) (p : Str) (w : World) (hnf : w.fault = none) (hdoc : w.lk.doc = [])
    (hpl : DocsPlainM w.st.mdocs w.st.dirs) : (dmcWorld o p none w).st.tmpMeta = w.st.tmpMeta :=
  (dmc_all o p w hnf hdoc hpl).1.tmp

end HS
