/-
  MetaOnly — metadata calls and readers issue document primitives only. Helper lemmas for C04.
-/
import HSModel.Proofs.TrailStore
import HSModel.Proofs.Inert
import HSModel.Proofs.ConcInv
namespace HS
variable (cfg : Config) (o : Oracle)

/-- the calls that work on metadata documents or only read -/
def MetaOrRead : Call → Prop
  | .storeMetadata .. => True
  | .deleteMetadata .. => True
  | .retrieveObject _ => True
  | .retrieveMetadata .. => True
  | .getHexDigest .. => True
  | _ => False

theorem docsOnly_of_inert (e : Ev) (h : Inert e) : DocsOnly e := by
  cases e <;> first | trivial | exact h.elim

theorem metaOrRead_docsOnly (c : Call) (h : MetaOrRead c) : (c.prog cfg o).AllEv DocsOnly := by
  cases c with
  | storeMetadata p d f => exact storeMetadata_docsOnly cfg o p d f
  | deleteMetadata p f => exact deleteMetadata_docsOnly cfg o p f
  | retrieveObject p => exact Prog.allEv_mono _ docsOnly_of_inert (retrieveObject_inert cfg o p)
  | retrieveMetadata p f => exact Prog.allEv_mono _ docsOnly_of_inert (retrieveMetadata_inert cfg o p f)
  | getHexDigest p a => exact Prog.allEv_mono _ docsOnly_of_inert (getHexDigest_inert cfg o p a)
  | _ => exact h.elim

end HS
