/-
  MetaRun — what `delete_metadata` does when run sequentially in a world with
  no fault plan and a free document list: it returns normally, touches only
  metadata documents, and leaves the lock lists as they were. Helper lemmas.
-/
import HSModel.Proofs.Closed
namespace HS

/-- the parts of a world `delete_metadata` must not touch -/
structure SameRefs (w w' : World) : Prop where
  pid : w'.st.pidRefs = w.st.pidRefs
  cid : w'.st.cidRefs = w.st.cidRefs
  obj : w'.st.objs = w.st.objs
  tr  : w'.st.tmpRefs = w.st.tmpRefs
  to  : w'.st.tmpObj = w.st.tmpObj
  lk  : w'.lk = w.lk
  nf  : w'.fault = w.fault

theorem SameRefs.refl (w : World) : SameRefs w w := ⟨rfl, rfl, rfl, rfl, rfl, rfl, rfl⟩

theorem SameRefs.trans {a b c : World} (h1 : SameRefs a b) (h2 : SameRefs b c) : SameRefs a c :=
  ⟨h2.pid.trans h1.pid, h2.cid.trans h1.cid, h2.obj.trans h1.obj, h2.tr.trans h1.tr, h2.to.trans h1.to,
   h2.lk.trans h1.lk, h2.nf.trans h1.nf⟩

/-- removing metadata markers: never fails (errors are swallowed), touches only documents -/
theorem deleteMarked_mdocs (names : List (Str × Str)) (w : World) (hnf : w.fault = none) :
    ∃ w', (deleteMarked (names.map fun dn => Loc.mdoc dn.1 dn.2)).run w = (.ok (), w') ∧ SameRefs w w' := by
  induction names generalizing w with
  | nil => exact ⟨w, rfl, SameRefs.refl w⟩
  | cons a r ih =>
    obtain ⟨d, n⟩ := a
    cases hc : w.st.mdocs.contains (d, n) with
    | true =>
      let w1 : World := { w with st := { w.st with mdocs := w.st.mdocs.del (d, n) },
                                 log := w.log ++ [Eff.remove (.mdoc d n)] }
      obtain ⟨w', hr, hs⟩ := ih w1 hnf
      refine ⟨w', ?_, SameRefs.trans (show SameRefs w w1 from ⟨rfl, rfl, rfl, rfl, rfl, rfl, rfl⟩) hs⟩
      obtain ⟨st, lk, fault, log⟩ := w
      simp only [FMap.contains] at hnf hc
      subst hnf
      simp only [List.map_cons, deleteMarked]
      simp [runsimp, hc]
      exact hr
    | false =>
      obtain ⟨w', hr, hs⟩ := ih w hnf
      refine ⟨w', ?_, hs⟩
      obtain ⟨st, lk, fault, log⟩ := w
      simp only [FMap.contains] at hnf hc
      subst hnf
      simp only [List.map_cons, deleteMarked]
      simp [runsimp, hc]
      exact hr


theorem Prog.run_bind {α β : Type} (m : Prog α) (f : α → Prog β) (w : World) :
    (Prog.bind m f).run w = (f (m.run w).1).run (m.run w).2 := by
  induction m generalizing w with
  | ret a => rfl
  | op e k ih => simp only [Prog.bind, Prog.run]; exact ih _ _

theorem Prog.run_bind_pe {α β : Type} (m : PE α) (f : Except Exc α → Prog β) (w : World) :
    (Prog.bind m f).run w = (f (Prog.run m w).1).run (Prog.run m w).2 := Prog.run_bind m f w

theorem nodup_eraseDups_aux {α : Type} [BEq α] [LawfulBEq α] :
    ∀ (n : Nat) (l : List α), l.length ≤ n → l.eraseDups.Nodup
  | _, [], _ => by simp
  | 0, _ :: _, h => by simp at h
  | n + 1, a :: as, h => by
    rw [List.eraseDups_cons]
    refine List.nodup_cons.2 ⟨?_, nodup_eraseDups_aux n _ ?_⟩
    · intro hm
      rw [List.mem_eraseDups] at hm
      simp at hm
    · have := List.length_filter_le (fun b => !b == a) as
      simp at h
      omega

theorem FMap.getL_isSome_of_mem {K V : Type} [DecidableEq K] {l : List (K × V)} {k : K} {v : V}
    (h : (k, v) ∈ l) : (FMap.getL l k).isSome = true := by
  induction l with
  | nil => cases h
  | cons a r ih =>
    obtain ⟨k', v'⟩ := a
    by_cases hk : k' = k
    · simp [FMap.getL, hk]
    · have : (k, v) ∈ r := by
        rcases List.mem_cons.1 h with h | h
        · exact absurd (congrArg Prod.fst h).symm hk
        · exact h
      simp [FMap.getL, hk, ih this]

theorem mem_insertStr (x y : Str) (l : List Str) : y ∈ insertStr x l ↔ y = x ∨ y ∈ l := by
  induction l with
  | nil => simp [insertStr]
  | cons a r ih =>
    unfold insertStr
    split
    · simp
    · simp [ih]; constructor <;> (intro h; rcases h with h | h | h <;> simp [h])

theorem mem_sortStrs (y : Str) (l : List Str) : y ∈ sortStrs l ↔ y ∈ l := by
  induction l with
  | nil => simp [sortStrs]
  | cons a r ih =>
    have : sortStrs (a :: r) = insertStr a (sortStrs r) := rfl
    rw [this, mem_insertStr, ih]; simp

theorem nodup_insertStr (x : Str) (l : List Str) (hx : x ∉ l) (hl : l.Nodup) : (insertStr x l).Nodup := by
  induction l with
  | nil => simp [insertStr]
  | cons a r ih =>
    unfold insertStr
    have hr := (List.nodup_cons.1 hl)
    split
    · exact List.nodup_cons.2 ⟨hx, hl⟩
    · refine List.nodup_cons.2 ⟨?_, ih (fun h => hx (List.mem_cons_of_mem _ h)) hr.2⟩
      intro h
      rcases (mem_insertStr x a r).1 h with h | h
      · exact hx (by simp [h])
      · exact hr.1 h

theorem nodup_sortStrs (l : List Str) (hl : l.Nodup) : (sortStrs l).Nodup := by
  induction l with
  | nil => simp [sortStrs]
  | cons a r ih =>
    have : sortStrs (a :: r) = insertStr a (sortStrs r) := rfl
    rw [this]
    have hr := List.nodup_cons.1 hl
    exact nodup_insertStr a _ (fun h => hr.1 ((mem_sortStrs a r).1 h)) (ih hr.2)

/-- every name the directory listing returns is a present document; no name twice -/
theorem listDocs_spec (s : Store) (dir : Str) :
    (s.listDocs dir).Nodup ∧ ∀ n ∈ s.listDocs dir, (s.mdocs.get (dir, n)).isSome = true := by
  unfold Store.listDocs
  constructor
  · exact nodup_sortStrs _ (nodup_eraseDups_aux _ _ (Nat.le_refl _))
  · intro n hn
    rw [mem_sortStrs, List.mem_eraseDups] at hn
    obtain ⟨e, he, hen⟩ := List.mem_map.1 hn
    obtain ⟨hmem, hd⟩ := List.mem_filter.1 he
    obtain ⟨⟨d, n'⟩, v⟩ := e
    simp at hd hen
    subst hd; subst hen
    exact FMap.getL_isSome_of_mem hmem

/-- the retire loop of delete-all: every listed name is still there when its
    turn comes, every per-document lock is free, so nothing fails -/
theorem retireDocs_run (dir : Str) (names : List Str) (w : World) (hnf : w.fault = none)
    (hdoc : w.lk.doc = []) (hnd : names.Nodup)
    (hpres : ∀ n ∈ names, (w.st.mdocs.get (dir, n)).isSome = true) :
    ∃ w', (retireDocs dir names).run w = (.ok (names.map fun n => Loc.marker (.mdoc dir n)), w') ∧
      SameRefs w w' := by
  induction names generalizing w with
  | nil => exact ⟨w, rfl, SameRefs.refl w⟩
  | cons n r ih =>
    have hn := hpres n (by simp)
    obtain ⟨v, hv⟩ := Option.isSome_iff_exists.1 hn
    have hr := List.nodup_cons.1 hnd
    let w1 : World := { w with st := { w.st with mdocs := (w.st.mdocs.del (dir, n)).set (dir, n ++ deleteSuffix) v },
                               log := w.log ++ [Eff.retire (.mdoc dir n)] }
    have hp1 : ∀ m ∈ r, (w1.st.mdocs.get (dir, m)).isSome = true := by
      intro m hm
      have hne : n ≠ m := fun h => hr.1 (h ▸ hm)
      show (((w.st.mdocs.del (dir, n)).set (dir, n ++ deleteSuffix) v).get (dir, m)).isSome = true
      rw [FMap.get_set]
      split
      · rfl
      · rw [FMap.get_del_ne _ (by intro h; exact hne (by injection h))]
        exact hpres m (List.mem_cons_of_mem _ hm)
    obtain ⟨w', hrun, hs⟩ := ih w1 hnf hdoc hr.2 hp1
    refine ⟨w', ?_, SameRefs.trans (show SameRefs w w1 from ⟨rfl, rfl, rfl, rfl, rfl, rfl, rfl⟩) hs⟩
    obtain ⟨st, lk, fault, log⟩ := w
    simp only at hnf hdoc hv
    subst hnf
    obtain ⟨l1, l2, l3, l4⟩ := lk
    simp only at hdoc
    subst hdoc
    simp only [retireDocs, withDocLock]
    simp [runsimp, hv]
    simp only [w1] at hrun
    rw [Prog.run_bind_pe, hrun]
    rfl


/-- `delete_metadata` run sequentially, no fault plan, document list free:
    returns normally and touches nothing but documents -/
theorem deleteMetadataCore_run (o : Oracle) (p : Str) (fmt : Option Str) (w : World)
    (hnf : w.fault = none) (hdoc : w.lk.doc = []) :
    ∃ w', (deleteMetadataCore o p fmt).run w = (.ok (), w') ∧ SameRefs w w' := by
  cases fmt with
  | none =>
    by_cases hd : (Area.mdata, o.hId p) ∈ w.st.dirs
    · obtain ⟨hnd, hpres⟩ := listDocs_spec w.st (o.hId p)
      obtain ⟨w1, h1, s1⟩ := retireDocs_run (o.hId p) (w.st.listDocs (o.hId p)) w hnf hdoc hnd hpres
      obtain ⟨w2, h2, s2⟩ := deleteMarked_mdocs ((w.st.listDocs (o.hId p)).map fun n => (o.hId p, n ++ deleteSuffix))
        w1 (s1.nf.trans hnf)
      refine ⟨w2, ?_, s1.trans s2⟩
      obtain ⟨st, lk, fault, log⟩ := w
      simp only at hnf hd
      subst hnf
      simp only [deleteMetadataCore]
      simp [runsimp, hd]
      rw [Prog.run_bind_pe, h1]
      simp only [List.map_map] at h2
      exact h2
    · refine ⟨w, ?_, SameRefs.refl w⟩
      obtain ⟨st, lk, fault, log⟩ := w
      simp only at hnf hd
      subst hnf
      simp only [deleteMetadataCore]
      simp [runsimp, hd]
  | some f =>
    obtain ⟨st, lk, fault, log⟩ := w
    obtain ⟨l1, l2, l3, l4⟩ := lk
    simp only at hnf hdoc
    subst hnf; subst hdoc
    simp only [deleteMetadataCore, withDocLock]
    cases hc : (st.mdocs.get (o.hId p, o.hId (p ++ f))).isSome with
    | true =>
      refine ⟨{ st := { st with mdocs := st.mdocs.del (o.hId p, o.hId (p ++ f)) },
                lk := { objPid := l1, refPid := l2, cid := l3 },
                log := log ++ [Eff.remove (.mdoc (o.hId p) (o.hId (p ++ f)))] }, ?_, ?_⟩
      · simp [runsimp, hc]
      · exact ⟨rfl, rfl, rfl, rfl, rfl, rfl, rfl⟩
    | false =>
      refine ⟨{ st := st, lk := { objPid := l1, refPid := l2, cid := l3 }, log := log }, ?_, ?_⟩
      · simp [runsimp, hc]
      · exact ⟨rfl, rfl, rfl, rfl, rfl, rfl, rfl⟩


/-- the world `delete_metadata` leaves -/
def dmcWorld (o : Oracle) (p : Str) (fmt : Option Str) (w : World) : World :=
  ((deleteMetadataCore o p fmt).run w).2

theorem dmc_run_eq (o : Oracle) (p : Str) (fmt : Option Str) (w : World)
    (hnf : w.fault = none) (hdoc : w.lk.doc = []) :
    Prog.run (deleteMetadataCore o p fmt) w = (.ok (), dmcWorld o p fmt w) := by
  obtain ⟨w', h, _⟩ := deleteMetadataCore_run o p fmt w hnf hdoc
  unfold dmcWorld
  rw [h]

theorem dmc_same (o : Oracle) (p : Str) (fmt : Option Str) (w : World)
    (hnf : w.fault = none) (hdoc : w.lk.doc = []) : SameRefs w (dmcWorld o p fmt w) := by
  obtain ⟨w', h, hs⟩ := deleteMetadataCore_run o p fmt w hnf hdoc
  unfold dmcWorld
  rw [h]; exact hs

theorem dmc_lk (o : Oracle) (p : Str) (fmt : Option Str) (w : World)
    (hnf : w.fault = none) (hdoc : w.lk.doc = []) : (dmcWorld o p fmt w).lk = w.lk :=
  (dmc_same o p fmt w hnf hdoc).lk

theorem dmc_fault (o : Oracle) (p : Str) (fmt : Option Str) (w : World)
    (hnf : w.fault = none) (hdoc : w.lk.doc = []) : (dmcWorld o p fmt w).fault = none :=
  (dmc_same o p fmt w hnf hdoc).nf.trans hnf


theorem dmc_pid (o : Oracle) (p : Str) (fmt : Option Str) (w : World)
    (hnf : w.fault = none) (hdoc : w.lk.doc = []) : (dmcWorld o p fmt w).st.pidRefs = w.st.pidRefs :=
  (dmc_same o p fmt w hnf hdoc).pid
theorem dmc_cid (o : Oracle) (p : Str) (fmt : Option Str) (w : World)
    (hnf : w.fault = none) (hdoc : w.lk.doc = []) : (dmcWorld o p fmt w).st.cidRefs = w.st.cidRefs :=
  (dmc_same o p fmt w hnf hdoc).cid
theorem dmc_obj (o : Oracle) (p : Str) (fmt : Option Str) (w : World)
    (hnf : w.fault = none) (hdoc : w.lk.doc = []) : (dmcWorld o p fmt w).st.objs = w.st.objs :=
  (dmc_same o p fmt w hnf hdoc).obj
theorem dmc_tr (o : Oracle) (p : Str) (fmt : Option Str) (w : World)
    (hnf : w.fault = none) (hdoc : w.lk.doc = []) : (dmcWorld o p fmt w).st.tmpRefs = w.st.tmpRefs :=
  (dmc_same o p fmt w hnf hdoc).tr
theorem dmc_to (o : Oracle) (p : Str) (fmt : Option Str) (w : World)
    (hnf : w.fault = none) (hdoc : w.lk.doc = []) : (dmcWorld o p fmt w).st.tmpObj = w.st.tmpObj :=
  (dmc_same o p fmt w hnf hdoc).to

end HS
