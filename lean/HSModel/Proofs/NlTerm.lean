/-
  NlTerm — reference-list texts that are empty or end with a newline (every text
  the code ever leaves in a cid reference file, also half-way through a rewrite):
  appending `pid\n` to such a text makes the pid readable as a line.
-/
import HSModel.Proofs.TextLemmas
namespace HS

def NlTerm (t : Str) : Prop := t = [] ∨ t.getLast? = some '\n'

theorem nlTerm_nil : NlTerm [] := Or.inl rfl

theorem nlTerm_append_line (t p : Str) : NlTerm (t ++ (p ++ ['\n'])) := by
  right; simp [List.getLast?_append]

theorem nlTerm_flatten (L : List Str) (h : ∀ l ∈ L, l.getLast? = some '\n') : NlTerm L.flatten := by
  induction L with
  | nil => exact Or.inl rfl
  | cons l r ih =>
    have hl := h l (List.mem_cons_self ..)
    rcases ih (fun x hx => h x (List.mem_cons_of_mem _ hx)) with h0 | h0
    · right; simp [List.flatten_cons, h0, hl]
    · right
      simp only [List.flatten_cons, List.getLast?_append, h0]
      simp

theorem nlTerm_render (ls : List Str) : NlTerm (renderLines ls) := by
  apply nlTerm_flatten
  intro l hl
  obtain ⟨x, _, rfl⟩ := List.mem_map.1 hl
  simp [List.getLast?_append]

theorem linesKeep_eq_nil (t : Str) : linesKeep t = [] ↔ t = [] := by
  cases t with
  | nil => simp [linesKeep]
  | cons c r =>
    simp only [linesKeep]
    split
    · simp
    · split <;> simp

/-- every line read from a newline-terminated text carries its newline -/
theorem lines_nl (t : Str) (h : NlTerm t) : ∀ l ∈ linesKeep t, l.getLast? = some '\n' := by
  induction t with
  | nil => intro l hl; simp [linesKeep] at hl
  | cons c r ih =>
    have hr : r ≠ [] → NlTerm r := by
      intro hne
      rcases h with h | h
      · cases h
      · right
        rw [List.getLast?_cons_of_ne_nil hne] at h
        exact h
    intro l hl
    simp only [linesKeep] at hl
    by_cases hc : c = '\n'
    · simp only [hc, if_true, List.mem_cons] at hl
      rcases hl with rfl | hl
      · rfl
      · by_cases hne : r = []
        · subst hne; simp [linesKeep] at hl
        · exact ih (hr hne) l hl
    · simp only [hc, if_false] at hl
      cases hk : linesKeep r with
      | nil =>
        have : r = [] := (linesKeep_eq_nil r).1 hk
        subst this
        rcases h with h | h
        · cases h
        · simp at h; exact absurd h hc
      | cons l0 ls0 =>
        rw [hk] at hl
        have hne : r ≠ [] := by intro e; subst e; simp [linesKeep] at hk
        have hall := ih (hr hne)
        rw [hk] at hall
        simp only [List.mem_cons] at hl
        rcases hl with rfl | hl
        · have h0 := hall l0 (List.mem_cons_self ..)
          cases l0 with
          | nil => simp at h0
          | cons a b => rw [List.getLast?_cons_cons]; exact h0
        · exact hall l (List.mem_cons_of_mem _ hl)

theorem nlTerm_removeLines (p t : Str) (h : NlTerm t) : NlTerm (removeLines p t) := by
  unfold removeLines
  apply nlTerm_flatten
  intro l hl
  exact lines_nl t h l (List.mem_filter.1 hl).1

theorem nlTerm_overwrite (new old : Str) (h1 : NlTerm new) (h2 : NlTerm old) : NlTerm (overwritePrefix new old) := by
  unfold overwritePrefix
  by_cases hd : old.drop new.length = []
  · rw [hd, List.append_nil]; exact h1
  · right
    rcases h2 with h2 | h2
    · subst h2; simp at hd
    · have : ¬ old.length ≤ new.length := by
        intro hle; exact hd (List.drop_eq_nil_of_le hle)
      rw [List.getLast?_append, List.getLast?_drop]
      simp [this, h2]

end HS

namespace HS

theorem nlTerm_tail {c : Char} {r : Str} (h : NlTerm (c :: r)) (hne : r ≠ []) : NlTerm r := by
  rcases h with h | h
  · cases h
  · right; rw [List.getLast?_cons_of_ne_nil hne] at h; exact h

/-- appending `p\n` to a newline-terminated text adds exactly one line -/
theorem linesKeep_append_line (t p : Str) (h : NlTerm t) (hp : ∀ c ∈ p, c ≠ '\n') :
    linesKeep (t ++ (p ++ ['\n'])) = linesKeep t ++ [p ++ ['\n']] := by
  induction t with
  | nil =>
    have := linesKeep_cons_line p [] hp
    simpa [linesKeep] using this
  | cons c r ih =>
    by_cases hr : r = []
    · subst hr
      rcases h with h | h
      · cases h
      · simp at h
        subst h
        have := linesKeep_cons_line p [] hp
        simp only [List.cons_append, List.nil_append, linesKeep, if_true]
        simpa [linesKeep] using this
    · have ih' := ih (nlTerm_tail h hr)
      by_cases hc : c = '\n'
      · simp only [List.cons_append, linesKeep, hc, if_true, ih', List.cons_append]
      · simp only [List.cons_append, linesKeep, hc, if_false, ih']
        cases hk : linesKeep r with
        | nil => exact absurd ((linesKeep_eq_nil r).1 hk) hr
        | cons l ls => simp

/-- after the append, the pid is read back as a line of the list -/
theorem inRefs_append_line (t p : Str) (h : NlTerm t) (hp : hasSpace p = false) :
    inRefs p (t ++ (p ++ ['\n'])) = true := by
  unfold inRefs pyLines
  rw [linesKeep_append_line t p h (no_newline_of_nospace p hp), List.map_append]
  simp [strip_line p hp]

end HS
