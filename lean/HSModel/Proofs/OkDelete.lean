/-
  OkDelete — if `delete_object` returns normally, under ANY fault plan and from
  ANY state, the pid has no pid reference any more. Helper lemmas.
-/
import HSModel.Proofs.OkStore
import HSModel.Proofs.TrailDelete
import HSModel.Proofs.FaultMeta
namespace HS
variable (cfg : Config) (o : Oracle)

/-- primitives that cannot create the pid reference `k` -/
def KeepsGone (k : Str) : Ev → Prop
  | .eff (.publishPidRef k' _) => k' ≠ k
  | .eff (.retire (.pidRef k')) => k' ++ deleteSuffix ≠ k
  | _ => True

theorem gone_preserved (k : Str) : Prog.Preserved (KeepsGone k) (fun w => w.st.pidRefs.get k = none) := by
  apply preserved_of_store (J := fun s => s.pidRefs.get k = none)
  intro s x s' hx ha h
  cases x with
  | mkdirs a k' => simp [Store.apply] at ha; subst ha; exact h
  | mkTmp a => simp [Store.apply] at ha; subst ha; cases a <;> exact h
  | removeTmp a =>
    simp only [Store.apply] at ha
    split at ha
    · cases ha
    · injection ha with ha; subst ha; cases a <;> exact h
  | publishObj c t =>
    simp only [Store.apply] at ha
    split at ha
    · cases ha
    · injection ha with ha; subst ha; exact h
  | publishDoc d n t =>
    simp only [Store.apply] at ha
    split at ha
    · cases ha
    · injection ha with ha; subst ha; exact h
  | publishPidRef k' v =>
    simp only [Store.apply] at ha
    split at ha
    · cases ha
    · injection ha with ha; subst ha
      show (s.pidRefs.set k' v).get k = none
      rw [FMap.get_set_ne _ _ hx]; exact h
  | publishCidRef c v =>
    simp only [Store.apply] at ha
    split at ha
    · cases ha
    · injection ha with ha; subst ha; exact h
  | retire l =>
    cases l with
    | pidRef k' =>
      simp [Store.apply, Store.retire] at ha
      obtain ⟨v, _, ha⟩ := ha
      subst ha
      show ((s.pidRefs.del k').set (k' ++ deleteSuffix) v).get k = none
      rw [FMap.get_set_ne _ _ hx, FMap.get_del]
      split
      · rfl
      · exact h
    | cidRef c => simp [Store.apply, Store.retire] at ha; obtain ⟨v, _, ha⟩ := ha; subst ha; exact h
    | obj c => simp [Store.apply, Store.retire] at ha; obtain ⟨v, _, ha⟩ := ha; subst ha; exact h
    | mdoc d n => simp [Store.apply, Store.retire] at ha; obtain ⟨v, _, ha⟩ := ha; subst ha; exact h
  | remove l =>
    cases l with
    | pidRef k' =>
      simp [Store.apply, Store.remove] at ha
      obtain ⟨_, ha⟩ := ha
      subst ha
      show (s.pidRefs.del k').get k = none
      rw [FMap.get_del]
      split
      · rfl
      · exact h
    | cidRef c => simp [Store.apply, Store.remove] at ha; obtain ⟨_, ha⟩ := ha; subst ha; exact h
    | obj c => simp [Store.apply, Store.remove] at ha; obtain ⟨_, ha⟩ := ha; subst ha; exact h
    | mdoc d n => simp [Store.apply, Store.remove] at ha; obtain ⟨_, ha⟩ := ha; subst ha; exact h
  | appendCid c v =>
    simp [Store.apply] at ha; obtain ⟨v', _, ha⟩ := ha; subst ha; exact h
  | rewriteCid c v =>
    simp [Store.apply] at ha; obtain ⟨v', _, ha⟩ := ha; subst ha; exact h
  | truncateCid c n =>
    simp [Store.apply] at ha; obtain ⟨v', _, ha⟩ := ha; subst ha; exact h

/-- a successful retire of the pid reference leaves no pid reference at `k` -/
theorem retirePid_ok_inv {k : Str} {w w' : World} (h : Prog.run (eff (.retire (.pidRef k))) w = (.ok (), w')) :
    w'.st.pidRefs.get k = none := by
  simp only [eff, unitPrim, PE.prim, Prog.run] at h
  rcases respond_eff_cases w (.retire (.pidRef k)) with ⟨e, w1, hr, _, _⟩ | ⟨s', w2, ha, hr, hs, _⟩
  · rw [hr] at h; simp at h
  · rw [hr] at h
    injection h with _ h2
    subst h2
    rw [hs]
    simp [Store.apply, Store.retire] at ha
    obtain ⟨v, _, ha⟩ := ha
    subst ha
    show ((w.st.pidRefs.del k).set (k ++ deleteSuffix) v).get k = none
    have hne : k ++ deleteSuffix ≠ k := by
      intro e; have := congrArg List.length e; simp [deleteSuffix] at this
    rw [FMap.get_set_ne _ _ hne, FMap.get_del_self]

end HS

namespace HS
variable (cfg : Config) (o : Oracle)

theorem marker_ne (k : Str) : k ++ deleteSuffix ≠ k := by
  intro e; have := congrArg List.length e; simp [deleteSuffix] at this

theorem deleteMarked_keepsGone (k : Str) (l : List Loc) : (deleteMarked l).AllEv (KeepsGone k) := by
  induction l with
  | nil => exact PE.allEv_pure _
  | cons a r ih =>
    unfold deleteMarked
    apply PE.allEv_bind
    · apply PE.allEv_tryCatch
      · apply allEv_eff
        cases a <;> trivial
      · intro _; exact PE.allEv_pure _
    · intro _; exact ih

theorem dmc_keepsGone (k p : Str) (fmt : Option Str) : (deleteMetadataCore o p fmt).AllEv (KeepsGone k) := by
  apply Prog.allEv_mono _ _ (deleteMetadataCore_docsOnly o p fmt)
  intro e he
  cases e with
  | eff x =>
    cases x with
    | publishPidRef k' v => exact he.elim
    | retire l => cases l <;> first | exact he.elim | trivial
    | _ => trivial
  | _ => trivial

theorem findObject_keepsGone (k pid : Str) : (findObject cfg o pid).AllEv (KeepsGone k) := by
  unfold findObject
  repeat allev_step

theorem updateRefsRemove_keepsGone (k cid pid : Str) : (updateRefsRemove cid pid).AllEv (KeepsGone k) := by
  unfold updateRefsRemove
  repeat allev_step

theorem deleteObject_keepsGone (p : Str) : (deleteObject cfg o (.str p)).AllEv (KeepsGone (o.hId p)) := by
  unfold deleteObject
  apply PE.allEv_bind_post _ _ (PE.allEvR_ofExcept _)
  intro p' hp'
  have := checkString_str' hp'
  subst this
  repeat (first
    | exact findObject_keepsGone cfg o _ _
    | exact updateRefsRemove_keepsGone _ _ _
    | exact deleteMarked_keepsGone _ _
    | exact dmc_keepsGone o _ _ _
    | exact marker_ne _
    | allev_step)

end HS

namespace HS
variable (cfg : Config) (o : Oracle)

theorem Prog.allEv_bind_right {α β : Type} {P : Ev → Prop} (m : Prog α) (g : α → Prog β) (w : World)
    (h : (Prog.bind m g).AllEv P) : (g (m.run w).1).AllEv P := by
  induction m generalizing w with
  | ret a => exact h
  | op e k ih => exact ih _ _ (h.2 _)

theorem allEv_bind_ok {α β : Type} {P : Ev → Prop} {m : PE α} {f : α → PE β} (h : PE.AllEv P (m >>= f : PE β))
    {w w1 : World} {a : α} (hm : Prog.run m w = (.ok a, w1)) : (f a).AllEv P := by
  have h' : Prog.AllEv P (Prog.bind m fun r => match r with | .ok a => f a | .error e => Prog.ret (.error e)) := h
  have := Prog.allEv_bind_right (P := P) m _ w h'
  rw [hm] at this
  exact this

theorem allEv_tryCatch_left {α : Type} {P : Ev → Prop} {m : PE α} {hd : Exc → PE α}
    (h : PE.AllEv P (tryCatch m hd : PE α)) : m.AllEv P := by
  have h' : Prog.AllEv P (Prog.bind m fun r => match r with | .ok a => Prog.ret (.ok a) | .error e => hd e) := h
  clear h
  induction m with
  | ret a => trivial
  | op e k ih => exact ⟨h'.1, fun r => ih r (h'.2 r)⟩

theorem allEv_tryCatch_right {α : Type} {P : Ev → Prop} {m : PE α} {hd : Exc → PE α}
    (h : PE.AllEv P (tryCatch m hd : PE α)) {w w1 : World} {e : Exc} (hm : Prog.run m w = (.error e, w1)) :
    (hd e).AllEv P := by
  have h' : Prog.AllEv P (Prog.bind m fun r => match r with | .ok a => Prog.ret (.ok a) | .error e => hd e) := h
  have := Prog.allEv_bind_right (P := P) m _ w h'
  rw [hm] at this
  exact this

theorem allEv_withFinally_left {α : Type} {P : Ev → Prop} {m : PE α} {fin : PE Unit}
    (h : PE.AllEv P (PE.withFinally m fin)) : m.AllEv P := by
  unfold PE.withFinally at h
  have h' : Prog.AllEv P (Prog.bind m fun r => Prog.bind fin fun f => match f with
      | .ok _ => Prog.ret r | .error e => Prog.ret (.error e)) := h
  clear h
  induction m with
  | ret a => trivial
  | op e k ih => exact ⟨h'.1, fun r => ih r (h'.2 r)⟩

/-- once the pid reference is gone, a program under the discipline ends with it gone -/
theorem gone_at_end {α : Type} (k : Str) (m : PE α) (hm : m.AllEv (KeepsGone k)) (w : World)
    (hw : w.st.pidRefs.get k = none) : (Prog.run m w).2.st.pidRefs.get k = none :=
  Prog.run_inv m hm (gone_preserved k) w hw

end HS

namespace HS
variable (cfg : Config) (o : Oracle)

/-- `delete_object(p)` returned normally ⇒ p has no pid reference -/
theorem delete_ok_inv (p : Str) (w w' : World) (v : Val)
    (h : Prog.run (deleteObject cfg o (.str p)) w = (.ok v, w')) : w'.st.pidRefs.get (o.hId p) = none := by
  have hall := deleteObject_keepsGone cfg o p
  unfold deleteObject at h hall
  obtain ⟨p', w1, h1, hA⟩ := bind_ok_inv h
  clear h
  have hallA := allEv_bind_ok hall h1
  clear hall
  obtain ⟨hp, e1⟩ := ofExcept_ok_inv h1
  have hpp : p' = p := (checkString_str' hp)
  subst hpp
  subst e1
  clear h1 hp
  dsimp only at hA hallA
  obtain ⟨w2, hbody, hfin⟩ := withFinally_ok_inv hA
  have hallB := allEv_withFinally_left hallA
  rw [release_ok_st hfin]
  obtain ⟨_, w3, h3, hbody2⟩ := bind_ok_inv hbody
  have hallC := allEv_bind_ok hallB h3
  rcases tryCatch_ok_inv hbody2 with hm | ⟨e, we, hme, hh⟩
  · have hallD := allEv_tryCatch_left hallC
    obtain ⟨cid, w4, h4, hm2⟩ := bind_ok_inv hm
    have hallE := allEv_bind_ok hallD h4
    obtain ⟨_, w5, h5, hm3⟩ := bind_ok_inv hm2
    have hallF := allEv_bind_ok hallE h5
    obtain ⟨w6, hin, hfin2⟩ := withFinally_ok_inv hm3
    have hallG := allEv_withFinally_left hallF
    rw [release_ok_st hfin2]
    obtain ⟨_, w7, h7, hin2⟩ := bind_ok_inv hin
    have hallH := allEv_bind_ok hallG h7
    have hg := retirePid_ok_inv h7
    have := gone_at_end (o.hId p') _ hallH w7 hg
    rw [hin2] at this
    exact this
  · have hallD := allEv_tryCatch_right hallC hme
    split at hh
    · obtain ⟨_, w7, h7, hin2⟩ := bind_ok_inv hh
      have hallH := allEv_bind_ok hallD h7
      have hg := retirePid_ok_inv h7
      have := gone_at_end (o.hId p') _ hallH w7 hg
      rw [hin2] at this
      exact this
    · obtain ⟨c, w6, h6, hh2⟩ := bind_ok_inv hh
      have hallE := allEv_bind_ok hallD h6
      obtain ⟨_, w7, h7, hin2⟩ := bind_ok_inv hh2
      have hallH := allEv_bind_ok hallE h7
      have hg := retirePid_ok_inv h7
      have := gone_at_end (o.hId p') _ hallH w7 hg
      rw [hin2] at this
      exact this
    · obtain ⟨_, w7, h7, hin2⟩ := bind_ok_inv hh
      have hallH := allEv_bind_ok hallD h7
      have hg := retirePid_ok_inv h7
      have := gone_at_end (o.hId p') _ hallH w7 hg
      rw [hin2] at this
      exact this
    · exact absurd hh throw_not_ok

end HS
