/-
  OkInv — inversion of normal returns: if a composed program returns normally,
  its parts did, in order. Valid for every world (every fault plan, every lock
  state). Helper lemmas.
-/
import HSModel.Proofs.MetaRun
import HSModel.Proofs.RunInv
namespace HS
variable {α β : Type}

theorem bind_ok_inv {m : PE α} {f : α → PE β} {w w' : World} {b : β}
    (h : Prog.run (m >>= f : PE β) w = (Except.ok b, w')) :
    ∃ a w1, Prog.run m w = (.ok a, w1) ∧ Prog.run (f a) w1 = (.ok b, w') := by
  have h' : Prog.run (PE.bind' m f) w = (.ok b, w') := h
  unfold PE.bind' at h'
  rw [Prog.run_bind_pe] at h'
  cases hm : Prog.run m w with
  | mk r w1 =>
    rw [hm] at h'
    cases r with
    | ok a => exact ⟨a, w1, rfl, h'⟩
    | error e => simp [Prog.run] at h'

theorem tryCatch_ok_inv {m : PE α} {hd : Exc → PE α} {w w' : World} {a : α}
    (h : Prog.run (tryCatch m hd : PE α) w = (Except.ok a, w')) :
    Prog.run m w = (.ok a, w') ∨ ∃ e w1, Prog.run m w = (.error e, w1) ∧ Prog.run (hd e) w1 = (.ok a, w') := by
  have h' : Prog.run (PE.tryCatch' m hd) w = (.ok a, w') := h
  unfold PE.tryCatch' at h'
  rw [Prog.run_bind_pe] at h'
  cases hm : Prog.run m w with
  | mk r w1 =>
    rw [hm] at h'
    cases r with
    | ok a' =>
      simp only [Prog.run] at h'
      left; rw [← h']
    | error e => right; exact ⟨e, w1, rfl, h'⟩

theorem withFinally_ok_inv {m : PE α} {fin : PE Unit} {w w' : World} {a : α}
    (h : Prog.run (PE.withFinally m fin) w = (.ok a, w')) :
    ∃ w1, Prog.run m w = (.ok a, w1) ∧ Prog.run fin w1 = (.ok (), w') := by
  unfold PE.withFinally at h
  rw [Prog.run_bind_pe] at h
  cases hm : Prog.run m w with
  | mk r w1 =>
    rw [hm] at h
    simp only at h
    rw [Prog.run_bind_pe] at h
    cases hf : Prog.run fin w1 with
    | mk rf w2 =>
      rw [hf] at h
      cases rf with
      | ok u =>
        simp only [Prog.run] at h
        injection h with h1 h2
        subst h1; subst h2
        cases u
        exact ⟨w1, rfl, hf⟩
      | error e => simp [Prog.run] at h

theorem throw_not_ok {e : Exc} {w w' : World} {a : α} : Prog.run (throw e : PE α) w ≠ (.ok a, w') := by
  intro h
  have : Prog.run (PE.throw' e : PE α) w = (.ok a, w') := h
  simp [PE.throw', Prog.run] at this

theorem pure_ok_inv {x a : α} {w w' : World} (h : Prog.run (pure x : PE α) w = (.ok a, w')) : x = a ∧ w = w' := by
  have : Prog.run (PE.pure' x : PE α) w = (.ok a, w') := h
  simp [PE.pure', Prog.run] at this
  exact this

theorem ofExcept_ok_inv {x : Except Exc α} {a : α} {w w' : World} (h : Prog.run (PE.ofExcept x) w = (.ok a, w')) :
    x = .ok a ∧ w = w' := by
  cases x with
  | ok v => simp [PE.ofExcept, PE.pure', Prog.run] at h; exact ⟨by rw [h.1], h.2⟩
  | error e => simp [PE.ofExcept, PE.throw', Prog.run] at h

/-- a primitive that returned a value was not failed by the plan -/
theorem respond_not_err {w : World} {e : Ev} (h : ∀ x, (respond w e).1 ≠ .err x) :
    respond w e = respondCore (faultStep w e).2 e := by
  by_cases hf : (faultStep w e).1 = true
  · exfalso
    apply h .osError
    unfold respond
    rw [if_pos hf]
  · unfold respond
    rw [if_neg hf]

theorem isFile_ok_inv {l : Loc} {b : Bool} {w w' : World} (h : Prog.run (isFile l) w = (.ok b, w')) :
    w'.st = w.st ∧ w'.lk = w.lk ∧ b = w.st.isFile l := by
  simp only [isFile, PE.prim, Prog.run] at h
  have hne : ∀ x, (respond w (.isFile l)).1 ≠ .err x := by
    intro x hx; rw [hx] at h; simp at h
  rw [respond_not_err hne] at h
  simp only [respondCore] at h
  injection h with h1 h2
  injection h1 with h1
  subst h2
  exact ⟨faultStep_st w _, faultStep_lk w _, by rw [← h1, faultStep_st]⟩

theorem readPid_ok_inv {k t : Str} {w w' : World} (h : Prog.run (readRef (.pidRef k)) w = (.ok t, w')) :
    w'.st = w.st ∧ w'.lk = w.lk ∧ w.st.pidRefs.get k = some t := by
  simp only [readRef, PE.prim, Prog.run] at h
  have hne : ∀ x, (respond w (.readRef (.pidRef k))).1 ≠ .err x := by
    intro x hx; rw [hx] at h; simp at h
  rw [respond_not_err hne] at h
  simp only [respondCore, faultStep_st] at h
  cases hg : w.st.pidRefs.get k with
  | none => rw [hg] at h; simp at h
  | some v =>
    rw [hg] at h
    injection h with h1 h2
    injection h1 with h1
    subst h2
    exact ⟨faultStep_st w _, faultStep_lk w _, by rw [h1]⟩

theorem readCid_ok_inv {c t : Str} {w w' : World} (h : Prog.run (readRef (.cidRef c)) w = (.ok t, w')) :
    w'.st = w.st ∧ w'.lk = w.lk ∧ w.st.cidRefs.get c = some t := by
  simp only [readRef, PE.prim, Prog.run] at h
  have hne : ∀ x, (respond w (.readRef (.cidRef c))).1 ≠ .err x := by
    intro x hx; rw [hx] at h; simp at h
  rw [respond_not_err hne] at h
  simp only [respondCore, faultStep_st] at h
  cases hg : w.st.cidRefs.get c with
  | none => rw [hg] at h; simp at h
  | some v =>
    rw [hg] at h
    injection h with h1 h2
    injection h1 with h1
    subst h2
    exact ⟨faultStep_st w _, faultStep_lk w _, by rw [h1]⟩

end HS
