/-
  OkStore — if `store_object(pid, …)` returns normally, under ANY fault plan and
  from ANY state, the reported cid is the digest of the data, and the pid is bound
  to it and listed by it. Helper lemmas.
-/
import HSModel.Proofs.OkTag
import HSModel.Proofs.Refine
namespace HS
variable (cfg : Config) (o : Oracle)

theorem mv_ok_inv (pid : Option Str) (t : Tok) (add cs cks : Option Str) (sz : IArg) (w w' : World) (m : ObjMeta)
    (h : Prog.run (moveAndGetChecksums cfg o pid t add cs cks sz) w = (.ok m, w')) :
    m.cid = o.dig cfg.alg t ∧ m.size = o.size t := by
  unfold moveAndGetChecksums at h
  repeat (first
    | (obtain ⟨e, _⟩ := pure_ok_inv h; subst e; exact ⟨rfl, rfl⟩)
    | exact absurd h throw_not_ok
    | (obtain ⟨_, _, _, h⟩ := bind_ok_inv h)
    | split at h
    | dsimp only at h)

/-- `store_object(pid, data, …)` returned normally ⇒ the reported cid and size
    are the data's, and the pid is bound to that cid and on its list -/
theorem store_ok_inv (pid : SArg) (data : DataArg) (additional checksum csAlg : SArg) (expSize : IArg)
    (hnone : pid ≠ .none) (w w' : World) (v : Val)
    (h : Prog.run (storeObject cfg o pid data additional checksum csAlg expSize) w = (.ok v, w')) :
    ∃ p t m, checkString pid = .ok p ∧ openStream data = .ok t ∧ v = .objMeta m ∧
      m.cid = o.dig cfg.alg t ∧ m.size = o.size t ∧
      w'.st.pidRefs.get (o.hId p) = some m.cid ∧ ∃ x, w'.st.cidRefs.get m.cid = some x ∧ inRefs p x = true := by
  rw [storeObject_pid_unfold cfg o pid data additional checksum csAlg expSize hnone] at h
  obtain ⟨p, w1, h1, h⟩ := bind_ok_inv h
  obtain ⟨hp, e1⟩ := ofExcept_ok_inv h1
  subst e1
  obtain ⟨_, w2, h2, h⟩ := bind_ok_inv h
  obtain ⟨_, e2⟩ := ofExcept_ok_inv h2
  subst e2
  obtain ⟨_, w3, h3, h⟩ := bind_ok_inv h
  obtain ⟨_, e3⟩ := ofExcept_ok_inv h3
  subst e3
  obtain ⟨ac, w4, h4, h⟩ := bind_ok_inv h
  obtain ⟨_, e4⟩ := ofExcept_ok_inv h4
  subst e4
  obtain ⟨add', cs'⟩ := ac
  try dsimp only at h
  obtain ⟨ip, w5, _, h⟩ := bind_ok_inv h
  try dsimp only at h
  split at h
  · obtain ⟨_, _, ht, _⟩ := bind_ok_inv h
    exact absurd ht throw_not_ok
  · obtain ⟨w6, hbody, hfin⟩ := withFinally_ok_inv h
    have hst : w'.st = w6.st := release_ok_st hfin
    obtain ⟨_, w7, _, hbody⟩ := bind_ok_inv hbody
    obtain ⟨t, w8, h8, hbody⟩ := bind_ok_inv hbody
    obtain ⟨ht, e8⟩ := ofExcept_ok_inv h8
    subst e8
    obtain ⟨m, w9, h9, hbody⟩ := bind_ok_inv hbody
    obtain ⟨hm1, hm2⟩ := mv_ok_inv cfg o _ t _ _ _ _ _ _ m h9
    obtain ⟨_, w10, h10, hbody⟩ := bind_ok_inv hbody
    obtain ⟨ev, ew⟩ := pure_ok_inv hbody
    subst ew
    obtain ⟨p', c', hp', hc', hb, hl⟩ := tag_ok_inv cfg o _ _ _ _ _ h10
    have e1 : p' = p := by
      obtain ⟨q1, _⟩ := checkString_ok_inv hp
      subst q1
      rw [checkString_of_ok (checkString_ok_inv hp).2] at hp'
      injection hp' with hp'; exact hp'.symm
    subst e1
    have e2 : c' = m.cid := by
      have hcs := checkString_ok_inv hc'
      injection hcs.1 with hcs1
      exact hcs1.symm
    subst e2
    rw [hst]
    exact ⟨p', t, m, hp, ht, ev.symm, hm1, hm2, hb, hl⟩

end HS
