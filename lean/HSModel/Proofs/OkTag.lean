/-
  OkTag — if `tag_object` returns normally, under ANY fault plan and from ANY
  state, the pid is bound to the cid and listed by it: the call never reports
  success without its whole effect. Helper lemmas.
-/
import HSModel.Proofs.OkInv
namespace HS
variable (cfg : Config) (o : Oracle)

theorem verify_ok_inv (p c : Str) (w w' : World) (h : Prog.run (verifyRefs o p c) w = (.ok (), w')) :
    w'.st = w.st ∧ w'.lk = w.lk ∧ w.st.pidRefs.get (o.hId p) = some c ∧
      ∃ t, w.st.cidRefs.get c = some t ∧ inRefs p t = true := by
  unfold verifyRefs at h
  obtain ⟨b1, w1, h1, h⟩ := bind_ok_inv h
  obtain ⟨s1, l1, _⟩ := isFile_ok_inv h1
  try dsimp only at h
  split at h
  · obtain ⟨_, _, ht, _⟩ := bind_ok_inv h
    exact absurd ht throw_not_ok
  · obtain ⟨b2, w2, h2, h⟩ := bind_ok_inv h
    obtain ⟨s2, l2, _⟩ := isFile_ok_inv h2
    try dsimp only at h
    split at h
    · obtain ⟨_, _, ht, _⟩ := bind_ok_inv h
      exact absurd ht throw_not_ok
    · obtain ⟨c1, w3, h3, h⟩ := bind_ok_inv h
      obtain ⟨s3, l3, g3⟩ := readPid_ok_inv h3
      try dsimp only at h
      split at h
      · obtain ⟨_, _, ht, _⟩ := bind_ok_inv h
        exact absurd ht throw_not_ok
      · rename_i hc
        obtain ⟨t, w4, h4, h⟩ := bind_ok_inv h
        obtain ⟨s4, l4, g4⟩ := readCid_ok_inv h4
        split at h
        · exact absurd h throw_not_ok
        · rename_i hin
          obtain ⟨_, hw⟩ := pure_ok_inv h
          subst hw
          have hc' : c1 = c := by simpa using hc
          subst hc'
          refine ⟨by rw [s4, s3, s2, s1], by rw [l4, l3, l2, l1], by rw [← s1, ← s2]; exact g3, t, ?_, by simpa using hin⟩
          rw [← s1, ← s2, ← s3]; exact g4

theorem release_ok_st {c : LockClass} {i : Str} {w w' : World} (h : Prog.run (release c i) w = (.ok (), w')) :
    w'.st = w.st := by
  simp only [release, unitPrim, PE.prim, Prog.run] at h
  have hne : ∀ x, (respond w (.release c i)).1 ≠ .err x := by
    intro x hx; rw [hx] at h; simp at h
  rw [respond_not_err hne] at h
  simp only [respondCore] at h
  by_cases hi : i ∈ (faultStep w (Ev.release c i)).2.lk.get c
  · rw [if_pos hi] at h
    injection h with _ h2; subst h2; exact faultStep_st w _
  · rw [if_neg hi] at h; simp at h

theorem storeRefs_ok_inv (p c : Str) (w w' : World) (h : Prog.run (storeRefs cfg o p c) w = (.ok (), w')) :
    w'.st.pidRefs.get (o.hId p) = some c ∧ ∃ t, w'.st.cidRefs.get c = some t ∧ inRefs p t = true := by
  unfold storeRefs at h
  obtain ⟨w1, hbody, hfin⟩ := withFinally_ok_inv h
  obtain ⟨_, w2, hr1, hr2⟩ := bind_ok_inv hfin
  have hst : w'.st = w1.st := by rw [release_ok_st hr2, release_ok_st hr1]
  rw [hst]
  obtain ⟨_, wa, _, hbody⟩ := bind_ok_inv hbody
  obtain ⟨_, wb, _, hbody⟩ := bind_ok_inv hbody
  rcases tryCatch_ok_inv hbody with hb | ⟨e, we, _, hh⟩
  · obtain ⟨_, wc, _, hb⟩ := bind_ok_inv hb
    obtain ⟨_, wd, _, hb⟩ := bind_ok_inv hb
    obtain ⟨pf, wf, _, hb⟩ := bind_ok_inv hb
    obtain ⟨cf, wg, _, hb⟩ := bind_ok_inv hb
    split at hb
    · rcases tryCatch_ok_inv hb with hv | ⟨e, we, _, hh⟩
      · obtain ⟨_, _, _, ht⟩ := bind_ok_inv hv
        exact absurd ht throw_not_ok
      · exact absurd hh throw_not_ok
    · split at hb
      · exact absurd hb throw_not_ok
      · split at hb
        · obtain ⟨_, _, _, hb⟩ := bind_ok_inv hb
          obtain ⟨_, _, _, hb⟩ := bind_ok_inv hb
          obtain ⟨t0, _, _, hb⟩ := bind_ok_inv hb
          try dsimp only at hb
          split at hb
          · obtain ⟨_, wv, _, hv⟩ := bind_ok_inv hb
            obtain ⟨s1, _, g1, g2⟩ := verify_ok_inv o p c _ _ hv
            rw [s1]; exact ⟨g1, g2⟩
          · obtain ⟨s1, _, g1, g2⟩ := verify_ok_inv o p c _ _ hb
            rw [s1]; exact ⟨g1, g2⟩
        · obtain ⟨_, _, _, hb⟩ := bind_ok_inv hb
          obtain ⟨_, _, _, hb⟩ := bind_ok_inv hb
          obtain ⟨_, _, _, hb⟩ := bind_ok_inv hb
          obtain ⟨_, _, _, hv⟩ := bind_ok_inv hb
          obtain ⟨s1, _, g1, g2⟩ := verify_ok_inv o p c _ _ hv
          rw [s1]; exact ⟨g1, g2⟩
  · exfalso
    split at hh
    · exact absurd hh throw_not_ok
    · exact absurd hh throw_not_ok
    · obtain ⟨_, _, _, ht⟩ := bind_ok_inv hh
      exact absurd ht throw_not_ok

end HS

namespace HS
variable (cfg : Config) (o : Oracle)

/-- `tag_object` returned normally ⇒ the pid is bound to the cid and on its list -/
theorem tag_ok_inv (pid cid : SArg) (w w' : World) (v : Val) (h : Prog.run (tagObject cfg o pid cid) w = (.ok v, w')) :
    ∃ p c, checkString pid = .ok p ∧ checkString cid = .ok c ∧
      w'.st.pidRefs.get (o.hId p) = some c ∧ ∃ t, w'.st.cidRefs.get c = some t ∧ inRefs p t = true := by
  unfold tagObject at h
  obtain ⟨p, w1, h1, h⟩ := bind_ok_inv h
  obtain ⟨hp, e1⟩ := ofExcept_ok_inv h1
  subst e1
  obtain ⟨c, w2, h2, h⟩ := bind_ok_inv h
  obtain ⟨hc, e2⟩ := ofExcept_ok_inv h2
  subst e2
  obtain ⟨_, w3, h3, h⟩ := bind_ok_inv h
  obtain ⟨_, e3⟩ := pure_ok_inv h
  subst e3
  exact ⟨p, c, hp, hc, storeRefs_ok_inv cfg o p c _ _ h3⟩

end HS
