/-
  Reader — readers beside any writers (helper lemmas for C09 / C12 / C07):
  what `retrieve_metadata` / `retrieve_object` return when they return normally is
  what one read of one document / object answered, and which answers a world can
  give whose documents hold supplied versions and whose objects sit at their digest.
-/
import HSModel.Proofs.ConcInv
import HSModel.Proofs.Whole
set_option linter.unusedSimpArgs false
namespace HS.C09
variable (cfg : Config) (o : Oracle)

/-- an object is published only at the address of its own digest -/
def PubAtDigest : Ev → Prop
  | .eff (.publishObj c t) => c = o.dig cfg.alg t
  | _ => True

/-- a primitive that changes no file -/
def NoEff : Ev → Prop
  | .eff _ => False
  | _ => True

theorem supplies_of_noEff (vs : List Str) (ts : List Tok) (e : Ev) (h : NoEff e) : Supplies vs ts e := by
  cases e <;> first | trivial | exact h.elim

theorem pubAtDigest_of_noEff (e : Ev) (h : NoEff e) : PubAtDigest cfg o e := by
  cases e <;> first | trivial | exact h.elim

theorem pubAtDigest_of_shape (p : Option Str) (e : Ev) (h : Shape cfg o p e) : PubAtDigest cfg o e := by
  cases e with
  | eff x => cases x <;> first | exact h | trivial
  | _ => trivial

theorem supplies_mono {vs vs' : List Str} {ts ts' : List Tok} (hv : ∀ v ∈ vs, v ∈ vs') (ht : ∀ t ∈ ts, t ∈ ts')
    (e : Ev) (h : Supplies vs ts e) : Supplies vs' ts' e := by
  cases e with
  | eff x =>
    cases x <;> first | trivial | exact hv _ h | exact ht _ h
  | _ => trivial

theorem allEv_and {α : Type} {P Q : Ev → Prop} (m : Prog α) (hp : m.AllEv P) (hq : m.AllEv Q) :
    m.AllEv (fun e => P e ∧ Q e) := by
  induction m with
  | ret a => trivial
  | op e k ih => exact ⟨⟨hp.1, hq.1⟩, fun r => ih r (hp.2 r) (hq.2 r)⟩

/-- the answers of a world in which every pid reference holds a value from `vs`, every document a
    version from `ts`, and every object key `c` satisfies `G c t` for the content `t` it holds -/
def GoodAnswers (vs : List Str) (ts : List Tok) (G : Str → Tok → Prop) : Ev → Resp → Prop
  | .readDoc _ _, .tok t => t ∈ ts
  | .readRef (.pidRef _), .text v => v ∈ vs
  | .readObj c, .tok t => G c t
  | _, _ => True

/-- what a reader of documents may return -/
def ReadsFrom (ts : List Tok) (r : Except Exc Val) : Prop := ∀ t, r = .ok (.content t) → t ∈ ts

/-- what a reader of objects may return: content that sits at a cid some pid reference held -/
def ReadsObj (vs : List Str) (G : Str → Tok → Prop) (r : Except Exc Val) : Prop :=
  ∀ t, r = .ok (.content t) → ∃ c ∈ vs, G c t

/-- `retrieve_metadata`: a normal return is the answer of its one document read -/
theorem retrieveMetadata_safe (P : Ev → Prop) (hP : ∀ e, NoEff e → P e) (vs : List Str) (ts : List Tok)
    (G : Str → Tok → Prop) (pid f : SArg) :
    Prog.Safe P (GoodAnswers vs ts G) (ReadsFrom ts) (retrieveMetadata cfg o pid f : Prog (Except Exc Val)) := by
  unfold retrieveMetadata
  cases hp : checkString pid with
  | error e => intro t ht; simp [bind, PE.bind', Prog.bind, PE.ofExcept, PE.throw', hp] at ht
  | ok p =>
    cases hf : checkArgFormatId cfg.ns f with
    | error e => intro t ht; simp [bind, PE.bind', Prog.bind, PE.ofExcept, PE.throw', PE.pure', hp, hf] at ht
    | ok f' =>
      simp only [bind, PE.bind', Prog.bind, PE.ofExcept, PE.pure', hp, hf, isFile, readDoc, PE.prim]
      refine ⟨hP _ trivial, ?_⟩
      intro r _
      cases r with
      | bool b =>
        cases b with
        | false => intro t ht; simp [throw, PE.throw', Prog.bind, throwThe, MonadExceptOf.throw] at ht
        | true =>
          simp only [Prog.bind, if_true]
          refine ⟨hP _ trivial, ?_⟩
          intro r2 hr2
          cases r2 with
          | tok t2 =>
            intro t ht
            simp [Prog.bind, pure, PE.pure'] at ht
            subst ht; exact hr2
          | _ => intro t ht; simp [Prog.bind] at ht
      | _ => intro t ht; simp [Prog.bind] at ht


/-! ### programs that may raise: result postconditions under constrained answers -/

def SafeR {α : Type} (P : Ev → Prop) (A : Ev → Resp → Prop) (Q : α → Prop) (m : PE α) : Prop :=
  Prog.Safe P A (okPost Q) (m : Prog (Except Exc α))

section
variable {α β : Type} {P : Ev → Prop} {A : Ev → Resp → Prop}

theorem safeR_pure {Q : α → Prop} (a : α) (h : Q a) : SafeR P A Q (pure a : PE α) := h
theorem safeR_throw {Q : α → Prop} (e : Exc) : SafeR P A Q (throw e : PE α) := trivial
theorem safeR_ofExcept (x : Except Exc α) : SafeR P A (fun a => x = .ok a) (PE.ofExcept x) := by
  cases x <;> simp [PE.ofExcept, SafeR, PE.pure', PE.throw', Prog.Safe, okPost]

theorem safeR_bind {Q : α → Prop} {R : β → Prop} (m : PE α) (f : α → PE β)
    (hm : SafeR P A Q m) (hf : ∀ a, Q a → SafeR P A R (f a)) : SafeR P A R (m >>= f) := by
  show Prog.Safe P A (okPost R) (PE.bind' m f)
  unfold PE.bind'
  apply Prog.safe_bind _ _ hm
  intro r hr
  cases r with
  | ok a => exact hf a hr
  | error e => trivial

theorem safeR_prim {Q : α → Prop} (e : Ev) (dec : Resp → Except Exc α) (hP : P e)
    (h : ∀ r, A e r → okPost Q (dec r)) : SafeR P A Q (PE.prim e dec) :=
  ⟨hP, fun r hr => h r hr⟩

theorem safeR_weaken {Q R : α → Prop} (m : PE α) (h : ∀ a, Q a → R a) (hm : SafeR P A Q m) : SafeR P A R m := by
  apply Prog.safe_weaken _ _ hm
  intro r hr
  cases r with
  | ok a => exact h a hr
  | error e => trivial

theorem safeR_of_allEv (m : PE α) (h : m.AllEv P) : SafeR P A (fun _ => True) m := by
  apply Prog.safe_weaken _ _ (Prog.safe_of_allEv (A := A) _ h)
  intro r _; cases r <;> trivial
end

macro "thr" : tactic => `(tactic| (apply safeR_bind (Q := fun _ => False) _ _ (safeR_throw _); intro _ h; exact h.elim))

/-- `_find_object`: the cid it returns is what the read of the pid reference answered -/
theorem findObject_safe (P : Ev → Prop) (hP : ∀ e, NoEff e → P e) (vs : List Str) (ts : List Tok)
    (G : Str → Tok → Prop) (pid : Str) :
    SafeR P (GoodAnswers vs ts G) (fun c => c ∈ vs) (findObject cfg o pid) := by
  have hf : ∀ l, SafeR P (GoodAnswers vs ts G) (fun _ => True) (isFile l) := fun l =>
    safeR_of_allEv _ (Prog.allEv_mono _ hP (by apply allEv_isFile; trivial))
  unfold findObject
  apply safeR_bind _ _ (hf _)
  intro b _
  try dsimp only
  split
  · thr
  apply safeR_bind (Q := fun c => c ∈ vs)
  · apply safeR_prim _ _ (hP (.readRef _) trivial)
    intro r hr
    cases r <;> first | trivial | exact hr
  intro cid hcid
  apply safeR_bind _ _ (hf _)
  intro b2 _
  split
  · thr
  apply safeR_bind (Q := fun _ => True)
  · exact safeR_of_allEv _ (Prog.allEv_mono _ hP (by apply allEv_readRef; trivial))
  intro t _
  try dsimp only
  split
  · thr
  apply safeR_bind _ _ (hf _)
  intro b3 _
  try dsimp only
  split
  · thr
  apply safeR_bind _ _ (hf _)
  intro _ _
  exact safeR_pure _ hcid

/-- `retrieve_object`: a normal return is the answer of one read of the object at the cid that
    one read of the pid reference answered -/
theorem retrieveObject_safe (P : Ev → Prop) (hP : ∀ e, NoEff e → P e) (vs : List Str) (ts : List Tok)
    (G : Str → Tok → Prop) (pid : SArg) :
    Prog.Safe P (GoodAnswers vs ts G) (ReadsObj vs G) (retrieveObject cfg o pid : Prog (Except Exc Val)) := by
  have h : SafeR P (GoodAnswers vs ts G) (fun v => ∀ t, v = Val.content t → ∃ c ∈ vs, G c t)
      (retrieveObject cfg o pid) := by
    unfold retrieveObject
    apply safeR_bind (Q := fun _ => True)
    · exact safeR_weaken _ (fun _ _ => trivial) (safeR_ofExcept _)
    intro p _
    apply safeR_bind _ _ (findObject_safe cfg o P hP vs ts G p)
    intro cid hcid
    try dsimp only
    split
    · thr
    apply safeR_bind (Q := fun t => G cid t)
    · apply safeR_prim _ _ (hP (.readObj _) trivial)
      intro r hr
      cases r <;> first | trivial | exact hr
    intro t ht
    apply safeR_pure
    intro t' e
    cases e
    exact ⟨cid, hcid, ht⟩
  apply Prog.safe_weaken _ _ h
  intro r hr t e
  subst e
  exact hr t rfl

end HS.C09
