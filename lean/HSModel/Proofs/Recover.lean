/-
  Recover — from ANY store (no consistency assumed beyond newline-terminated
  list texts), run with free locks and no fault plan: `delete_object(pid)`
  returns normally or reports the pid unknown, and leaves no pid reference;
  then `store_object(pid, data)` succeeds and `retrieve_object(pid)` returns the
  data. This is what "never wedges the interrupted pid" needs after a crash.
-/
import HSModel.Proofs.NlTerm
import HSModel.Proofs.TrailStore
namespace HS
variable (cfg : Config) (o : Oracle)

/-- every list text is empty or newline-terminated -/
def AllNl (m : FMap Str Str) : Prop := ∀ c t, m.get c = some t → NlTerm t

theorem allNl_set {m : FMap Str Str} (h : AllNl m) (c x : Str) (hx : NlTerm x) : AllNl (m.set c x) := by
  intro c' t ht
  rw [FMap.get_set] at ht
  split at ht
  · cases ht; exact hx
  · exact h c' t ht

theorem allNl_del {m : FMap Str Str} (h : AllNl m) (c : Str) : AllNl (m.del c) := by
  intro c' t ht
  exact h c' t (FMap.get_del_some ht)

theorem gone_after {V : Type} (m : FMap Str V) (k : Str) (v : V) :
    (((m.del k).set (k ++ deleteSuffix) v).del (k ++ deleteSuffix)).get k = none := by
  rw [FMap.get_retire_remove]; split <;> simp

theorem sub_after {V : Type} (m : FMap Str V) (k j : Str) (v y : V)
    (h : (((m.del k).set (k ++ deleteSuffix) v).del (k ++ deleteSuffix)).get j = some y) : m.get j = some y := by
  rw [FMap.get_retire_remove] at h
  split at h
  · cases h
  · split at h
    · cases h
    · exact h

/-- the state `delete_object(p)` leaves, as far as the recovery needs it -/
def Cleared (p : Str) (S : Store) (r : Except Exc Val) (w' : World) : Prop :=
  (r = .ok .unit ∨ r = .error .pidRefsDoesNotExist) ∧ w'.lk = {} ∧ w'.fault = none ∧
  w'.st.pidRefs.get (o.hId p) = none ∧ (AllNl S.cidRefs → AllNl w'.st.cidRefs) ∧
  (∀ c' y, w'.st.objs.get c' = some y → S.objs.get c' = some y)

local macro "del_any" hp:ident extra:term "," extra2:term "," extra3:term "," extra4:term "," extra5:term : tactic =>
  `(tactic| simp [Cleared, calm, calmL, deleteObject, findObject, runsimp, checkString_of_ok $hp, updateRefsRemove,
    overwrite_truncate, deleteMarked, Prog.run_bind_pe, Prog.run_bind, Loc.marker, dmc_run_eq, dmc_lk, dmc_fault,
    dmc_pid, dmc_cid, dmc_obj, dmc_tr, dmc_to, gone_after, $extra:term, $extra2:term, $extra3:term, $extra4:term,
    $extra5:term] <;>
    (refine ⟨_, _, ⟨rfl, rfl⟩, ?_⟩; simp [dmc_lk, dmc_fault, dmc_pid, dmc_cid, dmc_obj, dmc_tr, dmc_to, gone_after]))

theorem delete_any_orphan (S : Store) (log : List Eff) (p c : Str) (hp : checkStringOk p = true)
    (h1 : S.pidRefs.get (o.hId p) = some c) (h2 : S.cidRefs.get c = none) :
    ∃ r w', (deleteObject cfg o (.str p)).run (calm S log) = (r, w') ∧ Cleared o p S r w' := by
  del_any hp h1, h2, True, True, True

theorem delete_any_notlisted (S : Store) (log : List Eff) (p c t : Str) (hp : checkStringOk p = true)
    (h1 : S.pidRefs.get (o.hId p) = some c) (h2 : S.cidRefs.get c = some t) (hin : inRefs p t = false) :
    ∃ r w', (deleteObject cfg o (.str p)).run (calm S log) = (r, w') ∧ Cleared o p S r w' := by
  del_any hp h1, h2, hin, True, True

theorem delete_any_last (S : Store) (log : List Eff) (p c t : Str) (hp : checkStringOk p = true)
    (h1 : S.pidRefs.get (o.hId p) = some c) (h2 : S.cidRefs.get c = some t) (hin : inRefs p t = true)
    (hnew : removeLines p t = []) :
    ∃ r w', (deleteObject cfg o (.str p)).run (calm S log) = (r, w') ∧ Cleared o p S r w' := by
  cases hobj : S.objs.get c with
  | some x =>
    del_any hp h1, h2, hin, hnew, hobj
    refine ⟨?_, ?_⟩
    · intro hnl
      exact allNl_del (allNl_set (allNl_del (allNl_set (allNl_set hnl _ _ (nlTerm_overwrite _ _ nlTerm_nil (hnl c t h2)))
        _ _ nlTerm_nil) _) _ _ nlTerm_nil) _
    · intro c' y; exact sub_after _ _ _ _ _
  | none =>
    del_any hp h1, h2, hin, hnew, hobj
    intro hnl
    exact allNl_del (allNl_set (allNl_del (allNl_set (allNl_set hnl _ _ (nlTerm_overwrite _ _ nlTerm_nil (hnl c t h2)))
      _ _ nlTerm_nil) _) _ _ nlTerm_nil) _

theorem delete_any_keep (S : Store) (log : List Eff) (p c t : Str) (hp : checkStringOk p = true)
    (h1 : S.pidRefs.get (o.hId p) = some c) (h2 : S.cidRefs.get c = some t) (hin : inRefs p t = true)
    (hnew : removeLines p t ≠ []) :
    ∃ r w', (deleteObject cfg o (.str p)).run (calm S log) = (r, w') ∧ Cleared o p S r w' := by
  have hnlnew : AllNl S.cidRefs → NlTerm (removeLines p t) := fun hnl => nlTerm_removeLines p t (hnl c t h2)
  cases hobj : S.objs.get c with
  | some x =>
    del_any hp h1, h2, hin, hnew, hobj
    intro hnl
    exact allNl_set (allNl_set hnl _ _ (nlTerm_overwrite _ _ (hnlnew hnl) (hnl c t h2))) _ _ (hnlnew hnl)
  | none =>
    del_any hp h1, h2, hin, hnew, hobj
    intro hnl
    exact allNl_set (allNl_set hnl _ _ (nlTerm_overwrite _ _ (hnlnew hnl) (hnl c t h2))) _ _ (hnlnew hnl)

/-- **`delete_object` from any store**: it returns normally or reports the pid
    unknown, releases everything, and leaves no pid reference for the pid -/
theorem delete_any (S : Store) (log : List Eff) (p : Str) (hp : checkStringOk p = true) :
    ∃ r w', (deleteObject cfg o (.str p)).run (calm S log) = (r, w') ∧ Cleared o p S r w' := by
  cases h1 : S.pidRefs.get (o.hId p) with
  | none =>
    exact ⟨_, _, delete_unknown cfg o S log p hp h1, Or.inr rfl, rfl, rfl, h1, fun h => h, fun _ _ h => h⟩
  | some c =>
    cases h2 : S.cidRefs.get c with
    | none => exact delete_any_orphan cfg o S log p c hp h1 h2
    | some t =>
      cases hin : inRefs p t with
      | false => exact delete_any_notlisted cfg o S log p c t hp h1 h2 hin
      | true =>
        by_cases hnew : removeLines p t = []
        · exact delete_any_last cfg o S log p c t hp h1 h2 hin hnew
        · exact delete_any_keep cfg o S log p c t hp h1 h2 hin hnew

end HS

namespace HS
variable (cfg : Config) (o : Oracle)

/-- tagging an unbound pid to a cid whose list (any newline-terminated text) does not name it: appended -/
theorem tag_any_append (l : List Str) (st : Store) (log : List Eff) (p c t : Str) (hp : checkStringOk p = true)
    (hc : checkStringOk c = true) (h1 : st.pidRefs.get (o.hId p) = none) (h2 : st.cidRefs.get c = some t)
    (hnl : NlTerm t) (hin : inRefs p t = false) :
    ∃ st' log', (tagObject cfg o (.str p) (.str c)).run (calmL l st log) = (.ok .unit, calmL l st' log') ∧
      st'.pidRefs.get (o.hId p) = some c ∧ st'.cidRefs.get c = some (t ++ (p ++ ['\n'])) ∧ st'.objs = st.objs := by
  have hin' : inRefs p (t ++ (p ++ ['\n'])) = true := inRefs_append_line t p hnl (nospace_of_ok hp)
  simp [calmL, tagObject, storeRefs, runsimp, checkString_of_ok hp, checkString_of_ok hc, h1, h2, writeRefsTmp, verifyRefs,
    updateRefsAdd, hin, hin']

/-- … or already names it (a stale entry): left as it is -/
theorem tag_any_listed (l : List Str) (st : Store) (log : List Eff) (p c t : Str) (hp : checkStringOk p = true)
    (hc : checkStringOk c = true) (h1 : st.pidRefs.get (o.hId p) = none) (h2 : st.cidRefs.get c = some t)
    (hin : inRefs p t = true) :
    ∃ st' log', (tagObject cfg o (.str p) (.str c)).run (calmL l st log) = (.ok .unit, calmL l st' log') ∧
      st'.pidRefs.get (o.hId p) = some c ∧ st'.cidRefs.get c = some t ∧ st'.objs = st.objs := by
  simp [calmL, tagObject, storeRefs, runsimp, checkString_of_ok hp, checkString_of_ok hc, h1, h2, writeRefsTmp, verifyRefs,
    updateRefsAdd, hin]

/-- tagging an unbound pid from any store with newline-terminated lists succeeds -/
theorem tag_any (l : List Str) (st : Store) (log : List Eff) (p c : Str) (hp : checkStringOk p = true)
    (hc : checkStringOk c = true) (h1 : st.pidRefs.get (o.hId p) = none) (hnl : AllNl st.cidRefs) :
    ∃ st' log' t', (tagObject cfg o (.str p) (.str c)).run (calmL l st log) = (.ok .unit, calmL l st' log') ∧
      st'.pidRefs.get (o.hId p) = some c ∧ st'.cidRefs.get c = some t' ∧ inRefs p t' = true ∧ st'.objs = st.objs := by
  cases h2 : st.cidRefs.get c with
  | none =>
    refine ⟨_, _, p ++ ['\n'], tag_neither cfg o l st log p c hp hc h1 h2, by simp, by simp, ?_, rfl⟩
    simp [inRefs, pyLines_single p (nospace_of_ok hp)]
  | some t =>
    cases hin : inRefs p t with
    | true =>
      obtain ⟨st', log', hrun, k1, k2, k3⟩ := tag_any_listed cfg o l st log p c t hp hc h1 h2 hin
      exact ⟨st', log', t, hrun, k1, k2, hin, k3⟩
    | false =>
      obtain ⟨st', log', hrun, k1, k2, k3⟩ := tag_any_append cfg o l st log p c t hp hc h1 h2 (hnl c t h2) hin
      exact ⟨st', log', _, hrun, k1, k2, inRefs_append_line t p (hnl c t h2) (nospace_of_ok hp), k3⟩

end HS

namespace HS
variable (cfg : Config) (o : Oracle)

/-- **`store_object(p, data)` from any store in which p has no pid reference**
    (list texts newline-terminated, no foreign content at the data's address):
    it returns normally and `retrieve_object(p)` then returns the data -/
theorem store_any (S : Store) (log : List Eff) (p : Str) (t' : Tok) (hp : checkStringOk p = true) (hok : OkDigests o)
    (h1 : S.pidRefs.get (o.hId p) = none) (hnl : AllNl S.cidRefs)
    (hfree : S.objs.get (o.dig cfg.alg t') = none ∨ S.objs.get (o.dig cfg.alg t') = some t') :
    ∃ m w2, (storeObject cfg o (.str p) (.ok t') .none .none .none .none).run (calm S log) = (.ok (.objMeta m), w2) ∧
      w2.lk = {} ∧ w2.fault = none ∧
      ((retrieveObject cfg o (.str p)).run w2).1 = .ok (.content t') := by
  have hcok := hok cfg.alg t'
  have hne : o.dig cfg.alg t' ≠ [] := ((checkStringOk_iff _).1 hcok).1
  obtain ⟨st1, log1, hrun1, f1, f2, f3, f4, f5, f6, f7, f8⟩ := mv_run_pid_spec cfg o [p] S log p t' none none none .none
  have hv : (verdict ((refineAlgorithmList defaultAlgos none none).map fun a => (a, o.dig a t')) (fun a => o.dig a t')
      (o.size t') .none none none).exc = none := by
    simp [verdict, sizeMismatch, Verdict.exc]
  rw [hv] at hrun1
  simp only [calmL] at hrun1
  have h1' : st1.pidRefs.get (o.hId p) = none := by rw [f1]; exact h1
  have hnl' : AllNl st1.cidRefs := by rw [f2]; exact hnl
  obtain ⟨st2, log2, t2, hrun2, k1, k2, k3, k4⟩ := tag_any cfg o [p] st1 log1 p (o.dig cfg.alg t') hp hcok h1' hnl'
  simp only [calmL] at hrun2
  have hobj2 : st2.objs.get (o.dig cfg.alg t') = some t' := by
    rw [k4, f8]
    rcases hfree with h | h
    · simp [hv, h]
    · simp [h]
  refine ⟨{ cid := o.dig cfg.alg t', size := o.size t',
            digests := (refineAlgorithmList defaultAlgos none none).map fun a => (a, o.dig a t') },
    calm st2 log2, ?_, rfl, rfl, ?_⟩
  · have hac : checkArgAlgorithmsAndChecksum cfg.alg .none .none .none = .ok (none, none) := rfl
    rw [storeObject_pid_unfold cfg o (.str p) (.ok t') .none .none .none .none (by simp)]
    simp [runsimp, checkString_of_ok hp, checkArgData, checkInteger, hac, openStream, strArg,
      calm, calmL, Prog.run_bind, Prog.run_bind_pe, hrun1, hrun2]
  · simp [retrieveObject, findObject, runsimp, checkString_of_ok hp, calm, calmL, k1, k2, k3, hobj2, hne]

/-- **recovery**: from any store — whatever a crash left — with newline-terminated
    list texts and no foreign content at the new data's address,
    `delete_object(p)` returns normally or reports the pid unknown, then
    `store_object(p, data)` returns normally, then `retrieve_object(p)` returns the data -/
theorem recover_any (S : Store) (log : List Eff) (p : Str) (t' : Tok) (hp : checkStringOk p = true) (hok : OkDigests o)
    (hnl : AllNl S.cidRefs)
    (hfree : S.objs.get (o.dig cfg.alg t') = none ∨ S.objs.get (o.dig cfg.alg t') = some t') :
    ∃ r1 w1 m w2, (deleteObject cfg o (.str p)).run (calm S log) = (r1, w1) ∧
      (r1 = .ok .unit ∨ r1 = .error .pidRefsDoesNotExist) ∧
      (storeObject cfg o (.str p) (.ok t') .none .none .none .none).run w1 = (.ok (.objMeta m), w2) ∧
      ((retrieveObject cfg o (.str p)).run w2).1 = .ok (.content t') := by
  obtain ⟨r1, w1, hrun1, hres, hlk, hnf, hgone, hnl1, hobjs⟩ := delete_any cfg o S log p hp
  have hw1 : w1 = calm w1.st w1.log := by
    obtain ⟨st, lk, fault, log⟩ := w1
    simp only at hlk hnf
    subst hlk; subst hnf; rfl
  have hfree1 : w1.st.objs.get (o.dig cfg.alg t') = none ∨ w1.st.objs.get (o.dig cfg.alg t') = some t' := by
    cases hx : w1.st.objs.get (o.dig cfg.alg t') with
    | none => exact Or.inl rfl
    | some y =>
      right
      have := hobjs _ _ hx
      rcases hfree with h | h
      · rw [h] at this; cases this
      · rw [h] at this; exact this.symm ▸ rfl
  obtain ⟨m, w2, hrun2, _, _, hret⟩ := store_any cfg o w1.st w1.log p t' hp hok hgone (hnl1 hnl) hfree1
  rw [← hw1] at hrun2
  exact ⟨r1, w1, m, w2, hrun1, hres, hrun2, hret⟩

/-- `store_any` with validation arguments: whatever additional algorithm, checksum,
    checksum algorithm and expected size the recovery store is given, as long as
    they pass the argument checks and the verdict on the data is "valid" -/
theorem store_any_args (S : Store) (log : List Eff) (p : Str) (t' : Tok) (add cks ca : SArg) (sz : IArg)
    (add' cs' : Option Str) (hp : checkStringOk p = true) (hok : OkDigests o)
    (hint : checkInteger sz = .ok ()) (hac : checkArgAlgorithmsAndChecksum cfg.alg add cks ca = .ok (add', cs'))
    (hv : (verdict ((refineAlgorithmList defaultAlgos add' cs').map fun a => (a, o.dig a t')) (fun a => o.dig a t')
      (o.size t') sz (strArg cks) cs').exc = none)
    (h1 : S.pidRefs.get (o.hId p) = none) (hnl : AllNl S.cidRefs)
    (hfree : S.objs.get (o.dig cfg.alg t') = none ∨ S.objs.get (o.dig cfg.alg t') = some t') :
    ∃ m w2, (storeObject cfg o (.str p) (.ok t') add cks ca sz).run (calm S log) = (.ok (.objMeta m), w2) ∧
      w2.lk = {} ∧ w2.fault = none ∧
      ((retrieveObject cfg o (.str p)).run w2).1 = .ok (.content t') := by
  have hcok := hok cfg.alg t'
  have hne : o.dig cfg.alg t' ≠ [] := ((checkStringOk_iff _).1 hcok).1
  obtain ⟨st1, log1, hrun1, f1, f2, f3, f4, f5, f6, f7, f8⟩ := mv_run_pid_spec cfg o [p] S log p t' add' cs' (strArg cks) sz
  rw [hv] at hrun1
  simp only [calmL] at hrun1
  have h1' : st1.pidRefs.get (o.hId p) = none := by rw [f1]; exact h1
  have hnl' : AllNl st1.cidRefs := by rw [f2]; exact hnl
  obtain ⟨st2, log2, t2, hrun2, k1, k2, k3, k4⟩ := tag_any cfg o [p] st1 log1 p (o.dig cfg.alg t') hp hcok h1' hnl'
  simp only [calmL] at hrun2
  have hobj2 : st2.objs.get (o.dig cfg.alg t') = some t' := by
    rw [k4, f8]
    rcases hfree with h | h
    · simp [hv, h]
    · simp [h]
  refine ⟨{ cid := o.dig cfg.alg t', size := o.size t',
            digests := (refineAlgorithmList defaultAlgos add' cs').map fun a => (a, o.dig a t') },
    calm st2 log2, ?_, rfl, rfl, ?_⟩
  · rw [storeObject_pid_unfold cfg o (.str p) (.ok t') add cks ca sz (by simp)]
    simp [runsimp, checkString_of_ok hp, checkArgData, hint, hac, openStream,
      calm, calmL, Prog.run_bind, Prog.run_bind_pe, hrun1, hrun2]
  · simp [retrieveObject, findObject, runsimp, checkString_of_ok hp, calm, calmL, k1, k2, k3, hobj2, hne]

theorem recover_any_args (S : Store) (log : List Eff) (p : Str) (t' : Tok) (add cks ca : SArg) (sz : IArg)
    (add' cs' : Option Str) (hp : checkStringOk p = true) (hok : OkDigests o)
    (hint : checkInteger sz = .ok ()) (hac : checkArgAlgorithmsAndChecksum cfg.alg add cks ca = .ok (add', cs'))
    (hv : (verdict ((refineAlgorithmList defaultAlgos add' cs').map fun a => (a, o.dig a t')) (fun a => o.dig a t')
      (o.size t') sz (strArg cks) cs').exc = none)
    (hnl : AllNl S.cidRefs)
    (hfree : S.objs.get (o.dig cfg.alg t') = none ∨ S.objs.get (o.dig cfg.alg t') = some t') :
    ∃ r1 w1 m w2, (deleteObject cfg o (.str p)).run (calm S log) = (r1, w1) ∧
      (r1 = .ok .unit ∨ r1 = .error .pidRefsDoesNotExist) ∧
      (storeObject cfg o (.str p) (.ok t') add cks ca sz).run w1 = (.ok (.objMeta m), w2) ∧
      ((retrieveObject cfg o (.str p)).run w2).1 = .ok (.content t') := by
  obtain ⟨r1, w1, hrun1, hres, hlk, hnf, hgone, hnl1, hobjs⟩ := delete_any cfg o S log p hp
  have hw1 : w1 = calm w1.st w1.log := by
    obtain ⟨st, lk, fault, log⟩ := w1
    simp only at hlk hnf
    subst hlk; subst hnf; rfl
  have hfree1 : w1.st.objs.get (o.dig cfg.alg t') = none ∨ w1.st.objs.get (o.dig cfg.alg t') = some t' := by
    cases hx : w1.st.objs.get (o.dig cfg.alg t') with
    | none => exact Or.inl rfl
    | some y =>
      right
      have := hobjs _ _ hx
      rcases hfree with h | h
      · rw [h] at this; cases this
      · rw [h] at this; exact this.symm ▸ rfl
  obtain ⟨m, w2, hrun2, _, _, hret⟩ := store_any_args cfg o w1.st w1.log p t' add cks ca sz add' cs' hp hok hint hac hv
    hgone (hnl1 hnl) hfree1
  rw [← hw1] at hrun2
  exact ⟨r1, w1, m, w2, hrun1, hres, hrun2, hret⟩


end HS
