/-
  Refine — the concrete calls, run sequentially with free locks and no fault
  plan, compute what `Abs.step` says: same result, related final states.
  Helper lemmas; the statements a reader should look at are in Props/Refinement.lean.
-/
import HSModel.Proofs.RefineBase
import HSModel.Proofs.RefsSafe
namespace HS
variable (cfg : Config) (o : Oracle)

/-- the abstract state `a` is what the store `s` holds -/
structure Rel (s : Store) (a : Abs) : Prop where
  bind : ∀ p, a.bind.get p = s.pidRefs.get (o.hId p)
  objs : ∀ c, a.objs.get c = s.objs.get c
  docs : ∀ p f, a.docs.get (p, f) = s.mdocs.get (o.hId p, o.hId (p ++ f))
  wf   : a.bind.WF

/-- metadata side of the concrete invariant -/
structure DocsOk (s : Store) : Prop where
  named : ∀ d n t, s.mdocs.get (d, n) = some t → ∃ p f, d = o.hId p ∧ n = o.hId (p ++ f)
  dir   : ∀ d n t, s.mdocs.get (d, n) = some t → (Area.mdata, d) ∈ s.dirs
  no_tmp : s.tmpMeta = 0

/-- the call left documents alone -/
structure DocsSame (s s' : Store) : Prop where
  mdocs : s'.mdocs = s.mdocs
  tmp   : s'.tmpMeta = s.tmpMeta
  dirs  : ∀ x ∈ s.dirs, x ∈ s'.dirs

theorem DocsSame.refl (s : Store) : DocsSame s s := ⟨rfl, rfl, fun _ h => h⟩

theorem DocsSame.trans {a b c : Store} (h1 : DocsSame a b) (h2 : DocsSame b c) : DocsSame a c :=
  ⟨h2.mdocs.trans h1.mdocs, h2.tmp.trans h1.tmp, fun x hx => h2.dirs x (h1.dirs x hx)⟩

theorem docsOk_same {s s' : Store} (h : DocsOk o s) (hs : DocsSame s s') : DocsOk o s' :=
  ⟨by intro d n t ht; rw [hs.mdocs] at ht; exact h.named d n t ht,
   by intro d n t ht; rw [hs.mdocs] at ht; exact hs.dirs _ (h.dir d n t ht),
   by rw [hs.tmp]; exact h.no_tmp⟩

variable {o}

/-- under the index invariant: referenced in the spec = the cid has a list -/
theorem referenced_rel {s : Store} {a : Abs} (hr : Rel o s a) (hi : RefsExact o s) (c : Str) :
    a.referenced c = (s.cidRefs.get c).isSome := by
  cases hc : s.cidRefs.get c with
  | none =>
    simp only [Option.isSome_none]
    rw [Abs.referenced_false_iff a hr.wf]
    intro q hq
    rw [hr.bind] at hq
    obtain ⟨_, _, _, t, ht, _⟩ := hi.pid_listed _ _ hq
    rw [hc] at ht; cases ht
  | some t =>
    simp only [Option.isSome_some]
    obtain ⟨ls, _, hne, _, hall⟩ := hi.list_ok c t hc
    cases ls with
    | nil => exact absurd rfl hne
    | cons p r =>
      have := (hall p (List.mem_cons_self ..)).2
      exact Abs.referenced_of_get (by rw [hr.bind]; exact this)

variable (o)

theorem tagObj_err_pid (a : Abs) {pid cid : SArg} {e : Exc} (h : checkString pid = .error e) :
    Abs.tagObj a pid cid = (.error e, a) := by
  simp [Abs.tagObj, h]

theorem tagObj_err_cid (a : Abs) {pid cid : SArg} {p : Str} {e : Exc} (h : checkString pid = .ok p)
    (h2 : checkString cid = .error e) : Abs.tagObj a pid cid = (.error e, a) := by
  simp [Abs.tagObj, h, h2]

theorem tagObj_ok (a : Abs) {pid cid : SArg} {p c : Str} (h : checkString pid = .ok p)
    (h2 : checkString cid = .ok c) :
    Abs.tagObj a pid cid = ((a.tag p c).1.map fun _ => Val.unit, (a.tag p c).2) := by
  simp [Abs.tagObj, h, h2]

/-- `tag_object`: same result as the specification, related final states -/
theorem tag_refines (l : List Str) (st : Store) (log : List Eff) (a : Abs) (pid cid : SArg)
    (hr : Rel o st a) (hi : RefsExact o st) (hinj : Inj o.hId) (hcp : ∀ c, cid = .str c → Plain c) :
    ∃ st' log', (tagObject cfg o pid cid).run (calmL l st log) = ((Abs.tagObj a pid cid).1, calmL l st' log') ∧
      Rel o st' (Abs.tagObj a pid cid).2 ∧ RefsExact o st' ∧ DocsSame st st' ∧ st'.objs = st.objs := by
  cases hpc : checkString pid with
  | error e =>
    rw [tagObj_err_pid a hpc]
    refine ⟨st, log, ?_, hr, hi, DocsSame.refl st, rfl⟩
    simp [tagObject, runsimp, hpc, calmL]
  | ok p =>
    cases hcc : checkString cid with
    | error e =>
      rw [tagObj_err_cid a hpc hcc]
      refine ⟨st, log, ?_, hr, hi, DocsSame.refl st, rfl⟩
      simp [tagObject, runsimp, hpc, hcc, calmL]
    | ok c =>
      rw [tagObj_ok a hpc hcc]
      obtain ⟨hp1, hp⟩ := checkString_ok_inv hpc
      obtain ⟨hc1, hc⟩ := checkString_ok_inv hcc
      subst hp1 hc1
      cases h1 : st.pidRefs.get (o.hId p) with
      | some x =>
        have hb : a.bind.get p = some x := by rw [hr.bind]; exact h1
        rw [Abs.tag_bound c hb]
        cases h2 : st.cidRefs.get c with
        | some t =>
          have href : a.referenced c = true := by rw [referenced_rel hr hi, h2]; rfl
          simp only [href, if_true, Except.map]
          exact ⟨_, _, tag_both cfg o l st log p c x t hp hc h1 h2, ⟨hr.bind, hr.objs, hr.docs, hr.wf⟩,
            refsExact_dirs o st _ hi, ⟨rfl, rfl, fun x hx => by simp [hx]⟩, rfl⟩
        | none =>
          have href : a.referenced c = false := by rw [referenced_rel hr hi, h2]; rfl
          simp only [href, Bool.false_eq_true, if_false, Except.map]
          exact ⟨_, _, tag_pid_only cfg o l st log p c x hp hc h1 h2, ⟨hr.bind, hr.objs, hr.docs, hr.wf⟩,
            refsExact_dirs o st _ hi, ⟨rfl, rfl, fun x hx => by simp [hx]⟩, rfl⟩
      | none =>
        have hb : a.bind.get p = none := by rw [hr.bind]; exact h1
        rw [Abs.tag_unbound c hb]
        simp only [Except.map]
        have hrel : ∀ (cr : FMap Str Str) (d : List (Area × Str)),
            Rel o { st with pidRefs := st.pidRefs.set (o.hId p) c, cidRefs := cr, dirs := d }
              { a with bind := a.bind.set p c } := by
          intro cr d
          refine ⟨?_, hr.objs, hr.docs, FMap.wf_set _ _ _ hr.wf⟩
          intro q
          simp only
          rw [FMap.get_set, FMap.get_set]
          by_cases e : p = q
          · subst e; simp
          · have : o.hId p ≠ o.hId q := fun e2 => e (hinj _ _ e2)
            simp [e, this, hr.bind]
        cases h2 : st.cidRefs.get c with
        | some t =>
          obtain ⟨ls, hls, hne, hnd, hall⟩ := hi.list_ok c t h2
          subst hls
          have hsp : ∀ l ∈ ls, hasSpace l = false := fun l hl => nospace_of_ok (hall l hl).1
          have hnot : p ∉ ls := by
            intro hin; have := (hall p hin).2; rw [h1] at this; cases this
          exact ⟨_, _, tag_cid_only cfg o l st log p c ls hp hc h1 h2 hsp hnot, hrel _ _,
            exact_tag_append o st p c ls _ hi hp h1 h2 hsp, ⟨rfl, rfl, fun x hx => by simp [hx]⟩, rfl⟩
        | none =>
          exact ⟨_, _, tag_neither cfg o l st log p c hp hc h1 h2, hrel _ _,
            exact_tag_new_list o st p c _ hi hp h1 h2 (hcp c rfl), ⟨rfl, rfl, fun x hx => by simp [hx]⟩, rfl⟩

end HS
