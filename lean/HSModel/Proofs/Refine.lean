/-
  Refine — the concrete calls, run sequentially with free locks and no fault
  plan, compute what `Abs.step` says: same result, related final states.
  Helper lemmas; the statements a reader should look at are in Props/Refinement.lean.
-/
import HSModel.Proofs.RefineBase
import HSModel.Proofs.RefsSafe
namespace HS
variable (cfg : Config) (o : Oracle)

/-- the abstract state `a` is what the store `s` holds -/
structure Rel (s : Store) (a : Abs) : Prop where
  bind : ∀ p, a.bind.get p = s.pidRefs.get (o.hId p)
  objs : ∀ c, a.objs.get c = s.objs.get c
  docs : ∀ p f, a.docs.get (p, f) = s.mdocs.get (o.hId p, o.hId (p ++ f))
  wf   : a.bind.WF

/-- metadata side of the concrete invariant -/
structure DocsOk (s : Store) : Prop where
  named : ∀ d n t, s.mdocs.get (d, n) = some t → ∃ p f, d = o.hId p ∧ n = o.hId (p ++ f)
  dir   : ∀ d n t, s.mdocs.get (d, n) = some t → (Area.mdata, d) ∈ s.dirs
  no_tmp : s.tmpMeta = 0

/-- the call left documents alone -/
structure DocsSame (s s' : Store) : Prop where
  mdocs : s'.mdocs = s.mdocs
  tmp   : s'.tmpMeta = s.tmpMeta
  dirs  : ∀ x ∈ s.dirs, x ∈ s'.dirs

theorem DocsSame.refl (s : Store) : DocsSame s s := ⟨rfl, rfl, fun _ h => h⟩

theorem DocsSame.trans {a b c : Store} (h1 : DocsSame a b) (h2 : DocsSame b c) : DocsSame a c :=
  ⟨h2.mdocs.trans h1.mdocs, h2.tmp.trans h1.tmp, fun x hx => h2.dirs x (h1.dirs x hx)⟩

theorem docsOk_same {s s' : Store} (h : DocsOk o s) (hs : DocsSame s s') : DocsOk o s' :=
  ⟨by intro d n t ht; rw [hs.mdocs] at ht; exact h.named d n t ht,
   by intro d n t ht; rw [hs.mdocs] at ht; exact hs.dirs _ (h.dir d n t ht),
   by rw [hs.tmp]; exact h.no_tmp⟩

variable {o}

/-- under the index invariant: referenced in the spec = the cid has a list -/
theorem referenced_rel {s : Store} {a : Abs} (hr : Rel o s a) (hi : RefsExact o s) (c : Str) :
    a.referenced c = (s.cidRefs.get c).isSome := by
  cases hc : s.cidRefs.get c with
  | none =>
    simp only [Option.isSome_none]
    rw [Abs.referenced_false_iff a hr.wf]
    intro q hq
    rw [hr.bind] at hq
    obtain ⟨_, _, _, t, ht, _⟩ := hi.pid_listed _ _ hq
    rw [hc] at ht; cases ht
  | some t =>
    simp only [Option.isSome_some]
    obtain ⟨ls, _, hne, _, hall⟩ := hi.list_ok c t hc
    cases ls with
    | nil => exact absurd rfl hne
    | cons p r =>
      have := (hall p (List.mem_cons_self ..)).2
      exact Abs.referenced_of_get (by rw [hr.bind]; exact this)

variable (o)

theorem tagObj_err_pid (a : Abs) {pid cid : SArg} {e : Exc} (h : checkString pid = .error e) :
    Abs.tagObj a pid cid = (.error e, a) := by
  simp [Abs.tagObj, h]

theorem tagObj_err_cid (a : Abs) {pid cid : SArg} {p : Str} {e : Exc} (h : checkString pid = .ok p)
    (h2 : checkString cid = .error e) : Abs.tagObj a pid cid = (.error e, a) := by
  simp [Abs.tagObj, h, h2]

theorem tagObj_ok (a : Abs) {pid cid : SArg} {p c : Str} (h : checkString pid = .ok p)
    (h2 : checkString cid = .ok c) :
    Abs.tagObj a pid cid = ((a.tag p c).1.map fun _ => Val.unit, (a.tag p c).2) := by
  simp [Abs.tagObj, h, h2]

/-- `tag_object`: same result as the specification, related final states -/
theorem tag_refines (l : List Str) (st : Store) (log : List Eff) (a : Abs) (pid cid : SArg)
    (hr : Rel o st a) (hi : RefsExact o st) (hinj : Inj o.hId) (hcp : ∀ c, cid = .str c → Plain c) :
    ∃ st' log', (tagObject cfg o pid cid).run (calmL l st log) = ((Abs.tagObj a pid cid).1, calmL l st' log') ∧
      Rel o st' (Abs.tagObj a pid cid).2 ∧ RefsExact o st' ∧ DocsSame st st' ∧ st'.objs = st.objs := by
  cases hpc : checkString pid with
  | error e =>
    rw [tagObj_err_pid a hpc]
    refine ⟨st, log, ?_, hr, hi, DocsSame.refl st, rfl⟩
    simp [tagObject, runsimp, hpc, calmL]
  | ok p =>
    cases hcc : checkString cid with
    | error e =>
      rw [tagObj_err_cid a hpc hcc]
      refine ⟨st, log, ?_, hr, hi, DocsSame.refl st, rfl⟩
      simp [tagObject, runsimp, hpc, hcc, calmL]
    | ok c =>
      rw [tagObj_ok a hpc hcc]
      obtain ⟨hp1, hp⟩ := checkString_ok_inv hpc
      obtain ⟨hc1, hc⟩ := checkString_ok_inv hcc
      subst hp1 hc1
      cases h1 : st.pidRefs.get (o.hId p) with
      | some x =>
        have hb : a.bind.get p = some x := by rw [hr.bind]; exact h1
        rw [Abs.tag_bound c hb]
        cases h2 : st.cidRefs.get c with
        | some t =>
          have href : a.referenced c = true := by rw [referenced_rel hr hi, h2]; rfl
          simp only [href, if_true, Except.map]
          exact ⟨_, _, tag_both cfg o l st log p c x t hp hc h1 h2, ⟨hr.bind, hr.objs, hr.docs, hr.wf⟩,
            refsExact_dirs o st _ hi, ⟨rfl, rfl, fun x hx => by simp [hx]⟩, rfl⟩
        | none =>
          have href : a.referenced c = false := by rw [referenced_rel hr hi, h2]; rfl
          simp only [href, Bool.false_eq_true, if_false, Except.map]
          exact ⟨_, _, tag_pid_only cfg o l st log p c x hp hc h1 h2, ⟨hr.bind, hr.objs, hr.docs, hr.wf⟩,
            refsExact_dirs o st _ hi, ⟨rfl, rfl, fun x hx => by simp [hx]⟩, rfl⟩
      | none =>
        have hb : a.bind.get p = none := by rw [hr.bind]; exact h1
        rw [Abs.tag_unbound c hb]
        simp only [Except.map]
        have hrel : ∀ (cr : FMap Str Str) (d : List (Area × Str)),
            Rel o { st with pidRefs := st.pidRefs.set (o.hId p) c, cidRefs := cr, dirs := d }
              { a with bind := a.bind.set p c } := by
          intro cr d
          refine ⟨?_, hr.objs, hr.docs, FMap.wf_set _ _ _ hr.wf⟩
          intro q
          simp only
          rw [FMap.get_set, FMap.get_set]
          by_cases e : p = q
          · subst e; simp
          · have : o.hId p ≠ o.hId q := fun e2 => e (hinj _ _ e2)
            simp [e, this, hr.bind]
        cases h2 : st.cidRefs.get c with
        | some t =>
          obtain ⟨ls, hls, hne, hnd, hall⟩ := hi.list_ok c t h2
          subst hls
          have hsp : ∀ l ∈ ls, hasSpace l = false := fun l hl => nospace_of_ok (hall l hl).1
          have hnot : p ∉ ls := by
            intro hin; have := (hall p hin).2; rw [h1] at this; cases this
          exact ⟨_, _, tag_cid_only cfg o l st log p c ls hp hc h1 h2 hsp hnot, hrel _ _,
            exact_tag_append o st p c ls _ hi hp h1 h2 hsp, ⟨rfl, rfl, fun x hx => by simp [hx]⟩, rfl⟩
        | none =>
          exact ⟨_, _, tag_neither cfg o l st log p c hp hc h1 h2, hrel _ _,
            exact_tag_new_list o st p c _ hi hp h1 h2 (hcp c rfl), ⟨rfl, rfl, fun x hx => by simp [hx]⟩, rfl⟩

/-- the simulation invariant: the abstract state is what the store holds, and the store is consistent -/
structure Sim (s : Store) (a : Abs) : Prop where
  rel  : Rel o s a
  refs : RefsExact o s
  docs : DocsOk o s

theorem docsPlainM_of_ok {s : Store} (h : DocsOk o s) (hid : PlainIds o) : DocsPlainM s.mdocs s.dirs := by
  intro d n t ht
  obtain ⟨p, f, _, hn⟩ := h.named d n t ht
  exact ⟨hn ▸ hid _, h.dir d n t ht⟩

theorem deleteObj_err (a : Abs) {pid : SArg} {e : Exc} (h : checkString pid = .error e) :
    Abs.deleteObj a pid = (.error e, a) := by
  simp [Abs.deleteObj, h]

theorem deleteObj_unbound (a : Abs) {pid : SArg} {p : Str} (h : checkString pid = .ok p) (hb : a.bind.get p = none) :
    Abs.deleteObj a pid = (.error .pidRefsDoesNotExist, a) := by
  simp [Abs.deleteObj, h, hb]

theorem deleteObj_bound (a : Abs) {pid : SArg} {p c : Str} (h : checkString pid = .ok p) (hb : a.bind.get p = some c) :
    Abs.deleteObj a pid = (.ok .unit,
      { objs := if ({ a with bind := a.bind.del p } : Abs).referenced c then a.objs else a.objs.del c,
        bind := a.bind.del p, docs := a.dropDocs p }) := by
  simp [Abs.deleteObj, h, hb]

/-- `delete_object`: same result as the specification, related final states -/
theorem delete_refines (st : Store) (log : List Eff) (a : Abs) (pid : SArg)
    (hs : Sim o st a) (hid : PlainIds o) (hinj : Inj o.hId) :
    ∃ w', (deleteObject cfg o pid).run (calm st log) = ((Abs.deleteObj a pid).1, w') ∧
      w'.lk = {} ∧ w'.fault = none ∧ Sim o w'.st (Abs.deleteObj a pid).2 := by
  obtain ⟨hr, hi, hd⟩ := hs
  cases hpc : checkString pid with
  | error e =>
    rw [deleteObj_err a hpc]
    refine ⟨calm st log, ?_, rfl, rfl, ⟨hr, hi, hd⟩⟩
    simp [deleteObject, runsimp, hpc, calm]
  | ok p =>
    obtain ⟨hp1, hp⟩ := checkString_ok_inv hpc
    subst hp1
    cases h1 : st.pidRefs.get (o.hId p) with
    | none =>
      have hb : a.bind.get p = none := by rw [hr.bind]; exact h1
      rw [deleteObj_unbound a hpc hb]
      exact ⟨calm st log, delete_unknown cfg o st log p hp h1, rfl, rfl, ⟨hr, hi, hd⟩⟩
    | some c =>
      have hb : a.bind.get p = some c := by rw [hr.bind]; exact h1
      rw [deleteObj_bound a hpc hb]
      obtain ⟨ls, w', h2, hsp, hmem, hrun, hlk, hnf, htr, hto, hpid, hcid, hobj⟩ :=
        delete_effect o cfg st log p c hi hid (fun r e => hinj r p e) hp h1
      obtain ⟨r2, w2, hrun2, hdd⟩ := delete_docs cfg o st log p c ls hp h1 h2 hsp hmem (docsPlainM_of_ok o hd hid)
      rw [hrun] at hrun2
      injection hrun2 with _ hw
      subst hw
      refine ⟨w', hrun, hlk, hnf, ?_, ?_, ?_⟩
      · -- Rel
        have hwf1 : ({ a with bind := a.bind.del p } : Abs).bind.WF := FMap.wf_del _ _ hr.wf
        have href : ({ a with bind := a.bind.del p } : Abs).referenced c = true ↔
            ls.filter (fun l => !decide (l = p)) ≠ [] := by
          rw [Abs.referenced_iff _ hwf1]
          constructor
          · rintro ⟨q, hq⟩
            simp only at hq
            rw [FMap.get_del] at hq
            split at hq
            · cases hq
            · rename_i hne
              rw [hr.bind] at hq
              obtain ⟨q', hq', _, t, ht, hin⟩ := hi.pid_listed _ _ hq
              have := hinj _ _ hq'; subst this
              rw [h2] at ht; cases ht
              rw [inRefs_render q ls hsp] at hin
              have hq1 : q ∈ ls := by simpa using hin
              exact List.ne_nil_of_mem (List.mem_filter.2 ⟨hq1, by simpa using fun e => hne e.symm⟩)
          · intro hne
            obtain ⟨q, hq⟩ := List.exists_mem_of_ne_nil _ hne
            obtain ⟨hq1, hq2⟩ := List.mem_filter.1 hq
            have hqp : q ≠ p := by simpa using hq2
            obtain ⟨ls0, hls0, _, _, hall0⟩ := hi.list_ok c _ h2
            have hsp0 : ∀ l ∈ ls0, hasSpace l = false := fun l hl => nospace_of_ok (hall0 l hl).1
            have := renderLines_inj ls ls0 hsp hsp0 hls0
            subst this
            refine ⟨q, ?_⟩
            simp only
            rw [FMap.get_del_ne _ (fun e => hqp e.symm), hr.bind]
            exact (hall0 q hq1).2
        refine ⟨?_, ?_, ?_, FMap.wf_del _ _ hr.wf⟩
        · intro q
          simp only
          rw [hpid, FMap.get_del]
          by_cases e : p = q
          · subst e; simp
          · have : o.hId p ≠ o.hId q := fun e2 => e (hinj _ _ e2)
            simp [e, this, hr.bind]
        · intro j
          simp only
          rw [hobj]
          by_cases hrest : ls.filter (fun l => !decide (l = p)) = []
          · have : ({ a with bind := a.bind.del p } : Abs).referenced c = false := by
              cases hx : ({ a with bind := a.bind.del p } : Abs).referenced c with
              | false => rfl
              | true => exact absurd hrest (href.1 hx)
            rw [this]
            simp only [Bool.false_eq_true, if_false, hrest, and_true]
            rw [FMap.get_del]
            split <;> simp [hr.objs]
          · have : ({ a with bind := a.bind.del p } : Abs).referenced c = true := href.2 hrest
            rw [this]
            simp [hrest, hr.objs]
        · intro q g
          simp only
          rw [Abs.dropDocs_get, hdd.get]
          by_cases e : q = p
          · subst e; simp
          · have : o.hId q ≠ o.hId p := fun e2 => e (hinj _ _ e2)
            simp [e, this, hr.docs]
      · -- RefsExact
        refine exact_delete_core o st w'.st p c ls hi (fun r e => hinj r p e) h1 h2 hsp hpid hcid ?_ ⟨htr, hto⟩
        intro j y hy
        rw [hobj] at hy
        split at hy
        · cases hy
        · exact hy
      · -- DocsOk
        refine ⟨?_, ?_, by rw [hdd.tmp]; exact hd.no_tmp⟩
        · intro d n t ht
          rw [hdd.get] at ht
          split at ht
          · cases ht
          · exact hd.named d n t ht
        · intro d n t ht
          rw [hdd.get] at ht
          split at ht
          · cases ht
          · rw [hdd.dirs]; exact hd.dir d n t ht

/-- digests are acceptable identifiers (non-empty, no white space: they are hexadecimal) -/
def OkDigests : Prop := ∀ a t, checkStringOk (o.dig a t) = true

theorem strArg_eq (c : SArg) : strArg c = Abs.sArgStr c := by cases c <;> rfl

/-- what `_move_and_get_checksums` leaves: the simulation with `addObj` (or with the same state on a refusal) -/
theorem sim_after_place (st st1 : Store) (a : Abs) (t : Tok) (placed : Bool)
    (hs : Sim o st a) (hdg : PlainDigests o)
    (hp : st1.pidRefs = st.pidRefs) (hc : st1.cidRefs = st.cidRefs) (htr : st1.tmpRefs = st.tmpRefs)
    (hto : st1.tmpObj = st.tmpObj) (hm : st1.mdocs = st.mdocs) (htm : st1.tmpMeta = st.tmpMeta)
    (hdirs : ∀ x ∈ st.dirs, x ∈ st1.dirs)
    (hobj : ∀ j, st1.objs.get j =
      if placed = true ∧ st.objs.get (o.dig cfg.alg t) = none ∧ o.dig cfg.alg t = j then some t else st.objs.get j) :
    Sim o st1 (if placed then a.addObj (o.dig cfg.alg t) t else a) := by
  obtain ⟨hr, hi, hd⟩ := hs
  refine ⟨?_, ?_, docsOk_same o hd ⟨hm, htm, hdirs⟩⟩
  · cases placed with
    | false =>
      simp only [Bool.false_eq_true, false_and, if_false] at hobj ⊢
      exact ⟨by intro q; rw [hp]; exact hr.bind q, by intro j; rw [hobj]; exact hr.objs j,
        by intro q f; rw [hm]; exact hr.docs q f, hr.wf⟩
    | true =>
      simp only [true_and, if_true] at hobj ⊢
      refine ⟨by intro q; rw [hp, Abs.addObj_bind]; exact hr.bind q, ?_,
        by intro q f; rw [hm, Abs.addObj_docs]; exact hr.docs q f, by rw [Abs.addObj_bind]; exact hr.wf⟩
      intro j
      rw [hobj]
      unfold Abs.addObj
      cases hx : st.objs.get (o.dig cfg.alg t) with
      | none =>
        have : a.objs.contains (o.dig cfg.alg t) = false := by simp [FMap.contains, hr.objs, hx]
        simp only [this, Bool.false_eq_true, if_false, true_and]
        rw [FMap.get_set]
        by_cases e : o.dig cfg.alg t = j
        · simp [e]
        · simp [e, hr.objs]
      | some y =>
        have : a.objs.contains (o.dig cfg.alg t) = true := by simp [FMap.contains, hr.objs, hx]
        simp [this, hr.objs]
  · refine ⟨?_, ?_, by rw [htr, hto]; exact hi.no_tmp, ?_, ?_⟩
    · intro k c hk; rw [hp] at hk; rw [hc]; exact hi.pid_listed k c hk
    · intro c x hx; rw [hc] at hx; rw [hp]; exact hi.list_ok c x hx
    · intro c x hx; rw [hc] at hx; exact hi.cid_plain c x hx
    · intro c x hx
      rw [hobj] at hx
      split at hx
      · rename_i h; rw [← h.2.2]; exact hdg _ _
      · exact hi.obj_plain c x hx

theorem storeObject_pid_unfold (pid : SArg) (data : DataArg) (additional checksum csAlg : SArg) (expSize : IArg)
    (hnone : pid ≠ .none) :
    storeObject cfg o pid data additional checksum csAlg expSize =
      (do
        let p ← PE.ofExcept (checkString pid)
        PE.ofExcept (checkArgData data)
        PE.ofExcept (checkInteger expSize)
        let (add', cs') ← PE.ofExcept (checkArgAlgorithmsAndChecksum cfg.alg additional checksum csAlg)
        if ← inProgress p then throw Exc.storeObjectInProgress
        PE.withFinally (do
            acquire .objPid p
            let t ← PE.ofExcept (openStream data)
            let m ← moveAndGetChecksums cfg o (some p) t add' cs' (strArg checksum) expSize
            let _ ← tagObject cfg o (.str p) (.str m.cid)
            return .objMeta m)
          (release .objPid p) : PE Val) := by
  cases pid with
  | none => exact absurd rfl hnone
  | other => rfl
  | str s => rfl

/-- `store_object(pid, …)`: same result as the specification, related final states -/
theorem store_refines (st : Store) (log : List Eff) (a : Abs) (pid : SArg) (data : DataArg)
    (additional checksum csAlg : SArg) (expSize : IArg) (hnone : pid ≠ .none)
    (hs : Sim o st a) (hdg : PlainDigests o) (hok : OkDigests o) (hinj : Inj o.hId) :
    ∃ w', (storeObject cfg o pid data additional checksum csAlg expSize).run (calm st log) =
        ((Abs.storeObj cfg o a pid data additional checksum csAlg expSize).1, w') ∧
      w'.lk = {} ∧ w'.fault = none ∧
      Sim o w'.st (Abs.storeObj cfg o a pid data additional checksum csAlg expSize).2 := by
  rw [storeObject_pid_unfold cfg o pid data additional checksum csAlg expSize hnone]
  cases hpc : checkString pid with
  | error e =>
    have hspec : Abs.storeObj cfg o a pid data additional checksum csAlg expSize = (.error e, a) := by
      simp [Abs.storeObj, Abs.storeArgs, hpc]
    rw [hspec]
    exact ⟨calm st log, by simp [runsimp], rfl, rfl, hs⟩
  | ok p =>
    cases hd : checkArgData data with
    | error e =>
      have hspec : Abs.storeObj cfg o a pid data additional checksum csAlg expSize = (.error e, a) := by
        simp [Abs.storeObj, Abs.storeArgs, hpc, hd]
      rw [hspec]
      exact ⟨calm st log, by simp [runsimp], rfl, rfl, hs⟩
    | ok _ =>
      cases hi : checkInteger expSize with
      | error e =>
        have hspec : Abs.storeObj cfg o a pid data additional checksum csAlg expSize = (.error e, a) := by
          simp [Abs.storeObj, Abs.storeArgs, hpc, hd, hi]
        rw [hspec]
        exact ⟨calm st log, by simp [runsimp], rfl, rfl, hs⟩
      | ok _ =>
        cases hac : checkArgAlgorithmsAndChecksum cfg.alg additional checksum csAlg with
        | error e =>
          have hspec : Abs.storeObj cfg o a pid data additional checksum csAlg expSize = (.error e, a) := by
            simp [Abs.storeObj, Abs.storeArgs, hpc, hd, hi, hac]
          rw [hspec]
          exact ⟨calm st log, by simp [runsimp], rfl, rfl, hs⟩
        | ok ac =>
          obtain ⟨add', cs'⟩ := ac
          cases hst : openStream data with
          | error e =>
            have hspec : Abs.storeObj cfg o a pid data additional checksum csAlg expSize = (.error e, a) := by
              simp [Abs.storeObj, Abs.storeArgs, hpc, hd, hi, hac, hst]
            rw [hspec]
            exact ⟨calm st log, by simp [runsimp, calm, calmL], rfl, rfl, hs⟩
          | ok t =>
            have hargs : Abs.storeArgs cfg pid data additional checksum csAlg expSize = .ok (p, add', cs', t) := by
              simp [Abs.storeArgs, hpc, hd, hi, hac, hst]
            obtain ⟨st1, log1, hrun1, f1, f2, f3, f4, f5, f6, f7, f8⟩ :=
              mv_run_pid_spec cfg o [p] st log p t add' cs' (strArg checksum) expSize
            simp only [calmL] at hrun1
            cases hv : (verdict ((refineAlgorithmList defaultAlgos add' cs').map fun a => (a, o.dig a t))
                (fun a => o.dig a t) (o.size t) expSize (strArg checksum) cs').exc with
            | some e =>
              have hspec : Abs.storeObj cfg o a pid data additional checksum csAlg expSize = (.error e, a) := by
                simp only [Abs.storeObj, hargs]
                rw [← strArg_eq]
                simp only [Abs.objMetaOf]
                rw [hv]
              rw [hspec]
              rw [hv] at hrun1
              have hsim := sim_after_place cfg o st st1 a t false hs hdg f1 f2 f3 f4 f5 f6 f7
                (by intro j; rw [f8 j, hv]; simp)
              have hsim' : Sim o st1 a := by simpa using hsim
              refine ⟨calm st1 (log1), ?_, rfl, rfl, hsim'⟩
              simp [runsimp, calm, calmL, Prog.run_bind, Prog.run_bind_pe, hrun1]
            | none =>
              rw [hv] at hrun1
              have hsim1 := sim_after_place cfg o st st1 a t true hs hdg f1 f2 f3 f4 f5 f6 f7
                (by intro j; rw [f8 j, hv]; simp)
              have hsim1' : Sim o st1 (a.addObj (o.dig cfg.alg t) t) := by simpa using hsim1
              obtain ⟨hr1, hi1, hd1⟩ := hsim1'
              obtain ⟨st2, log2, hrun2, hr2, hi2, hds2, _⟩ :=
                tag_refines cfg o [p] st1 log1 (a.addObj (o.dig cfg.alg t) t) (.str p) (.str (o.dig cfg.alg t))
                  hr1 hi1 hinj (by intro c hc; cases hc; exact hdg _ _)
              simp only [calmL] at hrun2
              obtain ⟨_, hpok⟩ := checkString_ok_inv hpc
              have hcid : checkString (.str (o.dig cfg.alg t)) = .ok (o.dig cfg.alg t) := checkString_of_ok (hok _ _)
              have hpstr : checkString (.str p) = .ok p := checkString_of_ok hpok
              have htag := tagObj_ok (a.addObj (o.dig cfg.alg t) t) hpstr hcid
              have hspec : Abs.storeObj cfg o a pid data additional checksum csAlg expSize =
                  (((a.addObj (o.dig cfg.alg t) t).tag p (o.dig cfg.alg t)).1.map
                      fun _ => Val.objMeta (Abs.objMetaOf cfg o t add' cs'),
                   ((a.addObj (o.dig cfg.alg t) t).tag p (o.dig cfg.alg t)).2) := by
                simp only [Abs.storeObj, hargs]
                rw [← strArg_eq]
                simp only [Abs.objMetaOf]
                rw [hv]
              rw [hspec]
              rw [htag] at hrun2 hr2
              have hd2 := docsOk_same o hd1 hds2
              refine ⟨calm st2 log2, ?_, rfl, rfl, ⟨hr2, hi2, hd2⟩⟩
              simp [runsimp, calm, calmL, Prog.run_bind, Prog.run_bind_pe, hrun1, hrun2]
              cases ((a.addObj (o.dig cfg.alg t) t).tag p (o.dig cfg.alg t)).1 <;> simp [runsimp, Except.map, Abs.objMetaOf]

end HS
