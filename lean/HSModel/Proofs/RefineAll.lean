/-
  RefineAll — every public call refines its clause of `Abs.step`; histories. Helper
  lemmas (the statements are repeated as property theorems in Props/C05.lean).
-/
import HSModel.Proofs.RefineRest
namespace HS
variable (cfg : Config) (o : Oracle)

/-- what is assumed of the hash functions: the identifier hash has no collision;
    hash and digest values are never `…_delete` names; digests are non-empty and
    contain no white space (all true of hexadecimal digests of a collision-free hash) -/
structure GoodOracle : Prop where
  inj : Inj o.hId
  plainIds : PlainIds o
  plainDigests : PlainDigests o
  okDigests : OkDigests o

/-- cids handed to `tag_object` are not deletion-marker names -/
def CidArgPlain : Call → Prop
  | .tagObject _ (.str c) => Plain c
  | _ => True

theorem sim_empty : Sim o Store.empty Abs.empty :=
  ⟨⟨fun _ => rfl, fun _ => rfl, fun _ _ => rfl, FMap.wf_empty⟩, refsExact_empty o,
   ⟨by intro d n t h; simp [Store.empty] at h, by intro d n t h; simp [Store.empty] at h, rfl⟩⟩

/-- one call: same result as the specification, free locks, no fault plan, simulation kept -/
theorem refines_step (c : Call) (st : Store) (log : List Eff) (a : Abs) (hs : Sim o st a) (ho : GoodOracle o)
    (hc : CidArgPlain c) :
    ∃ w', (c.prog cfg o).run (calm st log) = ((Abs.step cfg o a c).1, w') ∧ w'.lk = {} ∧ w'.fault = none ∧
      Sim o w'.st (Abs.step cfg o a c).2 := by
  cases c with
  | storeObject p d ad cks ca s =>
    by_cases hp : p = .none
    · subst hp
      exact storeData_refines cfg o st log a d ad cks ca s hs ho.plainDigests
    · have hstep : Abs.step cfg o a (.storeObject p d ad cks ca s) = Abs.storeObj cfg o a p d ad cks ca s := by
        cases p with
        | none => exact absurd rfl hp
        | other => rfl
        | str x => rfl
      rw [hstep]
      exact store_refines cfg o st log a p d ad cks ca s hp hs ho.plainDigests ho.okDigests ho.inj
  | tagObject p c =>
    obtain ⟨st', log', hrun, hr, hi, hds, _⟩ := tag_refines cfg o [] st log a p c hs.rel hs.refs ho.inj
      (by intro c' hc'; subst hc'; exact hc)
    exact ⟨calm st' log', hrun, rfl, rfl, ⟨hr, hi, docsOk_same o hs.docs hds⟩⟩
  | deleteIfInvalid om c ca s => exact div_refines cfg o st log a om c ca s hs
  | storeMetadata p d f => exact smeta_refines cfg o st log a p d f hs ho.inj
  | retrieveObject p =>
    obtain ⟨h1, h2⟩ := retrieve_refines cfg o st log a p hs ho.inj
    exact ⟨calm st log, h1, rfl, rfl, by simp only [Abs.step]; rw [h2]; exact hs⟩
  | retrieveMetadata p f =>
    obtain ⟨h1, h2⟩ := rmeta_refines cfg o st log a p f hs
    exact ⟨calm st log, h1, rfl, rfl, by simp only [Abs.step]; rw [h2]; exact hs⟩
  | deleteObject p => exact delete_refines cfg o st log a p hs ho.plainIds ho.inj
  | deleteMetadata p f => exact dmeta_refines cfg o st log a p f hs ho.plainIds ho.inj
  | getHexDigest p al =>
    obtain ⟨h1, h2⟩ := hex_refines cfg o st log a p al hs ho.inj
    exact ⟨calm st log, h1, rfl, rfl, by simp only [Abs.step]; rw [h2]; exact hs⟩

/-- a history run on the concrete model: results in order, final world -/
def runHist : List Call → World → List (Except Exc Val) × World
  | [], w => ([], w)
  | c :: r, w => (((c.prog cfg o).run w).1 :: (runHist r ((c.prog cfg o).run w).2).1,
                  (runHist r ((c.prog cfg o).run w).2).2)

/-- the same history on the specification -/
def specHist : List Call → Abs → List (Except Exc Val) × Abs
  | [], a => ([], a)
  | c :: r, a => ((Abs.step cfg o a c).1 :: (specHist r (Abs.step cfg o a c).2).1,
                  (specHist r (Abs.step cfg o a c).2).2)

theorem refines_history_from (cs : List Call) (w : World) (a : Abs) (hlk : w.lk = {}) (hnf : w.fault = none)
    (hs : Sim o w.st a) (ho : GoodOracle o) (hcs : ∀ c ∈ cs, CidArgPlain c) :
    (runHist cfg o cs w).1 = (specHist cfg o cs a).1 ∧
      Sim o (runHist cfg o cs w).2.st (specHist cfg o cs a).2 ∧
      (runHist cfg o cs w).2.lk = {} ∧ (runHist cfg o cs w).2.fault = none := by
  induction cs generalizing w a with
  | nil => exact ⟨rfl, hs, hlk, hnf⟩
  | cons c r ih =>
    have hw : w = calm w.st w.log := by
      obtain ⟨st, lk, fault, log⟩ := w
      simp only at hlk hnf
      subst hlk; subst hnf; rfl
    obtain ⟨w', hrun, hlk', hnf', hs'⟩ := refines_step cfg o c w.st w.log a hs ho (hcs c (List.mem_cons_self ..))
    rw [← hw] at hrun
    obtain ⟨h1, h2, h3, h4⟩ := ih w' (Abs.step cfg o a c).2 hlk' hnf' hs' (fun c' hc' => hcs c' (List.mem_cons_of_mem _ hc'))
    simp only [runHist, specHist, hrun]
    exact ⟨by rw [h1], h2, h3, h4⟩

/-- `refines_step` for a world given by its fields -/
theorem refines_step_world (c : Call) (w : World) (a : Abs) (hlk : w.lk = {}) (hnf : w.fault = none)
    (hs : Sim o w.st a) (ho : GoodOracle o) (hc : CidArgPlain c) :
    ∃ w', (c.prog cfg o).run w = ((Abs.step cfg o a c).1, w') ∧ w'.lk = {} ∧ w'.fault = none ∧
      Sim o w'.st (Abs.step cfg o a c).2 := by
  have hw : w = calm w.st w.log := by
    obtain ⟨st, lk, fault, log⟩ := w
    simp only at hlk hnf
    subst hlk; subst hnf; rfl
  rw [hw]
  exact refines_step cfg o c w.st w.log a hs ho hc

end HS
