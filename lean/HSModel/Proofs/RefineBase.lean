/-
  RefineBase — well-formed abstract states, and what `referenced` means for them.
  Helper lemmas for the refinement of the concrete calls to `Abs.step`.
-/
import HSModel.Proofs.AbsLemmas
namespace HS
namespace FMap
variable {K V : Type} [DecidableEq K]

/-- no key twice (what `set`/`del` maintain from `empty`) -/
def WF (m : FMap K V) : Prop := (m.entries.map (·.1)).Nodup

theorem wf_empty : (empty : FMap K V).WF := by simp [WF, empty]

theorem keys_delL_sub (l : List (K × V)) (k j : K) (h : j ∈ (delL l k).map (·.1)) : j ∈ l.map (·.1) ∧ j ≠ k := by
  induction l with
  | nil => simp [delL] at h
  | cons a r ih =>
    obtain ⟨k', v⟩ := a
    by_cases hk : k' = k
    · simp only [delL, hk, if_true] at h
      obtain ⟨h1, h2⟩ := ih h
      exact ⟨List.mem_cons_of_mem _ h1, h2⟩
    · simp only [delL, hk, if_false, List.map_cons, List.mem_cons] at h
      rcases h with h | h
      · subst h; exact ⟨by simp, hk⟩
      · obtain ⟨h1, h2⟩ := ih h
        exact ⟨List.mem_cons_of_mem _ h1, h2⟩

theorem nodup_delL (l : List (K × V)) (k : K) (h : (l.map (·.1)).Nodup) : ((delL l k).map (·.1)).Nodup := by
  induction l with
  | nil => simp [delL]
  | cons a r ih =>
    obtain ⟨k', v⟩ := a
    simp only [List.map_cons, List.nodup_cons] at h
    by_cases hk : k' = k
    · simp only [delL, hk, if_true]; exact ih h.2
    · simp only [delL, hk, if_false, List.map_cons, List.nodup_cons]
      exact ⟨fun hm => h.1 (keys_delL_sub r k k' hm).1, ih h.2⟩

theorem wf_del (m : FMap K V) (k : K) (h : m.WF) : (m.del k).WF := nodup_delL _ _ h

theorem wf_set (m : FMap K V) (k : K) (v : V) (h : m.WF) : (m.set k v).WF := by
  unfold WF set
  simp only [List.map_cons, List.nodup_cons]
  exact ⟨fun hm => (keys_delL_sub _ k k hm).2 rfl, nodup_delL _ _ h⟩

theorem getL_of_mem_nodup {l : List (K × V)} {k : K} {v : V} (hn : (l.map (·.1)).Nodup) (h : (k, v) ∈ l) :
    getL l k = some v := by
  induction l with
  | nil => cases h
  | cons a r ih =>
    obtain ⟨k', v'⟩ := a
    simp only [List.map_cons, List.nodup_cons] at hn
    rcases List.mem_cons.1 h with h | h
    · injection h with h1 h2; subst h1; subst h2; simp [getL]
    · have hne : k' ≠ k := by
        intro e; subst e
        exact hn.1 (List.mem_map.2 ⟨(k', v), h, rfl⟩)
      simp [getL, hne, ih hn.2 h]

theorem get_of_mem {m : FMap K V} {k : K} {v : V} (hw : m.WF) (h : (k, v) ∈ m.entries) : m.get k = some v :=
  getL_of_mem_nodup hw h

end FMap

namespace Abs

/-- for well-formed bindings: a cid is referenced iff some pid is bound to it -/
theorem referenced_iff (a : Abs) (hw : a.bind.WF) (c : Str) :
    a.referenced c = true ↔ ∃ q, a.bind.get q = some c := by
  constructor
  · intro h
    unfold referenced at h
    rw [List.any_eq_true] at h
    obtain ⟨⟨q, c'⟩, hm, hc⟩ := h
    simp at hc; subst hc
    exact ⟨q, FMap.get_of_mem hw hm⟩
  · rintro ⟨q, hq⟩; exact referenced_of_get hq

theorem referenced_false_iff (a : Abs) (hw : a.bind.WF) (c : Str) :
    a.referenced c = false ↔ ∀ q, a.bind.get q ≠ some c := by
  rw [← Bool.not_eq_true, referenced_iff a hw c]
  simp

end Abs
end HS
