/-
  RefineRead — the read-only calls compute what `Abs.step` says and change nothing.
  Helper lemmas.
-/
import HSModel.Proofs.Refine
namespace HS
variable (cfg : Config) (o : Oracle)

/-- `retrieve_object`: same result as the specification, world unchanged -/
theorem retrieve_refines (st : Store) (log : List Eff) (a : Abs) (pid : SArg)
    (hs : Sim o st a) (hinj : Inj o.hId) :
    (retrieveObject cfg o pid).run (calm st log) = ((Abs.retrieveObj a pid).1, calm st log) ∧
      (Abs.retrieveObj a pid).2 = a := by
  obtain ⟨hr, hi, hd⟩ := hs
  cases hpc : checkString pid with
  | error e =>
    have hspec : Abs.retrieveObj a pid = (.error e, a) := by simp [Abs.retrieveObj, hpc]
    rw [hspec]
    exact ⟨by simp [retrieveObject, runsimp, hpc], rfl⟩
  | ok p =>
    obtain ⟨hp1, hp⟩ := checkString_ok_inv hpc
    subst hp1
    cases h1 : st.pidRefs.get (o.hId p) with
    | none =>
      have hb : a.bind.get p = none := by rw [hr.bind]; exact h1
      have hspec : Abs.retrieveObj a (.str p) = (.error .pidRefsDoesNotExist, a) := by
        simp [Abs.retrieveObj, hpc, Abs.find, hb]
      rw [hspec]
      exact ⟨by simp [retrieveObject, findObject, runsimp, hpc, h1, calm, calmL], rfl⟩
    | some c =>
      have hb : a.bind.get p = some c := by rw [hr.bind]; exact h1
      obtain ⟨q, hq, _, t, h2, hin⟩ := hi.pid_listed _ _ h1
      have := hinj _ _ hq; subst this
      cases hobj : st.objs.get c with
      | none =>
        have hc : a.objs.contains c = false := by simp [FMap.contains, hr.objs, hobj]
        have hspec : Abs.retrieveObj a (.str p) = (.error .refsFileExistsButCidObjMissing, a) := by
          simp [Abs.retrieveObj, hpc, Abs.find, hb, hc]
        rw [hspec]
        exact ⟨by simp [retrieveObject, findObject, runsimp, hpc, h1, h2, hin, hobj, calm, calmL], rfl⟩
      | some x =>
        have hc : a.objs.contains c = true := by simp [FMap.contains, hr.objs, hobj]
        have hg : a.objs.get c = some x := by rw [hr.objs]; exact hobj
        by_cases hce : c = []
        · subst hce
          have hspec : Abs.retrieveObj a (.str p) = (.error .valueError, a) := by
            simp [Abs.retrieveObj, hpc, Abs.find, hb, hc]
          rw [hspec]
          exact ⟨by simp [retrieveObject, findObject, runsimp, hpc, h1, h2, hin, hobj, calm, calmL], rfl⟩
        · have hspec : Abs.retrieveObj a (.str p) = (.ok (.content x), a) := by
            simp [Abs.retrieveObj, hpc, Abs.find, hb, hc, hce, hg]
          rw [hspec]
          exact ⟨by simp [retrieveObject, findObject, runsimp, hpc, h1, h2, hin, hobj, hce, calm, calmL], rfl⟩

/-- `get_hex_digest`: same result as the specification, world unchanged -/
theorem hex_refines (st : Store) (log : List Eff) (a : Abs) (pid alg : SArg)
    (hs : Sim o st a) (hinj : Inj o.hId) :
    (getHexDigest cfg o pid alg).run (calm st log) = ((Abs.hexDigest o a pid alg).1, calm st log) ∧
      (Abs.hexDigest o a pid alg).2 = a := by
  obtain ⟨hr, hi, hd⟩ := hs
  cases hpc : checkString pid with
  | error e =>
    have hspec : Abs.hexDigest o a pid alg = (.error e, a) := by simp [Abs.hexDigest, hpc]
    rw [hspec]
    exact ⟨by simp [getHexDigest, runsimp, hpc], rfl⟩
  | ok p =>
    cases hac : checkString alg with
    | error e =>
      have hspec : Abs.hexDigest o a pid alg = (.error e, a) := by simp [Abs.hexDigest, hpc, hac]
      rw [hspec]
      exact ⟨by simp [getHexDigest, runsimp, hpc, hac], rfl⟩
    | ok al =>
      cases hcl : cleanAlgorithm al with
      | error e =>
        have hspec : Abs.hexDigest o a pid alg = (.error e, a) := by simp [Abs.hexDigest, hpc, hac, hcl]
        rw [hspec]
        exact ⟨by simp [getHexDigest, runsimp, hpc, hac, hcl], rfl⟩
      | ok a' =>
        obtain ⟨hp1, hp⟩ := checkString_ok_inv hpc
        subst hp1
        cases h1 : st.pidRefs.get (o.hId p) with
        | none =>
          have hb : a.bind.get p = none := by rw [hr.bind]; exact h1
          have hspec : Abs.hexDigest o a (.str p) alg = (.error .pidRefsDoesNotExist, a) := by
            simp [Abs.hexDigest, hpc, hac, hcl, Abs.find, hb]
          rw [hspec]
          exact ⟨by simp [getHexDigest, hexDigestCore, findObject, runsimp, hpc, hac, hcl, h1, calm, calmL], rfl⟩
        | some c =>
          have hb : a.bind.get p = some c := by rw [hr.bind]; exact h1
          obtain ⟨q, hq, _, t, h2, hin⟩ := hi.pid_listed _ _ h1
          have := hinj _ _ hq; subst this
          cases hobj : st.objs.get c with
          | none =>
            have hc : a.objs.contains c = false := by simp [FMap.contains, hr.objs, hobj]
            have hspec : Abs.hexDigest o a (.str p) alg = (.error .refsFileExistsButCidObjMissing, a) := by
              simp [Abs.hexDigest, hpc, hac, hcl, Abs.find, hb, hc]
            rw [hspec]
            exact ⟨by simp [getHexDigest, hexDigestCore, findObject, runsimp, hpc, hac, hcl, h1, h2, hin, hobj, calm, calmL], rfl⟩
          | some x =>
            have hc : a.objs.contains c = true := by simp [FMap.contains, hr.objs, hobj]
            have hg : a.objs.get c = some x := by rw [hr.objs]; exact hobj
            have hspec : Abs.hexDigest o a (.str p) alg = (.ok (.hex (o.dig a' x)), a) := by
              simp [Abs.hexDigest, hpc, hac, hcl, Abs.find, hb, hc, hg]
            rw [hspec]
            exact ⟨by simp [getHexDigest, hexDigestCore, findObject, runsimp, hpc, hac, hcl, h1, h2, hin, hobj, calm, calmL], rfl⟩

/-- `retrieve_metadata`: same result as the specification, world unchanged -/
theorem rmeta_refines (st : Store) (log : List Eff) (a : Abs) (pid fmt : SArg)
    (hs : Sim o st a) :
    (retrieveMetadata cfg o pid fmt).run (calm st log) = ((Abs.retrieveMeta cfg a pid fmt).1, calm st log) ∧
      (Abs.retrieveMeta cfg a pid fmt).2 = a := by
  obtain ⟨hr, hi, hd⟩ := hs
  cases hpc : checkString pid with
  | error e =>
    have hspec : Abs.retrieveMeta cfg a pid fmt = (.error e, a) := by simp [Abs.retrieveMeta, Abs.metaArgs, hpc]
    rw [hspec]
    exact ⟨by simp [retrieveMetadata, runsimp, hpc], rfl⟩
  | ok p =>
    cases hf : checkArgFormatId cfg.ns fmt with
    | error e =>
      have hspec : Abs.retrieveMeta cfg a pid fmt = (.error e, a) := by simp [Abs.retrieveMeta, Abs.metaArgs, hpc, hf]
      rw [hspec]
      exact ⟨by simp [retrieveMetadata, runsimp, hpc, hf], rfl⟩
    | ok f =>
      cases hdoc : st.mdocs.get (o.hId p, o.hId (p ++ f)) with
      | none =>
        have hg : a.docs.get (p, f) = none := by rw [hr.docs]; exact hdoc
        have hspec : Abs.retrieveMeta cfg a pid fmt = (.error .valueError, a) := by
          simp [Abs.retrieveMeta, Abs.metaArgs, hpc, hf, hg]
        rw [hspec]
        exact ⟨by simp [retrieveMetadata, runsimp, hpc, hf, hdoc, calm, calmL], rfl⟩
      | some x =>
        have hg : a.docs.get (p, f) = some x := by rw [hr.docs]; exact hdoc
        have hspec : Abs.retrieveMeta cfg a pid fmt = (.ok (.content x), a) := by
          simp [Abs.retrieveMeta, Abs.metaArgs, hpc, hf, hg]
        rw [hspec]
        exact ⟨by simp [retrieveMetadata, runsimp, hpc, hf, hdoc, calm, calmL], rfl⟩

end HS

namespace HS
variable (cfg : Config) (o : Oracle)

theorem refsExact_of_eq {s s' : Store} (h : RefsExact o s) (h1 : s'.pidRefs = s.pidRefs) (h2 : s'.cidRefs = s.cidRefs)
    (h3 : s'.objs = s.objs) (h4 : s'.tmpRefs = s.tmpRefs) (h5 : s'.tmpObj = s.tmpObj) : RefsExact o s' := by
  refine ⟨?_, ?_, by rw [h4, h5]; exact h.no_tmp, ?_, ?_⟩
  · intro k c hk; rw [h1] at hk; rw [h2]; exact h.pid_listed k c hk
  · intro c t hc; rw [h2] at hc; rw [h1]; exact h.list_ok c t hc
  · intro c t hc; rw [h2] at hc; exact h.cid_plain c t hc
  · intro c t hc; rw [h3] at hc; exact h.obj_plain c t hc

/-- `store_metadata`: same result as the specification, related final states -/
theorem smeta_refines (st : Store) (log : List Eff) (a : Abs) (pid : SArg) (data : DataArg) (fmt : SArg)
    (hs : Sim o st a) (hinj : Inj o.hId) :
    ∃ w', (storeMetadata cfg o pid data fmt).run (calm st log) = ((Abs.storeMeta cfg o a pid data fmt).1, w') ∧
      w'.lk = {} ∧ w'.fault = none ∧ Sim o w'.st (Abs.storeMeta cfg o a pid data fmt).2 := by
  obtain ⟨hr, hi, hd⟩ := hs
  cases hpc : checkString pid with
  | error e =>
    have hspec : Abs.storeMeta cfg o a pid data fmt = (.error e, a) := by simp [Abs.storeMeta, hpc]
    rw [hspec]
    exact ⟨calm st log, by simp [storeMetadata, runsimp, hpc], rfl, rfl, ⟨hr, hi, hd⟩⟩
  | ok p =>
    cases hda : checkArgData data with
    | error e =>
      have hspec : Abs.storeMeta cfg o a pid data fmt = (.error e, a) := by simp [Abs.storeMeta, hpc, hda]
      rw [hspec]
      exact ⟨calm st log, by simp [storeMetadata, runsimp, hpc, hda], rfl, rfl, ⟨hr, hi, hd⟩⟩
    | ok _ =>
      cases hf : checkArgFormatId cfg.ns fmt with
      | error e =>
        have hspec : Abs.storeMeta cfg o a pid data fmt = (.error e, a) := by simp [Abs.storeMeta, hpc, hda, hf]
        rw [hspec]
        exact ⟨calm st log, by simp [storeMetadata, runsimp, hpc, hda, hf], rfl, rfl, ⟨hr, hi, hd⟩⟩
      | ok f =>
        cases hst : openStream data with
        | error e =>
          have hspec : Abs.storeMeta cfg o a pid data fmt = (.error e, a) := by
            simp [Abs.storeMeta, hpc, hda, hf, hst]
          rw [hspec]
          exact ⟨calm st log, by simp [storeMetadata, withDocLock, runsimp, hpc, hda, hf, hst, calm, calmL], rfl, rfl,
            ⟨hr, hi, hd⟩⟩
        | ok t =>
          have hspec : Abs.storeMeta cfg o a pid data fmt =
              (.ok (.path (.mdoc (o.hId p) (o.hId (p ++ f)))), { a with docs := a.docs.set (p, f) t }) := by
            simp [Abs.storeMeta, hpc, hda, hf, hst]
          rw [hspec]
          refine ⟨calm { st with mdocs := st.mdocs.set (o.hId p, o.hId (p ++ f)) t,
                                 dirs := (Area.mdata, o.hId p) :: st.dirs }
              (log ++ [Eff.mkTmp .mdata, Eff.mkdirs .mdata (o.hId p), Eff.publishDoc (o.hId p) (o.hId (p ++ f)) t]),
            ?_, rfl, rfl, ?_⟩
          · simp [storeMetadata, withDocLock, runsimp, hpc, hda, hf, hst, calm, calmL]
          · refine ⟨⟨hr.bind, hr.objs, ?_, hr.wf⟩, refsExact_of_eq o hi rfl rfl rfl rfl rfl, ?_⟩
            · intro q g
              show (a.docs.set (p, f) t).get (q, g) = (st.mdocs.set (o.hId p, o.hId (p ++ f)) t).get (o.hId q, o.hId (q ++ g))
              rw [FMap.get_set, FMap.get_set]
              by_cases e : (p, f) = (q, g)
              · injection e with e1 e2; subst e1; subst e2; simp
              · have : (o.hId p, o.hId (p ++ f)) ≠ (o.hId q, o.hId (q ++ g)) := by
                  intro e2
                  injection e2 with e3 e4
                  have e5 := hinj _ _ e3
                  subst e5
                  have e6 := hinj _ _ e4
                  exact e (by rw [List.append_cancel_left e6])
                simp [e, this, hr.docs]
            · refine ⟨?_, ?_, hd.no_tmp⟩
              · intro d n x hx
                have hx' : (st.mdocs.set (o.hId p, o.hId (p ++ f)) t).get (d, n) = some x := hx
                rw [FMap.get_set] at hx'
                split at hx'
                · rename_i e; injection e with e1 e2; exact ⟨p, f, e1.symm, e2.symm⟩
                · exact hd.named d n x hx'
              · intro d n x hx
                have hx' : (st.mdocs.set (o.hId p, o.hId (p ++ f)) t).get (d, n) = some x := hx
                show (Area.mdata, d) ∈ (Area.mdata, o.hId p) :: st.dirs
                rw [FMap.get_set] at hx'
                split at hx'
                · rename_i e; injection e with e1 e2; simp [e1]
                · exact List.mem_cons_of_mem _ (hd.dir d n x hx')

end HS
