/-
  RefineRest — delete_metadata, store_object(None, data), delete_if_invalid_object:
  same result as the specification, related final states. Helper lemmas.
-/
import HSModel.Proofs.RefineRead
namespace HS
variable (cfg : Config) (o : Oracle)

/-- `delete_metadata`: same result as the specification, related final states -/
theorem dmeta_refines (st : Store) (log : List Eff) (a : Abs) (pid fmt : SArg)
    (hs : Sim o st a) (hid : PlainIds o) (hinj : Inj o.hId) :
    ∃ w', (deleteMetadata cfg o pid fmt).run (calm st log) = ((Abs.deleteMeta cfg a pid fmt).1, w') ∧
      w'.lk = {} ∧ w'.fault = none ∧ Sim o w'.st (Abs.deleteMeta cfg a pid fmt).2 := by
  obtain ⟨hr, hi, hd⟩ := hs
  cases hpc : checkString pid with
  | error e =>
    have hspec : Abs.deleteMeta cfg a pid fmt = (.error e, a) := by simp [Abs.deleteMeta, Abs.metaArgs, hpc]
    rw [hspec]
    exact ⟨calm st log, by simp [deleteMetadata, runsimp, hpc], rfl, rfl, ⟨hr, hi, hd⟩⟩
  | ok p =>
    cases hf : checkArgFormatId cfg.ns fmt with
    | error e =>
      have hspec : Abs.deleteMeta cfg a pid fmt = (.error e, a) := by simp [Abs.deleteMeta, Abs.metaArgs, hpc, hf]
      rw [hspec]
      exact ⟨calm st log, by simp [deleteMetadata, runsimp, hpc, hf], rfl, rfl, ⟨hr, hi, hd⟩⟩
    | ok f =>
      have hnf : (calm st log).fault = none := rfl
      have hdoc : (calm st log).lk.doc = [] := rfl
      by_cases hfn : fmt = .none
      · subst hfn
        have hspec : Abs.deleteMeta cfg a pid .none = (.ok .unit, { a with docs := a.dropDocs p }) := by
          simp [Abs.deleteMeta, Abs.metaArgs, hpc, hf]
        rw [hspec]
        obtain ⟨hfr, hget⟩ := dmc_all o p (calm st log) hnf hdoc (docsPlainM_of_ok o hd hid)
        have hsame := dmc_same o p none (calm st log) hnf hdoc
        refine ⟨dmcWorld o p none (calm st log), ?_, hsame.lk, hsame.nf.trans hnf, ?_⟩
        · simp [deleteMetadata, runsimp, hpc, hf, Prog.run_bind_pe, dmc_run_eq o p none (calm st log) hnf hdoc]
        · refine ⟨⟨by intro q; rw [hsame.pid]; exact hr.bind q, by intro c; rw [hsame.obj]; exact hr.objs c, ?_, hr.wf⟩,
            refsExact_of_eq o hi hsame.pid hsame.cid hsame.obj hsame.tr hsame.to, ?_⟩
          · intro q g
            show (a.dropDocs p).get (q, g) = _
            rw [Abs.dropDocs_get, hget]
            by_cases e : q = p
            · subst e; simp
            · have : o.hId q ≠ o.hId p := fun e2 => e (hinj _ _ e2)
              simp [e, this]
              exact hr.docs q g
          · refine ⟨?_, ?_, by rw [hfr.tmp]; exact hd.no_tmp⟩
            · intro d n x hx
              rw [hget] at hx
              split at hx
              · cases hx
              · exact hd.named d n x hx
            · intro d n x hx
              rw [hget] at hx
              split at hx
              · cases hx
              · rw [hfr.dirs]; exact hd.dir d n x hx
      · have hsel : (match fmt with | .none => (none : Option Str) | _ => some f) = some f := by
          cases fmt with
          | none => exact absurd rfl hfn
          | other => rfl
          | str s => rfl
        have hspec : Abs.deleteMeta cfg a pid fmt = (.ok .unit, { a with docs := a.docs.del (p, f) }) := by
          cases fmt with
          | none => exact absurd rfl hfn
          | other => simp [Abs.deleteMeta, Abs.metaArgs, hpc, hf]
          | str s => simp [Abs.deleteMeta, Abs.metaArgs, hpc, hf]
        rw [hspec]
        obtain ⟨hfr, hget⟩ := dmc_one o p f (calm st log) hnf hdoc
        have hsame := dmc_same o p (some f) (calm st log) hnf hdoc
        refine ⟨dmcWorld o p (some f) (calm st log), ?_, hsame.lk, hsame.nf.trans hnf, ?_⟩
        · simp [deleteMetadata, runsimp, hpc, hf, hsel, Prog.run_bind_pe, dmc_run_eq o p (some f) (calm st log) hnf hdoc]
        · refine ⟨⟨by intro q; rw [hsame.pid]; exact hr.bind q, by intro c; rw [hsame.obj]; exact hr.objs c, ?_, hr.wf⟩,
            refsExact_of_eq o hi hsame.pid hsame.cid hsame.obj hsame.tr hsame.to, ?_⟩
          · intro q g
            show (a.docs.del (p, f)).get (q, g) = _
            rw [FMap.get_del, hget]
            by_cases e : (p, f) = (q, g)
            · injection e with e1 e2; subst e1; subst e2; simp
            · have : (o.hId q, o.hId (q ++ g)) ≠ (o.hId p, o.hId (p ++ f)) := by
                intro e2
                injection e2 with e3 e4
                have e5 := hinj _ _ e3
                subst e5
                have e6 := hinj _ _ e4
                exact e (by rw [List.append_cancel_left e6])
              simp [e, this]
              exact hr.docs q g
          · refine ⟨?_, ?_, by rw [hfr.tmp]; exact hd.no_tmp⟩
            · intro d n x hx
              rw [hget] at hx
              split at hx
              · cases hx
              · exact hd.named d n x hx
            · intro d n x hx
              rw [hget] at hx
              split at hx
              · cases hx
              · rw [hfr.dirs]; exact hd.dir d n x hx

/-- the data-only placement, result and object map spelled out -/
theorem mv_run_data_spec (l : List Str) (st : Store) (log : List Eff) (t : Tok) :
    let digests := (refineAlgorithmList defaultAlgos none none).map fun a => (a, o.dig a t)
    let cid := o.dig cfg.alg t
    ∃ st' log', (moveAndGetChecksums cfg o none t none none none .none).run (calmL l st log) =
        (Except.ok { cid := cid, size := o.size t, digests := digests }, calmL l st' log') ∧
      st'.pidRefs = st.pidRefs ∧ st'.cidRefs = st.cidRefs ∧ st'.tmpRefs = st.tmpRefs ∧ st'.tmpObj = st.tmpObj ∧
      st'.mdocs = st.mdocs ∧ st'.tmpMeta = st.tmpMeta ∧ (∀ x ∈ st.dirs, x ∈ st'.dirs) ∧
      (∀ j, st'.objs.get j = if st.objs.get cid = none ∧ cid = j then some t else st.objs.get j) := by
  intro digests cid
  have hv : (verdict ((refineAlgorithmList defaultAlgos none none).map fun a => (a, o.dig a t)) (fun a => o.dig a t)
      (o.size t) .none none none).exc = none := by
    simp [verdict, sizeMismatch, Verdict.exc]
  cases ho : st.objs.get (o.dig cfg.alg t) with
  | none =>
    simp [calmL, moveAndGetChecksums, runsimp, hv, ho]
    refine ⟨_, ⟨⟨rfl, rfl⟩, rfl⟩, rfl, rfl, rfl, rfl, rfl, rfl, ?_, ?_⟩
    · intro a b hx; simp [hx]
    · intro j
      simp only
      rw [FMap.get_set]
  | some y =>
    simp [calmL, moveAndGetChecksums, runsimp, hv, ho]
    exact ⟨_, ⟨⟨rfl, rfl⟩, rfl⟩, rfl, rfl, rfl, rfl, rfl, rfl, fun a b hx => hx, fun j => rfl⟩

/-- `store_object(None, data)`: same result as the specification, related final states -/
theorem storeData_refines (st : Store) (log : List Eff) (a : Abs) (data : DataArg) (additional checksum csAlg : SArg)
    (expSize : IArg) (hs : Sim o st a) (hdg : PlainDigests o) :
    ∃ w', (storeObject cfg o .none data additional checksum csAlg expSize).run (calm st log) =
        ((Abs.storeData cfg o a data).1, w') ∧
      w'.lk = {} ∧ w'.fault = none ∧ Sim o w'.st (Abs.storeData cfg o a data).2 := by
  cases hd : checkArgData data with
  | error e =>
    have hspec : Abs.storeData cfg o a data = (.error e, a) := by simp [Abs.storeData, hd]
    rw [hspec]
    exact ⟨calm st log, by simp [storeObject, runsimp, hd], rfl, rfl, hs⟩
  | ok _ =>
    cases hst : openStream data with
    | error e =>
      have hspec : Abs.storeData cfg o a data = (.error e, a) := by simp [Abs.storeData, hd, hst]
      rw [hspec]
      exact ⟨calm st log, by simp [storeObject, runsimp, hd, hst], rfl, rfl, hs⟩
    | ok t =>
      have hspec : Abs.storeData cfg o a data =
          (.ok (.objMeta (Abs.objMetaOf cfg o t none none)), a.addObj (o.dig cfg.alg t) t) := by
        simp [Abs.storeData, hd, hst, Abs.objMetaOf]
      rw [hspec]
      obtain ⟨st1, log1, hrun1, f1, f2, f3, f4, f5, f6, f7, f8⟩ := mv_run_data_spec cfg o [] st log t
      simp only [calmL] at hrun1
      have hsim := sim_after_place cfg o st st1 a t true hs hdg f1 f2 f3 f4 f5 f6 f7 (by intro j; rw [f8 j]; simp)
      have hsim' : Sim o st1 (a.addObj (o.dig cfg.alg t) t) := by simpa using hsim
      refine ⟨calm st1 log1, ?_, rfl, rfl, hsim'⟩
      simp [storeObject, runsimp, hd, hst, calm, calmL, Prog.run_bind, Prog.run_bind_pe, hrun1, Abs.objMetaOf]

/-- `_delete_object_only`: what the specification's `deleteOnly` says -/
theorem deleteOnly_refines (st : Store) (log : List Eff) (a : Abs) (cid : Str) (hs : Sim o st a) :
    ∃ st' log', (deleteObjectOnly cid).run (calm st log) = ((a.deleteOnly cid).1, calm st' log') ∧
      Sim o st' (a.deleteOnly cid).2 := by
  obtain ⟨hr, hi, hd⟩ := hs
  cases h2 : st.cidRefs.get cid with
  | some t =>
    have href : a.referenced cid = true := by rw [referenced_rel hr hi, h2]; rfl
    have hspec : a.deleteOnly cid = (.ok (), a) := by simp [Abs.deleteOnly, href]
    rw [hspec]
    exact ⟨st, log, by simp [deleteObjectOnly, runsimp, h2, calm, calmL], ⟨hr, hi, hd⟩⟩
  | none =>
    have href : a.referenced cid = false := by rw [referenced_rel hr hi, h2]; rfl
    cases hobj : st.objs.get cid with
    | none =>
      have hc : a.objs.contains cid = false := by simp [FMap.contains, hr.objs, hobj]
      have hspec : a.deleteOnly cid = (.error .fileNotFound, a) := by simp [Abs.deleteOnly, href, hc]
      rw [hspec]
      exact ⟨st, log, by simp [deleteObjectOnly, runsimp, h2, hobj, calm, calmL], ⟨hr, hi, hd⟩⟩
    | some x =>
      have hc : a.objs.contains cid = true := by simp [FMap.contains, hr.objs, hobj]
      have hspec : a.deleteOnly cid = (.ok (), { a with objs := a.objs.del cid }) := by
        simp [Abs.deleteOnly, href, hc]
      rw [hspec]
      refine ⟨{ st with objs := st.objs.del cid }, log ++ [Eff.remove (.obj cid)],
        by simp [deleteObjectOnly, runsimp, h2, hobj, calm, calmL], ?_⟩
      refine ⟨⟨hr.bind, ?_, hr.docs, hr.wf⟩, ?_, ⟨hd.named, hd.dir, hd.no_tmp⟩⟩
      · intro j
        show (a.objs.del cid).get j = (st.objs.del cid).get j
        rw [FMap.get_del, FMap.get_del, hr.objs]
      · refine ⟨hi.pid_listed, hi.list_ok, hi.no_tmp, hi.cid_plain, ?_⟩
        intro c y hy
        have hy' : (st.objs.del cid).get c = some y := hy
        exact hi.obj_plain c y (FMap.get_del_some hy')

/-- `delete_if_invalid_object`: same result as the specification, related final states -/
theorem div_refines (st : Store) (log : List Eff) (a : Abs) (om : Option ObjMeta) (checksum csAlg : SArg)
    (expSize : IArg) (hs : Sim o st a) :
    ∃ w', (deleteIfInvalidObject cfg o om checksum csAlg expSize).run (calm st log) =
        ((Abs.divObj cfg o a om checksum csAlg expSize).1, w') ∧
      w'.lk = {} ∧ w'.fault = none ∧ Sim o w'.st (Abs.divObj cfg o a om checksum csAlg expSize).2 := by
  cases hc : checkString checksum with
  | error e =>
    have hspec : Abs.divObj cfg o a om checksum csAlg expSize = (.error e, a) := by
      simp [Abs.divObj, Abs.divArgs, hc]
    rw [hspec]
    exact ⟨calm st log, by simp [deleteIfInvalidObject, runsimp, hc], rfl, rfl, hs⟩
  | ok c =>
    cases hal : checkString csAlg with
    | error e =>
      have hspec : Abs.divObj cfg o a om checksum csAlg expSize = (.error e, a) := by
        simp [Abs.divObj, Abs.divArgs, hc, hal]
      rw [hspec]
      exact ⟨calm st log, by simp [deleteIfInvalidObject, runsimp, hc, hal], rfl, rfl, hs⟩
    | ok al =>
      cases hi : checkInteger expSize with
      | error e =>
        have hspec : Abs.divObj cfg o a om checksum csAlg expSize = (.error e, a) := by
          simp [Abs.divObj, Abs.divArgs, hc, hal, hi]
        rw [hspec]
        exact ⟨calm st log, by simp [deleteIfInvalidObject, runsimp, hc, hal, hi], rfl, rfl, hs⟩
      | ok _ =>
        cases om with
        | none =>
          have hspec : Abs.divObj cfg o a none checksum csAlg expSize = (.error .valueError, a) := by
            simp [Abs.divObj, Abs.divArgs, hc, hal, hi]
          rw [hspec]
          exact ⟨calm st log, by simp [deleteIfInvalidObject, runsimp, hc, hal, hi], rfl, rfl, hs⟩
        | some m =>
          cases hcl : cleanAlgorithm al with
          | error e =>
            have hspec : Abs.divObj cfg o a (some m) checksum csAlg expSize = (.error e, a) := by
              simp [Abs.divObj, Abs.divArgs, hc, hal, hi, hcl]
            rw [hspec]
            exact ⟨calm st log, by simp [deleteIfInvalidObject, runsimp, hc, hal, hi, hcl], rfl, rfl, hs⟩
          | ok a' =>
            obtain ⟨st1, log1, hrun1, hsim1⟩ := deleteOnly_refines o st log a m.cid hs
            simp only [calm, calmL] at hrun1
            by_cases hsz : sizeMismatch expSize m.size = true
            · have hspec : Abs.divObj cfg o a (some m) checksum csAlg expSize =
                  (Abs.orElse (a.deleteOnly m.cid).1 .nonMatchingObjSize, (a.deleteOnly m.cid).2) := by
                simp [Abs.divObj, Abs.divArgs, hc, hal, hi, hcl, hsz]
              rw [hspec]
              refine ⟨calm st1 log1, ?_, rfl, rfl, hsim1⟩
              simp [deleteIfInvalidObject, runsimp, hc, hal, hi, hcl, hsz, calm, calmL, Prog.run_bind, Prog.run_bind_pe, hrun1]
              cases (a.deleteOnly m.cid).1 <;> simp [Abs.orElse, runsimp]
            · have hsz' : sizeMismatch expSize m.size = false := by simpa using hsz
              obtain ⟨hr, hie, hd⟩ := hs
              -- the digest to compare with
              have hdig : ∀ (d : Str), Abs.divDigest cfg o a m a' = .ok d →
                  (d ≠ lower c →
                    ∃ w', (deleteIfInvalidObject cfg o (some m) checksum csAlg expSize).run (calm st log) =
                      (Abs.orElse (a.deleteOnly m.cid).1 .nonMatchingChecksum, w') ∧ w' = calm st1 log1) ∧
                  (d = lower c →
                    (deleteIfInvalidObject cfg o (some m) checksum csAlg expSize).run (calm st log) =
                      (.ok .unit, calm st log)) := by
                intro d hd'
                unfold Abs.divDigest at hd'
                cases hl : lookupDigest m.digests a' with
                | some d0 =>
                  simp only [hl] at hd'
                  injection hd' with hd'
                  subst hd'
                  constructor
                  · intro hne
                    refine ⟨_, ?_, rfl⟩
                    simp [deleteIfInvalidObject, runsimp, hc, hal, hi, hcl, hsz', hl, hne, calm, calmL, Prog.run_bind,
                      Prog.run_bind_pe, hrun1]
                    cases (a.deleteOnly m.cid).1 <;> simp [Abs.orElse, runsimp]
                  · intro he
                    simp [deleteIfInvalidObject, runsimp, hc, hal, hi, hcl, hsz', hl, he, calm, calmL]
                | none =>
                  cases hl2 : lookupDigest m.digests cfg.alg with
                  | none => simp [hl, hl2] at hd'
                  | some oc =>
                    cases hg : a.objs.get oc with
                    | none => simp [hl, hl2, hg] at hd'
                    | some t =>
                      simp only [hl, hl2, hg] at hd'
                      injection hd' with hd'
                      subst hd'
                      have hg' : st.objs.get oc = some t := by rw [← hr.objs]; exact hg
                      constructor
                      · intro hne
                        refine ⟨_, ?_, rfl⟩
                        simp [deleteIfInvalidObject, runsimp, hc, hal, hi, hcl, hsz', hl, hl2, hg', hne, calm, calmL,
                          Prog.run_bind, Prog.run_bind_pe, hrun1]
                        cases (a.deleteOnly m.cid).1 <;> simp [Abs.orElse, runsimp]
                      · intro he
                        simp [deleteIfInvalidObject, runsimp, hc, hal, hi, hcl, hsz', hl, hl2, hg', he, calm, calmL]
              cases hdd : Abs.divDigest cfg o a m a' with
              | error e =>
                have hspec : Abs.divObj cfg o a (some m) checksum csAlg expSize = (.error e, a) := by
                  simp [Abs.divObj, Abs.divArgs, hc, hal, hi, hcl, hsz', hdd]
                rw [hspec]
                refine ⟨calm st log, ?_, rfl, rfl, ⟨hr, hie, hd⟩⟩
                unfold Abs.divDigest at hdd
                cases hl : lookupDigest m.digests a' with
                | some d0 => simp [hl] at hdd
                | none =>
                  cases hl2 : lookupDigest m.digests cfg.alg with
                  | none =>
                    simp only [hl, hl2] at hdd
                    injection hdd with hdd
                    subst hdd
                    simp [deleteIfInvalidObject, runsimp, hc, hal, hi, hcl, hsz', hl, hl2, calm, calmL]
                  | some oc =>
                    cases hg : a.objs.get oc with
                    | some t => simp [hl, hl2, hg] at hdd
                    | none =>
                      simp only [hl, hl2, hg] at hdd
                      injection hdd with hdd
                      subst hdd
                      have hg' : st.objs.get oc = none := by rw [← hr.objs]; exact hg
                      simp [deleteIfInvalidObject, runsimp, hc, hal, hi, hcl, hsz', hl, hl2, hg', calm, calmL]
              | ok d =>
                obtain ⟨h1, h2⟩ := hdig d hdd
                by_cases hne : d = lower c
                · have hspec : Abs.divObj cfg o a (some m) checksum csAlg expSize = (.ok .unit, a) := by
                    simp [Abs.divObj, Abs.divArgs, hc, hal, hi, hcl, hsz', hdd, hne]
                  rw [hspec]
                  exact ⟨calm st log, h2 hne, rfl, rfl, ⟨hr, hie, hd⟩⟩
                · have hspec : Abs.divObj cfg o a (some m) checksum csAlg expSize =
                      (Abs.orElse (a.deleteOnly m.cid).1 .nonMatchingChecksum, (a.deleteOnly m.cid).2) := by
                    simp [Abs.divObj, Abs.divArgs, hc, hal, hi, hcl, hsz', hdd, hne]
                  rw [hspec]
                  obtain ⟨w', hw, hw2⟩ := h1 hne
                  subst hw2
                  exact ⟨_, hw, rfl, rfl, hsim1⟩

end HS
