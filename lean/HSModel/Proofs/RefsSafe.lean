/-
  RefsSafe — the calls that never write a reference file or place an object
  (metadata calls, read-only calls, delete_if_invalid_object): a static
  discipline over all answers, and the invariants it carries. Helper lemmas.
-/
import HSModel.Proofs.Shape
import HSModel.Proofs.RunInv
import HSModel.Proofs.ClosedStore
namespace HS

/-- primitives that leave pid references, cid lists and the refs/objects temp
    areas alone, and can only take objects away -/
def RefsSafe : Ev → Prop
  | .eff (.mkdirs _ _) => True
  | .eff (.mkTmp .mdata) => True
  | .eff (.removeTmp .mdata) => True
  | .eff (.publishDoc _ _ _) => True
  | .eff (.retire (.mdoc _ _)) => True
  | .eff (.remove (.mdoc _ _)) => True
  | .eff (.remove (.obj _)) => True
  | .eff _ => False
  | _ => True

variable (cfg : Config) (o : Oracle)

theorem findObject_safe (pid : Str) : (findObject cfg o pid).AllEv RefsSafe := by
  unfold findObject
  repeat allev_step

theorem hexDigestCore_safe (pid alg : Str) : (hexDigestCore cfg o pid alg).AllEv RefsSafe := by
  unfold hexDigestCore
  repeat (first | exact findObject_safe cfg o _ | allev_step)

theorem retrieveObject_safe (pid : SArg) : (retrieveObject cfg o pid).AllEv RefsSafe := by
  unfold retrieveObject
  repeat (first | exact findObject_safe cfg o _ | allev_step)

theorem retrieveMetadata_safe (pid f : SArg) : (retrieveMetadata cfg o pid f).AllEv RefsSafe := by
  unfold retrieveMetadata
  repeat allev_step

theorem getHexDigest_safe (pid a : SArg) : (getHexDigest cfg o pid a).AllEv RefsSafe := by
  unfold getHexDigest
  repeat (first | exact hexDigestCore_safe cfg o _ _ | allev_step)

theorem deleteObjectOnly_safe (cid : Str) : (deleteObjectOnly cid).AllEv RefsSafe := by
  unfold deleteObjectOnly
  repeat allev_step

theorem deleteIfInvalid_safe (om : Option ObjMeta) (c ca : SArg) (s : IArg) :
    (deleteIfInvalidObject cfg o om c ca s).AllEv RefsSafe := by
  unfold deleteIfInvalidObject
  repeat (first | exact deleteObjectOnly_safe _ | allev_step)

theorem withDocLock_safe {α : Type} (doc : Str) (body : PE α) (h : body.AllEv RefsSafe) :
    (withDocLock doc body).AllEv RefsSafe := by
  unfold withDocLock
  repeat (first | exact h | allev_step)

theorem storeMetadata_safe (p : SArg) (d : DataArg) (f : SArg) : (storeMetadata cfg o p d f).AllEv RefsSafe := by
  unfold storeMetadata
  repeat (first | apply withDocLock_safe | allev_step)

def IsDocLoc : Loc → Prop
  | .mdoc _ _ => True
  | _ => False

theorem deleteMarked_safe (l : List Loc) (h : ∀ x ∈ l, IsDocLoc x) : (deleteMarked l).AllEv RefsSafe := by
  induction l with
  | nil => exact PE.allEv_pure _
  | cons a r ih =>
    unfold deleteMarked
    apply PE.allEv_bind
    · apply PE.allEv_tryCatch
      · apply allEv_eff
        have ha := h a (List.mem_cons_self ..)
        cases a <;> first | trivial | exact ha.elim
      · intro _; exact PE.allEv_pure _
    · intro _
      exact ih (fun x hx => h x (List.mem_cons_of_mem _ hx))

theorem retireDocs_safe (dir : Str) (names : List Str) :
    (retireDocs dir names).AllEvR RefsSafe (fun l => ∀ x ∈ l, IsDocLoc x) := by
  induction names with
  | nil => exact PE.allEvR_pure _ (by intro x hx; cases hx)
  | cons n r ih =>
    unfold retireDocs
    apply PE.allEvR_bind (Q := fun _ => True)
    · apply PE.allEvR_of_allEv
      apply withDocLock_safe
      apply allEv_eff
      trivial
    · intro _ _
      apply PE.allEvR_bind _ _ ih
      intro rest hrest
      apply PE.allEvR_pure
      intro x hx
      rcases List.mem_cons.mp hx with rfl | hx
      · trivial
      · exact hrest x hx

theorem deleteMetadataCore_safe (p : Str) (fmt : Option Str) : (deleteMetadataCore o p fmt).AllEv RefsSafe := by
  unfold deleteMetadataCore
  cases fmt with
  | none =>
    simp only
    apply PE.allEv_bind; · (apply allEv_listDocs; trivial)
    intro names
    split
    · exact PE.allEv_pure _
    · apply PE.allEv_bind_post _ _ (retireDocs_safe _ _)
      intro marked hm
      exact deleteMarked_safe _ hm
  | some f =>
    simp only
    apply withDocLock_safe
    repeat allev_step

theorem deleteMetadata_safe (p f : SArg) : (deleteMetadata cfg o p f).AllEv RefsSafe := by
  unfold deleteMetadata
  repeat (first | exact deleteMetadataCore_safe o _ _ | allev_step)

/-- a store invariant that looks only at references, refs/objects temp counts
    and object names survives every safe effect -/
theorem refsExact_safe_step (s : Store) (x : Eff) (s' : Store) (hx : RefsSafe (.eff x)) (ha : s.apply x = some s')
    (h : RefsExact o s) : RefsExact o s' := by
  have key : s'.pidRefs = s.pidRefs ∧ s'.cidRefs = s.cidRefs ∧ s'.tmpRefs = s.tmpRefs ∧ s'.tmpObj = s.tmpObj ∧
      (∀ j v, s'.objs.get j = some v → s.objs.get j = some v) := by
    cases x with
    | mkdirs a k => simp [Store.apply] at ha; subst ha; exact ⟨rfl, rfl, rfl, rfl, fun _ _ h => h⟩
    | mkTmp a =>
      cases a <;> first | exact hx.elim | skip
      simp [Store.apply, Store.setTmp] at ha; subst ha; exact ⟨rfl, rfl, rfl, rfl, fun _ _ h => h⟩
    | removeTmp a =>
      cases a <;> first | exact hx.elim | skip
      simp only [Store.apply] at ha
      split at ha
      · cases ha
      · injection ha with ha
        subst ha; exact ⟨rfl, rfl, rfl, rfl, fun _ _ h => h⟩
    | publishObj c t => exact hx.elim
    | publishDoc d n t =>
      simp [Store.apply] at ha
      obtain ⟨_, ha⟩ := ha
      subst ha; exact ⟨rfl, rfl, rfl, rfl, fun _ _ h => h⟩
    | publishPidRef k v => exact hx.elim
    | publishCidRef c v => exact hx.elim
    | retire l =>
      cases l <;> first | exact hx.elim | skip
      simp [Store.apply, Store.retire] at ha
      obtain ⟨v, _, ha⟩ := ha
      subst ha; exact ⟨rfl, rfl, rfl, rfl, fun _ _ h => h⟩
    | remove l =>
      cases l with
      | pidRef k => exact hx.elim
      | cidRef c => exact hx.elim
      | obj c =>
        simp [Store.apply, Store.remove] at ha
        obtain ⟨_, ha⟩ := ha
        subst ha
        refine ⟨rfl, rfl, rfl, rfl, ?_⟩
        intro j v hv
        simp only at hv
        by_cases e : c = j
        · subst e; rw [FMap.get_del_self] at hv; cases hv
        · rw [FMap.get_del_ne _ e] at hv; exact hv
      | mdoc d n =>
        simp [Store.apply, Store.remove] at ha
        obtain ⟨_, ha⟩ := ha
        subst ha; exact ⟨rfl, rfl, rfl, rfl, fun _ _ h => h⟩
    | appendCid c v => exact hx.elim
    | rewriteCid c v => exact hx.elim
    | truncateCid c n => exact hx.elim
  obtain ⟨k1, k2, k3, k4, k5⟩ := key
  refine ⟨?_, ?_, ?_, ?_, ?_⟩
  · intro k c hk; rw [k1] at hk; rw [k2]; exact h.pid_listed k c hk
  · intro c t hc; rw [k2] at hc; rw [k1]; exact h.list_ok c t hc
  · rw [k3, k4]; exact h.no_tmp
  · intro c t hc; rw [k2] at hc; exact h.cid_plain c t hc
  · intro c v hc; exact h.obj_plain c v (k5 c v hc)

theorem refsExact_safe_preserved : Prog.Preserved RefsSafe (fun w => RefsExact o w.st) :=
  preserved_of_store (refsExact_safe_step o)

end HS
