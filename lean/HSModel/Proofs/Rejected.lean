/-
  Rejected — a call rejected by its argument checks issues no primitive at all: its program is a
  plain `return error`. Helper lemmas for C17.
-/
import HSModel.Proofs.Serial
set_option linter.unusedSimpArgs false
namespace HS
variable (cfg : Config) (o : Oracle)

/-- chain of pure checks: the first error, if any -/
def firstErr : List (Except Exc Unit) → Option Exc
  | [] => none
  | .error e :: _ => some e
  | .ok _ :: r => firstErr r

def unitOf {α : Type} : Except Exc α → Except Exc Unit
  | .ok _ => .ok ()
  | .error e => .error e

/-- the argument checks each call makes before it touches anything, in order -/
def argChecks : Call → List (Except Exc Unit)
  | .storeObject .none data _ _ _ _ => [checkArgData data, unitOf (openStream data)]
  | .storeObject pid data add cks ca sz =>
      [unitOf (checkString pid), checkArgData data, checkInteger sz,
       unitOf (checkArgAlgorithmsAndChecksum cfg.alg add cks ca)]
  | .tagObject pid cid => [unitOf (checkString pid), unitOf (checkString cid)]
  | .deleteIfInvalid om cks ca sz =>
      [unitOf (checkString cks), unitOf (checkString ca), checkInteger sz,
       (match om with | none => .error .valueError | some _ => .ok ()),
       (match checkString ca with | .ok a => unitOf (cleanAlgorithm a) | .error _ => .ok ())]
  | .storeMetadata pid data fmt => [unitOf (checkString pid), checkArgData data, unitOf (checkArgFormatId cfg.ns fmt)]
  | .retrieveObject pid => [unitOf (checkString pid)]
  | .retrieveMetadata pid fmt => [unitOf (checkString pid), unitOf (checkArgFormatId cfg.ns fmt)]
  | .deleteObject pid => [unitOf (checkString pid)]
  | .deleteMetadata pid fmt => [unitOf (checkString pid), unitOf (checkArgFormatId cfg.ns fmt)]
  | .getHexDigest pid alg => [unitOf (checkString pid), unitOf (checkString alg),
       (match checkString alg with | .ok a => unitOf (cleanAlgorithm a) | .error _ => .ok ())]

theorem rejected_is_return (c : Call) (e : Exc) (h : firstErr (argChecks cfg c) = some e) :
    (c.prog cfg o : Prog (Except Exc Val)) = Prog.ret (.error e) := by
  cases c with
  | tagObject pid cid =>
    simp only [argChecks] at h
    simp only [Call.prog, tagObject]
    cases hp : checkString pid with
    | error e1 => simp [hp, unitOf, firstErr] at h; subst h; rfl
    | ok p =>
      cases hc : checkString cid with
      | error e2 => simp [hp, hc, unitOf, firstErr] at h; subst h; rfl
      | ok c' => simp [hp, hc, unitOf, firstErr] at h
  | retrieveObject pid =>
    simp only [argChecks] at h
    simp only [Call.prog, retrieveObject]
    cases hp : checkString pid with
    | error e1 => simp [hp, unitOf, firstErr] at h; subst h; rfl
    | ok p => simp [hp, unitOf, firstErr] at h
  | deleteObject pid =>
    simp only [argChecks] at h
    simp only [Call.prog, deleteObject]
    cases hp : checkString pid with
    | error e1 => simp [hp, unitOf, firstErr] at h; subst h; rfl
    | ok p => simp [hp, unitOf, firstErr] at h
  | retrieveMetadata pid fmt =>
    simp only [argChecks] at h
    simp only [Call.prog, retrieveMetadata]
    cases hp : checkString pid with
    | error e1 => simp [hp, unitOf, firstErr] at h; subst h; rfl
    | ok p =>
      cases hf : checkArgFormatId cfg.ns fmt with
      | error e2 => simp [hp, hf, unitOf, firstErr] at h; subst h; rfl
      | ok f => simp [hp, hf, unitOf, firstErr] at h
  | deleteMetadata pid fmt =>
    simp only [argChecks] at h
    simp only [Call.prog, deleteMetadata]
    cases hp : checkString pid with
    | error e1 => simp [hp, unitOf, firstErr] at h; subst h; rfl
    | ok p =>
      cases hf : checkArgFormatId cfg.ns fmt with
      | error e2 => simp [hp, hf, unitOf, firstErr] at h; subst h; rfl
      | ok f => simp [hp, hf, unitOf, firstErr] at h
  | getHexDigest pid alg =>
    simp only [argChecks] at h
    simp only [Call.prog, getHexDigest]
    cases hp : checkString pid with
    | error e1 => simp [hp, unitOf, firstErr] at h; subst h; rfl
    | ok p =>
      cases ha : checkString alg with
      | error e2 => simp [hp, ha, unitOf, firstErr] at h; subst h; rfl
      | ok a =>
        cases hcl : cleanAlgorithm a with
        | error e3 => simp [hp, ha, hcl, unitOf, firstErr] at h; subst h; simp only [PE.ofExcept_ok_bind]; rw [hcl]; rfl
        | ok a' => simp [hp, ha, hcl, unitOf, firstErr] at h
  | storeMetadata pid data fmt =>
    simp only [argChecks] at h
    simp only [Call.prog, storeMetadata]
    cases hp : checkString pid with
    | error e1 => simp [hp, unitOf, firstErr] at h; subst h; rfl
    | ok p =>
      cases hd : checkArgData data with
      | error e2 => simp [hp, hd, unitOf, firstErr] at h; subst h; rfl
      | ok u =>
        cases hf : checkArgFormatId cfg.ns fmt with
        | error e3 => simp [hp, hd, hf, unitOf, firstErr] at h; subst h; rfl
        | ok f => simp [hp, hd, hf, unitOf, firstErr] at h
  | deleteIfInvalid om cks ca sz =>
    simp only [argChecks] at h
    simp only [Call.prog, deleteIfInvalidObject]
    cases hc : checkString cks with
    | error e1 => simp [hc, unitOf, firstErr] at h; subst h; rfl
    | ok c' =>
      cases ha : checkString ca with
      | error e2 => simp [hc, ha, unitOf, firstErr] at h; subst h; rfl
      | ok a =>
        cases hi : checkInteger sz with
        | error e3 => simp [hc, ha, hi, unitOf, firstErr] at h; subst h; rfl
        | ok u =>
          cases om with
          | none => simp [hc, ha, hi, unitOf, firstErr] at h; subst h; rfl
          | some m =>
            cases hcl : cleanAlgorithm a with
            | error e4 => simp [hc, ha, hi, hcl, unitOf, firstErr] at h; subst h; simp only [PE.ofExcept_ok_bind]; rw [hcl]; rfl
            | ok a' => simp [hc, ha, hi, hcl, unitOf, firstErr] at h
  | storeObject pid data add cks ca sz =>
    simp only [Call.prog, storeObject]
    cases pid with
    | none =>
      simp only [argChecks] at h
      cases hd : checkArgData data with
      | error e1 => simp [hd, unitOf, firstErr] at h; subst h; rfl
      | ok u =>
        cases ho : openStream data with
        | error e2 => simp [hd, ho, unitOf, firstErr] at h; subst h; rfl
        | ok t => simp [hd, ho, unitOf, firstErr] at h
    | other =>
      simp only [argChecks] at h
      have hp : checkString SArg.other = .error .typeError ∨ ∃ e', checkString SArg.other = .error e' := by
        right; cases hx : checkString SArg.other with
        | error e' => exact ⟨e', rfl⟩
        | ok p => simp [checkString] at hx
      obtain ⟨e', he'⟩ := hp.elim (fun h' => ⟨_, h'⟩) id
      simp [he', unitOf, firstErr] at h; subst h
      simp only [he']; rfl
    | str p0 =>
      simp only [argChecks] at h
      cases hp : checkString (.str p0) with
      | error e1 => simp [hp, unitOf, firstErr] at h; subst h; rfl
      | ok p =>
        cases hd : checkArgData data with
        | error e2 => simp [hp, hd, unitOf, firstErr] at h; subst h; rfl
        | ok u =>
          cases hi : checkInteger sz with
          | error e3 => simp [hp, hd, hi, unitOf, firstErr] at h; subst h; rfl
          | ok u2 =>
            cases hc : checkArgAlgorithmsAndChecksum cfg.alg add cks ca with
            | error e4 => simp [hp, hd, hi, hc, unitOf, firstErr] at h; subst h; rfl
            | ok ac => simp [hp, hd, hi, hc, unitOf, firstErr] at h

/-- **A call rejected by its argument checks touches nothing, in every semantics**: its sequential run,
    under any fault plan and from any world, returns that error and leaves the world — directory, lock
    lists, fault plan, log — exactly as it was; so does its run cut at any crash point; and as a thread
    among others it returns that error at its first step without changing the world. -/
theorem rejected_changes_nothing (c : Call) (e : Exc) (h : firstErr (argChecks cfg c) = some e) :
    (∀ w : World, (c.prog cfg o : Prog (Except Exc Val)).run w = (.error e, w)) ∧
    (∀ (w : World) (n : Nat), Prog.crashAt n (c.prog cfg o : Prog (Except Exc Val)) w = (some (.error e), w)) ∧
    (∀ (w : World) (fuel : Nat), (TState.fresh (c.prog cfg o)).step (fuel + 1) w = (.finished (.error e), w)) := by
  have hr := rejected_is_return cfg o c e h
  refine ⟨?_, ?_, ?_⟩
  · intro w; rw [hr]; rfl
  · intro w n; rw [hr]; cases n <;> rfl
  · intro w fuel
    show runToBoundary (fuel + 1) (c.prog cfg o) w = _
    rw [hr]; rfl

end HS
