/-
  Report — what a successful `store_object` reports is a function of the content and of the
  algorithms named in the call, for EVERY sequence of answers of the file system (hence under every
  interleaving with other calls and every fault plan). Helper lemmas for C02.
-/
import HSModel.Proofs.Whole
import HSModel.Proofs.ConcInv
namespace HS
variable (cfg : Config) (o : Oracle)

theorem Prog.allEv_true {α : Type} (m : Prog α) : m.AllEv (fun _ => True) := by
  induction m with
  | ret a => trivial
  | op e k ih => exact ⟨trivial, ih⟩

/-- the record `store_object` reports for content `t` with additional algorithm `add` and checksum
    algorithm `cs`: the address, the size, the digests of the refined algorithm list -/
def recordOf (t : Tok) (add cs : Option Str) : ObjMeta :=
  { cid := o.dig cfg.alg t, size := o.size t,
    digests := (refineAlgorithmList defaultAlgos add cs).map fun a => (a, o.dig a t) }

theorem moveAndGetChecksums_record (pid : Option Str) (t : Tok) (add cs cks : Option Str) (sz : IArg) :
    (moveAndGetChecksums cfg o pid t add cs cks sz).AllEvR (fun _ => True) (fun m => m = recordOf cfg o t add cs) := by
  unfold moveAndGetChecksums
  dsimp only
  repeat (first
    | exact PE.allEvR_pure _ rfl
    | exact PE.allEvR_throw _
    | (apply PE.allEvR_of_allEv; exact Prog.allEv_true _)
    | apply PE.allEvR_bind (Q := fun _ => True)
    | apply PE.allEvR_tryCatch
    | intro _
    | split
    | dsimp only)

/-- what a normal return of `store_object` is, whatever the answers were -/
def ReportsTruth (data : DataArg) (additional checksum csAlg : SArg) (pidGiven : Bool) (v : Val) : Prop :=
  ∃ t, openStream data = .ok t ∧
    ((pidGiven = false ∧ v = .objMeta (recordOf cfg o t none none)) ∨
     (pidGiven = true ∧ ∃ add' cs', checkArgAlgorithmsAndChecksum cfg.alg additional checksum csAlg = .ok (add', cs') ∧
        v = .objMeta (recordOf cfg o t add' cs')))

theorem storeObject_reports (pid : SArg) (data : DataArg) (additional checksum csAlg : SArg) (sz : IArg) :
    (storeObject cfg o pid data additional checksum csAlg sz).AllEvR (fun _ => True)
      (ReportsTruth cfg o data additional checksum csAlg (pid != .none)) := by
  unfold storeObject
  cases pid with
  | none =>
    simp only
    apply PE.allEvR_bind (Q := fun _ => True) _ _ (PE.allEvR_of_allEv _ (Prog.allEv_true _))
    intro _ _
    apply PE.allEvR_bind _ _ (PE.allEvR_ofExcept _)
    intro t ht
    apply PE.allEvR_bind _ _ (moveAndGetChecksums_record cfg o _ _ _ _ _ _)
    intro m hm
    apply PE.allEvR_pure
    exact ⟨t, ht, Or.inl ⟨rfl, by rw [hm]⟩⟩
  | other =>
    simp only
    apply PE.allEvR_bind _ _ (PE.allEvR_ofExcept _)
    intro p hp; simp [checkString] at hp
  | str p0 =>
    simp only
    apply PE.allEvR_bind (Q := fun _ => True) _ _ (PE.allEvR_of_allEv _ (Prog.allEv_true _))
    intro p _
    apply PE.allEvR_bind (Q := fun _ => True) _ _ (PE.allEvR_of_allEv _ (Prog.allEv_true _))
    intro _ _
    apply PE.allEvR_bind (Q := fun _ => True) _ _ (PE.allEvR_of_allEv _ (Prog.allEv_true _))
    intro _ _
    apply PE.allEvR_bind _ _ (PE.allEvR_ofExcept _)
    intro ac hac
    apply PE.allEvR_bind (Q := fun _ => True) _ _ (PE.allEvR_of_allEv _ (Prog.allEv_true _))
    intro b _
    split
    · exact PE.allEvR_throw _
    · apply PE.allEvR_withFinally _ _ _ (Prog.allEv_true _)
      apply PE.allEvR_bind (Q := fun _ => True) _ _ (PE.allEvR_of_allEv _ (Prog.allEv_true _))
      intro _ _
      apply PE.allEvR_bind _ _ (PE.allEvR_ofExcept _)
      intro t ht
      apply PE.allEvR_bind _ _ (moveAndGetChecksums_record cfg o _ _ _ _ _ _)
      intro m hm
      apply PE.allEvR_bind (Q := fun _ => True) _ _ (PE.allEvR_of_allEv _ (Prog.allEv_true _))
      intro _ _
      apply PE.allEvR_pure
      exact ⟨t, ht, Or.inr ⟨rfl, ac.1, ac.2, hac, by rw [hm]⟩⟩

theorem Prog.safe_of_allEvR {α : Type} {P : Ev → Prop} {Q : α → Prop} (m : Prog α) (h : m.AllEvR P Q) :
    m.Safe P (fun _ _ => True) Q := by
  induction m with
  | ret a => exact h
  | op e k ih => exact ⟨h.1, fun r _ => ih r (h.2 r)⟩

/-- what a thread running a given call may return -/
def reportPost : Option Call → Except Exc Val → Prop
  | some (.storeObject pid data add cks ca _) => okPost (ReportsTruth cfg o data add cks ca (pid != .none))
  | _ => fun _ => True

end HS
