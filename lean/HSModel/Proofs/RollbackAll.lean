/-
  RollbackAll — the per-site lemmas of RollbackTag assembled: every fault site of
  tag_object on an unbound pid, and the immediate retry.
-/
import HSModel.Proofs.Spent
namespace HS
variable (cfg : Config) (o : Oracle)

/-- the fault sites `tag_object(p, c)` passes when p is unbound and c has no list (fault-free order) -/
def tagSitesNew (p c : Str) : List (SiteKind × Target × Nat) :=
  [(.mkdirs, .dir .pidRef (o.hId p), 0), (.mkdirs, .dir .cidRef c, 0), (.mkTmp, .tmp .refs, 0), (.openWrite, .tmp .refs, 0),
   (.mkTmp, .tmp .refs, 1), (.openWrite, .tmp .refs, 1), (.rename, .loc (.pidRef (o.hId p)), 0),
   (.rename, .loc (.cidRef c), 0), (.openRead, .loc (.pidRef (o.hId p)), 0), (.openRead, .loc (.cidRef c), 0)]

/-- … and when c already has a list that does not name p -/
def tagSitesAppend (p c : Str) : List (SiteKind × Target × Nat) :=
  [(.mkdirs, .dir .pidRef (o.hId p), 0), (.mkdirs, .dir .cidRef c, 0), (.mkTmp, .tmp .refs, 0), (.openWrite, .tmp .refs, 0),
   (.rename, .loc (.pidRef (o.hId p)), 0), (.openRead, .loc (.cidRef c), 0), (.openRead, .loc (.cidRef c), 1),
   (.openWrite, .loc (.cidRef c), 0), (.flock, .loc (.cidRef c), 0), (.openRead, .loc (.pidRef (o.hId p)), 0),
   (.openRead, .loc (.cidRef c), 2)]

theorem tag_new_list_all (st : Store) (log : List Eff) (p c : Str) (hp : checkStringOk p = true) (hc : checkStringOk c = true)
    (h1 : st.pidRefs.get (o.hId p) = none) (h2 : st.cidRefs.get c = none) :
    ∀ s ∈ tagSitesNew o p c, ∃ r w', (tagObject cfg o (.str p) (.str c)).run (planned st log s.1 s.2.1 s.2.2) = (r, w') ∧
      RolledBack o p st r w' := by
  intro s hs
  simp only [tagSitesNew, List.mem_cons, List.not_mem_nil, or_false] at hs
  rcases hs with rfl | rfl | rfl | rfl | rfl | rfl | rfl | rfl | rfl | rfl
  · exact tag_new_list_site_0 cfg o st log p c hp hc h1 h2
  · exact tag_new_list_site_1 cfg o st log p c hp hc h1 h2
  · exact tag_new_list_site_2 cfg o st log p c hp hc h1 h2
  · exact tag_new_list_site_3 cfg o st log p c hp hc h1 h2
  · exact tag_new_list_site_4 cfg o st log p c hp hc h1 h2
  · exact tag_new_list_site_5 cfg o st log p c hp hc h1 h2
  · exact tag_new_list_site_6 cfg o st log p c hp hc h1 h2
  · exact tag_new_list_site_7 cfg o st log p c hp hc h1 h2
  · exact tag_new_list_site_8 cfg o st log p c hp hc h1 h2
  · exact tag_new_list_site_9 cfg o st log p c hp hc h1 h2

theorem tag_append_all (st : Store) (log : List Eff) (p c : Str) (ls : List Str) (hp : checkStringOk p = true)
    (hc : checkStringOk c = true) (h1 : st.pidRefs.get (o.hId p) = none)
    (h2 : st.cidRefs.get c = some (renderLines ls)) (hls : ∀ l ∈ ls, hasSpace l = false) (hnot : p ∉ ls) (hne : ls ≠ []) :
    ∀ s ∈ tagSitesAppend o p c, ∃ r w', (tagObject cfg o (.str p) (.str c)).run (planned st log s.1 s.2.1 s.2.2) = (r, w') ∧
      RolledBack o p st r w' := by
  intro s hs
  simp only [tagSitesAppend, List.mem_cons, List.not_mem_nil, or_false] at hs
  rcases hs with rfl | rfl | rfl | rfl | rfl | rfl | rfl | rfl | rfl | rfl | rfl
  · exact tag_append_site_0 cfg o st log p c ls hp hc h1 h2 hls hnot hne
  · exact tag_append_site_1 cfg o st log p c ls hp hc h1 h2 hls hnot hne
  · exact tag_append_site_2 cfg o st log p c ls hp hc h1 h2 hls hnot hne
  · exact tag_append_site_3 cfg o st log p c ls hp hc h1 h2 hls hnot hne
  · exact tag_append_site_4 cfg o st log p c ls hp hc h1 h2 hls hnot hne
  · exact tag_append_site_5 cfg o st log p c ls hp hc h1 h2 hls hnot hne
  · exact tag_append_site_6 cfg o st log p c ls hp hc h1 h2 hls hnot hne
  · exact tag_append_site_7 cfg o st log p c ls hp hc h1 h2 hls hnot hne
  · exact tag_append_site_8 cfg o st log p c ls hp hc h1 h2 hls hnot hne
  · exact tag_append_site_9 cfg o st log p c ls hp hc h1 h2 hls hnot hne
  · exact tag_append_site_10 cfg o st log p c ls hp hc h1 h2 hls hnot hne

/-- after a rolled-back failure the same call, made again at once (the spent
    plan still in place), returns normally -/
theorem retry_after_rollback (st : Store) (p c : Str) (r : Except Exc Val) (w' : World)
    (hp : checkStringOk p = true) (hc : checkStringOk c = true) (hnl : AllNl st.cidRefs)
    (hrb : RolledBack o p st r w') (herr : ∀ v, r ≠ .ok v) :
    ((tagObject cfg o (.str p) (.str c)).run w').1 = .ok .unit := by
  obtain ⟨hlk, hcase⟩ := hrb
  rcases hcase with ⟨v, hv⟩ | ⟨hgone, hnl', _, f', hf', hpers, hfired⟩
  · exact absurd hv (herr v)
  · have hsp := run_spent (tagObject cfg o (.str p) (.str c) : Prog (Except Exc Val)) w' f' hf' hfired hpers
    have hsp' : Prog.run (tagObject cfg o (.str p) (.str c)) w' = _ := hsp
    rw [hsp']
    show (Prog.run (tagObject cfg o (.str p) (.str c)) { w' with fault := none }).1 = _
    have hw : ({ w' with fault := none } : World) = calmL [] w'.st w'.log := by
      obtain ⟨st', lk, fault, log⟩ := w'
      simp only at hlk
      subst hlk; rfl
    rw [hw]
    obtain ⟨st2, log2, t2, hrun, _⟩ := tag_any cfg o [] w'.st w'.log p c hp hc hgone (hnl' hnl)
    rw [hrun]

/-- number the occurrences of each (kind, destination) pair, in order -/
def numberSites : List (SiteKind × Target) → List (SiteKind × Target) → List (SiteKind × Target × Nat)
  | _, [] => []
  | seen, s :: r => (s.1, s.2, (seen.filter (· = s)).length) :: numberSites (seen ++ [s]) r

/-- the fault sites a run passes, in order, with their occurrence numbers -/
def sitesOfRun {α : Type} (m : Prog α) (w : World) : List (SiteKind × Target × Nat) :=
  numberSites [] ((m.runLog w []).2.2.flatMap Ev.sites)

theorem tag_sites_new_complete (st : Store) (log : List Eff) (p c : Str) (hp : checkStringOk p = true)
    (hc : checkStringOk c = true) (h1 : st.pidRefs.get (o.hId p) = none) (h2 : st.cidRefs.get c = none) :
    sitesOfRun (tagObject cfg o (.str p) (.str c)) (calm st log) = tagSitesNew o p c := by
  simp [sitesOfRun, calm, calmL, tagObject, storeRefs, runsimp, Prog.runLog, checkString_of_ok hp, checkString_of_ok hc, h1, h2, writeRefsTmp,
    verifyRefs, inRefs, pyLines_single p (nospace_of_ok hp), Ev.sites, numberSites, tagSitesNew]

theorem tag_sites_append_complete (st : Store) (log : List Eff) (p c : Str) (ls : List Str) (hp : checkStringOk p = true)
    (hc : checkStringOk c = true) (h1 : st.pidRefs.get (o.hId p) = none)
    (h2 : st.cidRefs.get c = some (renderLines ls)) (hls : ∀ l ∈ ls, hasSpace l = false) (hnot : p ∉ ls) :
    sitesOfRun (tagObject cfg o (.str p) (.str c)) (calm st log) = tagSitesAppend o p c := by
  have hsp := nospace_of_ok hp
  have hin : inRefs p (renderLines ls) = false := by
    rw [inRefs_render p ls hls]; simpa using hnot
  have hls' : ∀ l ∈ ls ++ [p], hasSpace l = false := by
    intro l hl
    rcases List.mem_append.mp hl with h | h
    · exact hls l h
    · simp at h; subst h; exact hsp
  have hin' : inRefs p (renderLines (ls ++ [p])) = true := by
    rw [inRefs_render p _ hls']; simp
  simp [sitesOfRun, calm, calmL, tagObject, storeRefs, runsimp, Prog.runLog, checkString_of_ok hp, checkString_of_ok hc, h1, h2, writeRefsTmp,
    verifyRefs, updateRefsAdd, hin, hin', renderLines_snoc, Ev.sites, numberSites, tagSitesAppend]

end HS
