/-
  RollbackStoreAll — the immediate retry after a rolled-back store_object, and
  completeness of the generated site lists.
-/
import HSModel.Proofs.RollbackStore
namespace HS
variable (cfg : Config) (o : Oracle)

/-- after a rolled-back failure the same `store_object` call, made again at once
    (the spent plan still in place), returns normally and the data is retrievable -/
theorem store_retry_after_rollback (st : Store) (p : Str) (t : Tok) (r : Except Exc Val) (w' : World)
    (hp : checkStringOk p = true) (hok : OkDigests o) (hnl : AllNl st.cidRefs)
    (hfree : st.objs.get (o.dig cfg.alg t) = none ∨ st.objs.get (o.dig cfg.alg t) = some t)
    (hrb : RolledBackStore cfg o p t st r w') (herr : ∀ v, r ≠ .ok v) :
    ∃ m w2, (storeObject cfg o (.str p) (.ok t) .none .none .none .none).run w' = (.ok (.objMeta m), w2) ∧
      ((retrieveObject cfg o (.str p)).run { w2 with fault := none }).1 = .ok (.content t) := by
  obtain ⟨hlk, hcase⟩ := hrb
  rcases hcase with ⟨v, hv⟩ | ⟨hgone, hnl', hobjs, f', hf', hpers, hfired⟩
  · exact absurd hv (herr v)
  · have hfree' : w'.st.objs.get (o.dig cfg.alg t) = none ∨ w'.st.objs.get (o.dig cfg.alg t) = some t := by
      cases hx : w'.st.objs.get (o.dig cfg.alg t) with
      | none => exact Or.inl rfl
      | some y =>
        right
        rcases hobjs _ _ hx with h | ⟨_, h⟩
        · rcases hfree with h0 | h0
          · rw [h0] at h; cases h
          · rw [h0] at h; injection h with h; rw [h]
        · rw [h]
    obtain ⟨m, w2, hrun, _, hnf2, hret⟩ := store_any cfg o w'.st w'.log p t hp hok hgone (hnl' hnl) hfree'
    have hw : ({ w' with fault := none } : World) = calm w'.st w'.log := by
      obtain ⟨st', lk, fault, log⟩ := w'
      simp only at hlk
      subst hlk; rfl
    have hsp := run_spent (storeObject cfg o (.str p) (.ok t) .none .none .none .none : Prog (Except Exc Val)) w' f' hf' hfired hpers
    have hsp' : Prog.run (storeObject cfg o (.str p) (.ok t) .none .none .none .none) w' = _ := hsp
    rw [hw] at hsp'
    have hrun' : Prog.run (storeObject cfg o (.str p) (.ok t) .none .none .none .none) (calm w'.st w'.log)
        = (.ok (.objMeta m), w2) := hrun
    rw [hrun'] at hsp'
    refine ⟨m, { w2 with fault := some f' }, hsp', ?_⟩
    have : ({ ({ w2 with fault := some f' } : World) with fault := none } : World) = { w2 with fault := none } := rfl
    rw [this]
    have hw2 : ({ w2 with fault := none } : World) = w2 := world_eta_none w2 hnf2
    rw [hw2]; exact hret

end HS

namespace HS
variable (cfg : Config) (o : Oracle)

local macro "sites_simp" hp:ident hc:ident h1:ident h2:ident ho:ident hv:ident hac:ident extra:term "," extra2:term "," extra3:term "," extra4:term : tactic =>
  `(tactic| simp [sitesOfRun, calm, calmL, moveAndGetChecksums, tagObject, storeRefs, runsimp, Prog.runLog,
    checkString_of_ok $hp, checkString_of_ok $hc, $h1:ident, $h2:ident, $ho:ident, $hv:ident, $hac:ident,
    checkArgData, checkInteger, openStream, strArg, writeRefsTmp, verifyRefs, updateRefsAdd, renderLines_snoc, Ev.sites,
    numberSites, $extra:term, $extra2:term, $extra3:term, $extra4:term])

theorem store_sites_absent_new_complete (st : Store) (log : List Eff) (p : Str) (t : Tok) (hp : checkStringOk p = true)
    (hok : OkDigests o) (h1 : st.pidRefs.get (o.hId p) = none) (h2 : st.cidRefs.get (o.dig cfg.alg t) = none)
    (ho : st.objs.get (o.dig cfg.alg t) = none) :
    sitesOfRun (storeObject cfg o (.str p) (.ok t) .none .none .none .none) (calm st log) = storeSites_absent_new cfg o p t := by
  have hc := hok cfg.alg t
  have hac : checkArgAlgorithmsAndChecksum cfg.alg .none .none .none = .ok (none, none) := rfl
  have hv : (verdict ((refineAlgorithmList defaultAlgos none none).map fun a => (a, o.dig a t)) (fun a => o.dig a t)
      (o.size t) .none none none).exc = none := by
    simp [verdict, sizeMismatch, Verdict.exc]
  rw [storeObject_pid_unfold cfg o (.str p) (.ok t) .none .none .none .none (by simp)]
  sites_simp hp hc h1 h2 ho hv hac inRefs, pyLines_single p (nospace_of_ok hp), storeSites_absent_new, FMap.get_set

theorem store_sites_present_new_complete (st : Store) (log : List Eff) (p : Str) (t x : Tok) (hp : checkStringOk p = true)
    (hok : OkDigests o) (h1 : st.pidRefs.get (o.hId p) = none) (h2 : st.cidRefs.get (o.dig cfg.alg t) = none)
    (ho : st.objs.get (o.dig cfg.alg t) = some x) :
    sitesOfRun (storeObject cfg o (.str p) (.ok t) .none .none .none .none) (calm st log) = storeSites_present_new cfg o p t := by
  have hc := hok cfg.alg t
  have hac : checkArgAlgorithmsAndChecksum cfg.alg .none .none .none = .ok (none, none) := rfl
  have hv : (verdict ((refineAlgorithmList defaultAlgos none none).map fun a => (a, o.dig a t)) (fun a => o.dig a t)
      (o.size t) .none none none).exc = none := by
    simp [verdict, sizeMismatch, Verdict.exc]
  rw [storeObject_pid_unfold cfg o (.str p) (.ok t) .none .none .none .none (by simp)]
  sites_simp hp hc h1 h2 ho hv hac inRefs, pyLines_single p (nospace_of_ok hp), storeSites_present_new, FMap.get_set

theorem store_sites_absent_app_complete (st : Store) (log : List Eff) (p : Str) (t : Tok) (ls : List Str)
    (hp : checkStringOk p = true) (hok : OkDigests o) (h1 : st.pidRefs.get (o.hId p) = none)
    (h2 : st.cidRefs.get (o.dig cfg.alg t) = some (renderLines ls)) (hls : ∀ l ∈ ls, hasSpace l = false) (hnot : p ∉ ls)
    (ho : st.objs.get (o.dig cfg.alg t) = none) :
    sitesOfRun (storeObject cfg o (.str p) (.ok t) .none .none .none .none) (calm st log) = storeSites_absent_app cfg o p t := by
  have hc := hok cfg.alg t
  have hac : checkArgAlgorithmsAndChecksum cfg.alg .none .none .none = .ok (none, none) := rfl
  have hv : (verdict ((refineAlgorithmList defaultAlgos none none).map fun a => (a, o.dig a t)) (fun a => o.dig a t)
      (o.size t) .none none none).exc = none := by
    simp [verdict, sizeMismatch, Verdict.exc]
  have hsp := nospace_of_ok hp
  have hin : inRefs p (renderLines ls) = false := by
    rw [inRefs_render p ls hls]; simpa using hnot
  have hls' : ∀ l ∈ ls ++ [p], hasSpace l = false := by
    intro l hl
    rcases List.mem_append.mp hl with h | h
    · exact hls l h
    · simp at h; subst h; exact hsp
  have hin' : inRefs p (renderLines (ls ++ [p])) = true := by
    rw [inRefs_render p _ hls']; simp
  rw [storeObject_pid_unfold cfg o (.str p) (.ok t) .none .none .none .none (by simp)]
  sites_simp hp hc h1 h2 ho hv hac hin, hin', storeSites_absent_app, FMap.get_set

theorem store_sites_present_app_complete (st : Store) (log : List Eff) (p : Str) (t x : Tok) (ls : List Str)
    (hp : checkStringOk p = true) (hok : OkDigests o) (h1 : st.pidRefs.get (o.hId p) = none)
    (h2 : st.cidRefs.get (o.dig cfg.alg t) = some (renderLines ls)) (hls : ∀ l ∈ ls, hasSpace l = false) (hnot : p ∉ ls)
    (ho : st.objs.get (o.dig cfg.alg t) = some x) :
    sitesOfRun (storeObject cfg o (.str p) (.ok t) .none .none .none .none) (calm st log) = storeSites_present_app cfg o p t := by
  have hc := hok cfg.alg t
  have hac : checkArgAlgorithmsAndChecksum cfg.alg .none .none .none = .ok (none, none) := rfl
  have hv : (verdict ((refineAlgorithmList defaultAlgos none none).map fun a => (a, o.dig a t)) (fun a => o.dig a t)
      (o.size t) .none none none).exc = none := by
    simp [verdict, sizeMismatch, Verdict.exc]
  have hsp := nospace_of_ok hp
  have hin : inRefs p (renderLines ls) = false := by
    rw [inRefs_render p ls hls]; simpa using hnot
  have hls' : ∀ l ∈ ls ++ [p], hasSpace l = false := by
    intro l hl
    rcases List.mem_append.mp hl with h | h
    · exact hls l h
    · simp at h; subst h; exact hsp
  have hin' : inRefs p (renderLines (ls ++ [p])) = true := by
    rw [inRefs_render p _ hls']; simp
  rw [storeObject_pid_unfold cfg o (.str p) (.ok t) .none .none .none .none (by simp)]
  sites_simp hp hc h1 h2 ho hv hac hin, hin', storeSites_present_app, FMap.get_set

end HS
