/-
  RunInv — from a static discipline (`AllEv P`) and a per-primitive
  preservation fact to invariants of whole executions: the sequential run, every
  crash prefix, every intermediate state. Helper lemmas.
-/
import HSModel.Proofs.AllEv
namespace HS
namespace Prog
variable {α : Type} {P : Ev → Prop} {I : World → Prop}

/-- `I` survives every primitive that satisfies `P` -/
def Preserved (P : Ev → Prop) (I : World → Prop) : Prop :=
  ∀ w e, P e → I w → I (respond w e).2

theorem run_inv (m : Prog α) (hm : m.AllEv P) (hp : Preserved P I) (w : World) (hw : I w) :
    I (m.run w).2 := by
  induction m generalizing w with
  | ret a => exact hw
  | op e k ih =>
    simp only [run]
    exact ih _ (hm.2 _) _ (hp w e hm.1 hw)

/-- the state left by a crash before any effect number `n` -/
theorem crashAt_inv (m : Prog α) (hm : m.AllEv P) (hp : Preserved P I) (n : Nat) (w : World) (hw : I w) :
    I (crashAt n m w).2 := by
  induction m generalizing w n with
  | ret a => simp only [crashAt]; exact hw
  | op e k ih =>
    cases e with
    | eff x =>
      cases n with
      | zero => simp only [crashAt]; exact hw
      | succ n =>
        simp only [crashAt]
        exact ih _ (hm.2 _) n _ (hp w _ hm.1 hw)
    | _ =>
      simp only [crashAt]
      exact ih _ (hm.2 _) n _ (hp w _ hm.1 hw)

/-- every intermediate store recorded by `runSnap` satisfies `J`, if every world
    reached does -/
theorem runSnap_inv {J : Store → Prop} (m : Prog α) (hm : m.AllEv P) (hp : Preserved P I)
    (hj : ∀ w, I w → J w.st) (w : World) (hw : I w) (acc : List Store) (hacc : ∀ s ∈ acc, J s) :
    ∀ s ∈ (runSnap m w acc).2.2, J s := by
  induction m generalizing w acc with
  | ret a =>
    simp only [runSnap]
    intro s hs
    exact hacc s (List.mem_reverse.mp hs)
  | op e k ih =>
    have hw' := hp w e hm.1 hw
    cases e with
    | eff x =>
      simp only [runSnap]
      split
      · apply ih _ (hm.2 _) _ hw'
        intro s hs
        rcases List.mem_cons.mp hs with rfl | hs
        · exact hj _ hw'
        · exact hacc s hs
      · exact ih _ (hm.2 _) _ hw' _ hacc
    | _ =>
      simp only [runSnap]
      exact ih _ (hm.2 _) _ hw' _ hacc

end Prog

theorem faultStep_st (w : World) (e : Ev) : (faultStep w e).2.st = w.st := by
  unfold faultStep; split <;> rfl

theorem faultStep_lk (w : World) (e : Ev) : (faultStep w e).2.lk = w.lk := by
  unfold faultStep; split <;> rfl

theorem respondCore_store_cases (w : World) (e : Ev) :
    (respondCore w e).2.st = w.st ∨
      ∃ x s', e = .eff x ∧ w.st.apply x = some s' ∧ (respondCore w e).2.st = s' := by
  cases e with
  | eff x =>
    cases ha : w.st.apply x with
    | none => left; simp [respondCore, applyEff, ha]
    | some s' => right; exact ⟨x, s', rfl, ha, by simp [respondCore, applyEff, ha]⟩
  | readRef l => left; cases l <;> rfl
  | readOpen l => left; cases l <;> rfl
  | acquire c i => left; simp only [respondCore]; split <;> rfl
  | release c i => left; simp only [respondCore]; split <;> rfl
  | _ => left; rfl

/-- invariants that talk about the store only are indifferent to the fault plan,
    the lock lists and the log -/
theorem respond_store_cases (w : World) (e : Ev) :
    (respond w e).2.st = w.st ∨ ∃ x s', e = .eff x ∧ w.st.apply x = some s' ∧ (respond w e).2.st = s' := by
  unfold respond
  split
  · left; exact faultStep_st w e
  · rcases respondCore_store_cases (faultStep w e).2 e with h | ⟨x, s', he, ha, hs⟩
    · left; rw [h, faultStep_st]
    · right; exact ⟨x, s', he, by rw [← faultStep_st w e]; exact ha, hs⟩

/-- lift a store invariant preserved by every allowed effect to `Preserved` -/
theorem preserved_of_store {P : Ev → Prop} {J : Store → Prop}
    (h : ∀ s x s', P (.eff x) → s.apply x = some s' → J s → J s') :
    Prog.Preserved P (fun w => J w.st) := by
  intro w e hp hw
  rcases respond_store_cases w e with h0 | ⟨x, s', rfl, ha, hs⟩
  · show J (respond w e).2.st
    rw [h0]; exact hw
  · show J (respond w (.eff x)).2.st
    rw [hs]; exact h _ _ _ hp ha hw

end HS
