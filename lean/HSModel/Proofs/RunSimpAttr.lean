/- simp set used to execute programs symbolically on explicit worlds -/
import Lean
register_simp_attr runsimp
