/-
  Serial — threads whose whole effect lies between the acquire and the final
  release of one common identifier run one after the other under every schedule
  of the interleaving semantics: the configuration reached when all have
  returned is the one a sequential run reaches (some order), results included.
  Helper lemmas; the property statements are in Props/C12.lean and Props/C07.lean.
-/
import HSModel.Proofs.ConcLemmas
import HSModel.Proofs.AllEv
import HSModel.Proofs.FaultMeta
import HSModel.Proofs.RefsSafe
import HSModel.Proofs.Disc
namespace HS

/-- the discipline every call satisfies: it returns holding nothing -/
abbrev Post0 : List Lock → Except Exc Val → Prop := fun h _ => h = []


/-! ### static shape of a bracketed program -/

def Prog.Quiet {α : Type} : Prog α → Prop
  | .ret _ => True
  | .op _ _ => False

/-- neither the acquire nor the release of `(c, i)` -/
def Avoid (c : LockClass) (i : Str) (e : Ev) : Prop := e ≠ .acquire c i ∧ e ≠ .release c i

/-- on every path (whatever the answers) the program issues primitives other than
    acquire / release of `(c, i)`, then the release of `(c, i)`, then returns -/
def Prog.Fin {α : Type} (c : LockClass) (i : Str) : Prog α → Prop
  | .ret _ => False
  | .op e k => (e = .release c i ∧ ∀ r, (k r).Quiet) ∨ (Avoid c i e ∧ ∀ r, Prog.Fin c i (k r))

/-- a thread program: returns at once (rejected arguments), or acquires `(c, i)`
    first thing and, once it has it, is `Fin` -/
def Prog.Bracketed {α : Type} (c : LockClass) (i : Str) : Prog α → Prop
  | .ret _ => True
  | .op e k => e = .acquire c i ∧ Prog.Fin c i (k .unit)

/-- the same shape, read as the lock discipline `Prog.Disc` reads programs: an
    acquire continues only when granted, a release of a held identifier succeeds -/
def Prog.FinU {α : Type} (c : LockClass) (i : Str) : Prog α → Prop
  | .ret _ => False
  | .op (.acquire c' i') k => (⟨c', i'⟩ : Lock) ≠ ⟨c, i⟩ ∧ Prog.FinU c i (k .unit)
  | .op (.release c' i') k =>
      ((⟨c', i'⟩ : Lock) = ⟨c, i⟩ ∧ (k .unit).Quiet) ∨ ((⟨c', i'⟩ : Lock) ≠ ⟨c, i⟩ ∧ Prog.FinU c i (k .unit))
  | .op (.isFile _) k => ∀ r, Prog.FinU c i (k r)
  | .op (.readRef _) k => ∀ r, Prog.FinU c i (k r)
  | .op (.readOpen _) k => ∀ r, Prog.FinU c i (k r)
  | .op (.readObj _) k => ∀ r, Prog.FinU c i (k r)
  | .op (.readDoc _ _) k => ∀ r, Prog.FinU c i (k r)
  | .op (.sizeIsZero _) k => ∀ r, Prog.FinU c i (k r)
  | .op (.listDocs _) k => ∀ r, Prog.FinU c i (k r)
  | .op (.openTmpWrite _) k => ∀ r, Prog.FinU c i (k r)
  | .op (.eff _) k => ∀ r, Prog.FinU c i (k r)
  | .op (.inProgress _) k => ∀ r, Prog.FinU c i (k r)
  | .op (.isLocked _ _) k => ∀ r, Prog.FinU c i (k r)

/-- a thread program under the lock discipline: returns at once, or acquires
    `(c, i)` first thing and, once it has it, is `FinU` -/
def Prog.BracketedU {α : Type} (c : LockClass) (i : Str) : Prog α → Prop
  | .ret _ => True
  | .op e k => e = .acquire c i ∧ Prog.FinU c i (k .unit)

namespace Prog
variable {α β : Type} {c : LockClass} {i : Str}

theorem finU_of_fin (m : Prog α) (hm : m.Fin c i) : m.FinU c i := by
  induction m with
  | ret a => exact hm.elim
  | op e k ih =>
    rcases hm with ⟨he, hq⟩ | ⟨ha, hk⟩
    · subst he
      exact Or.inl ⟨rfl, hq _⟩
    · cases e <;> simp only [Prog.FinU]
      case acquire c' i' =>
        refine ⟨?_, ih _ (hk _)⟩
        intro hl; cases hl; exact ha.1 rfl
      case release c' i' =>
        refine Or.inr ⟨?_, ih _ (hk _)⟩
        intro hl; cases hl; exact ha.2 rfl
      all_goals exact fun r => ih r (hk r)

theorem bracketedU_of_bracketed (m : Prog α) (hm : m.Bracketed c i) : m.BracketedU c i := by
  cases m with
  | ret a => trivial
  | op e k => exact ⟨hm.1, finU_of_fin _ hm.2⟩

theorem finU_bind_avoid (m : Prog α) (f : α → Prog β) (hm : m.AllEv (Avoid c i)) (hf : ∀ a, (f a).FinU c i) :
    (Prog.bind m f).FinU c i := by
  induction m with
  | ret a => exact hf a
  | op e k ih =>
    cases e <;> simp only [Prog.bind, Prog.FinU]
    case acquire c' i' =>
      refine ⟨?_, ih _ (hm.2 _)⟩
      intro hl; cases hl; exact hm.1.1 rfl
    case release c' i' =>
      refine Or.inr ⟨?_, ih _ (hm.2 _)⟩
      intro hl; cases hl; exact hm.1.2 rfl
    all_goals exact fun r => ih r (hm.2 r)

theorem finU_bind_quiet (m : Prog α) (f : α → Prog β) (hm : m.FinU c i) (hf : ∀ a, (f a).Quiet) :
    (Prog.bind m f).FinU c i := by
  induction m with
  | ret a => exact hm.elim
  | op e k ih =>
    cases e <;> simp only [Prog.bind, Prog.FinU] at hm ⊢
    case acquire c' i' => exact ⟨hm.1, ih _ hm.2⟩
    case release c' i' =>
      rcases hm with ⟨h1, h2⟩ | ⟨h1, h2⟩
      · left
        refine ⟨h1, ?_⟩
        cases hk : k .unit with
        | ret a => exact hf a
        | op e' k' => rw [hk] at h2; exact h2.elim
      · exact Or.inr ⟨h1, ih _ h2⟩
    all_goals exact fun r => ih r (hm r)

theorem quiet_bind (m : Prog α) (f : α → Prog β) (hm : m.Quiet) (hf : ∀ a, (f a).Quiet) : (Prog.bind m f).Quiet := by
  cases m with
  | ret a => exact hf a
  | op e k => exact hm.elim

theorem fin_bind_avoid (m : Prog α) (f : α → Prog β) (hm : m.AllEv (Avoid c i)) (hf : ∀ a, (f a).Fin c i) :
    (Prog.bind m f).Fin c i := by
  induction m with
  | ret a => exact hf a
  | op e k ih => exact Or.inr ⟨hm.1, fun r => ih r (hm.2 r)⟩

theorem fin_bind_quiet (m : Prog α) (f : α → Prog β) (hm : m.Fin c i) (hf : ∀ a, (f a).Quiet) :
    (Prog.bind m f).Fin c i := by
  induction m with
  | ret a => exact hm.elim
  | op e k ih =>
    rcases hm with ⟨he, hq⟩ | ⟨ha, hk⟩
    · exact Or.inl ⟨he, fun r => quiet_bind _ _ (hq r) hf⟩
    · exact Or.inr ⟨ha, fun r => ih r (hk r)⟩
end Prog

theorem release_fin (c : LockClass) (i : Str) : Prog.Fin c i (release c i : Prog (Except Exc Unit)) :=
  Or.inl ⟨rfl, fun _ => trivial⟩

/-- `try m finally release(c, i)` followed by nothing but a return -/
theorem withFinally_fin {α : Type} (c : LockClass) (i : Str) (m : PE α) (hm : m.AllEv (Avoid c i)) :
    Prog.Fin c i (PE.withFinally m (release c i) : Prog (Except Exc α)) := by
  unfold PE.withFinally
  apply Prog.fin_bind_avoid _ _ hm
  intro r
  apply Prog.fin_bind_quiet _ _ (release_fin c i)
  intro f
  cases f <;> trivial


/-! ### the identifier's entry in its lock list -/

theorem Locks.get_put_same (l : Locks) (c : LockClass) (v : List Str) : (l.put c v).get c = v := by
  cases c <;> rfl

theorem Locks.get_put_ne (l : Locks) {c c' : LockClass} (v : List Str) (h : c' ≠ c) : (l.put c' v).get c = l.get c := by
  cases c <;> cases c' <;> first | rfl | exact (h rfl).elim

/-- how often `i` stands in the list of class `c` -/
def World.cnt (w : World) (c : LockClass) (i : Str) : Nat := (w.lk.get c).count i

theorem respond_lk (w : World) (e : Ev) :
    (respond w e).2.lk = w.lk ∨
    (∃ c' i', e = .acquire c' i' ∧ (respond w e).2.lk = w.lk.put c' (w.lk.get c' ++ [i'])) ∨
    (∃ c' i', e = .release c' i' ∧ (respond w e).2.lk = w.lk.put c' ((w.lk.get c').erase i')) := by
  unfold respond
  split
  · left; exact faultStep_lk w e
  · cases e with
    | eff x =>
      left
      simp only [respondCore, applyEff]
      split
      · exact faultStep_lk w _
      · exact faultStep_lk w _
    | acquire c' i' =>
      simp only [respondCore, faultStep_lk]
      split
      · left; exact faultStep_lk w _
      · right; left; exact ⟨c', i', rfl, rfl⟩
    | release c' i' =>
      simp only [respondCore, faultStep_lk]
      split
      · right; right; exact ⟨c', i', rfl, rfl⟩
      · left; exact faultStep_lk w _
    | readRef l =>
      left
      cases l <;> simp only [respondCore] <;> exact faultStep_lk w _
    | readOpen l =>
      left
      cases l <;> simp only [respondCore] <;> exact faultStep_lk w _
    | _ => left; simp only [respondCore]; exact faultStep_lk w _

theorem respond_cnt_avoid (w : World) (c : LockClass) (i : Str) (e : Ev) (h : Avoid c i e) :
    (respond w e).2.cnt c i = w.cnt c i := by
  unfold World.cnt
  rcases respond_lk w e with h1 | ⟨c', i', he, h1⟩ | ⟨c', i', he, h1⟩
  · rw [h1]
  · rw [h1]
    by_cases hc : c' = c
    · subst hc
      have hi : i' ≠ i := by intro e'; subst e'; exact h.1 he
      rw [Locks.get_put_same, List.count_append]
      simp [hi]
    · rw [Locks.get_put_ne _ _ hc]
  · rw [h1]
    by_cases hc : c' = c
    · subst hc
      have hi : i' ≠ i := by intro e'; subst e'; exact h.2 he
      rw [Locks.get_put_same]
      exact List.count_erase_of_ne (fun e' => hi e'.symm)
    · rw [Locks.get_put_ne _ _ hc]

theorem respond_acquire_cnt (w : World) (c : LockClass) (i : Str) (h : w.cnt c i = 0) :
    (respond w (.acquire c i)).1 = .unit ∧ (respond w (.acquire c i)).2.cnt c i = 1 := by
  have hn : i ∉ w.lk.get c := List.count_eq_zero.mp h
  obtain ⟨w1, hr, _, hl⟩ := respond_acquire_free w c i hn
  rw [hr]
  refine ⟨rfl, ?_⟩
  show (w1.lk.get c).count i = 1
  rw [hl, Locks.get_put_same, List.count_append]
  unfold World.cnt at h
  simp [h]

theorem respond_release_cnt (w : World) (c : LockClass) (i : Str) (h : w.cnt c i = 1) :
    (respond w (.release c i)).1 = .unit ∧ (respond w (.release c i)).2.cnt c i = 0 := by
  have hn : i ∈ w.lk.get c := by
    apply List.count_pos_iff.mp
    unfold World.cnt at h; omega
  obtain ⟨w1, hr, _, hl⟩ := respond_release_held w c i hn
  rw [hr]
  refine ⟨rfl, ?_⟩
  show (w1.lk.get c).count i = 0
  rw [hl, Locks.get_put_same, List.count_erase_self]
  unfold World.cnt at h
  omega


/-! ### one thread, one step -/

def TState.prog : TState → Prog (Except Exc Val)
  | .fresh p => p
  | .at e k => .op e k
  | .finished r => .ret r

theorem TState.rest_eq (t : TState) (w : World) : t.rest w = t.prog.run w := by
  cases t <;> rfl

theorem step_prog_run (fuel : Nat) (t : TState) (w : World) :
    (t.step fuel w).1.prog.run (t.step fuel w).2 = t.prog.run w := by
  rw [← TState.rest_eq, ← TState.rest_eq]; exact step_rest fuel t w

/-- the identifiers a thread holds (by its own account) are in the world's lists -/
def Held (h : List Lock) (w : World) : Prop := ∀ l ∈ h, l.id ∈ w.lk.get l.cls

theorem held_of_lk_eq {h : List Lock} {w w' : World} (hw : Held h w) (e : w'.lk = w.lk) : Held h w' := by
  intro l hl; rw [e]; exact hw l hl

theorem notLock_of_ne (e : Ev) (h1 : ∀ c i, e ≠ .acquire c i) (h2 : ∀ c i, e ≠ .release c i) : NotLock e := by
  cases e <;> first | trivial | exact (h1 _ _ rfl).elim | exact (h2 _ _ rfl).elim

theorem respond_lk_notLock (w : World) (e : Ev) (h : NotLock e) : (respond w e).2.lk = w.lk := by
  rcases respond_lk w e with h1 | ⟨c', i', he, _⟩ | ⟨c', i', he, _⟩
  · exact h1
  · subst he; exact h.elim
  · subst he; exact h.elim

theorem avoid_of_notLock {c : LockClass} {i : Str} {e : Ev} (h : NotLock e) : Avoid c i e := by
  constructor <;> (intro he; subst he; exact h.elim)

section
variable {c : LockClass} {i : Str} {post : List Lock → Except Exc Val → Prop}

/-- for a primitive that is not a lock operation both static readings continue
    with every answer -/
theorem finU_notLock {e : Ev} {k : Resp → Prog (Except Exc Val)} (hn : NotLock e)
    (h : (Prog.op e k).FinU c i) (r : Resp) : (k r).FinU c i := by
  cases e <;> first | exact hn.elim | exact h r

theorem disc_notLock {e : Ev} {k : Resp → Prog (Except Exc Val)} {hl : List Lock} (hn : NotLock e)
    (h : (Prog.op e k).Disc post hl) (r : Resp) : (k r).Disc post hl := by
  cases e <;> first | exact hn.elim | exact h r

theorem boundary_of_lock (e : Ev) (h : ¬ NotLock e) : e.boundary = true := by
  cases e <;> first | rfl | exact (h trivial).elim

/-- walking to the next scheduling point passes no lock operation: the thread is
    still inside, holds what it held -/
theorem finU_runToBoundary (fuel : Nat) (p : Prog (Except Exc Val)) (w : World) (hl : List Lock)
    (hp : p.FinU c i) (hd : p.Disc post hl) (hh : Held hl w) (hc : w.cnt c i = 1) :
    (runToBoundary fuel p w).1.prog.FinU c i ∧ (runToBoundary fuel p w).1.prog.Disc post hl ∧
      Held hl (runToBoundary fuel p w).2 ∧ (runToBoundary fuel p w).2.cnt c i = 1 := by
  induction fuel generalizing p w with
  | zero => exact ⟨hp, hd, hh, hc⟩
  | succ n ih =>
    cases p with
    | ret r => exact hp.elim
    | op e k =>
      simp only [runToBoundary]
      split
      · exact ⟨hp, hd, hh, hc⟩
      · rename_i hb
        have hn : NotLock e := by
          apply Classical.byContradiction
          intro hne; exact hb (boundary_of_lock e hne)
        exact ih _ _ (finU_notLock hn hp _) (disc_notLock hn hd _)
          (held_of_lk_eq hh (respond_lk_notLock w e hn))
          (by rw [respond_cnt_avoid w c i e (avoid_of_notLock hn)]; exact hc)

theorem quiet_runToBoundary (fuel : Nat) (p : Prog (Except Exc Val)) (w : World) (hp : p.Quiet) :
    (runToBoundary fuel p w).1.prog = p ∧ (runToBoundary fuel p w).2 = w := by
  cases p with
  | op e k => exact hp.elim
  | ret r => cases fuel <;> exact ⟨rfl, rfl⟩

theorem held_acquire {hl : List Lock} {w w1 : World} {c' : LockClass} {i' : Str} (hh : Held hl w)
    (e : w1.lk = w.lk.put c' (w.lk.get c' ++ [i'])) : Held (hl ++ [⟨c', i'⟩]) w1 := by
  intro l hl'
  rw [e]
  rcases List.mem_append.mp hl' with h1 | h1
  · by_cases hc : c' = l.cls
    · subst hc; rw [Locks.get_put_same]; exact List.mem_append_left _ (hh l h1)
    · rw [Locks.get_put_ne _ _ hc]; exact hh l h1
  · simp only [List.mem_singleton] at h1; subst h1
    simp only
    rw [Locks.get_put_same]; simp

theorem held_release {hl : List Lock} {w w1 : World} {c' : LockClass} {i' : Str} (hh : Held hl w) (hn : hl.Nodup)
    (e : w1.lk = w.lk.put c' ((w.lk.get c').erase i')) : Held (hl.erase ⟨c', i'⟩) w1 := by
  intro l hl'
  rw [e]
  have hmem : l ∈ hl := List.mem_of_mem_erase hl'
  have hne : l ≠ ⟨c', i'⟩ := by
    intro e'; subst e'
    exact (List.Nodup.mem_erase_iff hn).mp hl' |>.1 rfl
  by_cases hc : c' = l.cls
  · subst hc
    rw [Locks.get_put_same]
    have hi : l.id ≠ i' := by
      intro e'; apply hne; cases l; simp only at e'; subst e'; rfl
    exact (List.mem_erase_of_ne hi).mpr (hh l hmem)
  · rw [Locks.get_put_ne _ _ hc]; exact hh l hmem

/-- a thread inside its bracket takes an enabled step: it is still inside, or it
    has released the identifier and has nothing left to do -/
theorem finU_step (fuel : Nat) (t : TState) (w : World) (hl : List Lock) (ht : t.prog.FinU c i)
    (hd : t.prog.Disc post hl) (hh : Held hl w) (hn : hl.Nodup) (hc : w.cnt c i = 1) (hen : t.enabled w = true) :
    (∃ hl', (t.step fuel w).1.prog.FinU c i ∧ (t.step fuel w).1.prog.Disc post hl' ∧ Held hl' (t.step fuel w).2 ∧
        hl'.Nodup ∧ (t.step fuel w).2.cnt c i = 1) ∨
    ((t.step fuel w).1.prog.Quiet ∧ (t.step fuel w).2.cnt c i = 0) := by
  cases t with
  | fresh p =>
    obtain ⟨h1, h2, h3, h4⟩ := finU_runToBoundary fuel p w hl ht hd hh hc
    exact Or.inl ⟨hl, h1, h2, h3, hn, h4⟩
  | finished r => exact ht.elim
  | «at» e k =>
    have hstep : (TState.at e k).step fuel w = runToBoundary fuel (k (respond w e).1) (respond w e).2 := rfl
    rw [hstep]
    by_cases hnl : NotLock e
    · left
      obtain ⟨h1, h2, h3, h4⟩ := finU_runToBoundary fuel (k (respond w e).1) (respond w e).2 hl
        (finU_notLock hnl ht _) (disc_notLock hnl hd _) (held_of_lk_eq hh (respond_lk_notLock w e hnl))
        (by rw [respond_cnt_avoid w c i e (avoid_of_notLock hnl)]; exact hc)
      exact ⟨hl, h1, h2, h3, hn, h4⟩
    · cases e with
      | acquire c' i' =>
        simp only [TState.prog, Prog.FinU, Prog.Disc] at ht hd
        have hfree : i' ∉ w.lk.get c' := by
          simpa [TState.enabled] using hen
        obtain ⟨w1, hr, _, hlk⟩ := respond_acquire_free w c' i' hfree
        have hav : Avoid c i (.acquire c' i') := by
          constructor
          · intro e'; cases e'; exact ht.1 rfl
          · intro e'; cases e'
        have hc1 : w1.cnt c i = 1 := by
          have := respond_cnt_avoid w c i _ hav; rw [hr] at this; rw [this]; exact hc
        have hnot : (⟨c', i'⟩ : Lock) ∉ hl := fun hm => hfree (hh _ hm)
        left
        rw [hr]
        obtain ⟨h1, h2, h3, h4⟩ := finU_runToBoundary fuel (k .unit) w1 (hl ++ [⟨c', i'⟩]) ht.2 hd.2
          (held_acquire hh hlk) hc1
        refine ⟨hl ++ [⟨c', i'⟩], h1, h2, h3, ?_, h4⟩
        rw [List.nodup_append]
        refine ⟨hn, by simp, ?_⟩
        intro a ha b hb
        simp only [List.mem_singleton] at hb; subst hb
        intro e'; subst e'; exact hnot ha
      | release c' i' =>
        simp only [TState.prog, Prog.FinU, Prog.Disc] at ht hd
        rcases ht with ⟨he, hq⟩ | ⟨hne, hf⟩
        · right
          cases he
          obtain ⟨hr1, h0⟩ := respond_release_cnt w c i hc
          rw [show (respond w (.release c i)) = ((respond w (.release c i)).1, (respond w (.release c i)).2) from rfl, hr1]
          obtain ⟨h1, h2⟩ := quiet_runToBoundary fuel (k .unit) (respond w (.release c i)).2 hq
          rw [h1, h2]
          exact ⟨hq, h0⟩
        · left
          have hin : i' ∈ w.lk.get c' := hh _ hd.1
          obtain ⟨w1, hr, _, hlk⟩ := respond_release_held w c' i' hin
          have hav : Avoid c i (.release c' i') := by
            constructor
            · intro e'; cases e'
            · intro e'; cases e'; exact hne rfl
          have hc1 : w1.cnt c i = 1 := by
            have := respond_cnt_avoid w c i _ hav; rw [hr] at this; rw [this]; exact hc
          rw [hr]
          obtain ⟨h1, h2, h3, h4⟩ := finU_runToBoundary fuel (k .unit) w1 (hl.erase ⟨c', i'⟩) hf hd.2
            (held_release hh hn hlk) hc1
          exact ⟨hl.erase ⟨c', i'⟩, h1, h2, h3, hn.erase _, h4⟩
      | _ => exact (hnl trivial).elim

/-- a thread that has not started, or stands before its acquire without trying it -/
theorem fresh_acquire_step (fuel : Nat) (k : Resp → Prog (Except Exc Val)) (w : World) :
    ((TState.fresh (.op (.acquire c i) k)).step fuel w).1.prog = .op (.acquire c i) k ∧
    ((TState.fresh (.op (.acquire c i) k)).step fuel w).2 = w := by
  cases fuel <;> exact ⟨rfl, rfl⟩

/-- passing the acquire -/
theorem at_acquire_step (fuel : Nat) (k : Resp → Prog (Except Exc Val)) (w : World) (hk : (k .unit).FinU c i)
    (hd : (k .unit).Disc post [⟨c, i⟩]) (hc : w.cnt c i = 0) :
    ((TState.at (.acquire c i) k).step fuel w).1.prog.FinU c i ∧
    ((TState.at (.acquire c i) k).step fuel w).1.prog.Disc post [⟨c, i⟩] ∧
    Held [⟨c, i⟩] ((TState.at (.acquire c i) k).step fuel w).2 ∧
    ((TState.at (.acquire c i) k).step fuel w).2.cnt c i = 1 := by
  have hfree : i ∉ w.lk.get c := List.count_eq_zero.mp hc
  obtain ⟨w1, hr, _, hlk⟩ := respond_acquire_free w c i hfree
  obtain ⟨_, h2⟩ := respond_acquire_cnt w c i hc
  have hstep : (TState.at (.acquire c i) k).step fuel w = runToBoundary fuel (k (respond w (.acquire c i)).1) (respond w (.acquire c i)).2 := rfl
  rw [hstep]
  rw [hr] at h2 ⊢
  have hh : Held [⟨c, i⟩] w1 := by
    have := held_acquire (hl := []) (w := w) (w1 := w1) (c' := c) (i' := i) (by intro l hl; cases hl) hlk
    simpa using this
  exact finU_runToBoundary fuel (k .unit) w1 [⟨c, i⟩] hk hd hh h2

theorem quiet_step (fuel : Nat) (t : TState) (w : World) (ht : t.prog.Quiet) :
    (t.step fuel w).1.prog = t.prog ∧ (t.step fuel w).2 = w := by
  cases t with
  | fresh p => exact quiet_runToBoundary fuel p w ht
  | finished r => exact ⟨rfl, rfl⟩
  | «at» e k => exact ht.elim

end

/-! ### the sequential reference and the invariant -/

abbrev Results := List (Nat × Except Exc Val)

/-- run thread `j`'s whole program on the world reached so far -/
def seqStep (progs : List (Prog (Except Exc Val))) (acc : World × Results) (j : Nat) : World × Results :=
  match progs[j]? with
  | some p => ((p.run acc.1).2, acc.2 ++ [(j, (p.run acc.1).1)])
  | none => acc

/-- the programs run one after the other, whole, in the given order -/
def seqRun (progs : List (Prog (Except Exc Val))) (order : List Nat) (w0 : World) : World × Results :=
  order.foldl (seqStep progs) (w0, [])

theorem seqRun_snoc (progs : List (Prog (Except Exc Val))) (order : List Nat) (j : Nat) (w0 : World) :
    seqRun progs (order ++ [j]) w0 = seqStep progs (seqRun progs order w0) j := by
  simp [seqRun, List.foldl_append]

section
variable (c : LockClass) (i : Str) (post : List Lock → Except Exc Val → Prop) (act : Nat → Prop)
  (progs : List (Prog (Except Exc Val))) (w0 : World)

/-- has not passed its acquire -/
def Waiting (t : TState) (p : Prog (Except Exc Val)) : Prop :=
  t.prog = p ∧ ∃ k, p = .op (.acquire c i) k ∧ (k .unit).FinU c i ∧ (k .unit).Disc post [⟨c, i⟩]

/-- `done`: the threads that have nothing left to do, in the order in which they got there;
    `cur`: the thread inside its bracket, if any -/
structure SInv (cf : Conf) (done : List Nat) (cur : Option Nat) : Prop where
  len : cf.ts.length = progs.length
  nodup : done.Nodup
  dlt : ∀ j ∈ done, j < progs.length
  dret : ∀ j ∈ done, ∀ t, cf.ts[j]? = some t → ∃ v, t.prog = .ret v ∧ (j, v) ∈ (seqRun progs done w0).2
  wait : ∀ j t p, act j → j ∉ done → some j ≠ cur → cf.ts[j]? = some t → progs[j]? = some p → Waiting c i post t p
  curNone : cur = none → cf.w.cnt c i = 0 ∧ cf.w = (seqRun progs done w0).1
  curSome : ∀ a, cur = some a → a ∉ done ∧ cf.w.cnt c i = 1 ∧ ∃ t p hl, cf.ts[a]? = some t ∧ progs[a]? = some p ∧
    t.prog.FinU c i ∧ t.prog.Disc post hl ∧ Held hl cf.w ∧ hl.Nodup ∧ t.prog.run cf.w = p.run (seqRun progs done w0).1

theorem sinv_step {cf : Conf} {done : List Nat} {cur : Option Nat} (h : SInv c i post act progs w0 cf done cur)
    (fuel j : Nat) (t : TState) (hj : cf.ts[j]? = some t) (hen : t.enabled cf.w = true)
    (hact : j ∉ done → some j ≠ cur → act j) :
    ∃ done' cur', SInv c i post act progs w0 { w := (t.step fuel cf.w).2, ts := cf.ts.set j (t.step fuel cf.w).1 } done' cur' ∧
      (∀ x ∈ done', x ∈ done ∨ x = j) ∧ (cur' = cur ∨ cur' = some j ∨ cur' = none) := by
  have hjlt : j < cf.ts.length := by
    rcases Nat.lt_or_ge j cf.ts.length with h1 | h1
    · exact h1
    · rw [List.getElem?_eq_none h1] at hj; cases hj
  have hset_self : (cf.ts.set j (t.step fuel cf.w).1)[j]? = some (t.step fuel cf.w).1 := by
    rw [List.getElem?_set_self hjlt]
  have hset_ne : ∀ j', j' ≠ j → (cf.ts.set j (t.step fuel cf.w).1)[j']? = cf.ts[j']? := by
    intro j' hne; rw [List.getElem?_set_ne (Ne.symm hne)]
  obtain ⟨p, hp⟩ : ∃ p, progs[j]? = some p := by
    have : j < progs.length := h.len ▸ hjlt
    exact ⟨progs[j], List.getElem?_eq_getElem this⟩
  by_cases hd : j ∈ done
  · -- nothing left to do: at most the thread is marked finished
    obtain ⟨v, hv, hmem⟩ := h.dret j hd t hj
    obtain ⟨h1, h2⟩ := quiet_step fuel t cf.w (by rw [hv]; trivial)
    refine ⟨done, cur, ⟨by simpa using h.len, h.nodup, h.dlt, ?_, ?_, ?_, ?_⟩, fun x hx => Or.inl hx, Or.inl rfl⟩
    · intro j' hj' t' ht'
      by_cases e : j' = j
      · subst e; rw [hset_self] at ht'; cases ht'
        exact ⟨v, by rw [h1, hv], hmem⟩
      · rw [hset_ne j' e] at ht'; exact h.dret j' hj' t' ht'
    · intro j' t' p' ha' hj' hc' ht' hp'
      have e : j' ≠ j := fun e => hj' (e ▸ hd)
      rw [hset_ne j' e] at ht'; exact h.wait j' t' p' ha' hj' hc' ht' hp'
    · intro hc; simp only [h2]; exact h.curNone hc
    · intro a ha
      obtain ⟨h3, h4, t', p', hl, h5, h6, h7, h7d, h7h, h7n, h8⟩ := h.curSome a ha
      have e : a ≠ j := fun e => h3 (e ▸ hd)
      refine ⟨h3, by simp only [h2]; exact h4, t', p', hl, by rw [hset_ne a e]; exact h5, h6, h7, h7d,
        by simp only [h2]; exact h7h, h7n, by simp only [h2]; exact h8⟩
  · by_cases hc : some j = cur
    · -- the thread inside its bracket moves
      obtain ⟨h3, h4, t', p', hl, h5, h6, h7, h7d, h7h, h7n, h8⟩ := h.curSome j hc.symm
      rw [hj] at h5; cases h5
      rw [hp] at h6; cases h6
      have hrun := step_prog_run fuel t cf.w
      rcases finU_step fuel t cf.w hl h7 h7d h7h h7n h4 hen with ⟨hl', hf, hfd, hfh, hfn, hc1⟩ | ⟨hq, hc0⟩
      · refine ⟨done, cur, ⟨by simpa using h.len, h.nodup, h.dlt, ?_, ?_, ?_, ?_⟩, fun x hx => Or.inl hx, Or.inl rfl⟩
        · intro j' hj' t' ht'
          have e : j' ≠ j := fun e => hd (e ▸ hj')
          rw [hset_ne j' e] at ht'; exact h.dret j' hj' t' ht'
        · intro j' t' p' ha' hj' hc' ht' hp'
          have e : j' ≠ j := fun e => hc' (e ▸ hc)
          rw [hset_ne j' e] at ht'; exact h.wait j' t' p' ha' hj' hc' ht' hp'
        · intro hn; rw [hn] at hc; cases hc
        · intro a ha
          have e : a = j := by rw [← hc] at ha; cases ha; rfl
          subst e
          exact ⟨h3, hc1, _, p, hl', hset_self, hp, hf, hfd, hfh, hfn, by rw [hrun]; exact h8⟩
      · -- it has released the identifier and returned
        obtain ⟨v, hv⟩ : ∃ v, (t.step fuel cf.w).1.prog = .ret v := by
          cases hq' : (t.step fuel cf.w).1.prog with
          | ret v => exact ⟨v, rfl⟩
          | op e k => rw [hq'] at hq; exact hq.elim
        rw [hv] at hrun
        have hw : (t.step fuel cf.w).2 = (p.run (seqRun progs done w0).1).2 := by
          have := congrArg Prod.snd hrun; rw [h8] at this; exact this
        have hres : v = (p.run (seqRun progs done w0).1).1 := by
          have := congrArg Prod.fst hrun; rw [h8] at this; exact this
        have hsnoc : seqRun progs (done ++ [j]) w0 =
            ((p.run (seqRun progs done w0).1).2, (seqRun progs done w0).2 ++ [(j, (p.run (seqRun progs done w0).1).1)]) := by
          rw [seqRun_snoc]; simp only [seqStep, hp]
        refine ⟨done ++ [j], none, ⟨by simpa using h.len, ?_, ?_, ?_, ?_, ?_, ?_⟩,
          (fun x hx => by rcases List.mem_append.mp hx with hx | hx; exact Or.inl hx; exact Or.inr (List.mem_singleton.mp hx)),
          Or.inr (Or.inr rfl)⟩
        · rw [List.nodup_append]
          refine ⟨h.nodup, by simp, ?_⟩
          intro a ha b hb
          simp only [List.mem_singleton] at hb; subst hb
          intro e; subst e; exact hd ha
        · intro j' hj'
          rcases List.mem_append.mp hj' with hj' | hj'
          · exact h.dlt j' hj'
          · simp only [List.mem_singleton] at hj'; subst hj'
            exact h.len ▸ hjlt
        · intro j' hj' t' ht'
          rw [hsnoc]
          rcases List.mem_append.mp hj' with hj' | hj'
          · have e : j' ≠ j := fun e => hd (e ▸ hj')
            rw [hset_ne j' e] at ht'
            obtain ⟨v', h1, h2⟩ := h.dret j' hj' t' ht'
            exact ⟨v', h1, List.mem_append_left _ h2⟩
          · simp only [List.mem_singleton] at hj'; subst hj'
            rw [hset_self] at ht'; cases ht'
            exact ⟨v, hv, List.mem_append_right _ (by rw [hres]; simp)⟩
        · intro j' t' p' ha' hj' _ ht' hp'
          have hj1 : j' ∉ done := fun e => hj' (List.mem_append_left _ e)
          have e : j' ≠ j := fun e => hj' (List.mem_append_right _ (by simp [e]))
          rw [hset_ne j' e] at ht'
          exact h.wait j' t' p' ha' hj1 (by rw [← hc]; intro e'; cases e'; exact e rfl) ht' hp'
        · intro _
          refine ⟨hc0, ?_⟩
          rw [hsnoc]; exact hw
        · intro a ha; cases ha
    · -- a thread that has not passed its acquire
      obtain ⟨hprog, k, hk, hfin, hdisc⟩ := h.wait j t p (hact hd hc) hd hc hj hp
      subst hk
      cases t with
      | finished r => cases hprog
      | fresh q =>
        have hq : q = .op (.acquire c i) k := hprog
        subst hq
        obtain ⟨h1, h2⟩ := fresh_acquire_step (c := c) (i := i) fuel k cf.w
        refine ⟨done, cur, ⟨by simpa using h.len, h.nodup, h.dlt, ?_, ?_, ?_, ?_⟩, fun x hx => Or.inl hx, Or.inl rfl⟩
        · intro j' hj' t' ht'
          have e : j' ≠ j := fun e => hd (e ▸ hj')
          rw [hset_ne j' e] at ht'; exact h.dret j' hj' t' ht'
        · intro j' t' p' ha' hj' hc' ht' hp'
          by_cases e : j' = j
          · subst e; rw [hset_self] at ht'; cases ht'
            rw [hp] at hp'; cases hp'
            exact ⟨h1, k, rfl, hfin, hdisc⟩
          · rw [hset_ne j' e] at ht'; exact h.wait j' t' p' ha' hj' hc' ht' hp'
        · intro hn; simp only [h2]; exact h.curNone hn
        · intro a ha
          obtain ⟨h3, h4, t', p', hl, h5, h6, h7, h7d, h7h, h7n, h8⟩ := h.curSome a ha
          have e : a ≠ j := fun e => hc (by rw [ha, e])
          exact ⟨h3, by simp only [h2]; exact h4, t', p', hl, by rw [hset_ne a e]; exact h5, h6, h7, h7d,
            by simp only [h2]; exact h7h, h7n, by simp only [h2]; exact h8⟩
      | «at» e k' =>
        have he : e = .acquire c i ∧ k' = k := by
          simp only [TState.prog, Prog.op.injEq] at hprog; exact ⟨hprog.1, hprog.2⟩
        obtain ⟨he1, he2⟩ := he
        subst he1; subst he2
        have hfree : cf.w.cnt c i = 0 := by
          simp only [TState.enabled, Bool.not_eq_true', List.contains_eq_mem, decide_eq_false_iff_not] at hen
          exact List.count_eq_zero.mpr hen
        have hcur : cur = none := by
          cases hcur : cur with
          | none => rfl
          | some a => obtain ⟨_, h4, _⟩ := h.curSome a hcur; rw [hfree] at h4; cases h4
        obtain ⟨_, hw⟩ := h.curNone hcur
        obtain ⟨hf, hfd, hfh, hc1⟩ := at_acquire_step fuel k' cf.w hfin hdisc hfree
        have hrun := step_prog_run fuel (TState.at (.acquire c i) k') cf.w
        refine ⟨done, some j, ⟨by simpa using h.len, h.nodup, h.dlt, ?_, ?_, ?_, ?_⟩, fun x hx => Or.inl hx, Or.inr (Or.inl rfl)⟩
        · intro j' hj' t' ht'
          have e : j' ≠ j := fun e => hd (e ▸ hj')
          rw [hset_ne j' e] at ht'; exact h.dret j' hj' t' ht'
        · intro j' t' p' ha' hj' hc' ht' hp'
          have e : j' ≠ j := fun e => hc' (by rw [e])
          rw [hset_ne j' e] at ht'
          exact h.wait j' t' p' ha' hj' (by rw [hcur]; intro e'; cases e') ht' hp'
        · intro hn; cases hn
        · intro a ha
          cases ha
          exact ⟨hd, hc1, _, _, [⟨c, i⟩], hset_self, hp, hf, hfd, hfh, by simp, by rw [hrun, hw]; rfl⟩

end

/-! ### every schedule -/

section
variable (c : LockClass) (i : Str) (post : List Lock → Except Exc Val → Prop)
  (progs : List (Prog (Except Exc Val))) (w0 : World)

/-- all threads take part from the start -/
abbrev allAct : Nat → Prop := fun _ => True

theorem sinv_schedule (fuel : Nat) (sched : List Nat) (cf : Conf) (n : Nat) (done : List Nat) (cur : Option Nat)
    (h : SInv c i post allAct progs w0 cf done cur) :
    ∃ done' cur', SInv c i post allAct progs w0 (runSchedule fuel cf sched n).1 done' cur' := by
  induction sched generalizing cf n done cur with
  | nil => exact ⟨done, cur, h⟩
  | cons j rest ih =>
    simp only [runSchedule]
    cases hj : cf.ts[j]? with
    | none => exact ⟨done, cur, h⟩
    | some t =>
      simp only
      by_cases hen : t.enabled cf.w = true
      · rw [if_pos hen]
        obtain ⟨d', c', h', _, _⟩ := sinv_step c i post allAct progs w0 h fuel j t hj hen (fun _ _ => trivial)
        exact ih _ _ d' c' h'
      · rw [if_neg hen]; exact ⟨done, cur, h⟩

/-- membership in the result list only grows -/
theorem seqStep_mono (acc : World × Results) (j : Nat) (x : Nat × Except Exc Val) (hx : x ∈ acc.2) :
    x ∈ (seqStep progs acc j).2 := by
  unfold seqStep
  split
  · exact List.mem_append_left _ hx
  · exact hx

theorem foldl_seqStep_mono (l : List Nat) (acc : World × Results) (x : Nat × Except Exc Val) (hx : x ∈ acc.2) :
    x ∈ (l.foldl (seqStep progs) acc).2 := by
  induction l generalizing acc with
  | nil => exact hx
  | cons a r ih => exact ih _ (seqStep_mono progs acc a x hx)

/-- threads that return without a primitive leave the world alone and report their value -/
theorem foldl_seqStep_quiet (l : List Nat) (acc : World × Results)
    (hl : ∀ j ∈ l, ∀ p, progs[j]? = some p → p.Quiet) :
    (l.foldl (seqStep progs) acc).1 = acc.1 ∧
    ∀ j ∈ l, ∀ v, progs[j]? = some (.ret v) → (j, v) ∈ (l.foldl (seqStep progs) acc).2 := by
  induction l generalizing acc with
  | nil => exact ⟨rfl, fun j hj => by cases hj⟩
  | cons a r ih =>
    have hr : ∀ j ∈ r, ∀ p, progs[j]? = some p → p.Quiet := fun j hj => hl j (List.mem_cons_of_mem _ hj)
    obtain ⟨h1, h2⟩ := ih (seqStep progs acc a) hr
    have hw : (seqStep progs acc a).1 = acc.1 := by
      unfold seqStep
      cases hp : progs[a]? with
      | none => rfl
      | some p =>
        have hq := hl a (List.mem_cons_self ..) p hp
        cases p with
        | ret v => rfl
        | op e k => exact hq.elim
    refine ⟨by simp only [List.foldl_cons]; rw [h1, hw], ?_⟩
    intro j hj v hv
    simp only [List.foldl_cons]
    rcases List.mem_cons.mp hj with e | hj
    · subst e
      apply foldl_seqStep_mono
      unfold seqStep; rw [hv]
      exact List.mem_append_right _ (by simp [Prog.run])
    · exact h2 j hj v hv

def isRet : Prog (Except Exc Val) → Bool
  | .ret _ => true
  | .op _ _ => false

/-- threads with nothing to do from the start (calls rejected for their arguments) -/
def done0 : List Nat := (List.range progs.length).filter fun j => match progs[j]? with | some p => isRet p | none => false

theorem sinv_initial (act : Nat → Prop)
    (hb : ∀ (j : Nat) (p : Prog (Except Exc Val)), act j → progs[j]? = some p → ¬ p.Quiet → p.BracketedU c i ∧ p.Disc post [])
    (h0 : w0.cnt c i = 0) :
    SInv c i post act progs w0 { w := w0, ts := progs.map .fresh } (done0 progs) none := by
  have hquiet : ∀ j ∈ done0 progs, ∀ p, progs[j]? = some p → p.Quiet := by
    intro j hj p hp
    simp only [done0, List.mem_filter, hp] at hj
    cases p with
    | ret v => trivial
    | op e k => simp [isRet] at hj
  obtain ⟨hw, hres⟩ := foldl_seqStep_quiet progs (done0 progs) (w0, []) hquiet
  have hts : ∀ (j : Nat) (t : TState), (progs.map TState.fresh)[j]? = some t → ∃ p, progs[j]? = some p ∧ t = TState.fresh p := by
    intro j t ht
    rw [List.getElem?_map] at ht
    cases hp : progs[j]? with
    | none => rw [hp] at ht; cases ht
    | some p => rw [hp] at ht; cases ht; exact ⟨p, rfl, rfl⟩
  refine ⟨by simp, ?_, ?_, ?_, ?_, ?_, ?_⟩
  · exact List.Nodup.sublist List.filter_sublist List.nodup_range
  · intro j hj
    simp only [done0, List.mem_filter, List.mem_range] at hj
    exact hj.1
  · intro j hj t ht
    obtain ⟨p, hp, rfl⟩ := hts j t ht
    have hq := hquiet j hj p hp
    cases p with
    | op e k => exact hq.elim
    | ret v => exact ⟨v, rfl, hres j hj v hp⟩
  · intro j t p hact hj _ ht hp
    obtain ⟨p', hp', rfl⟩ := hts j t ht
    rw [hp] at hp'; cases hp'
    have hjlt : j < progs.length := by
      rcases Nat.lt_or_ge j progs.length with h1 | h1
      · exact h1
      · rw [List.getElem?_eq_none h1] at hp; cases hp
    have hbp := hb j p hact hp
    cases p with
    | ret v =>
      exfalso; apply hj
      simp only [done0, List.mem_filter, List.mem_range, hp, isRet, and_true]
      exact hjlt
    | op e k =>
      obtain ⟨⟨he, hk⟩, hdisc⟩ := hbp (fun hq => hq.elim)
      subst he
      simp only [Prog.Disc, List.nil_append] at hdisc
      exact ⟨rfl, k, rfl, hk, hdisc.2⟩
  · intro _; exact ⟨h0, hw.symm⟩
  · intro a ha; cases ha

/-- **Serialisation.** Any number of threads, each of which either returns at
    once or does all its work between acquiring and finally releasing the one
    identifier `(c, i)`; any start world in which `(c, i)` is free (any store,
    any other identifiers held, any fault plan); any schedule; any step budget.
    If all threads have returned, then there is an order of the threads such
    that the world is exactly the one reached by running the programs whole, one
    after the other, in that order — store, lock lists, fault plan and effect
    log — and every thread's result is its result in that sequential run. -/
theorem serial_schedule (hb : ∀ p ∈ progs, p.BracketedU c i ∧ p.Disc post []) (h0 : w0.cnt c i = 0) (fuel : Nat)
    (sched : List Nat) :
    let fin := (runSchedule fuel { w := w0, ts := progs.map .fresh } sched 0).1
    fin.allFinished = true →
    ∃ order : List Nat, order.Nodup ∧ (∀ j, j ∈ order ↔ j < progs.length) ∧
      fin.w = (seqRun progs order w0).1 ∧
      ∀ (j : Nat) (t : TState), fin.ts[j]? = some t → ∃ v, t = TState.finished v ∧ (j, v) ∈ (seqRun progs order w0).2 := by
  intro fin hall
  obtain ⟨done, cur, h⟩ := sinv_schedule c i post progs w0 fuel sched _ 0 _ _ (sinv_initial c i post progs w0 allAct (fun j p _ hp _ => hb p (List.mem_of_getElem? hp)) h0)
  have hfin : ∀ (j : Nat) (t : TState), fin.ts[j]? = some t → ∃ v, t = TState.finished v := by
    intro j t ht
    have := List.all_eq_true.mp hall t (List.mem_of_getElem? ht)
    cases t with
    | finished v => exact ⟨v, rfl⟩
    | fresh p => simp at this
    | «at» e k => simp at this
  have hcur : cur = none := by
    cases hc : cur with
    | none => rfl
    | some a =>
      obtain ⟨_, _, t, p, _, ht, _, hf, _⟩ := h.curSome a hc
      obtain ⟨v, rfl⟩ := hfin a t ht
      exact hf.elim
  have hlen : fin.ts.length = progs.length := h.len
  have hall_done : ∀ j, j < progs.length → j ∈ done := by
    intro j hj
    apply Classical.byContradiction
    intro hnd
    have hjt : j < fin.ts.length := hlen ▸ hj
    have ht : fin.ts[j]? = some fin.ts[j] := List.getElem?_eq_getElem hjt
    have hp : progs[j]? = some progs[j] := List.getElem?_eq_getElem hj
    obtain ⟨v, hv⟩ := hfin j _ ht
    obtain ⟨hprog, k, hk, _⟩ := h.wait j _ _ trivial hnd (by rw [hcur]; intro e; cases e) ht hp
    rw [hv, hk] at hprog
    cases hprog
  refine ⟨done, h.nodup, ?_, (h.curNone hcur).2, ?_⟩
  · intro j
    constructor
    · exact h.dlt j
    · exact hall_done j
  · intro j t ht
    obtain ⟨v, rfl⟩ := hfin j t ht
    have hj : j < progs.length := by
      rcases Nat.lt_or_ge j fin.ts.length with h1 | h1
      · exact hlen ▸ h1
      · rw [List.getElem?_eq_none h1] at ht; cases ht
    obtain ⟨v', hv', hmem⟩ := h.dret j (hall_done j hj) _ ht
    cases hv'
    exact ⟨v, rfl, hmem⟩

end

/-! ### the calls that are bracketed -/

theorem Prog.bracketed_bind_quiet {α β : Type} {c : LockClass} {i : Str} (m : Prog α) (f : α → Prog β)
    (hm : m.Bracketed c i) (hf : ∀ a, (f a).Quiet) : (Prog.bind m f).Bracketed c i := by
  cases m with
  | ret a =>
    show (f a).Bracketed c i
    have := hf a
    cases hfa : f a with
    | ret b => trivial
    | op e k => rw [hfa] at this; exact this.elim
  | op e k => exact ⟨hm.1, Prog.fin_bind_quiet _ _ hm.2 hf⟩

theorem withDocLock_bracketed {α : Type} (doc : Str) (body : PE α) (hb : body.AllEv (Avoid .doc doc)) :
    Prog.Bracketed .doc doc (withDocLock doc body : Prog (Except Exc α)) :=
  ⟨rfl, withFinally_fin .doc doc body hb⟩

/-- a primitive that is not a lock operation, or one on another class, avoids `(c, i)` -/
macro "avoid_prim" : tactic => `(tactic| exact And.intro (by intro h; cases h) (by intro h; cases h))

section
variable (cfg : Config) (o : Oracle)

/-- `store_metadata(pid, data, format)`: rejected at once, or bracketed by its document name -/
theorem storeMetadata_bracketed (pid : SArg) (data : DataArg) (fmt : SArg) (p f : Str)
    (hp : checkString pid = .ok p) (hf : checkArgFormatId cfg.ns fmt = .ok f) :
    Prog.Bracketed .doc (o.hId (p ++ f)) (storeMetadata cfg o pid data fmt : Prog (Except Exc Val)) := by
  unfold storeMetadata
  rw [hp, hf]
  cases hd : checkArgData data with
  | error e => trivial
  | ok u =>
    apply withDocLock_bracketed
    repeat (first | allev_step | avoid_prim)

theorem PE.ofExcept_ok_bind {α β : Type} (a : α) (f : α → PE β) : (PE.ofExcept (.ok a) >>= f) = f a := rfl

/-- `delete_metadata(pid, format)` with a format: the same -/
theorem deleteMetadata_bracketed (pid fmt : SArg) (p f : Str) (hfmt : fmt ≠ .none)
    (hp : checkString pid = .ok p) (hf : checkArgFormatId cfg.ns fmt = .ok f) :
    Prog.Bracketed .doc (o.hId (p ++ f)) (deleteMetadata cfg o pid fmt : Prog (Except Exc Val)) := by
  unfold deleteMetadata
  rw [hp, hf]
  cases fmt with
  | none => exact (hfmt rfl).elim
  | other =>
    rw [PE.ofExcept_ok_bind, PE.ofExcept_ok_bind]
    unfold deleteMetadataCore
    apply Prog.bracketed_bind_quiet
    · apply withDocLock_bracketed
      repeat (first | allev_step | avoid_prim)
    · intro a; cases a <;> trivial
  | str s =>
    rw [PE.ofExcept_ok_bind, PE.ofExcept_ok_bind]
    unfold deleteMetadataCore
    apply Prog.bracketed_bind_quiet
    · apply withDocLock_bracketed
      repeat (first | allev_step | avoid_prim)
    · intro a; cases a <;> trivial

end

/-! ### delete_object: bracketed by its pid in the object-pid class -/

/-- no lock operation on class `c` -/
def NotCls (c : LockClass) : Ev → Prop
  | .acquire c' _ => c' ≠ c
  | .release c' _ => c' ≠ c
  | _ => True

theorem avoid_of_notCls {c : LockClass} (i : Str) {e : Ev} (h : NotCls c e) : Avoid c i e := by
  constructor
  · intro he; subst he; exact h rfl
  · intro he; subst he; exact h rfl

macro "notcls_step" : tactic => `(tactic| first
  | (show (_ : LockClass) ≠ _; decide)
  | allev_step)

section
variable (cfg : Config) (o : Oracle)

theorem findObject_notObjPid (pid : Str) : (findObject cfg o pid).AllEv (NotCls .objPid) := by
  unfold findObject
  repeat notcls_step

theorem updateRefsRemove_notObjPid (cid pid : Str) : (updateRefsRemove cid pid).AllEv (NotCls .objPid) := by
  unfold updateRefsRemove
  repeat notcls_step

theorem deleteMarked_notObjPid (l : List Loc) : (deleteMarked l).AllEv (NotCls .objPid) := by
  induction l with
  | nil => exact PE.allEv_pure _
  | cons a r ih =>
    unfold deleteMarked
    repeat (first | exact ih | notcls_step)

theorem withDocLock_notObjPid {α : Type} (doc : Str) (body : PE α) (h : body.AllEv (NotCls .objPid)) :
    (withDocLock doc body).AllEv (NotCls .objPid) := by
  unfold withDocLock
  repeat (first | exact h | notcls_step)

theorem retireDocs_notObjPid (dir : Str) (names : List Str) : (retireDocs dir names).AllEv (NotCls .objPid) := by
  induction names with
  | nil => exact PE.allEv_pure _
  | cons n r ih =>
    unfold retireDocs
    repeat (first | exact ih | apply withDocLock_notObjPid | notcls_step)

theorem deleteMetadataCore_notObjPid (p : Str) (fmt : Option Str) :
    (deleteMetadataCore o p fmt).AllEv (NotCls .objPid) := by
  unfold deleteMetadataCore
  cases fmt with
  | none =>
    simp only
    repeat (first | exact retireDocs_notObjPid _ _ | exact deleteMarked_notObjPid _ | notcls_step)
  | some f =>
    simp only
    repeat (first | apply withDocLock_notObjPid | notcls_step)

theorem withFinally_acquire_bracketed {α : Type} (c : LockClass) (i : Str) (body : Unit → PE α)
    (hb : (body ()).AllEv (Avoid c i)) :
    Prog.Bracketed c i (PE.withFinally (acquire c i >>= body) (release c i) : Prog (Except Exc α)) :=
  ⟨rfl, withFinally_fin c i (body ()) hb⟩

/-- `delete_object(pid)`: rejected at once, or bracketed by the pid in the object-pid class -/
theorem deleteObject_bracketed (pid : SArg) (p : Str) (hp : checkString pid = .ok p) :
    Prog.Bracketed .objPid p (deleteObject cfg o pid : Prog (Except Exc Val)) := by
  unfold deleteObject
  rw [hp, PE.ofExcept_ok_bind]
  apply withFinally_acquire_bracketed
  apply Prog.allEv_mono _ (fun e => avoid_of_notCls p)
  repeat (first
    | exact findObject_notObjPid cfg o _
    | exact updateRefsRemove_notObjPid _ _
    | exact deleteMarked_notObjPid _
    | exact deleteMetadataCore_notObjPid o _ _
    | notcls_step)

end

/-! ### families of calls on one identifier -/

section
variable (cfg : Config) (o : Oracle)

/-- a `store_metadata` or single-document `delete_metadata` call whose document name,
    if its arguments are accepted, is `doc` -/
def OnDoc (doc : Str) : Call → Prop
  | .storeMetadata pid _ fmt =>
      ∀ p f, checkString pid = .ok p → checkArgFormatId cfg.ns fmt = .ok f → o.hId (p ++ f) = doc
  | .deleteMetadata pid fmt =>
      fmt ≠ .none ∧ ∀ p f, checkString pid = .ok p → checkArgFormatId cfg.ns fmt = .ok f → o.hId (p ++ f) = doc
  | _ => False

theorem onDoc_bracketed (doc : Str) (call : Call) (h : OnDoc cfg o doc call) :
    Prog.Bracketed .doc doc (call.prog cfg o : Prog (Except Exc Val)) := by
  cases call with
  | storeMetadata pid data fmt =>
    simp only [Call.prog]
    cases hp : checkString pid with
    | error e => unfold storeMetadata; rw [hp]; trivial
    | ok p =>
      cases hf : checkArgFormatId cfg.ns fmt with
      | error e =>
        unfold storeMetadata; rw [hp, hf]
        cases checkArgData data <;> trivial
      | ok f =>
        have := h p f hp hf
        subst this
        exact storeMetadata_bracketed cfg o pid data fmt p f hp hf
  | deleteMetadata pid fmt =>
    simp only [Call.prog]
    obtain ⟨hfmt, h⟩ := h
    cases hp : checkString pid with
    | error e => unfold deleteMetadata; rw [hp]; trivial
    | ok p =>
      cases hf : checkArgFormatId cfg.ns fmt with
      | error e => unfold deleteMetadata; rw [hp, hf]; trivial
      | ok f =>
        have := h p f hp hf
        subst this
        exact deleteMetadata_bracketed cfg o pid fmt p f hfmt hp hf
  | _ => exact h.elim

/-- a `delete_object` call on pid `p` (or one rejected for its argument) -/
def DeletesPid (p : Str) : Call → Prop
  | .deleteObject pid => ∀ q, checkString pid = .ok q → q = p
  | _ => False

theorem deletesPid_bracketed (p : Str) (call : Call) (h : DeletesPid p call) :
    Prog.Bracketed .objPid p (call.prog cfg o : Prog (Except Exc Val)) := by
  cases call with
  | deleteObject pid =>
    simp only [Call.prog]
    cases hp : checkString pid with
    | error e => unfold deleteObject; rw [hp]; trivial
    | ok q =>
      have := h q hp
      subst this
      exact deleteObject_bracketed cfg o pid q hp
  | _ => exact h.elim

end

/-! ### tag_object: bracketed by its pid in the reference-pid class (read with the lock discipline) -/

section
variable (cfg : Config) (o : Oracle)

theorem Prog.bracketedU_bind_quiet {α β : Type} {c : LockClass} {i : Str} (m : Prog α) (f : α → Prog β)
    (hm : m.BracketedU c i) (hf : ∀ a, (f a).Quiet) : (Prog.bind m f).BracketedU c i := by
  cases m with
  | ret a =>
    show (f a).BracketedU c i
    have := hf a
    cases hfa : f a with
    | ret b => trivial
    | op e k => rw [hfa] at this; exact this.elim
  | op e k => exact ⟨hm.1, Prog.finU_bind_quiet _ _ hm.2 hf⟩

theorem storeRefs_bracketedU (pid cid : Str) :
    Prog.BracketedU .refPid pid (storeRefs cfg o pid cid : Prog (Except Exc Unit)) := by
  unfold storeRefs PE.withFinally
  refine ⟨rfl, ?_⟩
  apply Prog.finU_bind_avoid
  · apply Prog.allEv_mono _ (fun e (he : NotCls .refPid e) => avoid_of_notCls pid he)
    show PE.AllEv (NotCls .refPid) (acquire .cid cid >>= fun _ => _)
    apply PE.allEv_bind
    · apply allEv_acquire; show LockClass.cid ≠ LockClass.refPid; decide
    intro _
    apply Prog.allEv_mono _ (fun e (he : NotLock e) => (by cases e <;> first | trivial | exact he.elim : NotCls .refPid e))
    apply PE.allEv_tryCatch
    · repeat (first
        | exact verifyRefs_nl o _ _
        | exact updateRefsAdd_nl _ _
        | exact writeRefsTmp_nl
        | allev_step)
    · intro e
      split
      · exact PE.allEv_throw _
      · exact PE.allEv_throw _
      · apply PE.allEv_bind
        · exact untagObject_nl cfg o _ _
        · intro _; exact PE.allEv_throw _
  · intro r
    show Prog.FinU _ _ (Prog.bind (PE.bind' (release .cid cid) fun _ => release .refPid pid) _)
    unfold PE.bind' release unitPrim PE.prim
    simp only [Prog.bind, Prog.FinU]
    refine Or.inr ⟨(by intro h; cases h), Or.inl ⟨trivial, ?_⟩⟩
    trivial

/-- `tag_object(pid, cid)`: rejected at once, or bracketed by the pid in the reference-pid class -/
theorem tagObject_bracketedU (pid cid : SArg) (p : Str) (hp : checkString pid = .ok p) :
    Prog.BracketedU .refPid p (tagObject cfg o pid cid : Prog (Except Exc Val)) := by
  unfold tagObject
  rw [hp, PE.ofExcept_ok_bind]
  cases hc : checkString cid with
  | error e => trivial
  | ok c =>
    rw [PE.ofExcept_ok_bind]
    apply Prog.bracketedU_bind_quiet
    · exact storeRefs_bracketedU cfg o p c
    · intro a; cases a <;> trivial

end

section
variable (cfg : Config) (o : Oracle)

/-- a `tag_object` call on pid `p` (or one rejected for its arguments) -/
def TagsPid (p : Str) : Call → Prop
  | .tagObject pid _ => ∀ q, checkString pid = .ok q → q = p
  | _ => False

theorem tagsPid_bracketedU (p : Str) (call : Call) (h : TagsPid p call) :
    Prog.BracketedU .refPid p (call.prog cfg o : Prog (Except Exc Val)) := by
  cases call with
  | tagObject pid cid =>
    simp only [Call.prog]
    cases hp : checkString pid with
    | error e => unfold tagObject; rw [hp]; trivial
    | ok q =>
      have := h q hp
      subst this
      exact tagObject_bracketedU cfg o pid cid q hp
  | _ => exact h.elim

end

section
variable (c : LockClass) (i : Str) (post : List Lock → Except Exc Val → Prop) (act : Nat → Prop)
  (progs : List (Prog (Except Exc Val))) (w0 : World)

/-- what the invariant says once every thread has returned and all of them took part -/
theorem sinv_final {fin : Conf} {done : List Nat} {cur : Option Nat} (h : SInv c i post act progs w0 fin done cur)
    (hall : fin.allFinished = true) (hact : ∀ j, j < progs.length → act j) :
    done.Nodup ∧ (∀ j, j ∈ done ↔ j < progs.length) ∧ fin.w = (seqRun progs done w0).1 ∧
    ∀ (j : Nat) (t : TState), fin.ts[j]? = some t → ∃ v, t = TState.finished v ∧ (j, v) ∈ (seqRun progs done w0).2 := by
  have hfin : ∀ (j : Nat) (t : TState), fin.ts[j]? = some t → ∃ v, t = TState.finished v := by
    intro j t ht
    have := List.all_eq_true.mp hall t (List.mem_of_getElem? ht)
    cases t with
    | finished v => exact ⟨v, rfl⟩
    | fresh p => simp at this
    | «at» e k => simp at this
  have hcur : cur = none := by
    cases hc : cur with
    | none => rfl
    | some a =>
      obtain ⟨_, _, t, p, _, ht, _, hf, _⟩ := h.curSome a hc
      obtain ⟨v, rfl⟩ := hfin a t ht
      exact hf.elim
  have hlen : fin.ts.length = progs.length := h.len
  have hall_done : ∀ j, j < progs.length → j ∈ done := by
    intro j hj
    apply Classical.byContradiction
    intro hnd
    have hjt : j < fin.ts.length := hlen ▸ hj
    have ht : fin.ts[j]? = some fin.ts[j] := List.getElem?_eq_getElem hjt
    have hp : progs[j]? = some progs[j] := List.getElem?_eq_getElem hj
    obtain ⟨v, hv⟩ := hfin j _ ht
    obtain ⟨hprog, k, hk, _⟩ := h.wait j _ _ (hact j hj) hnd (by rw [hcur]; intro e; cases e) ht hp
    rw [hv, hk] at hprog
    cases hprog
  refine ⟨h.nodup, ?_, (h.curNone hcur).2, ?_⟩
  · intro j
    exact ⟨h.dlt j, hall_done j⟩
  · intro j t ht
    obtain ⟨v, rfl⟩ := hfin j t ht
    have hj : j < progs.length := by
      rcases Nat.lt_or_ge j fin.ts.length with h1 | h1
      · exact hlen ▸ h1
      · rw [List.getElem?_eq_none h1] at ht; cases ht
    obtain ⟨v', hv', hmem⟩ := h.dret j (hall_done j hj) _ ht
    cases hv'
    exact ⟨v, rfl, hmem⟩

end

end HS
