/-
  SerialSpec — from the serialisation theorem (Proofs/Serial.lean) to the
  specification: the sequential reference run is a history run, and history runs
  refine `Abs.step` (Proofs/RefineAll.lean). Helper lemmas.
-/
import HSModel.Proofs.Serial
import HSModel.Proofs.RefineAll
namespace HS
section
variable (cfg : Config) (o : Oracle)

/-- the program of a call, as a thread runs it -/
def Call.tprog (x : Call) : Prog (Except Exc Val) := x.prog cfg o

/-- the calls picked by a list of thread indices -/
def pick (calls : List Call) (order : List Nat) : List Call := order.filterMap (calls[·]?)

/-- the sequential reference run of the serialisation theorem is a history run -/
theorem foldl_seqStep_runHist (calls : List Call) (order : List Nat) (hv : ∀ j ∈ order, j < calls.length)
    (w : World) (acc : Results) :
    order.foldl (seqStep (calls.map (Call.tprog cfg o))) (w, acc)
      = ((runHist cfg o (pick calls order) w).2, acc ++ order.zip (runHist cfg o (pick calls order) w).1) := by
  induction order generalizing w acc with
  | nil => simp [pick, runHist]
  | cons j r ih =>
    have hjv : j < calls.length := hv j (List.mem_cons_self ..)
    have hj : calls[j]? = some calls[j] := List.getElem?_eq_getElem hjv
    have hm : (calls.map (Call.tprog cfg o))[j]? = some (Call.tprog cfg o calls[j]) := by
      rw [List.getElem?_map, hj]; rfl
    simp only [List.foldl_cons, pick, List.filterMap_cons, hj, seqStep, hm, runHist]
    rw [ih (fun j' hj' => hv j' (List.mem_cons_of_mem _ hj'))]
    simp only [pick, List.zip_cons_cons, List.append_assoc, List.singleton_append]
    rfl

theorem seqRun_runHist (calls : List Call) (order : List Nat) (hv : ∀ j ∈ order, j < calls.length) (w : World) :
    seqRun (calls.map (Call.tprog cfg o)) order w
      = ((runHist cfg o (pick calls order) w).2, order.zip (runHist cfg o (pick calls order) w).1) := by
  unfold seqRun
  rw [foldl_seqStep_runHist cfg o calls order hv w []]
  simp


/-- from the serialisation theorem to the specification: threads that are all
    bracketed by one identifier, started on a directory that simulates `a` with
    nothing locked and no fault plan — when all have returned there is an order
    in which the specification, run call after call from `a`, returns exactly the
    results the threads got and ends in a state the final directory simulates -/
theorem linearizable_of_bracketed (c : LockClass) (i : Str) (calls : List Call)
    (hb : ∀ x ∈ calls, Prog.BracketedU c i (Call.tprog cfg o x)) (hplain : ∀ x ∈ calls, CidArgPlain x)
    (st : Store) (log : List Eff) (a : Abs) (hs : Sim o st a) (ho : GoodOracle o) (fuel : Nat) (sched : List Nat) :
    let fin := (runSchedule fuel { w := calm st log, ts := (calls.map (Call.tprog cfg o)).map .fresh } sched 0).1
    fin.allFinished = true →
    ∃ order : List Nat, order.Nodup ∧ (∀ j, j ∈ order ↔ j < calls.length) ∧
      Sim o fin.w.st (specHist cfg o (pick calls order) a).2 ∧ fin.w.lk = {} ∧
      ∀ (j : Nat) (t : TState), fin.ts[j]? = some t →
        ∃ v, t = TState.finished v ∧ (j, v) ∈ order.zip (specHist cfg o (pick calls order) a).1 := by
  intro fin hall
  have hb' : ∀ p ∈ calls.map (Call.tprog cfg o),
      p.BracketedU c i ∧ p.Disc (fun h' (_ : Except Exc Val) => h' = []) [] := by
    intro p hp
    obtain ⟨x, hx, rfl⟩ := List.mem_map.mp hp
    exact ⟨hb x hx, call_neutral cfg o x⟩
  have h0 : (calm st log).cnt c i = 0 := by
    unfold World.cnt calm calmL
    cases c <;> rfl
  obtain ⟨order, hnd, hall', hw, hres⟩ := serial_schedule c i _ (calls.map (Call.tprog cfg o)) (calm st log) hb' h0 fuel sched hall
  have hlen : (calls.map (Call.tprog cfg o)).length = calls.length := List.length_map _
  have hv : ∀ j ∈ order, j < calls.length := fun j hj => hlen ▸ (hall' j).mp hj
  rw [seqRun_runHist cfg o calls order hv] at hw hres
  have hpick : ∀ x ∈ pick calls order, CidArgPlain x := by
    intro x hx
    simp only [pick, List.mem_filterMap] at hx
    obtain ⟨j, _, hj⟩ := hx
    exact hplain x (List.mem_of_getElem? hj)
  obtain ⟨h1, h2, h3, _⟩ := refines_history_from cfg o (pick calls order) (calm st log) a rfl rfl hs ho hpick
  refine ⟨order, hnd, fun j => by rw [hall' j, hlen], ?_, ?_, ?_⟩
  · show Sim o fin.w.st _
    rw [hw]; exact h2
  · show fin.w.lk = {}
    rw [hw]; exact h3
  · intro j t ht
    obtain ⟨v, hv', hmem⟩ := hres j t ht
    exact ⟨v, hv', by rw [← h1]; exact hmem⟩


/-- the serialisation theorem for calls, with the lock discipline of every call
    (`call_neutral`) supplied: any start world in which `(c, i)` is free -/
theorem serial_of_bracketed (c : LockClass) (i : Str) (calls : List Call)
    (hb : ∀ x ∈ calls, Prog.BracketedU c i (Call.tprog cfg o x)) (w0 : World) (h0 : i ∉ w0.lk.get c)
    (fuel : Nat) (sched : List Nat) :
    let progs := calls.map (Call.tprog cfg o)
    let fin := (runSchedule fuel { w := w0, ts := progs.map .fresh } sched 0).1
    fin.allFinished = true →
    ∃ order : List Nat, order.Nodup ∧ (∀ j, j ∈ order ↔ j < calls.length) ∧
      fin.w = (seqRun progs order w0).1 ∧
      ∀ (j : Nat) (t : TState), fin.ts[j]? = some t → ∃ v, t = TState.finished v ∧ (j, v) ∈ (seqRun progs order w0).2 := by
  intro progs fin hall
  have hb' : ∀ p ∈ progs, p.BracketedU c i ∧ p.Disc (fun h' (_ : Except Exc Val) => h' = []) [] := by
    intro p hp
    obtain ⟨x, hx, rfl⟩ := List.mem_map.mp hp
    exact ⟨hb x hx, call_neutral cfg o x⟩
  obtain ⟨order, h1, h2, h3, h4⟩ := serial_schedule c i _ progs w0 hb' (List.count_eq_zero.mpr h0) fuel sched hall
  exact ⟨order, h1, fun j => by rw [h2 j]; simp [progs], h3, h4⟩

end
end HS
