/-
  SerialTest — serialisation up to refusal: threads that first ask whether an
  identifier is being worked on (store_object's in-progress test), return a
  refusal if it is, and otherwise do all their work under the claim of that
  identifier. Built on the invariant of Proofs/Serial.lean, in which only the
  threads that have asked take part. Helper lemmas; statements in Props/C07.lean.
-/
import HSModel.Proofs.Serial
namespace HS

/-! ### calls that ask first whether the identifier is being worked on (store_object) -/

theorem respond_inProgress (w : World) (i : Str) : respond w (.inProgress i) = (.bool (decide (i ∈ w.lk.objPid)), w) := by
  unfold respond faultStep
  cases hf : w.fault with
  | none => simp [respondCore]
  | some f =>
    have hc : f.check (.inProgress i) = (false, f) := by
      unfold Fault.check
      simp [Ev.sites]
    simp only [hc, Bool.false_eq_true, if_false, respondCore]
    congr 1
    cases w; simp_all

theorem seqStep_set_ne (progs : List (Prog (Except Exc Val))) (j k : Nat) (x : Prog (Except Exc Val))
    (acc : World × Results) (h : k ≠ j) : seqStep (progs.set j x) acc k = seqStep progs acc k := by
  unfold seqStep
  rw [List.getElem?_set_ne (Ne.symm h)]

theorem foldl_seqStep_set (progs : List (Prog (Except Exc Val))) (j : Nat) (x : Prog (Except Exc Val))
    (l : List Nat) (acc : World × Results) (h : j ∉ l) :
    l.foldl (seqStep (progs.set j x)) acc = l.foldl (seqStep progs) acc := by
  induction l generalizing acc with
  | nil => rfl
  | cons a r ih =>
    simp only [List.foldl_cons]
    rw [seqStep_set_ne _ _ _ _ _ (fun e => h (by rw [← e]; exact List.mem_cons_self ..))]
    exact ih _ (fun hm => h (List.mem_cons_of_mem _ hm))

theorem seqRun_set (progs : List (Prog (Except Exc Val))) (j : Nat) (x : Prog (Except Exc Val))
    (order : List Nat) (w0 : World) (h : j ∉ order) : seqRun (progs.set j x) order w0 = seqRun progs order w0 :=
  foldl_seqStep_set progs j x order _ h

section
variable (c : LockClass) (i : Str) (post : List Lock → Except Exc Val → Prop) (act : Nat → Prop)
  (progs : List (Prog (Except Exc Val))) (w0 : World)

/-- the state of a thread that takes no part yet may change freely -/
theorem sinv_frame {cf : Conf} {done : List Nat} {cur : Option Nat} (h : SInv c i post act progs w0 cf done cur)
    (j : Nat) (t' : TState) (hd : j ∉ done) (hc : some j ≠ cur) (ha : ¬ act j) :
    SInv c i post act progs w0 { w := cf.w, ts := cf.ts.set j t' } done cur := by
  have hne : ∀ j', j' ≠ j → (cf.ts.set j t')[j']? = cf.ts[j']? := by
    intro j' hne; rw [List.getElem?_set_ne (Ne.symm hne)]
  refine ⟨by simpa using h.len, h.nodup, h.dlt, ?_, ?_, h.curNone, ?_⟩
  · intro j' hj' t ht
    have e : j' ≠ j := fun e => hd (e ▸ hj')
    rw [hne j' e] at ht; exact h.dret j' hj' t ht
  · intro j' t p ha' hj' hc' ht hp
    have e : j' ≠ j := fun e => ha (e ▸ ha')
    rw [hne j' e] at ht; exact h.wait j' t p ha' hj' hc' ht hp
  · intro a hca
    obtain ⟨h3, h4, t, p, hl, h5, rest⟩ := h.curSome a hca
    have e : a ≠ j := fun e => hc (by rw [hca, e])
    exact ⟨h3, h4, t, p, hl, by rw [hne a e]; exact h5, rest⟩

/-- a thread that took no part joins, standing before its acquire with program `x` -/
theorem sinv_activate {cf : Conf} {done : List Nat} {cur : Option Nat} (h : SInv c i post act progs w0 cf done cur)
    (j : Nat) (t' : TState) (x : Prog (Except Exc Val)) (hjlt : j < cf.ts.length) (hd : j ∉ done) (hc : some j ≠ cur)
    (ha : ¬ act j) (hw : Waiting c i post t' x) :
    SInv c i post (fun n => act n ∨ n = j) (progs.set j x) w0 { w := cf.w, ts := cf.ts.set j t' } done cur := by
  have hne : ∀ j', j' ≠ j → (cf.ts.set j t')[j']? = cf.ts[j']? := by
    intro j' hne; rw [List.getElem?_set_ne (Ne.symm hne)]
  have hpne : ∀ j', j' ≠ j → (progs.set j x)[j']? = progs[j']? := by
    intro j' hne; rw [List.getElem?_set_ne (Ne.symm hne)]
  have hjlt' : j < progs.length := h.len ▸ hjlt
  have hseq : seqRun (progs.set j x) done w0 = seqRun progs done w0 := seqRun_set progs j x done w0 hd
  refine ⟨by simpa using h.len, h.nodup, by simpa using h.dlt, ?_, ?_, ?_, ?_⟩
  · intro j' hj' t ht
    have e : j' ≠ j := fun e => hd (e ▸ hj')
    rw [hne j' e] at ht; rw [hseq]; exact h.dret j' hj' t ht
  · intro j' t p ha' hj' hc' ht hp
    by_cases e : j' = j
    · subst e
      rw [List.getElem?_set_self hjlt] at ht; cases ht
      rw [List.getElem?_set_self hjlt'] at hp; cases hp
      exact hw
    · rw [hne j' e] at ht; rw [hpne j' e] at hp
      rcases ha' with ha' | ha'
      · exact h.wait j' t p ha' hj' hc' ht hp
      · exact (e ha').elim
  · intro hn; rw [hseq]; exact h.curNone hn
  · intro a hca
    obtain ⟨h3, h4, t, p, hl, h5, h6, rest⟩ := h.curSome a hca
    have e : a ≠ j := fun e => hc (by rw [hca, e])
    rw [hseq]
    exact ⟨h3, h4, t, p, hl, by rw [hne a e]; exact h5, by rw [hpne a e]; exact h6, rest⟩

/-- a thread that took no part is turned away: its program becomes the refusal, it has nothing left to do -/
theorem sinv_reject {cf : Conf} {done : List Nat} {cur : Option Nat} (h : SInv c i post act progs w0 cf done cur)
    (j : Nat) (t' : TState) (v : Except Exc Val) (hjlt : j < cf.ts.length) (hd : j ∉ done) (hc : some j ≠ cur)
    (ha : ¬ act j) (hv : t'.prog = .ret v) :
    SInv c i post (fun n => act n ∨ n = j) (progs.set j (.ret v)) w0 { w := cf.w, ts := cf.ts.set j t' } (done ++ [j]) cur := by
  have hne : ∀ j', j' ≠ j → (cf.ts.set j t')[j']? = cf.ts[j']? := by
    intro j' hne; rw [List.getElem?_set_ne (Ne.symm hne)]
  have hpne : ∀ j', j' ≠ j → (progs.set j (.ret v))[j']? = progs[j']? := by
    intro j' hne; rw [List.getElem?_set_ne (Ne.symm hne)]
  have hjlt' : j < progs.length := h.len ▸ hjlt
  have hseq0 : seqRun (progs.set j (.ret v)) done w0 = seqRun progs done w0 := seqRun_set progs j _ done w0 hd
  have hseq : seqRun (progs.set j (.ret v)) (done ++ [j]) w0 =
      ((seqRun progs done w0).1, (seqRun progs done w0).2 ++ [(j, v)]) := by
    rw [seqRun_snoc, hseq0]
    simp only [seqStep, List.getElem?_set_self hjlt']
    rfl
  refine ⟨by simpa using h.len, ?_, ?_, ?_, ?_, ?_, ?_⟩
  · rw [List.nodup_append]
    refine ⟨h.nodup, by simp, ?_⟩
    intro a ha' b hb
    simp only [List.mem_singleton] at hb; subst hb
    intro e; subst e; exact hd ha'
  · intro j' hj'
    rcases List.mem_append.mp hj' with hj' | hj'
    · simpa using h.dlt j' hj'
    · simp only [List.mem_singleton] at hj'; subst hj'; simpa using hjlt'
  · intro j' hj' t ht
    rw [hseq]
    rcases List.mem_append.mp hj' with hj' | hj'
    · have e : j' ≠ j := fun e => hd (e ▸ hj')
      rw [hne j' e] at ht
      obtain ⟨v', h1, h2⟩ := h.dret j' hj' t ht
      exact ⟨v', h1, List.mem_append_left _ h2⟩
    · simp only [List.mem_singleton] at hj'; subst hj'
      rw [List.getElem?_set_self hjlt] at ht; cases ht
      exact ⟨v, hv, List.mem_append_right _ (by simp)⟩
  · intro j' t p ha' hj' hc' ht hp
    have hj1 : j' ∉ done := fun e => hj' (List.mem_append_left _ e)
    have e : j' ≠ j := fun e => hj' (List.mem_append_right _ (by simp [e]))
    rw [hne j' e] at ht; rw [hpne j' e] at hp
    rcases ha' with ha' | ha'
    · exact h.wait j' t p ha' hj1 hc' ht hp
    · exact (e ha').elim
  · intro hn; rw [hseq]; exact h.curNone hn
  · intro a hca
    obtain ⟨h3, h4, t, p, hl, h5, h6, rest⟩ := h.curSome a hca
    have e : a ≠ j := fun e => hc (by rw [hca, e])
    rw [hseq]
    refine ⟨?_, h4, t, p, hl, by rw [hne a e]; exact h5, by rw [hpne a e]; exact h6, rest⟩
    intro hm
    rcases List.mem_append.mp hm with hm | hm
    · exact h3 hm
    · simp only [List.mem_singleton] at hm; exact e hm

end

section
variable (i : Str) (rejv : Except Exc Val) (post : List Lock → Except Exc Val → Prop)
  (progs0 : List (Prog (Except Exc Val))) (w0 : World)

/-- a program that first asks whether `i` is in the object-pid list, returns `rejv` if so, and
    otherwise goes on to claim `i` there and do all its work under that claim -/
def TestShape (p : Prog (Except Exc Val)) (k k2 : Resp → Prog (Except Exc Val)) : Prop :=
  p = .op (.inProgress i) k ∧ k (.bool true) = .ret rejv ∧ k (.bool false) = .op (.acquire .objPid i) k2 ∧
  (k2 .unit).FinU .objPid i ∧ (k2 .unit).Disc post [⟨.objPid, i⟩]

/-- a thread program of the family: returns at once, or has the shape above -/
def Prog.Tested (p : Prog (Except Exc Val)) : Prop := p.Quiet ∨ ∃ k k2, TestShape i rejv post p k k2

/-- `progs'`: what each thread's program has become — unchanged while it has not asked; the
    refusal if it was turned away; its continuation after the answer "no" otherwise -/
structure SInvT (cf : Conf) (progs' : List (Prog (Except Exc Val))) (tested : Nat → Prop) (done : List Nat)
    (cur : Option Nat) : Prop where
  base : SInv .objPid i post tested progs' w0 cf done cur
  plen : progs'.length = progs0.length
  untested : ∀ (j : Nat) (t : TState) (p : Prog (Except Exc Val)), ¬ tested j → cf.ts[j]? = some t → progs0[j]? = some p →
      t.prog = p ∧ progs'[j]? = some p ∧ j ∉ done ∧ some j ≠ cur ∧ ∃ k k2, TestShape i rejv post p k k2
  shape : ∀ (j : Nat) (p : Prog (Except Exc Val)), tested j → progs0[j]? = some p →
      progs'[j]? = some p ∨ ∃ k k2, TestShape i rejv post p k k2 ∧
        (progs'[j]? = some (.ret rejv) ∨ progs'[j]? = some (k (.bool false)))

theorem fresh_test_step (fuel : Nat) (k : Resp → Prog (Except Exc Val)) (w : World) :
    ((TState.fresh (.op (.inProgress i) k)).step fuel w).1.prog = .op (.inProgress i) k ∧
    ((TState.fresh (.op (.inProgress i) k)).step fuel w).2 = w := by
  cases fuel <;> exact ⟨rfl, rfl⟩

theorem runToBoundary_acquire (fuel : Nat) (c : LockClass) (k : Resp → Prog (Except Exc Val)) (w : World) :
    (runToBoundary fuel (.op (.acquire c i) k) w).1.prog = .op (.acquire c i) k ∧
    (runToBoundary fuel (.op (.acquire c i) k) w).2 = w := by
  cases fuel <;> exact ⟨rfl, rfl⟩

theorem sinvT_step {cf : Conf} {progs' : List (Prog (Except Exc Val))} {tested : Nat → Prop} {done : List Nat}
    {cur : Option Nat} (h : SInvT i rejv post progs0 w0 cf progs' tested done cur)
    (fuel j : Nat) (t : TState) (hj : cf.ts[j]? = some t) (hen : t.enabled cf.w = true) :
    ∃ progs'' tested' done' cur',
      SInvT i rejv post progs0 w0 { w := (t.step fuel cf.w).2, ts := cf.ts.set j (t.step fuel cf.w).1 } progs'' tested' done' cur' := by
  have hjlt : j < cf.ts.length := by
    rcases Nat.lt_or_ge j cf.ts.length with h1 | h1
    · exact h1
    · rw [List.getElem?_eq_none h1] at hj; cases hj
  have hjlt0 : j < progs0.length := by rw [← h.plen, ← h.base.len]; exact hjlt
  have hp0 : progs0[j]? = some progs0[j] := List.getElem?_eq_getElem hjlt0
  have hne : ∀ (j' : Nat) (x : TState), j' ≠ j → (cf.ts.set j x)[j']? = cf.ts[j']? := by
    intro j' x hne; rw [List.getElem?_set_ne (Ne.symm hne)]
  by_cases hts : tested j
  · -- a thread that has asked: the serialisation step
    obtain ⟨done', cur', hb, hdone, hcur⟩ := sinv_step .objPid i post tested progs' w0 h.base fuel j t hj hen (fun _ _ => hts)
    refine ⟨progs', tested, done', cur', ⟨hb, h.plen, ?_, h.shape⟩⟩
    intro j' t' p hnt ht' hp
    have e : j' ≠ j := fun e => hnt (e ▸ hts)
    rw [hne j' _ e] at ht'
    obtain ⟨h1, h2, h3, h4, h5⟩ := h.untested j' t' p hnt ht' hp
    refine ⟨h1, h2, ?_, ?_, h5⟩
    · intro hm
      rcases hdone j' hm with hm | hm
      · exact h3 hm
      · exact e hm
    · rcases hcur with hc | hc | hc
      · rw [hc]; exact h4
      · rw [hc]; intro e'; cases e'; exact e rfl
      · rw [hc]; intro e'; cases e'
  · -- a thread that has not asked yet
    obtain ⟨hprog, hp', hd, hc, k, k2, hshape⟩ := h.untested j t _ hts hj hp0
    obtain ⟨hpk, hktrue, hkfalse, hfin, hdisc⟩ := hshape
    cases t with
    | finished r => rw [hpk] at hprog; cases hprog
    | fresh q =>
      have hq : q = .op (.inProgress i) k := by rw [← hpk]; exact hprog
      subst hq
      obtain ⟨h1, h2⟩ := fresh_test_step i fuel k cf.w
      refine ⟨progs', tested, done, cur, ⟨?_, h.plen, ?_, h.shape⟩⟩
      · rw [h2]; exact sinv_frame .objPid i post tested progs' w0 h.base j _ hd hc hts
      · intro j' t' p hnt ht' hp
        by_cases e : j' = j
        · subst e
          rw [List.getElem?_set_self hjlt] at ht'; cases ht'
          rw [hp0] at hp; cases hp
          exact ⟨by rw [h1, hpk], hp', hd, hc, k, k2, hpk, hktrue, hkfalse, hfin, hdisc⟩
        · rw [hne j' _ e] at ht'; exact h.untested j' t' p hnt ht' hp
    | «at» e k' =>
      have he : e = .inProgress i ∧ k' = k := by
        rw [hpk] at hprog
        simp only [TState.prog, Prog.op.injEq] at hprog; exact ⟨hprog.1, hprog.2⟩
      obtain ⟨he1, he2⟩ := he
      subst he1; subst he2
      have hstep : (TState.at (.inProgress i) k').step fuel cf.w
          = runToBoundary fuel (k' (.bool (decide (i ∈ cf.w.lk.objPid)))) cf.w := by
        show runToBoundary fuel (k' (respond cf.w (.inProgress i)).1) (respond cf.w (.inProgress i)).2 = _
        rw [respond_inProgress]
      rw [hstep]
      by_cases hb : i ∈ cf.w.lk.objPid
      · -- turned away
        simp only [hb, decide_true, hktrue]
        obtain ⟨h1, h2⟩ := quiet_runToBoundary fuel (.ret rejv) cf.w trivial
        rw [h2]
        refine ⟨progs'.set j (.ret rejv), fun n => tested n ∨ n = j, done ++ [j], cur,
          ⟨sinv_reject .objPid i post tested progs' w0 h.base j _ rejv hjlt hd hc hts h1, by simpa using h.plen, ?_, ?_⟩⟩
        · intro j' t' p hnt ht' hp
          have e : j' ≠ j := fun e => hnt (Or.inr e)
          have hnt' : ¬ tested j' := fun x => hnt (Or.inl x)
          rw [hne j' _ e] at ht'
          obtain ⟨a1, a2, a3, a4, a5⟩ := h.untested j' t' p hnt' ht' hp
          refine ⟨a1, by rw [List.getElem?_set_ne (Ne.symm e)]; exact a2, ?_, a4, a5⟩
          intro hm
          rcases List.mem_append.mp hm with hm | hm
          · exact a3 hm
          · simp only [List.mem_singleton] at hm; exact e hm
        · intro j' p hts' hp
          by_cases e : j' = j
          · subst e
            rw [hp0] at hp; cases hp
            right
            exact ⟨k', k2, ⟨hpk, hktrue, hkfalse, hfin, hdisc⟩,
              Or.inl (by rw [List.getElem?_set_self (h.plen ▸ hjlt0)])⟩
          · rcases hts' with hts' | hts'
            · rcases h.shape j' p hts' hp with a | ⟨ka, kb, hs, a⟩
              · left; rw [List.getElem?_set_ne (Ne.symm e)]; exact a
              · right; refine ⟨ka, kb, hs, ?_⟩
                rw [List.getElem?_set_ne (Ne.symm e)]; exact a
            · exact (e hts').elim
      · -- let through: nobody is inside
        simp only [hb, decide_false, hkfalse]
        obtain ⟨h1, h2⟩ := runToBoundary_acquire i fuel .objPid k2 cf.w
        rw [h2]
        have hw : Waiting .objPid i post (runToBoundary fuel (.op (.acquire .objPid i) k2) cf.w).1 (k' (.bool false)) := by
          rw [hkfalse]; exact ⟨h1, k2, rfl, hfin, hdisc⟩
        refine ⟨progs'.set j (k' (.bool false)), fun n => tested n ∨ n = j, done, cur,
          ⟨sinv_activate .objPid i post tested progs' w0 h.base j _ _ hjlt hd hc hts hw, by simpa using h.plen, ?_, ?_⟩⟩
        · intro j' t' p hnt ht' hp
          have e : j' ≠ j := fun e => hnt (Or.inr e)
          have hnt' : ¬ tested j' := fun x => hnt (Or.inl x)
          rw [hne j' _ e] at ht'
          obtain ⟨a1, a2, a3, a4, a5⟩ := h.untested j' t' p hnt' ht' hp
          exact ⟨a1, by rw [List.getElem?_set_ne (Ne.symm e)]; exact a2, a3, a4, a5⟩
        · intro j' p hts' hp
          by_cases e : j' = j
          · subst e
            rw [hp0] at hp; cases hp
            right
            exact ⟨k', k2, ⟨hpk, hktrue, hkfalse, hfin, hdisc⟩,
              Or.inr (by rw [List.getElem?_set_self (h.plen ▸ hjlt0)])⟩
          · rcases hts' with hts' | hts'
            · rcases h.shape j' p hts' hp with a | ⟨ka, kb, hs, a⟩
              · left; rw [List.getElem?_set_ne (Ne.symm e)]; exact a
              · right; refine ⟨ka, kb, hs, ?_⟩
                rw [List.getElem?_set_ne (Ne.symm e)]; exact a
            · exact (e hts').elim

end

section
variable (i : Str) (rejv : Except Exc Val) (post : List Lock → Except Exc Val → Prop)
  (progs0 : List (Prog (Except Exc Val))) (w0 : World)

theorem sinvT_schedule (fuel : Nat) (sched : List Nat) (cf : Conf) (n : Nat) (progs' : List (Prog (Except Exc Val)))
    (tested : Nat → Prop) (done : List Nat) (cur : Option Nat) (h : SInvT i rejv post progs0 w0 cf progs' tested done cur) :
    ∃ progs'' tested' done' cur', SInvT i rejv post progs0 w0 (runSchedule fuel cf sched n).1 progs'' tested' done' cur' := by
  induction sched generalizing cf n progs' tested done cur with
  | nil => exact ⟨progs', tested, done, cur, h⟩
  | cons j rest ih =>
    simp only [runSchedule]
    cases hj : cf.ts[j]? with
    | none => exact ⟨progs', tested, done, cur, h⟩
    | some t =>
      simp only
      by_cases hen : t.enabled cf.w = true
      · rw [if_pos hen]
        obtain ⟨p2, t2, d2, c2, h2⟩ := sinvT_step i rejv post progs0 w0 h fuel j t hj hen
        exact ih _ _ p2 t2 d2 c2 h2
      · rw [if_neg hen]; exact ⟨progs', tested, done, cur, h⟩

/-- has nothing to ask: returns at once (or is not a thread at all) -/
def quietAt (j : Nat) : Prop := ∀ p, progs0[j]? = some p → p.Quiet

theorem sinvT_initial (hb : ∀ p ∈ progs0, p.Tested i rejv post) (h0 : w0.cnt .objPid i = 0) :
    SInvT i rejv post progs0 w0 { w := w0, ts := progs0.map .fresh } progs0 (quietAt progs0) (done0 progs0) none := by
  refine ⟨?_, rfl, ?_, ?_⟩
  · apply sinv_initial .objPid i post progs0 w0 (quietAt progs0) _ h0
    intro j p hq hp hnq
    exact (hnq (hq p hp)).elim
  · intro j t p hnt ht hp
    have hts : t = TState.fresh p := by
      rw [List.getElem?_map, hp] at ht; cases ht; rfl
    subst hts
    have hnq : ¬ p.Quiet := by
      intro hq; apply hnt
      intro p' hp'; rw [hp] at hp'; cases hp'; exact hq
    refine ⟨rfl, hp, ?_, nofun, ?_⟩
    · intro hm
      simp only [done0, List.mem_filter, hp] at hm
      cases p with
      | ret v => exact hnq trivial
      | op e k => simp [isRet] at hm
    · rcases hb p (List.mem_of_getElem? hp) with hq | hs
      · exact (hnq hq).elim
      · exact hs
  · intro j p _ hp
    exact Or.inl hp

/-- **Serialisation up to refusal.** Threads that first ask whether `i` is being worked
    on (and return `rejv` at once if it is) and otherwise do all their work under the
    claim of `i`: under every schedule, when all have returned, there is an order of
    the threads and a program list `progs'` — each thread's own program if it returns
    without a primitive, the refusal `ret rejv` if it was turned away, its
    continuation after the answer "no" otherwise — such that the world is the one the
    sequential run of `progs'` in that order reaches, results included. -/
theorem tested_schedule (hb : ∀ p ∈ progs0, p.Tested i rejv post) (h0 : w0.cnt .objPid i = 0) (fuel : Nat)
    (sched : List Nat) :
    let fin := (runSchedule fuel { w := w0, ts := progs0.map .fresh } sched 0).1
    fin.allFinished = true →
    ∃ (progs' : List (Prog (Except Exc Val))) (order : List Nat),
      progs'.length = progs0.length ∧
      (∀ (j : Nat) (p : Prog (Except Exc Val)), progs0[j]? = some p →
        progs'[j]? = some p ∨ ∃ k k2, TestShape i rejv post p k k2 ∧
          (progs'[j]? = some (.ret rejv) ∨ progs'[j]? = some (k (.bool false)))) ∧
      order.Nodup ∧ (∀ j, j ∈ order ↔ j < progs0.length) ∧
      fin.w = (seqRun progs' order w0).1 ∧
      ∀ (j : Nat) (t : TState), fin.ts[j]? = some t → ∃ v, t = TState.finished v ∧ (j, v) ∈ (seqRun progs' order w0).2 := by
  intro fin hall
  obtain ⟨progs', tested, done, cur, h⟩ := sinvT_schedule i rejv post progs0 w0 fuel sched _ 0 _ _ _ _
    (sinvT_initial i rejv post progs0 w0 hb h0)
  have htested : ∀ j, j < progs'.length → tested j := by
    intro j hj
    apply Classical.byContradiction
    intro hnt
    have hj0 : j < progs0.length := h.plen ▸ hj
    have hjt : j < fin.ts.length := by rw [h.base.len]; exact hj
    have ht : fin.ts[j]? = some fin.ts[j] := List.getElem?_eq_getElem hjt
    obtain ⟨hprog, _, _, _, k, k2, hs, _⟩ := h.untested j _ _ hnt ht (List.getElem?_eq_getElem hj0)
    have := List.all_eq_true.mp hall _ (List.getElem_mem hjt)
    rw [hs] at hprog
    cases hc : fin.ts[j] with
    | finished v => rw [hc] at hprog; cases hprog
    | fresh p => rw [hc] at this; simp at this
    | «at» e k => rw [hc] at this; simp at this
  obtain ⟨h1, h2, h3, h4⟩ := sinv_final .objPid i post tested progs' w0 h.base hall htested
  refine ⟨progs', done, h.plen, ?_, h1, fun j => by rw [h2 j, h.plen], h3, h4⟩
  intro j p hp
  have hj : j < progs'.length := by
    rw [h.plen]
    rcases Nat.lt_or_ge j progs0.length with h1 | h1
    · exact h1
    · rw [List.getElem?_eq_none h1] at hp; cases hp
  exact h.shape j p (htested j hj) hp

end

/-! ### store_object asks first -/

section
variable (cfg : Config) (o : Oracle)

theorem notCls_of_notLock {c : LockClass} (e : Ev) (h : NotLock e) : NotCls c e := by
  cases e <;> first | trivial | exact h.elim

theorem storeRefs_notObjPid (pid cid : Str) : (storeRefs cfg o pid cid).AllEv (NotCls .objPid) := by
  unfold storeRefs
  repeat (first
    | exact Prog.allEv_mono _ notCls_of_notLock (verifyRefs_nl o _ _)
    | exact Prog.allEv_mono _ notCls_of_notLock (updateRefsAdd_nl _ _)
    | exact Prog.allEv_mono _ notCls_of_notLock writeRefsTmp_nl
    | exact Prog.allEv_mono _ notCls_of_notLock (untagObject_nl cfg o _ _)
    | notcls_step)

theorem tagObject_notObjPid (pid cid : SArg) : (tagObject cfg o pid cid).AllEv (NotCls .objPid) := by
  unfold tagObject
  repeat (first | exact storeRefs_notObjPid cfg o _ _ | notcls_step)

theorem storeObject_tested (pid : SArg) (data : DataArg) (add cks ca : SArg) (sz : IArg) (p : Str)
    (hp : checkString pid = .ok p) :
    Prog.Tested p (.error .storeObjectInProgress) Post0
      (storeObject cfg o pid data add cks ca sz : Prog (Except Exc Val)) := by
  have hneutral := storeObject_neutral cfg o pid data add cks ca sz
  unfold storeObject at hneutral ⊢
  cases pid with
  | none => simp [checkString] at hp
  | other => simp [checkString] at hp
  | str s =>
    simp only at hneutral ⊢
    rw [hp, PE.ofExcept_ok_bind] at hneutral ⊢
    cases h1 : checkArgData data with
    | error e => left; trivial
    | ok u1 =>
      rw [h1] at hneutral
      rw [PE.ofExcept_ok_bind] at hneutral ⊢
      cases h2 : checkInteger sz with
      | error e => left; trivial
      | ok u2 =>
        rw [h2] at hneutral
        rw [PE.ofExcept_ok_bind] at hneutral ⊢
        cases h3 : checkArgAlgorithmsAndChecksum cfg.alg add cks ca with
        | error e => left; trivial
        | ok ac =>
          rw [h3] at hneutral
          rw [PE.ofExcept_ok_bind] at hneutral ⊢
          right
          refine ⟨_, _, rfl, rfl, rfl, ?_, ?_⟩
          · apply Prog.finU_of_fin
            apply withFinally_fin
            apply Prog.allEv_mono _ (fun e => avoid_of_notCls p)
            repeat (first
              | exact Prog.allEv_mono _ notCls_of_notLock (moveAndGetChecksums_nl cfg o _ _ _ _ _ _)
              | exact tagObject_notObjPid cfg o _ _
              | notcls_step)
          · have := hneutral (.bool false)
            exact this.2

end

section
variable (cfg : Config) (o : Oracle)

/-- a `store_object` call with a pid argument whose pid, if accepted, is `p` -/
def StoresPid (p : Str) : Call → Prop
  | .storeObject pid _ _ _ _ _ => pid ≠ .none ∧ ∀ q, checkString pid = .ok q → q = p
  | _ => False

theorem storesPid_tested (p : Str) (call : Call) (h : StoresPid p call) :
    Prog.Tested p (.error .storeObjectInProgress) Post0 (call.prog cfg o : Prog (Except Exc Val)) := by
  cases call with
  | storeObject pid data add cks ca sz =>
    simp only [Call.prog]
    obtain ⟨hne, hq⟩ := h
    cases hp : checkString pid with
    | error e =>
      left
      unfold storeObject
      cases pid with
      | none => exact (hne rfl).elim
      | other => simp only; rw [hp]; trivial
      | str s => simp only; rw [hp]; trivial
    | ok q =>
      have := hq q hp
      subst this
      exact storeObject_tested cfg o pid data add cks ca sz q hp
  | _ => exact h.elim

/-- with the identifier free, a program of the family runs as its continuation after the answer "no" -/
theorem run_tested_free (i : Str) (rejv : Except Exc Val) (post : List Lock → Except Exc Val → Prop)
    (p : Prog (Except Exc Val)) (k k2 : Resp → Prog (Except Exc Val)) (hs : TestShape i rejv post p k k2)
    (w : World) (hfree : i ∉ w.lk.objPid) : p.run w = (k (.bool false)).run w := by
  rw [hs.1]
  show (k (respond w (.inProgress i)).1).run (respond w (.inProgress i)).2 = _
  rw [respond_inProgress]
  simp [hfree]

end
end HS
