/-
  Shape — the static effect discipline of the public calls: which primitives,
  addressed to which keys, a call on pid `p` can ever issue — for every
  sequence of answers (file-system states, injected faults, other threads).
  Helper lemmas; the property statements that use it are in Props/.
-/
import HSModel.Proofs.AllEv
namespace HS

/-- walk a program built from binds, ifs, matches, try/catch/finally and primitives -/
macro "allev_step" : tactic => `(tactic| first
  | exact PE.allEv_pure _
  | exact PE.allEv_throw _
  | exact PE.allEv_throw' _
  | exact PE.allEv_pure' _
  | exact PE.allEv_ofExcept _
  | apply PE.allEv_bind
  | apply PE.allEv_tryCatch
  | apply PE.allEv_withFinally
  | apply allEv_isFile
  | apply allEv_readRef
  | apply allEv_readOpen
  | apply allEv_readObj
  | apply allEv_readDoc
  | apply allEv_sizeIsZero
  | apply allEv_listDocs
  | apply allEv_eff
  | apply allEv_openTmpWrite
  | apply allEv_acquire
  | apply allEv_release
  | apply allEv_inProgress
  | apply allEv_isLocked
  | intro _
  | split
  | trivial
  | dsimp only
  | exact ⟨rfl, rfl⟩
  | exact ⟨_, rfl⟩
  | exact ⟨_, rfl, rfl⟩
  | exact Or.inl rfl
  | exact Or.inr rfl)

/-- What a call addressed to pid `p` (`none`: a call without pid) may issue. -/
def Shape (cfg : Config) (o : Oracle) (p : Option Str) : Ev → Prop
  -- objects appear only at the address of their own digest
  | .eff (.publishObj c t) => c = o.dig cfg.alg t
  -- documents / pid references / their markers: only this pid's
  | .eff (.publishDoc d n _) => ∃ q, p = some q ∧ d = o.hId q ∧ ∃ f, n = o.hId (q ++ f)
  | .eff (.publishPidRef k _) => ∃ q, p = some q ∧ k = o.hId q
  | .eff (.publishCidRef _ text) => ∃ q, p = some q ∧ text = q ++ ['\n']
  | .eff (.appendCid _ s) => ∃ q, p = some q ∧ s = q ++ ['\n']
  | .eff (.retire (.pidRef k)) => ∃ q, p = some q ∧ k = o.hId q
  | .eff (.retire (.mdoc d _)) => ∃ q, p = some q ∧ d = o.hId q
  | .eff (.remove (.pidRef k)) => ∃ q, p = some q ∧ k = o.hId q ++ deleteSuffix
  | .eff (.remove (.mdoc d _)) => ∃ q, p = some q ∧ d = o.hId q
  | .eff (.mkdirs .pidRef k) => ∃ q, p = some q ∧ k = o.hId q
  | .eff (.mkdirs .mdata k) => ∃ q, p = some q ∧ k = o.hId q
  -- per-pid locks are taken on this pid only
  | .acquire .objPid i => p = some i
  | .acquire .refPid i => p = some i
  | .release .objPid i => p = some i
  | .release .refPid i => p = some i
  | _ => True

variable (cfg : Config) (o : Oracle)

theorem findObject_shape (q : Option Str) (pid : Str) : (findObject cfg o pid).AllEv (Shape cfg o q) := by
  unfold findObject
  repeat allev_step

theorem verifyRefs_shape (q : Option Str) (pid cid : Str) : (verifyRefs o pid cid).AllEv (Shape cfg o q) := by
  unfold verifyRefs
  repeat allev_step

theorem updateRefsAdd_shape (pid cid : Str) : (updateRefsAdd cid pid).AllEv (Shape cfg o (some pid)) := by
  unfold updateRefsAdd
  repeat allev_step

theorem updateRefsRemove_shape (q : Option Str) (pid cid : Str) :
    (updateRefsRemove cid pid).AllEv (Shape cfg o q) := by
  unfold updateRefsRemove
  repeat allev_step

theorem writeRefsTmp_shape (q : Option Str) : writeRefsTmp.AllEv (Shape cfg o q) := by
  unfold writeRefsTmp
  repeat allev_step

/-- markers that belong to pid `p` (or to no pid at all: objects, cid lists) -/
def OwnMarker (p : Option Str) : Loc → Prop
  | .pidRef k => ∃ q, p = some q ∧ k = o.hId q ++ deleteSuffix
  | .mdoc d _ => ∃ q, p = some q ∧ d = o.hId q
  | _ => True

theorem deleteMarked_shape (q : Option Str) (l : List Loc) (h : ∀ x ∈ l, OwnMarker o q x) :
    (deleteMarked l).AllEv (Shape cfg o q) := by
  induction l with
  | nil => exact PE.allEv_pure _
  | cons a r ih =>
    unfold deleteMarked
    apply PE.allEv_bind
    · apply PE.allEv_tryCatch
      · apply allEv_eff
        have ha := h a (List.mem_cons_self ..)
        cases a <;> first | trivial | exact ha
      · intro _; exact PE.allEv_pure _
    · intro _
      exact ih (fun x hx => h x (List.mem_cons_of_mem _ hx))

end HS

namespace HS
variable (cfg : Config) (o : Oracle)

def OwnMarkers (p : Option Str) (l : List Loc) : Prop := ∀ x ∈ l, OwnMarker o p x

theorem ownMarkers_nil (p : Option Str) : OwnMarkers o p [] := by
  intro x hx; cases hx

theorem ownMarkers_append (p : Option Str) (a b : List Loc) (ha : OwnMarkers o p a) (hb : OwnMarkers o p b) :
    OwnMarkers o p (a ++ b) := by
  intro x hx
  rcases List.mem_append.mp hx with h | h
  · exact ha x h
  · exact hb x h

theorem markPidRef_shape (pid : Str) :
    (markPidRef (o.hId pid)).AllEvR (Shape cfg o (some pid)) (OwnMarkers o (some pid)) := by
  unfold markPidRef
  apply PE.allEvR_tryCatch
  · apply PE.allEvR_bind (Q := fun _ => True)
    · apply PE.allEvR_of_allEv
      apply allEv_eff
      exact ⟨pid, rfl, rfl⟩
    · intro _ _
      apply PE.allEvR_pure
      intro x hx
      simp only [List.mem_singleton] at hx
      subst hx
      exact ⟨pid, rfl, rfl⟩
  · intro _
    exact PE.allEvR_pure _ (ownMarkers_nil o _)

theorem removePidAndHandle_shape (q : Option Str) (pid cid : Str) :
    (removePidAndHandle pid cid).AllEvR (Shape cfg o q) (OwnMarkers o q) := by
  unfold removePidAndHandle
  apply PE.allEvR_tryCatch
  · apply PE.allEvR_bind (Q := fun _ => True)
    · exact PE.allEvR_of_allEv _ (updateRefsRemove_shape cfg o q pid cid)
    · intro _ _
      apply PE.allEvR_bind (Q := fun _ => True)
      · apply PE.allEvR_of_allEv; apply allEv_sizeIsZero; trivial
      · intro b _
        split
        · apply PE.allEvR_bind (Q := fun _ => True)
          · apply PE.allEvR_of_allEv; apply allEv_eff; trivial
          · intro _ _
            apply PE.allEvR_pure
            intro x hx
            simp only [List.mem_singleton] at hx
            subst hx
            trivial
        · exact PE.allEvR_pure _ (ownMarkers_nil o _)
  · intro _
    exact PE.allEvR_pure _ (ownMarkers_nil o _)

theorem validateAndCheckCidLock_shape (q : Option Str) (a b : Str) :
    (validateAndCheckCidLock a b).AllEv (Shape cfg o q) := by
  unfold validateAndCheckCidLock
  repeat allev_step

/-- `allev_step` extended with the lemmas about marker lists -/
macro "allev_marks" cfg:term "," o:term "," pid:term "," cid:term : tactic => `(tactic| first
  | exact findObject_shape $cfg $o _ _
  | exact validateAndCheckCidLock_shape $cfg $o _ _ _
  | exact deleteMarked_shape $cfg $o _ _ (by assumption)
  | exact deleteMarked_shape $cfg $o _ _ (ownMarkers_append $o _ _ _ (by assumption) (by assumption))
  | (apply PE.allEv_bind_post _ _ (markPidRef_shape $cfg $o $pid); intro _ _)
  | (apply PE.allEv_bind_post _ _ (removePidAndHandle_shape $cfg $o _ $pid $cid); intro _ _)
  | allev_step)

theorem untagObject_shape (pid cid : Str) : (untagObject cfg o pid cid).AllEv (Shape cfg o (some pid)) := by
  unfold untagObject
  repeat (allev_marks cfg, o, pid, cid)

theorem storeRefs_shape (pid cid : Str) : (storeRefs cfg o pid cid).AllEv (Shape cfg o (some pid)) := by
  unfold storeRefs
  repeat (first
    | exact untagObject_shape cfg o pid cid
    | exact verifyRefs_shape cfg o _ pid cid
    | exact updateRefsAdd_shape cfg o pid cid
    | exact writeRefsTmp_shape cfg o _
    | allev_step)

theorem checkString_str' {s p : Str} (h : checkString (.str s) = .ok p) : p = s := by
  simp only [checkString] at h
  split at h
  · cases h; rfl
  · cases h

theorem tagObject_shape (cid : SArg) (p : Str) :
    (tagObject cfg o (.str p) cid).AllEv (Shape cfg o (some p)) := by
  unfold tagObject
  apply PE.allEv_bind_post _ _ (PE.allEvR_ofExcept _)
  intro p' hp'
  have := checkString_str' hp'
  subst this
  apply PE.allEv_bind; · exact PE.allEv_ofExcept _
  intro c
  apply PE.allEv_bind; · exact storeRefs_shape cfg o _ _
  intro _
  exact PE.allEv_pure _

theorem hexDigestCore_shape (q : Option Str) (pid alg : Str) :
    (hexDigestCore cfg o pid alg).AllEv (Shape cfg o q) := by
  unfold hexDigestCore
  repeat (first | exact findObject_shape cfg o _ _ | allev_step)

theorem moveAndGetChecksums_shape (q : Option Str) (pid : Option Str) (t : Tok) (add cs cks : Option Str)
    (sz : IArg) : (moveAndGetChecksums cfg o pid t add cs cks sz).AllEv (Shape cfg o q) := by
  unfold moveAndGetChecksums
  repeat (first | exact hexDigestCore_shape cfg o _ _ _ | allev_step)

theorem storeObject_shape_pid (p : Str) (d : DataArg) (a c ca : SArg) (s : IArg) :
    (storeObject cfg o (.str p) d a c ca s).AllEv (Shape cfg o (some p)) := by
  unfold storeObject
  simp only
  apply PE.allEv_bind_post _ _ (PE.allEvR_ofExcept _)
  intro p' hp'
  have := checkString_str' hp'
  subst this
  repeat (first
    | exact moveAndGetChecksums_shape cfg o _ _ _ _ _ _ _
    | exact tagObject_shape cfg o _ _
    | allev_step)

theorem storeObject_shape_nopid (q : Option Str) (d : DataArg) (a c ca : SArg) (s : IArg) :
    (storeObject cfg o .none d a c ca s).AllEv (Shape cfg o q) := by
  unfold storeObject
  simp only
  repeat (first | exact moveAndGetChecksums_shape cfg o _ _ _ _ _ _ _ | allev_step)

theorem deleteObjectOnly_shape (q : Option Str) (cid : Str) :
    (deleteObjectOnly cid).AllEv (Shape cfg o q) := by
  unfold deleteObjectOnly
  repeat allev_step

theorem deleteIfInvalid_shape (q : Option Str) (om : Option ObjMeta) (c ca : SArg) (s : IArg) :
    (deleteIfInvalidObject cfg o om c ca s).AllEv (Shape cfg o q) := by
  unfold deleteIfInvalidObject
  repeat (first | exact deleteObjectOnly_shape cfg o _ _ | allev_step)

theorem withDocLock_shape {α : Type} (q : Option Str) (doc : Str) (body : PE α)
    (h : body.AllEv (Shape cfg o q)) : (withDocLock doc body).AllEv (Shape cfg o q) := by
  unfold withDocLock
  repeat (first | exact h | allev_step)

theorem storeMetadata_shape (p : Str) (d : DataArg) (f : SArg) :
    (storeMetadata cfg o (.str p) d f).AllEv (Shape cfg o (some p)) := by
  unfold storeMetadata
  apply PE.allEv_bind_post _ _ (PE.allEvR_ofExcept _)
  intro p' hp'
  have := checkString_str' hp'
  subst this
  repeat (first
    | apply withDocLock_shape
    | exact ⟨_, rfl, rfl, _, rfl⟩
    | allev_step)

theorem retrieveObject_shape (q : Option Str) (pid : SArg) :
    (retrieveObject cfg o pid).AllEv (Shape cfg o q) := by
  unfold retrieveObject
  repeat (first | exact findObject_shape cfg o _ _ | allev_step)

theorem retrieveMetadata_shape (q : Option Str) (pid f : SArg) :
    (retrieveMetadata cfg o pid f).AllEv (Shape cfg o q) := by
  unfold retrieveMetadata
  repeat allev_step

theorem getHexDigest_shape (q : Option Str) (pid a : SArg) :
    (getHexDigest cfg o pid a).AllEv (Shape cfg o q) := by
  unfold getHexDigest
  repeat (first | exact hexDigestCore_shape cfg o _ _ _ | allev_step)

theorem retireDocs_shape (p : Str) (names : List Str) :
    (retireDocs (o.hId p) names).AllEvR (Shape cfg o (some p)) (OwnMarkers o (some p)) := by
  induction names with
  | nil => exact PE.allEvR_pure _ (ownMarkers_nil o _)
  | cons n r ih =>
    unfold retireDocs
    apply PE.allEvR_bind (Q := fun _ => True)
    · apply PE.allEvR_of_allEv
      apply withDocLock_shape
      apply allEv_eff
      exact ⟨p, rfl, rfl⟩
    · intro _ _
      apply PE.allEvR_bind _ _ ih
      intro rest hrest
      apply PE.allEvR_pure
      intro x hx
      rcases List.mem_cons.mp hx with rfl | hx
      · exact ⟨p, rfl, rfl⟩
      · exact hrest x hx

theorem deleteMetadataCore_shape (p : Str) (fmt : Option Str) :
    (deleteMetadataCore o p fmt).AllEv (Shape cfg o (some p)) := by
  unfold deleteMetadataCore
  cases fmt with
  | none =>
    simp only
    apply PE.allEv_bind; · (apply allEv_listDocs; trivial)
    intro names
    split
    · exact PE.allEv_pure _
    · apply PE.allEv_bind_post _ _ (retireDocs_shape cfg o p _)
      intro marked hm
      exact deleteMarked_shape cfg o _ _ hm
  | some f =>
    simp only
    apply withDocLock_shape
    repeat allev_step

theorem deleteMetadata_shape (p : Str) (f : SArg) :
    (deleteMetadata cfg o (.str p) f).AllEv (Shape cfg o (some p)) := by
  unfold deleteMetadata
  apply PE.allEv_bind_post _ _ (PE.allEvR_ofExcept _)
  intro p' hp'
  have := checkString_str' hp'
  subst this
  repeat (first | exact deleteMetadataCore_shape cfg o _ _ | allev_step)

end HS

namespace HS
variable (cfg : Config) (o : Oracle)

theorem own_pid_marker (p : Str) : OwnMarker o (some p) (Loc.marker (.pidRef (o.hId p))) :=
  ⟨p, rfl, rfl⟩

theorem ownMarkers_pid (p : Str) : OwnMarkers o (some p) [Loc.marker (.pidRef (o.hId p))] := by
  intro x hx
  simp only [List.mem_singleton] at hx
  subst hx
  exact own_pid_marker o p

theorem ownMarkers_pid_cid_obj (p c : Str) :
    OwnMarkers o (some p) ([Loc.marker (.pidRef (o.hId p))] ++ [Loc.marker (.cidRef c), Loc.marker (.obj c)]) := by
  intro x hx
  simp only [List.cons_append, List.nil_append, List.mem_cons, List.not_mem_nil, or_false] at hx
  rcases hx with rfl | rfl | rfl
  · exact own_pid_marker o p
  · trivial
  · trivial

theorem ownMarkers_cid (q : Option Str) (c : Str) : OwnMarkers o q [Loc.marker (.cidRef c)] := by
  intro x hx
  simp only [List.mem_singleton] at hx
  subst hx
  trivial

theorem deleteObject_shape (p : Str) : (deleteObject cfg o (.str p)).AllEv (Shape cfg o (some p)) := by
  unfold deleteObject
  apply PE.allEv_bind_post _ _ (PE.allEvR_ofExcept _)
  intro p' hp'
  have := checkString_str' hp'
  subst this
  apply PE.allEv_withFinally
  · apply PE.allEv_bind; · (apply allEv_acquire; rfl)
    intro _
    apply PE.allEv_tryCatch
    · -- the regular branch
      apply PE.allEv_bind; · exact findObject_shape cfg o _ _
      intro cid
      apply PE.allEv_bind; · (apply allEv_acquire; trivial)
      intro _
      apply PE.allEv_withFinally
      · apply PE.allEv_bind; · (apply allEv_eff; exact ⟨p', rfl, rfl⟩)
        intro _
        apply PE.allEv_bind; · exact updateRefsRemove_shape cfg o _ _ _
        intro _
        try dsimp only
        apply PE.allEv_bind; · (apply allEv_sizeIsZero; trivial)
        intro z
        split
        · apply PE.allEv_bind; · (apply allEv_eff; trivial)
          intro _
          apply PE.allEv_bind; · (apply allEv_eff; trivial)
          intro _
          try dsimp only
          apply PE.allEv_bind
          · exact deleteMarked_shape cfg o _ _ (ownMarkers_pid_cid_obj o p' cid)
          intro _
          apply PE.allEv_bind; · exact deleteMetadataCore_shape cfg o _ _
          intro _
          exact PE.allEv_pure _
        · repeat (first
            | exact deleteMetadataCore_shape cfg o _ _
            | exact deleteMarked_shape cfg o _ _ (ownMarkers_pid o p')
            | exact ⟨p', rfl, rfl⟩
            | allev_step)
      · apply allEv_release; trivial
    · intro e
      split
      · repeat (first
          | exact deleteMetadataCore_shape cfg o _ _
          | exact deleteMarked_shape cfg o _ _ (ownMarkers_pid o p')
          | exact ⟨p', rfl, rfl⟩
          | allev_step)
      · -- the data object is missing
        apply PE.allEv_bind; · (apply allEv_readRef; trivial)
        intro c
        apply PE.allEv_bind; · (apply allEv_eff; exact ⟨p', rfl, rfl⟩)
        intro _
        apply PE.allEv_bind_post (Q := OwnMarkers o (some p'))
        · apply PE.allEvR_withFinally
          · apply PE.allEvR_bind (Q := fun _ => True)
            · apply PE.allEvR_of_allEv; apply allEv_acquire; trivial
            intro _ _
            apply PE.allEvR_bind (Q := fun _ => True)
            · apply PE.allEvR_of_allEv; apply allEv_readRef; trivial
            intro t _
            split
            · apply PE.allEvR_bind (Q := fun _ => True)
              · exact PE.allEvR_of_allEv _ (updateRefsRemove_shape cfg o _ _ _)
              intro _ _
              apply PE.allEvR_bind (Q := fun _ => True)
              · apply PE.allEvR_of_allEv; apply allEv_sizeIsZero; trivial
              intro z _
              split
              · apply PE.allEvR_bind (Q := fun _ => True)
                · apply PE.allEvR_of_allEv; apply allEv_eff; trivial
                intro _ _
                exact PE.allEvR_pure _ (ownMarkers_cid o _ c)
              · exact PE.allEvR_pure _ (ownMarkers_nil o _)
            · exact PE.allEvR_pure _ (ownMarkers_nil o _)
          · apply allEv_release; trivial
        intro extra hextra
        apply PE.allEv_bind; · exact deleteMetadataCore_shape cfg o _ _
        intro _
        apply PE.allEv_bind
        · exact deleteMarked_shape cfg o _ _ (ownMarkers_append o _ _ _ (ownMarkers_pid o p') hextra)
        intro _
        exact PE.allEv_pure _
      · repeat (first
          | exact deleteMetadataCore_shape cfg o _ _
          | exact deleteMarked_shape cfg o _ _ (ownMarkers_pid o p')
          | exact ⟨p', rfl, rfl⟩
          | allev_step)
      · exact PE.allEv_throw _
  · apply allEv_release; rfl

/-- a call whose pid argument is not a string is rejected before any primitive -/
theorem rejected_shape {α : Type} (P : Ev → Prop) (e : Exc) (f : Str → PE α) :
    (PE.ofExcept (Except.error e : Except Exc Str) >>= f).AllEv P := True.intro

/-- every public call, whatever its arguments, stays within its shape -/
theorem call_shape (c : Call) : (c.prog cfg o).AllEv (Shape cfg o c.pidStr) := by
  cases c with
  | storeObject pid d a cks ca s =>
    cases pid with
    | none => exact storeObject_shape_nopid cfg o _ d a cks ca s
    | str p => exact storeObject_shape_pid cfg o p d a cks ca s
    | other => exact True.intro
  | tagObject pid cid =>
    cases pid with
    | str p => exact tagObject_shape cfg o cid p
    | none => exact True.intro
    | other => exact True.intro
  | deleteIfInvalid om c ca s => exact deleteIfInvalid_shape cfg o _ om c ca s
  | storeMetadata pid d f =>
    cases pid with
    | str p => exact storeMetadata_shape cfg o p d f
    | none => exact True.intro
    | other => exact True.intro
  | retrieveObject pid => exact retrieveObject_shape cfg o _ pid
  | retrieveMetadata pid f => exact retrieveMetadata_shape cfg o _ pid f
  | deleteObject pid =>
    cases pid with
    | str p => exact deleteObject_shape cfg o p
    | none => exact True.intro
    | other => exact True.intro
  | deleteMetadata pid f =>
    cases pid with
    | str p => exact deleteMetadata_shape cfg o p f
    | none => exact True.intro
    | other => exact True.intro
  | getHexDigest pid a => exact getHexDigest_shape cfg o _ pid a

end HS
