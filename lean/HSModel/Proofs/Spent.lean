/-
  Spent — a one-off fault plan that has fired is inert: the run is the fault-free
  run with the plan carried along. Helper lemmas.
-/
import HSModel.Proofs.RollbackTag
namespace HS

theorem respond_spent (w : World) (e : Ev) (f : Fault) (hw : w.fault = some f) (hf : f.fired = true)
    (hp : f.persistent = false) :
    respond w e = ((respond { w with fault := none } e).1, { (respond { w with fault := none } e).2 with fault := some f }) := by
  obtain ⟨st, lk, fault, log⟩ := w
  simp only at hw
  subst hw
  have hc : f.check e = (false, f) := by unfold Fault.check; simp [hf, hp]
  unfold respond faultStep
  simp only [hc, Bool.false_eq_true, if_false]
  cases e <;> simp only [respondCore, applyEff] <;> (repeat' split) <;> rfl

theorem respond_keeps_none (w : World) (e : Ev) (h : w.fault = none) : (respond w e).2.fault = none := by
  have hf : faultStep w e = (false, w) := by simp [faultStep, h]
  unfold respond
  rw [hf]
  simp only [Bool.false_eq_true, if_false]
  cases e <;> simp only [respondCore, applyEff] <;> (repeat' split) <;> first | exact h | rfl

theorem world_eta_none (x : World) (h : x.fault = none) : ({ x with fault := none } : World) = x := by
  obtain ⟨st, lk, fault, log⟩ := x
  simp only at h; subst h; rfl

theorem run_spent {α : Type} (m : Prog α) (w : World) (f : Fault) (hw : w.fault = some f) (hf : f.fired = true)
    (hp : f.persistent = false) :
    m.run w = ((m.run { w with fault := none }).1, { (m.run { w with fault := none }).2 with fault := some f }) := by
  induction m generalizing w with
  | ret a =>
    obtain ⟨st, lk, fault, log⟩ := w
    simp only at hw; subst hw; rfl
  | op e k ih =>
    simp only [Prog.run]
    rw [respond_spent w e f hw hf hp]
    simp only
    rw [ih _ { (respond { w with fault := none } e).2 with fault := some f } rfl]
    have hn := respond_keeps_none { w with fault := none } e rfl
    have he : ({ ({ (respond { w with fault := none } e).2 with fault := some f } : World) with fault := none } : World)
        = (respond { w with fault := none } e).2 := by
      have := world_eta_none _ hn
      rw [← this]
    rw [he]

end HS
