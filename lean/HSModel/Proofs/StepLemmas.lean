/- frame lemmas for `Abs.step` (helper lemmas; property statements live in Props/) -/
import HSModel.Proofs.AbsLemmas
namespace HS

theorem checkString_str {s p : Str} (h : checkString (.str s) = .ok p) : p = s := by
  simp only [checkString] at h
  split at h
  · cases h; rfl
  · cases h

namespace Abs
variable (cfg : Config) (o : Oracle)

theorem tag_bind_other (a : Abs) (p c q : Str) (h : p ≠ q) :
    (a.tag p c).2.bind.get q = a.bind.get q := by
  unfold tag
  split
  · rfl
  · simp [FMap.get_set_ne _ _ h]

theorem tag_objs (a : Abs) (p c : Str) : (a.tag p c).2.objs = a.objs := by
  unfold tag; split <;> rfl

theorem tag_docs (a : Abs) (p c : Str) : (a.tag p c).2.docs = a.docs := by
  unfold tag; split <;> rfl

theorem deleteOnly_bind (a : Abs) (c : Str) : (a.deleteOnly c).2.bind = a.bind := by
  unfold deleteOnly
  split
  · rfl
  · split <;> rfl

theorem deleteOnly_docs (a : Abs) (c : Str) : (a.deleteOnly c).2.docs = a.docs := by
  unfold deleteOnly
  split
  · rfl
  · split <;> rfl

theorem deleteOnly_objs_sub (a : Abs) (x c : Str) (t : Tok)
    (h : (a.deleteOnly x).2.objs.get c = some t) : a.objs.get c = some t := by
  unfold deleteOnly at h
  split at h
  · exact h
  · split at h
    · exact FMap.get_del_some h
    · exact h

theorem deleteOnly_keeps_referenced (a : Abs) (c c' : Str) (h : a.referenced c' = true) :
    (a.deleteOnly c).2.objs.get c' = a.objs.get c' := by
  unfold deleteOnly
  split
  · rfl
  · rename_i hc
    split
    · have : c ≠ c' := by intro e; subst e; exact hc h
      simp [FMap.get_del_ne _ this]
    · rfl

end Abs
end HS

namespace HS
namespace Abs
variable (cfg : Config) (o : Oracle)

theorem checkString_ok {x : SArg} {p : Str} (h : checkString x = .ok p) : x = .str p := by
  cases x with
  | none => simp [checkString] at h
  | other => simp [checkString] at h
  | str s => rw [checkString_str h]

theorem storeArgs_pid {pid : SArg} {data add cks ca sz p x}
    (h : storeArgs cfg pid data add cks ca sz = .ok (p, x)) : pid = .str p := by
  unfold storeArgs at h
  rw [bind_eq_ok] at h
  obtain ⟨p', hp, h⟩ := h
  simp only [bind_eq_ok, pure_eq_ok] at h
  obtain ⟨_, _, _, _, ac, _, t, _, h⟩ := h
  cases h
  exact checkString_ok hp

theorem storeArgs_data {pid : SArg} {data add cks ca sz p x y t}
    (h : storeArgs cfg pid data add cks ca sz = .ok (p, x, y, t)) : data = .ok t := by
  unfold storeArgs at h
  simp only [bind_eq_ok, pure_eq_ok] at h
  obtain ⟨_, _, _, _, _, _, ac, _, t', ht, hh⟩ := h
  cases hh
  cases data <;> simp [openStream] at ht
  rw [ht]

theorem dataOnly_data {data : DataArg} {t : Tok}
    (h : (do checkArgData data; openStream data : Except Exc Tok) = .ok t) : data = .ok t := by
  simp only [bind_eq_ok] at h
  obtain ⟨_, _, ht⟩ := h
  cases data <;> simp [openStream] at ht
  rw [ht]

theorem metaArgs_pid {pid fmt : SArg} {p f : Str} (h : metaArgs cfg pid fmt = .ok (p, f)) :
    pid = .str p := by
  unfold metaArgs at h
  simp only [bind_eq_ok, pure_eq_ok] at h
  obtain ⟨p', hp, f', _, h⟩ := h
  cases h
  exact checkString_ok hp

/-- a successful call hands back the state component of the tag -/
theorem map_snd {α β : Type} (r : Except Exc α × Abs) (f : α → β) : (r.1.map f, r.2).2 = r.2 := rfl

theorem storeObj_bind_other (a : Abs) (pid : SArg) (data : DataArg) (add cks ca : SArg) (sz : IArg)
    (q : Str) (hq : pid ≠ .str q) :
    (storeObj cfg o a pid data add cks ca sz).2.bind.get q = a.bind.get q := by
  unfold storeObj
  split
  · rfl
  · rename_i p add' cs' t hargs
    have hp := storeArgs_pid cfg hargs
    have hpq : p ≠ q := by intro e; subst e; exact hq hp
    simp only []
    split
    · rfl
    · simp only [tag_bind_other _ _ _ _ hpq, addObj_bind]

theorem storeObj_docs (a : Abs) (pid : SArg) (data : DataArg) (add cks ca : SArg) (sz : IArg) :
    (storeObj cfg o a pid data add cks ca sz).2.docs = a.docs := by
  unfold storeObj
  split
  · rfl
  · simp only []
    split
    · rfl
    · simp only [tag_docs, addObj_docs]

theorem storeObj_keeps_objs (a : Abs) (pid : SArg) (data : DataArg) (add cks ca : SArg) (sz : IArg)
    (c : Str) (t : Tok) (h : a.objs.get c = some t) :
    (storeObj cfg o a pid data add cks ca sz).2.objs.get c = some t := by
  unfold storeObj
  split
  · exact h
  · simp only []
    split
    · exact h
    · simp only [tag_objs]; exact addObj_keeps _ _ _ _ _ h

theorem storeData_bind (a : Abs) (data : DataArg) : (storeData cfg o a data).2.bind = a.bind := by
  unfold storeData; split
  · rfl
  · simp only [addObj_bind]

theorem storeData_docs (a : Abs) (data : DataArg) : (storeData cfg o a data).2.docs = a.docs := by
  unfold storeData; split
  · rfl
  · simp only [addObj_docs]

theorem storeData_keeps_objs (a : Abs) (data : DataArg) (c : Str) (t : Tok)
    (h : a.objs.get c = some t) : (storeData cfg o a data).2.objs.get c = some t := by
  unfold storeData; split
  · exact h
  · exact addObj_keeps _ _ _ _ _ h

theorem tagObj_bind_other (a : Abs) (pid cid : SArg) (q : Str) (hq : pid ≠ .str q) :
    (tagObj a pid cid).2.bind.get q = a.bind.get q := by
  unfold tagObj
  split
  · rfl
  · rename_i p c hargs
    have hp : pid = .str p := by
      simp only [bind_eq_ok, pure_eq_ok] at hargs
      obtain ⟨p', hp, c', _, h⟩ := hargs
      cases h
      exact checkString_ok hp
    have hpq : p ≠ q := by intro e; subst e; exact hq hp
    simp only [tag_bind_other _ _ _ _ hpq]

theorem tagObj_objs (a : Abs) (pid cid : SArg) : (tagObj a pid cid).2.objs = a.objs := by
  unfold tagObj; split
  · rfl
  · simp only [tag_objs]

theorem tagObj_docs (a : Abs) (pid cid : SArg) : (tagObj a pid cid).2.docs = a.docs := by
  unfold tagObj; split
  · rfl
  · simp only [tag_docs]

theorem divObj_bind (a : Abs) (om : Option ObjMeta) (cks ca : SArg) (sz : IArg) :
    (divObj cfg o a om cks ca sz).2.bind = a.bind := by
  unfold divObj
  repeat' split
  all_goals first | rfl | simp only [apply_ite Prod.snd, apply_ite Abs.bind, deleteOnly_bind, ite_self]

theorem divObj_docs (a : Abs) (om : Option ObjMeta) (cks ca : SArg) (sz : IArg) :
    (divObj cfg o a om cks ca sz).2.docs = a.docs := by
  unfold divObj
  repeat' split
  all_goals first | rfl | simp only [apply_ite Prod.snd, apply_ite Abs.docs, deleteOnly_docs, ite_self]

theorem divObj_keeps_referenced (a : Abs) (om : Option ObjMeta) (cks ca : SArg) (sz : IArg)
    (c : Str) (h : a.referenced c = true) :
    (divObj cfg o a om cks ca sz).2.objs.get c = a.objs.get c := by
  unfold divObj
  repeat' split
  all_goals first
    | rfl
    | simp only [apply_ite Prod.snd, apply_ite Abs.objs, apply_ite (fun m => FMap.get m c),
        deleteOnly_keeps_referenced _ _ _ h, ite_self]

end Abs
end HS
