/-
  StoreSpec — from serialisation up to refusal (Proofs/SerialTest.lean) to the
  specification: the sequential run of the programs the threads became is the
  history run of the accepted calls. Helper lemmas; statement in Props/C07.lean.
-/
import HSModel.Proofs.SerialTest
import HSModel.Proofs.SerialSpec
import HSModel.Proofs.DiscRun
import HSModel.Proofs.LockLemmas
import HSModel.Proofs.RefineAll
namespace HS
section
variable (cfg : Config) (o : Oracle)

theorem call_run_lk (c : Call) (w : World) (hw : w.lk = {}) : ((Call.tprog cfg o c).run w).2.lk = {} := by
  obtain ⟨h', hm, _, hp⟩ := Prog.disc_run _ _ [] w (call_neutral cfg o c)
    (by rw [hw]; exact matches_empty) List.Pairwise.nil
  subst hp
  exact matches_nil_iff _ hm

open Classical in
/-- the sequential run of the programs the threads became (`progs'`), from a world with
    free lists, is the history run of the accepted calls: refused threads contribute
    their refusal and nothing else -/
theorem foldl_progs'_runHist (p : Str) (calls : List Call) (progs' : List (Prog (Except Exc Val)))
    (refused : Nat → Prop)
    (hshape : ∀ (j : Nat) (x : Call), calls[j]? = some x →
      (refused j ∧ progs'[j]? = some (.ret (.error .storeObjectInProgress))) ∨
      (¬ refused j ∧ ∀ w : World, w.lk = {} → ∃ q, progs'[j]? = some q ∧ q.run w = (Call.tprog cfg o x).run w))
    (l : List Nat) (hl : ∀ j ∈ l, j < calls.length) (w : World) (hw : w.lk = {}) (acc : Results) :
    let r := l.foldl (seqStep progs') (w, acc)
    let acc' := l.filter (fun j => decide (¬ refused j))
    r.1 = (runHist cfg o (pick calls acc') w).2 ∧ r.1.lk = {} ∧
    ∀ x ∈ r.2, x ∈ acc ∨ (refused x.1 ∧ x.2 = .error .storeObjectInProgress) ∨
      x ∈ acc'.zip (runHist cfg o (pick calls acc') w).1 := by
  induction l generalizing w acc with
  | nil =>
    intro r acc'
    exact ⟨rfl, hw, fun x hx => Or.inl hx⟩
  | cons j rest ih =>
    intro r acc'
    have hjlt : j < calls.length := hl j (List.mem_cons_self ..)
    have hcj : calls[j]? = some calls[j] := List.getElem?_eq_getElem hjlt
    have hrest : ∀ j' ∈ rest, j' < calls.length := fun j' h => hl j' (List.mem_cons_of_mem _ h)
    rcases hshape j _ hcj with ⟨hr, hp'⟩ | ⟨hnr, hq⟩
    · -- refused: world unchanged, one result entry
      have hstep : seqStep progs' (w, acc) j = (w, acc ++ [(j, .error .storeObjectInProgress)]) := by
        simp only [seqStep, hp']; rfl
      have hfilt : acc' = rest.filter (fun j => decide (¬ refused j)) := by
        simp only [acc', List.filter_cons, hr, not_true_eq_false, decide_false, Bool.false_eq_true, if_false]
      obtain ⟨h1, h2, h3⟩ := ih hrest w hw (acc ++ [(j, .error .storeObjectInProgress)])
      have hr' : r = rest.foldl (seqStep progs') (w, acc ++ [(j, .error .storeObjectInProgress)]) := by
        simp only [r, List.foldl_cons, hstep]
      rw [hr', hfilt]
      refine ⟨h1, h2, ?_⟩
      intro x hx
      rcases h3 x hx with h | h | h
      · rcases List.mem_append.mp h with h | h
        · exact Or.inl h
        · simp only [List.mem_singleton] at h; subst h; exact Or.inr (Or.inl ⟨hr, rfl⟩)
      · exact Or.inr (Or.inl h)
      · exact Or.inr (Or.inr h)
    · -- accepted: the whole call
      obtain ⟨q, hq1, hq2⟩ := hq w hw
      have hstep : seqStep progs' (w, acc) j =
          (((Call.tprog cfg o calls[j]).run w).2, acc ++ [(j, ((Call.tprog cfg o calls[j]).run w).1)]) := by
        simp only [seqStep, hq1, hq2]
      have hfilt : acc' = j :: rest.filter (fun j => decide (¬ refused j)) := by
        simp only [acc', List.filter_cons, hnr, not_false_eq_true, decide_true, if_true]
      have hw' := call_run_lk cfg o calls[j] w hw
      obtain ⟨h1, h2, h3⟩ := ih hrest _ hw' (acc ++ [(j, ((Call.tprog cfg o calls[j]).run w).1)])
      have hr' : r = rest.foldl (seqStep progs') (((Call.tprog cfg o calls[j]).run w).2,
          acc ++ [(j, ((Call.tprog cfg o calls[j]).run w).1)]) := by
        simp only [r, List.foldl_cons, hstep]
      have hpick : pick calls (j :: rest.filter (fun j => decide (¬ refused j))) =
          calls[j] :: pick calls (rest.filter (fun j => decide (¬ refused j))) := by
        simp only [pick, List.filterMap_cons, hcj]
      rw [hr', hfilt, hpick]
      simp only [runHist]
      refine ⟨h1, h2, ?_⟩
      intro x hx
      rcases h3 x hx with h | h | h
      · rcases List.mem_append.mp h with h | h
        · exact Or.inl h
        · simp only [List.mem_singleton] at h; subst h
          right; right
          simp only [List.zip_cons_cons, List.mem_cons]
          left; rfl
      · exact Or.inr (Or.inl h)
      · right; right
        simp only [List.zip_cons_cons, List.mem_cons]
        exact Or.inr h

end
end HS
