/- lemmas about reference-file text (helper lemmas; no property statements) -/
import HSModel.Text
namespace HS

theorem isSpace_newline : isSpace '\n' = true := by decide
theorem isSpace_cr : isSpace '\r' = true := by decide

theorem hasSpace_false_iff (s : Str) : hasSpace s = false ↔ ∀ c ∈ s, isSpace c = false := by
  simp [hasSpace, List.any_eq_false]

theorem checkStringOk_iff (s : Str) : checkStringOk s = true ↔ s ≠ [] ∧ hasSpace s = false := by
  unfold checkStringOk
  constructor
  · intro h
    simp only [Bool.not_eq_true', Bool.or_eq_false_iff] at h
    refine ⟨?_, h.2⟩
    intro e; subst e
    simp [strip, lstrip, rstrip] at h
  · intro ⟨hne, hs⟩
    simp only [Bool.not_eq_true', Bool.or_eq_false_iff]
    refine ⟨?_, hs⟩
    -- strip of a space-free non-empty string is non-empty
    cases s with
    | nil => exact absurd rfl hne
    | cons c r =>
      have hc : isSpace c = false := (hasSpace_false_iff _).mp hs c (List.mem_cons_self ..)
      have : lstrip (c :: r) = c :: r := by simp [lstrip, List.dropWhile, hc]
      simp only [strip, this, rstrip]
      have hall : ∀ x ∈ (c :: r).reverse, isSpace x = false := by
        intro x hx; exact (hasSpace_false_iff _).mp hs x (List.mem_reverse.mp hx)
      cases hrev : (c :: r).reverse with
      | nil => simp at hrev
      | cons y ys =>
        have hy : isSpace y = false := hall y (by rw [hrev]; exact List.mem_cons_self ..)
        simp [List.dropWhile, hy]

theorem dropWhile_nospace (s : Str) (h : ∀ c ∈ s, isSpace c = false) : s.dropWhile isSpace = s := by
  cases s with
  | nil => rfl
  | cons c r => simp [List.dropWhile, h c (List.mem_cons_self ..)]

/-- `(l ++ "\n").strip() == l` for a whitespace-free `l` -/
theorem strip_line (l : Str) (h : hasSpace l = false) : strip (l ++ ['\n']) = l := by
  have hall := (hasSpace_false_iff l).mp h
  unfold strip lstrip rstrip
  cases l with
  | nil => simp [List.dropWhile, isSpace_newline]
  | cons c r =>
    have hc : isSpace c = false := hall c (List.mem_cons_self ..)
    have h1 : ((c :: r) ++ ['\n']).dropWhile isSpace = (c :: r) ++ ['\n'] := by
      simp [List.dropWhile, hc]
    rw [h1]
    simp only [List.reverse_append, List.reverse_cons, List.reverse_nil, List.nil_append,
      List.singleton_append]
    rw [List.dropWhile_cons_of_pos isSpace_newline]
    have hall' : ∀ x ∈ (r.reverse ++ [c]), isSpace x = false := by
      intro x hx
      rcases List.mem_append.mp hx with hx | hx
      · exact hall x (List.mem_cons_of_mem _ (List.mem_reverse.mp hx))
      · simp at hx; subst hx; exact hc
    rw [dropWhile_nospace _ hall']
    simp

/-- lines without a newline inside split back exactly -/
theorem linesKeep_cons_line (l : Str) (rest : Str) (h : ∀ c ∈ l, c ≠ '\n') :
    linesKeep (l ++ '\n' :: rest) = (l ++ ['\n']) :: linesKeep rest := by
  induction l with
  | nil => simp [linesKeep]
  | cons c r ih =>
    have hc : c ≠ '\n' := h c (List.mem_cons_self ..)
    have ih' := ih (fun x hx => h x (List.mem_cons_of_mem _ hx))
    simp only [List.cons_append, linesKeep, hc, if_false]
    rw [ih']

theorem no_newline_of_nospace (l : Str) (h : hasSpace l = false) : ∀ c ∈ l, c ≠ '\n' := by
  intro c hc e
  subst e
  have := (hasSpace_false_iff l).mp h _ hc
  rw [isSpace_newline] at this; cases this

theorem linesKeep_render (ls : List Str) (h : ∀ l ∈ ls, hasSpace l = false) :
    linesKeep (renderLines ls) = ls.map fun l => l ++ ['\n'] := by
  induction ls with
  | nil => simp [renderLines, linesKeep]
  | cons l r ih =>
    have hl := h l (List.mem_cons_self ..)
    have hr := ih (fun x hx => h x (List.mem_cons_of_mem _ hx))
    simp only [renderLines, List.map_cons, List.flatten_cons] at hr ⊢
    rw [List.append_assoc, List.singleton_append,
      linesKeep_cons_line l _ (no_newline_of_nospace l hl), hr]

/-- what the code reads back from a list it wrote: exactly the pids -/
theorem pyLines_render (ls : List Str) (h : ∀ l ∈ ls, hasSpace l = false) :
    pyLines (renderLines ls) = ls := by
  unfold pyLines
  rw [linesKeep_render ls h, List.map_map]
  conv => rhs; rw [← List.map_id ls]
  apply List.map_congr_left
  intro l hl
  simp [Function.comp, strip_line l (h l hl)]

theorem inRefs_render (p : Str) (ls : List Str) (h : ∀ l ∈ ls, hasSpace l = false) :
    inRefs p (renderLines ls) = ls.contains p := by
  unfold inRefs
  rw [pyLines_render ls h]

theorem renderLines_append (a b : List Str) : renderLines (a ++ b) = renderLines a ++ renderLines b := by
  simp [renderLines]

/-- the appended line is `pid ++ "\n"` -/
theorem renderLines_snoc (ls : List Str) (p : Str) :
    renderLines ls ++ (p ++ ['\n']) = renderLines (ls ++ [p]) := by
  simp [renderLines]

/-- removing a pid rewrites the list to exactly the other lines -/
theorem removeLines_render (p : Str) (ls : List Str) (h : ∀ l ∈ ls, hasSpace l = false) :
    removeLines p (renderLines ls) = renderLines (ls.filter fun l => l ≠ p) := by
  unfold removeLines
  rw [linesKeep_render ls h]
  induction ls with
  | nil => simp [renderLines]
  | cons l r ih =>
    have hl := h l (List.mem_cons_self ..)
    have ih' := ih (fun x hx => h x (List.mem_cons_of_mem _ hx))
    simp only [List.map_cons, List.filter_cons, strip_line l hl]
    by_cases e : l = p
    · subst e
      simp only [ne_eq, not_true_eq_false, decide_false, Bool.false_eq_true, if_false]
      exact ih'
    · simp only [ne_eq, e, not_false_eq_true, decide_true, if_true, List.flatten_cons]
      rw [ih']
      simp [renderLines]

theorem overwrite_truncate (new old : Str) : (overwritePrefix new old).take new.length = new := by
  simp [overwritePrefix]

end HS
