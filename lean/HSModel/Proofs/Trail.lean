/-
  Trail — the stores a sequential run passes through (one per file-system
  effect): what a crash at any point leaves on disk. Helper lemmas.
-/
import HSModel.Proofs.RunInv
import HSModel.Proofs.MetaRun
namespace HS
namespace Prog
variable {α β : Type}

/-- the store after every file-system effect of the run, in order -/
def trail : Prog α → World → List Store
  | .ret _, _ => []
  | .op e k, w =>
    match e with
    | .eff _ => (respond w e).2.st :: trail (k (respond w e).1) (respond w e).2
    | _ => trail (k (respond w e).1) (respond w e).2

/-- the store a crash leaves is the initial one or one of the trail -/
theorem crashAt_in_trail (m : Prog α) (n : Nat) (w : World) :
    (crashAt n m w).2.st = w.st ∨ (crashAt n m w).2.st ∈ trail m w := by
  induction m generalizing n w with
  | ret a => left; simp [crashAt]
  | op e k ih =>
    cases e with
    | eff x =>
      cases n with
      | zero => left; simp [crashAt]
      | succ n =>
        simp only [crashAt, trail]
        rcases ih _ n (respond w (.eff x)).2 with h | h
        · right; rw [h]; exact List.mem_cons_self ..
        · right; exact List.mem_cons_of_mem _ h
    | isFile l => simp only [crashAt, trail]; rcases ih _ n (respond w _).2 with h | h
                  · left; rw [h]; rcases respond_store_cases w (.isFile l) with h0 | ⟨x, _, hx, _⟩
                    · exact h0
                    · cases hx
                  · right; exact h
    | readRef l => simp only [crashAt, trail]; rcases ih _ n (respond w _).2 with h | h
                   · left; rw [h]; rcases respond_store_cases w (.readRef l) with h0 | ⟨x, _, hx, _⟩
                     · exact h0
                     · cases hx
                   · right; exact h
    | readOpen l => simp only [crashAt, trail]; rcases ih _ n (respond w _).2 with h | h
                    · left; rw [h]; rcases respond_store_cases w (.readOpen l) with h0 | ⟨x, _, hx, _⟩
                      · exact h0
                      · cases hx
                    · right; exact h
    | readObj l => simp only [crashAt, trail]; rcases ih _ n (respond w _).2 with h | h
                   · left; rw [h]; rcases respond_store_cases w (.readObj l) with h0 | ⟨x, _, hx, _⟩
                     · exact h0
                     · cases hx
                   · right; exact h
    | readDoc d l => simp only [crashAt, trail]; rcases ih _ n (respond w _).2 with h | h
                     · left; rw [h]; rcases respond_store_cases w (.readDoc d l) with h0 | ⟨x, _, hx, _⟩
                       · exact h0
                       · cases hx
                     · right; exact h
    | sizeIsZero l => simp only [crashAt, trail]; rcases ih _ n (respond w _).2 with h | h
                      · left; rw [h]; rcases respond_store_cases w (.sizeIsZero l) with h0 | ⟨x, _, hx, _⟩
                        · exact h0
                        · cases hx
                      · right; exact h
    | listDocs l => simp only [crashAt, trail]; rcases ih _ n (respond w _).2 with h | h
                    · left; rw [h]; rcases respond_store_cases w (.listDocs l) with h0 | ⟨x, _, hx, _⟩
                      · exact h0
                      · cases hx
                    · right; exact h
    | openTmpWrite l => simp only [crashAt, trail]; rcases ih _ n (respond w _).2 with h | h
                        · left; rw [h]; rcases respond_store_cases w (.openTmpWrite l) with h0 | ⟨x, _, hx, _⟩
                          · exact h0
                          · cases hx
                        · right; exact h
    | inProgress l => simp only [crashAt, trail]; rcases ih _ n (respond w _).2 with h | h
                      · left; rw [h]; rcases respond_store_cases w (.inProgress l) with h0 | ⟨x, _, hx, _⟩
                        · exact h0
                        · cases hx
                      · right; exact h
    | acquire c l => simp only [crashAt, trail]; rcases ih _ n (respond w _).2 with h | h
                     · left; rw [h]; rcases respond_store_cases w (.acquire c l) with h0 | ⟨x, _, hx, _⟩
                       · exact h0
                       · cases hx
                     · right; exact h
    | release c l => simp only [crashAt, trail]; rcases ih _ n (respond w _).2 with h | h
                     · left; rw [h]; rcases respond_store_cases w (.release c l) with h0 | ⟨x, _, hx, _⟩
                       · exact h0
                       · cases hx
                     · right; exact h
    | isLocked c l => simp only [crashAt, trail]; rcases ih _ n (respond w _).2 with h | h
                      · left; rw [h]; rcases respond_store_cases w (.isLocked c l) with h0 | ⟨x, _, hx, _⟩
                        · exact h0
                        · cases hx
                      · right; exact h

theorem trail_bind (m : Prog α) (f : α → Prog β) (w : World) :
    trail (Prog.bind m f) w = trail m w ++ trail (f (m.run w).1) (m.run w).2 := by
  induction m generalizing w with
  | ret a => rfl
  | op e k ih =>
    cases e <;> simp only [Prog.bind, trail, run, ih, List.cons_append]

/-- a store invariant carried by a static discipline holds all along the trail -/
theorem trail_inv {P : Ev → Prop} {J : Store → Prop} (m : Prog α) (hm : m.AllEv P)
    (hp : Preserved P (fun w => J w.st)) (w : World) (hw : J w.st) : ∀ s ∈ trail m w, J s := by
  induction m generalizing w with
  | ret a => intro s hs; cases hs
  | op e k ih =>
    have hstep : J (respond w e).2.st := hp w e hm.1 hw
    cases e <;> simp only [trail] <;> first
      | (intro s hs
         rcases List.mem_cons.1 hs with rfl | hs
         · exact hstep
         · exact ih _ (hm.2 _) _ hstep s hs)
      | exact ih _ (hm.2 _) _ hstep

end Prog
end HS
