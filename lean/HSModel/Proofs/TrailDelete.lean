/-
  TrailDelete — the trail of delete_object keeps every other pid.
-/
import HSModel.Proofs.TrailTag
namespace HS

/-- primitives that touch documents only -/
def DocsOnly : Ev → Prop
  | .eff (.mkdirs _ _) => True
  | .eff (.mkTmp .mdata) => True
  | .eff (.removeTmp .mdata) => True
  | .eff (.publishDoc _ _ _) => True
  | .eff (.retire (.mdoc _ _)) => True
  | .eff (.remove (.mdoc _ _)) => True
  | .eff _ => False
  | _ => True

theorem withDocLock_docsOnly {α : Type} (doc : Str) (body : PE α) (h : body.AllEv DocsOnly) :
    (withDocLock doc body).AllEv DocsOnly := by
  unfold withDocLock
  repeat (first | exact h | allev_step)

theorem deleteMarked_docsOnly (l : List Loc) (h : ∀ x ∈ l, IsDocLoc x) : (deleteMarked l).AllEv DocsOnly := by
  induction l with
  | nil => exact PE.allEv_pure _
  | cons a r ih =>
    unfold deleteMarked
    apply PE.allEv_bind
    · apply PE.allEv_tryCatch
      · apply allEv_eff
        have ha := h a (List.mem_cons_self ..)
        cases a <;> first | trivial | exact ha.elim
      · intro _; exact PE.allEv_pure _
    · intro _
      exact ih (fun x hx => h x (List.mem_cons_of_mem _ hx))

theorem retireDocs_docsOnly (dir : Str) (names : List Str) :
    (retireDocs dir names).AllEvR DocsOnly (fun l => ∀ x ∈ l, IsDocLoc x) := by
  induction names with
  | nil => exact PE.allEvR_pure _ (by intro x hx; cases hx)
  | cons n r ih =>
    unfold retireDocs
    apply PE.allEvR_bind (Q := fun _ => True)
    · apply PE.allEvR_of_allEv
      apply withDocLock_docsOnly
      apply allEv_eff
      trivial
    · intro _ _
      apply PE.allEvR_bind _ _ ih
      intro rest hrest
      apply PE.allEvR_pure
      intro x hx
      rcases List.mem_cons.mp hx with rfl | hx
      · trivial
      · exact hrest x hx

theorem deleteMetadataCore_docsOnly (o : Oracle) (p : Str) (fmt : Option Str) :
    (deleteMetadataCore o p fmt).AllEv DocsOnly := by
  unfold deleteMetadataCore
  cases fmt with
  | none =>
    simp only
    apply PE.allEv_bind; · (apply allEv_listDocs; trivial)
    intro names
    split
    · exact PE.allEv_pure _
    · apply PE.allEv_bind_post _ _ (retireDocs_docsOnly _ _)
      intro marked hm
      exact deleteMarked_docsOnly _ hm
  | some f =>
    simp only
    apply withDocLock_docsOnly
    repeat allev_step

/-- references and objects as in `s0` -/
def RefsAs (s0 s : Store) : Prop := s.pidRefs = s0.pidRefs ∧ s.cidRefs = s0.cidRefs ∧ s.objs = s0.objs

theorem refsAs_docsOnly (s0 : Store) : Prog.Preserved DocsOnly (fun w => RefsAs s0 w.st) := by
  apply preserved_of_store
  intro s x s' hx ha ⟨h1, h2, h3⟩
  cases x with
  | mkdirs a k => simp [Store.apply] at ha; subst ha; exact ⟨h1, h2, h3⟩
  | mkTmp a =>
    cases a <;> first | exact hx.elim | skip
    simp [Store.apply, Store.setTmp] at ha; subst ha; exact ⟨h1, h2, h3⟩
  | removeTmp a =>
    cases a <;> first | exact hx.elim | skip
    simp only [Store.apply] at ha
    split at ha
    · cases ha
    · injection ha with ha; subst ha; exact ⟨h1, h2, h3⟩
  | publishObj c t => exact hx.elim
  | publishDoc d n t =>
    simp [Store.apply] at ha
    obtain ⟨_, ha⟩ := ha
    subst ha; exact ⟨h1, h2, h3⟩
  | publishPidRef k v => exact hx.elim
  | publishCidRef c v => exact hx.elim
  | retire l =>
    cases l <;> first | exact hx.elim | skip
    simp [Store.apply, Store.retire] at ha
    obtain ⟨v, _, ha⟩ := ha
    subst ha; exact ⟨h1, h2, h3⟩
  | remove l =>
    cases l <;> first | exact hx.elim | skip
    simp [Store.apply, Store.remove] at ha
    obtain ⟨_, ha⟩ := ha
    subst ha; exact ⟨h1, h2, h3⟩
  | appendCid c v => exact hx.elim
  | rewriteCid c v => exact hx.elim
  | truncateCid c n => exact hx.elim

/-- all along `delete_metadata`, references and objects are those of its start -/
theorem dmc_trail_refs (o : Oracle) (p : Str) (fmt : Option Str) (w : World) :
    ∀ s ∈ Prog.trail (deleteMetadataCore o p fmt) w, RefsAs w.st s :=
  Prog.trail_inv _ (deleteMetadataCore_docsOnly o p fmt) (refsAs_docsOnly w.st) w ⟨rfl, rfl, rfl⟩

theorem Prog.trail_bind_pe {α β : Type} (m : PE α) (f : Except Exc α → Prog β) (w : World) :
    Prog.trail (Prog.bind m f) w = Prog.trail m w ++ Prog.trail (f (Prog.run m w).1) (Prog.run m w).2 :=
  Prog.trail_bind m f w

end HS

namespace HS
variable (cfg : Config) (o : Oracle)

theorem linesKeep_render_append (ls : List Str) (tail : Str) (h : ∀ l ∈ ls, hasSpace l = false) :
    linesKeep (renderLines ls ++ tail) = (ls.map fun l => l ++ ['\n']) ++ linesKeep tail := by
  induction ls with
  | nil => simp [renderLines]
  | cons l r ih =>
    have hl := h l (List.mem_cons_self ..)
    have hr := ih (fun x hx => h x (List.mem_cons_of_mem _ hx))
    simp only [renderLines, List.map_cons, List.flatten_cons] at hr ⊢
    rw [List.append_assoc, List.append_assoc, List.singleton_append,
      linesKeep_cons_line l _ (no_newline_of_nospace l hl), hr]
    simp

/-- a pid on the new list is still read from the file between the rewrite and the truncation -/
theorem inRefs_overwrite (q : Str) (new : List Str) (old : Str) (h : ∀ l ∈ new, hasSpace l = false) (hq : q ∈ new) :
    inRefs q (overwritePrefix (renderLines new) old) = true := by
  unfold inRefs overwritePrefix pyLines
  rw [linesKeep_render_append new _ h, List.map_append, List.map_map]
  simp only [List.contains_eq_mem, List.mem_append, decide_eq_true_eq]
  left
  exact List.mem_map.2 ⟨q, hq, by simp [Function.comp, strip_line q (h q hq)]⟩

/-- sufficient for `OtherKept` at a state of `delete_object(p)`, `p` on the list `ls` of `c` -/
theorem kept_delete (st s' : Store) (p c q : Str) (ls : List Str) (h : RefsExact o st) (hinj : Inj o.hId)
    (h2 : st.cidRefs.get c = some (renderLines ls)) (hls : ∀ l ∈ ls, hasSpace l = false) (hqp : q ≠ p)
    (ha : s'.pidRefs.get (o.hId q) = st.pidRefs.get (o.hId q))
    (hb : ∀ c', c' ≠ c → Plain c' → s'.cidRefs.get c' = st.cidRefs.get c')
    (hb2 : q ∈ ls → ∃ t', s'.cidRefs.get c = some t' ∧ inRefs q t' = true)
    (hc : ∀ c', Plain c' → (c' ≠ c ∨ ls.filter (fun l => !decide (l = p)) ≠ []) → s'.objs.get c' = st.objs.get c') :
    OtherKept o q st s' := by
  intro c' hq'
  have hql : ∀ t, st.cidRefs.get c' = some t → inRefs q t = true := by
    intro t ht
    obtain ⟨q', hq1, _, t', ht', hin⟩ := h.pid_listed _ _ hq'
    have := hinj _ _ hq1; subst this
    rw [ht] at ht'; cases ht'; exact hin
  refine ⟨by rw [ha]; exact hq', ?_, ?_⟩
  · intro t ht hin
    by_cases e : c' = c
    · subst e
      rw [h2] at ht; cases ht
      rw [inRefs_render q ls hls] at hin
      exact hb2 (by simpa using hin)
    · exact ⟨t, by rw [hb c' e (h.cid_plain c' t ht)]; exact ht, hin⟩
  · intro x hx
    rw [hc c' (h.obj_plain c' x hx)]
    · exact hx
    · by_cases e : c' = c
      · right
        subst e
        have := hql _ h2
        rw [inRefs_render q ls hls] at this
        exact List.ne_nil_of_mem (List.mem_filter.2 ⟨by simpa using this, by simpa using hqp⟩)
      · exact Or.inl e

theorem mem_rest {q p : Str} {ls : List Str} (hq : q ∈ ls) (hqp : q ≠ p) :
    q ∈ ls.filter (fun l => !decide (l = p)) := List.mem_filter.2 ⟨hq, by simpa using hqp⟩

theorem hb2_same {q c : Str} {ls : List Str} {m : FMap Str Str} (hls : ∀ l ∈ ls, hasSpace l = false)
    (hget : m.get c = some (renderLines ls)) (hq : q ∈ ls) : ∃ t', m.get c = some t' ∧ inRefs q t' = true :=
  ⟨_, hget, by rw [inRefs_render _ _ hls]; simpa using hq⟩

theorem hb2_over {q p c old : Str} {ls : List Str} {m : FMap Str Str} (hls : ∀ l ∈ ls, hasSpace l = false) (hqp : q ≠ p)
    (hget : m.get c = some (overwritePrefix (renderLines (ls.filter fun l => !decide (l = p))) old)) (hq : q ∈ ls) :
    ∃ t', m.get c = some t' ∧ inRefs q t' = true :=
  ⟨_, hget, inRefs_overwrite _ _ _ (fun l hl => hls l (List.mem_filter.1 hl).1) (mem_rest hq hqp)⟩

theorem hb2_new {q p c : Str} {ls : List Str} {m : FMap Str Str} (hls : ∀ l ∈ ls, hasSpace l = false) (hqp : q ≠ p)
    (hget : m.get c = some (renderLines (ls.filter fun l => !decide (l = p)))) (hq : q ∈ ls) :
    ∃ t', m.get c = some t' ∧ inRefs q t' = true :=
  ⟨_, hget, by
    rw [inRefs_render _ _ (fun l hl => hls l (List.mem_filter.1 hl).1)]
    simpa using (mem_rest hq hqp)⟩

/-- close one crash state of `delete_object`: the four conditions of `kept_delete` by map arithmetic -/
local macro "kept_state" o:ident p:ident c:ident h:ident hinj:ident h2:ident hls:ident hqp:ident hk1:ident hk2:ident
    hrest:ident : tactic =>
  `(tactic| (
    refine kept_delete $o _ _ $p $c _ _ $h $hinj $h2 $hls $hqp ?_ ?_ ?_ ?_
    · simp [FMap.get_set, FMap.get_del, $hk1:ident, $hk2:ident]
    · intro c' hne hpl
      have hm : $c ++ deleteSuffix ≠ c' := ne_marker_of_plain hpl
      simp [FMap.get_set, FMap.get_del, Ne.symm hne, hm]
    · intro hq
      first
        | exact hb2_same $hls $h2 hq
        | exact hb2_over $hls $hqp (FMap.get_set_self _ _ _) hq
        | exact hb2_new $hls $hqp (FMap.get_set_self _ _ _) hq
        | exact absurd (mem_rest hq $hqp) (by simp [$hrest:ident])
    · intro c' hpl hor
      have hm : $c ++ deleteSuffix ≠ c' := ne_marker_of_plain hpl
      first
        | rfl
        | (rcases hor with hne | hne
           · simp [FMap.get_set, FMap.get_del, Ne.symm hne, hm]
           · exact absurd $hrest hne)))

theorem delete_trail_main_keep (st : Store) (log : List Eff) (p c q : Str) (ls : List Str) (x : Tok)
    (h : RefsExact o st) (hid : PlainIds o) (hinj : Inj o.hId) (hqp : q ≠ p)
    (hp : checkStringOk p = true)
    (h1 : st.pidRefs.get (o.hId p) = some c) (h2 : st.cidRefs.get c = some (renderLines ls))
    (hls : ∀ l ∈ ls, hasSpace l = false) (hin : p ∈ ls) (hobj : st.objs.get c = some x)
    (hrest : ls.filter (fun l => !decide (l = p)) ≠ []) :
    ∀ s ∈ Prog.trail (deleteObject cfg o (.str p)) (calm st log), OtherKept o q st s := by
  have hin' : inRefs p (renderLines ls) = true := by
    rw [inRefs_render p ls hls]; simpa using hin
  have hk1 : ¬ o.hId p = o.hId q := fun e => hqp (hinj _ _ e.symm)
  have hk2 : ¬ o.hId p ++ deleteSuffix = o.hId q := ne_marker_of_plain (hid q)
  intro s hs
  simp [calm, calmL, deleteObject, findObject, runsimp, Prog.trail, checkString_of_ok hp, h1, h2, hin',
    updateRefsRemove, removeLines_render p ls hls, overwrite_truncate, deleteMarked, renderLines_eq_nil,
    Prog.run_bind_pe, Prog.run_bind, Prog.trail_bind_pe, Prog.trail_bind, Loc.marker, dmc_run_eq, dmc_lk, dmc_fault,
    dmc_pid, dmc_cid, dmc_obj, dmc_tr, dmc_to, hobj, hrest] at hs
  rcases hs with rfl | rfl | rfl | rfl | hs
  · kept_state o p c h hinj h2 hls hqp hk1 hk2 hrest
  · kept_state o p c h hinj h2 hls hqp hk1 hk2 hrest
  · kept_state o p c h hinj h2 hls hqp hk1 hk2 hrest
  · kept_state o p c h hinj h2 hls hqp hk1 hk2 hrest
  · obtain ⟨e1, e2, e3⟩ := dmc_trail_refs o p none _ s hs
    refine kept_delete o st s p c q ls h hinj h2 hls hqp ?_ ?_ ?_ ?_
    · rw [e1]; simp [FMap.get_set, FMap.get_del, hk1, hk2]
    · intro c' hne hpl
      rw [e2]; simp [FMap.get_set, Ne.symm hne]
    · intro hq
      rw [e2]
      exact hb2_new hls hqp (by simp) hq
    · intro c' hpl hor
      rw [e3]

/-- the states inside `delete_metadata` called from `delete_object` -/
local macro "kept_dmc" o:ident p:ident c:ident h:ident hinj:ident h2:ident hls:ident hqp:ident hk1:ident hk2:ident
    hrest:ident : tactic =>
  `(tactic| (
    intro s hs
    obtain ⟨e1, e2, e3⟩ := dmc_trail_refs $o $p none _ s hs
    refine kept_delete $o _ s $p $c _ _ $h $hinj $h2 $hls $hqp ?_ ?_ ?_ ?_
    · rw [e1]; simp [FMap.get_set, FMap.get_del, $hk1:ident, $hk2:ident]
    · intro c' hne hpl
      have hm : $c ++ deleteSuffix ≠ c' := ne_marker_of_plain hpl
      rw [e2]; simp [FMap.get_set, FMap.get_del, Ne.symm hne, hm]
    · intro hq
      rw [e2]
      first
        | exact hb2_new $hls $hqp (FMap.get_set_self _ _ _) hq
        | exact absurd (mem_rest hq $hqp) (by simp [$hrest:ident])
    · intro c' hpl hor
      have hm : $c ++ deleteSuffix ≠ c' := ne_marker_of_plain hpl
      rw [e3] <;> first
        | rfl
        | (rcases hor with hne | hne
           · simp [FMap.get_set, FMap.get_del, Ne.symm hne, hm]
           · exact absurd $hrest hne)))

theorem delete_trail_main_last (st : Store) (log : List Eff) (p c q : Str) (ls : List Str) (x : Tok)
    (h : RefsExact o st) (hid : PlainIds o) (hinj : Inj o.hId) (hqp : q ≠ p)
    (hp : checkStringOk p = true)
    (h1 : st.pidRefs.get (o.hId p) = some c) (h2 : st.cidRefs.get c = some (renderLines ls))
    (hls : ∀ l ∈ ls, hasSpace l = false) (hin : p ∈ ls) (hobj : st.objs.get c = some x)
    (hrest : ls.filter (fun l => !decide (l = p)) = []) :
    ∀ s ∈ Prog.trail (deleteObject cfg o (.str p)) (calm st log), OtherKept o q st s := by
  have hin' : inRefs p (renderLines ls) = true := by
    rw [inRefs_render p ls hls]; simpa using hin
  have hk1 : ¬ o.hId p = o.hId q := fun e => hqp (hinj _ _ e.symm)
  have hk2 : ¬ o.hId p ++ deleteSuffix = o.hId q := ne_marker_of_plain (hid q)
  intro s hs
  revert s
  simp [calm, calmL, deleteObject, findObject, runsimp, Prog.trail, checkString_of_ok hp, h1, h2, hin',
    updateRefsRemove, removeLines_render p ls hls, overwrite_truncate, deleteMarked, renderLines_eq_nil,
    Prog.run_bind_pe, Prog.run_bind, Prog.trail_bind_pe, Prog.trail_bind, Loc.marker, dmc_run_eq, dmc_lk, dmc_fault,
    dmc_pid, dmc_cid, dmc_obj, dmc_tr, dmc_to, hobj, hrest, or_imp, forall_and]
  repeat' apply And.intro
  all_goals first
    | kept_state o p c h hinj h2 hls hqp hk1 hk2 hrest
    | kept_dmc o p c h hinj h2 hls hqp hk1 hk2 hrest

theorem delete_trail_missing_keep (st : Store) (log : List Eff) (p c q : Str) (ls : List Str) 
    (h : RefsExact o st) (hid : PlainIds o) (hinj : Inj o.hId) (hqp : q ≠ p)
    (hp : checkStringOk p = true)
    (h1 : st.pidRefs.get (o.hId p) = some c) (h2 : st.cidRefs.get c = some (renderLines ls))
    (hls : ∀ l ∈ ls, hasSpace l = false) (hin : p ∈ ls) (hobj : st.objs.get c = none)
    (hrest : ls.filter (fun l => !decide (l = p)) ≠ []) :
    ∀ s ∈ Prog.trail (deleteObject cfg o (.str p)) (calm st log), OtherKept o q st s := by
  have hin' : inRefs p (renderLines ls) = true := by
    rw [inRefs_render p ls hls]; simpa using hin
  have hk1 : ¬ o.hId p = o.hId q := fun e => hqp (hinj _ _ e.symm)
  have hk2 : ¬ o.hId p ++ deleteSuffix = o.hId q := ne_marker_of_plain (hid q)
  intro s hs
  revert s
  simp [calm, calmL, deleteObject, findObject, runsimp, Prog.trail, checkString_of_ok hp, h1, h2, hin',
    updateRefsRemove, removeLines_render p ls hls, overwrite_truncate, deleteMarked, renderLines_eq_nil,
    Prog.run_bind_pe, Prog.run_bind, Prog.trail_bind_pe, Prog.trail_bind, Loc.marker, dmc_run_eq, dmc_lk, dmc_fault,
    dmc_pid, dmc_cid, dmc_obj, dmc_tr, dmc_to, hobj, hrest, or_imp, forall_and]
  repeat' apply And.intro
  all_goals first
    | kept_state o p c h hinj h2 hls hqp hk1 hk2 hrest
    | kept_dmc o p c h hinj h2 hls hqp hk1 hk2 hrest

theorem delete_trail_missing_last (st : Store) (log : List Eff) (p c q : Str) (ls : List Str) 
    (h : RefsExact o st) (hid : PlainIds o) (hinj : Inj o.hId) (hqp : q ≠ p)
    (hp : checkStringOk p = true)
    (h1 : st.pidRefs.get (o.hId p) = some c) (h2 : st.cidRefs.get c = some (renderLines ls))
    (hls : ∀ l ∈ ls, hasSpace l = false) (hin : p ∈ ls) (hobj : st.objs.get c = none)
    (hrest : ls.filter (fun l => !decide (l = p)) = []) :
    ∀ s ∈ Prog.trail (deleteObject cfg o (.str p)) (calm st log), OtherKept o q st s := by
  have hin' : inRefs p (renderLines ls) = true := by
    rw [inRefs_render p ls hls]; simpa using hin
  have hk1 : ¬ o.hId p = o.hId q := fun e => hqp (hinj _ _ e.symm)
  have hk2 : ¬ o.hId p ++ deleteSuffix = o.hId q := ne_marker_of_plain (hid q)
  intro s hs
  revert s
  simp [calm, calmL, deleteObject, findObject, runsimp, Prog.trail, checkString_of_ok hp, h1, h2, hin',
    updateRefsRemove, removeLines_render p ls hls, overwrite_truncate, deleteMarked, renderLines_eq_nil,
    Prog.run_bind_pe, Prog.run_bind, Prog.trail_bind_pe, Prog.trail_bind, Loc.marker, dmc_run_eq, dmc_lk, dmc_fault,
    dmc_pid, dmc_cid, dmc_obj, dmc_tr, dmc_to, hobj, hrest, or_imp, forall_and]
  repeat' apply And.intro
  all_goals first
    | kept_state o p c h hinj h2 hls hqp hk1 hk2 hrest
    | kept_dmc o p c h hinj h2 hls hqp hk1 hk2 hrest

end HS

namespace HS
variable (cfg : Config) (o : Oracle)

theorem otherKept_refl (q : Str) (s : Store) : OtherKept o q s s :=
  fun _ hc => ⟨hc, fun t ht hin => ⟨t, ht, hin⟩, fun _ hx => hx⟩

/-- `delete_object` (any argument) from a store whose indexes agree: every
    store on its trail keeps every other pid's reference, list entry and object -/
theorem delete_trail_kept (st : Store) (log : List Eff) (pid : SArg) (q : Str) (h : RefsExact o st)
    (hid : PlainIds o) (hinj : Inj o.hId) (hq : pid ≠ .str q) :
    ∀ s ∈ Prog.trail (deleteObject cfg o pid) (calm st log), OtherKept o q st s := by
  cases hpc : checkString pid with
  | error e =>
    intro s hs
    simp [deleteObject, runsimp, Prog.trail, hpc, calm, calmL] at hs
  | ok p =>
    obtain ⟨hp1, hp⟩ := checkString_ok_inv hpc
    subst hp1
    have hqp : q ≠ p := fun e => hq (by rw [e])
    cases h1 : st.pidRefs.get (o.hId p) with
    | none =>
      intro s hs
      simp [deleteObject, findObject, runsimp, Prog.trail, hpc, h1, calm, calmL] at hs
    | some c =>
      obtain ⟨p', hp', _, t, h2, hin⟩ := h.pid_listed _ _ h1
      have := hinj _ _ hp'; subst this
      obtain ⟨ls, hls, _, _, hall⟩ := h.list_ok c t h2
      subst hls
      have hsp : ∀ l ∈ ls, hasSpace l = false := fun l hl => nospace_of_ok (hall l hl).1
      have hmem : p ∈ ls := by rw [inRefs_render p ls hsp] at hin; simpa using hin
      by_cases hrest : ls.filter (fun l => !decide (l = p)) = []
      · cases hobj : st.objs.get c with
        | some x => exact delete_trail_main_last cfg o st log p c q ls x h hid hinj hqp hp h1 h2 hsp hmem hobj hrest
        | none => exact delete_trail_missing_last cfg o st log p c q ls h hid hinj hqp hp h1 h2 hsp hmem hobj hrest
      · cases hobj : st.objs.get c with
        | some x => exact delete_trail_main_keep cfg o st log p c q ls x h hid hinj hqp hp h1 h2 hsp hmem hobj hrest
        | none => exact delete_trail_missing_keep cfg o st log p c q ls h hid hinj hqp hp h1 h2 hsp hmem hobj hrest

end HS
