/-
  TrailNl — every store on the trail of the five calls has newline-terminated
  list texts (so the recovery theorem applies to every crash state).
-/
import HSModel.Proofs.Recover
namespace HS
variable (cfg : Config) (o : Oracle)

theorem allNl_of_exact {st : Store} (h : RefsExact o st) : AllNl st.cidRefs := by
  intro c t ht
  obtain ⟨ls, hls, _⟩ := h.list_ok c t ht
  rw [hls]; exact nlTerm_render ls

theorem nlTerm_line (p : Str) : NlTerm (p ++ ['\n']) := by
  right; simp

/-- close `AllNl` of a map built from `st.cidRefs` by sets and deletes of well-formed texts -/
local macro "nl_close" hnl:ident : tactic =>
  `(tactic| (
    try dsimp only
    repeat (first
      | exact $hnl
      | exact nlTerm_line _
      | exact nlTerm_render _
      | exact nlTerm_nil
      | (refine nlTerm_overwrite _ _ ?_ ?_)
      | (refine allNl_del ?_ _)
      | (refine allNl_set ?_ _ _ ?_))))

theorem tag_trail_nl (l : List Str) (st : Store) (log : List Eff) (pid cid : SArg) (h : RefsExact o st) :
    ∀ s ∈ Prog.trail (tagObject cfg o pid cid) (calmL l st log), AllNl s.cidRefs := by
  have hnl := allNl_of_exact o h
  cases hpc : checkString pid with
  | error e => intro s hs; simp [tagObject, runsimp, Prog.trail, hpc, calmL] at hs
  | ok p =>
    cases hcc : checkString cid with
    | error e => intro s hs; simp [tagObject, runsimp, Prog.trail, hpc, hcc, calmL] at hs
    | ok c =>
      obtain ⟨hp1, hp⟩ := checkString_ok_inv hpc
      obtain ⟨hc1, hc⟩ := checkString_ok_inv hcc
      subst hp1 hc1
      intro s hs
      revert s
      cases h1 : st.pidRefs.get (o.hId p) with
      | some x =>
        cases h2 : st.cidRefs.get c with
        | some t =>
          by_cases hx : x = c
          · by_cases hin : inRefs p t = true
            · simp [calmL, tagObject, storeRefs, runsimp, Prog.trail, checkString_of_ok hp, checkString_of_ok hc, h1, h2, verifyRefs, hx, hin, or_imp, forall_and]
              repeat' apply And.intro
              all_goals first | exact hnl | nl_close hnl
            · simp [calmL, tagObject, storeRefs, runsimp, Prog.trail, checkString_of_ok hp, checkString_of_ok hc, h1, h2, verifyRefs, hx, hin, or_imp, forall_and]
              repeat' apply And.intro
              all_goals first | exact hnl | nl_close hnl
          · simp [calmL, tagObject, storeRefs, runsimp, Prog.trail, checkString_of_ok hp, checkString_of_ok hc, h1, h2, verifyRefs, hx, or_imp, forall_and]
            repeat' apply And.intro
            all_goals first | exact hnl | nl_close hnl
        | none =>
          simp [calmL, tagObject, storeRefs, runsimp, Prog.trail, checkString_of_ok hp, checkString_of_ok hc, h1, h2, or_imp, forall_and]
          repeat' apply And.intro
          all_goals first | exact hnl | nl_close hnl
      | none =>
        cases h2 : st.cidRefs.get c with
        | some t =>
          obtain ⟨ls, hls, _, _, hall⟩ := h.list_ok c t h2
          subst hls
          have hsp : ∀ l ∈ ls, hasSpace l = false := fun l hl => nospace_of_ok (hall l hl).1
          have hnot : p ∉ ls := by
            intro hin; have := (hall p hin).2; rw [h1] at this; cases this
          have hin : inRefs p (renderLines ls) = false := by
            rw [inRefs_render p ls hsp]; simpa using hnot
          have hls' : ∀ l ∈ ls ++ [p], hasSpace l = false := by
            intro l hl
            rcases List.mem_append.mp hl with h' | h'
            · exact hsp l h'
            · simp at h'; subst h'; exact nospace_of_ok hp
          have hin' : inRefs p (renderLines (ls ++ [p])) = true := by
            rw [inRefs_render p _ hls']; simp
          simp [calmL, tagObject, storeRefs, runsimp, Prog.trail, checkString_of_ok hp, checkString_of_ok hc, h1, h2, writeRefsTmp, verifyRefs,
            updateRefsAdd, hin, renderLines_snoc, hin', or_imp, forall_and]
          repeat' apply And.intro
          all_goals first | exact hnl | nl_close hnl
        | none =>
          simp [calmL, tagObject, storeRefs, runsimp, Prog.trail, checkString_of_ok hp, checkString_of_ok hc, h1, h2, writeRefsTmp, verifyRefs,
            inRefs, pyLines_single p (nospace_of_ok hp), or_imp, forall_and]
          repeat' apply And.intro
          all_goals first | exact hnl | nl_close hnl

end HS

namespace HS
variable (cfg : Config) (o : Oracle)

local macro "nl_close2" hnl:ident : tactic =>
  `(tactic| (
    try dsimp only
    repeat (first
      | exact $hnl
      | exact nlTerm_line _
      | exact nlTerm_render _
      | exact nlTerm_nil
      | (refine nlTerm_overwrite _ _ ?_ ?_)
      | (refine allNl_del ?_ _)
      | (refine allNl_set ?_ _ _ ?_))))

/-- inside `delete_metadata` the lists are those of its start -/
local macro "nl_dmc" o:ident p:ident hnl:ident : tactic =>
  `(tactic| (
    intro s hs
    obtain ⟨_, e2, _⟩ := dmc_trail_refs $o $p none _ s hs
    rw [e2]
    nl_close2 $hnl))

theorem delete_trail_nl (st : Store) (log : List Eff) (pid : SArg) (h : RefsExact o st) (hinj : Inj o.hId) :
    ∀ s ∈ Prog.trail (deleteObject cfg o pid) (calm st log), AllNl s.cidRefs := by
  have hnl := allNl_of_exact o h
  cases hpc : checkString pid with
  | error e => intro s hs; simp [deleteObject, runsimp, Prog.trail, hpc, calm, calmL] at hs
  | ok p =>
    obtain ⟨hp1, hp⟩ := checkString_ok_inv hpc
    subst hp1
    cases h1 : st.pidRefs.get (o.hId p) with
    | none => intro s hs; simp [deleteObject, findObject, runsimp, Prog.trail, hpc, h1, calm, calmL] at hs
    | some c =>
      obtain ⟨p', hp', _, t, h2, hin⟩ := h.pid_listed _ _ h1
      have := hinj _ _ hp'; subst this
      obtain ⟨ls, hls, _, _, hall⟩ := h.list_ok c t h2
      subst hls
      have hsp : ∀ l ∈ ls, hasSpace l = false := fun l hl => nospace_of_ok (hall l hl).1
      intro s hs
      revert s
      by_cases hrest : ls.filter (fun l => !decide (l = p)) = []
      · cases hobj : st.objs.get c with
        | some x =>
          simp [calm, calmL, deleteObject, findObject, runsimp, Prog.trail, checkString_of_ok hp, h1, h2, hin,
            updateRefsRemove, removeLines_render p ls hsp, overwrite_truncate, deleteMarked, renderLines_eq_nil,
            Prog.run_bind_pe, Prog.run_bind, Prog.trail_bind_pe, Prog.trail_bind, Loc.marker, dmc_run_eq, dmc_lk, dmc_fault,
            dmc_pid, dmc_cid, dmc_obj, dmc_tr, dmc_to, hobj, hrest, or_imp, forall_and]
          repeat' apply And.intro
          all_goals first | exact hnl | nl_dmc o p hnl | (nl_close2 hnl; done)
        | none =>
          simp [calm, calmL, deleteObject, findObject, runsimp, Prog.trail, checkString_of_ok hp, h1, h2, hin,
            updateRefsRemove, removeLines_render p ls hsp, overwrite_truncate, deleteMarked, renderLines_eq_nil,
            Prog.run_bind_pe, Prog.run_bind, Prog.trail_bind_pe, Prog.trail_bind, Loc.marker, dmc_run_eq, dmc_lk, dmc_fault,
            dmc_pid, dmc_cid, dmc_obj, dmc_tr, dmc_to, hobj, hrest, or_imp, forall_and]
          repeat' apply And.intro
          all_goals first | exact hnl | nl_dmc o p hnl | (nl_close2 hnl; done)
      · cases hobj : st.objs.get c with
        | some x =>
          simp [calm, calmL, deleteObject, findObject, runsimp, Prog.trail, checkString_of_ok hp, h1, h2, hin,
            updateRefsRemove, removeLines_render p ls hsp, overwrite_truncate, deleteMarked, renderLines_eq_nil,
            Prog.run_bind_pe, Prog.run_bind, Prog.trail_bind_pe, Prog.trail_bind, Loc.marker, dmc_run_eq, dmc_lk, dmc_fault,
            dmc_pid, dmc_cid, dmc_obj, dmc_tr, dmc_to, hobj, hrest, or_imp, forall_and]
          repeat' apply And.intro
          all_goals first | exact hnl | nl_dmc o p hnl | (nl_close2 hnl; done)
        | none =>
          simp [calm, calmL, deleteObject, findObject, runsimp, Prog.trail, checkString_of_ok hp, h1, h2, hin,
            updateRefsRemove, removeLines_render p ls hsp, overwrite_truncate, deleteMarked, renderLines_eq_nil,
            Prog.run_bind_pe, Prog.run_bind, Prog.trail_bind_pe, Prog.trail_bind, Loc.marker, dmc_run_eq, dmc_lk, dmc_fault,
            dmc_pid, dmc_cid, dmc_obj, dmc_tr, dmc_to, hobj, hrest, or_imp, forall_and]
          repeat' apply And.intro
          all_goals first | exact hnl | nl_dmc o p hnl | (nl_close2 hnl; done)

end HS

namespace HS
variable (cfg : Config) (o : Oracle)

/-- primitives that do not write a cid reference list -/
def NoCid : Ev → Prop
  | .eff (.publishCidRef _ _) => False
  | .eff (.appendCid _ _) => False
  | .eff (.rewriteCid _ _) => False
  | .eff (.truncateCid _ _) => False
  | .eff (.retire (.cidRef _)) => False
  | .eff (.remove (.cidRef _)) => False
  | _ => True

theorem findObject_noCid (pid : Str) : (findObject cfg o pid).AllEv NoCid := by
  unfold findObject
  repeat allev_step

theorem hexDigestCore_noCid (pid alg : Str) : (hexDigestCore cfg o pid alg).AllEv NoCid := by
  unfold hexDigestCore
  repeat (first | exact findObject_noCid cfg o _ | allev_step)

theorem mv_noCid (pid : Option Str) (t : Tok) (add cs cks : Option Str) (sz : IArg) :
    (moveAndGetChecksums cfg o pid t add cs cks sz).AllEv NoCid := by
  unfold moveAndGetChecksums
  repeat (first | exact hexDigestCore_noCid cfg o _ _ | allev_step)

theorem cid_same_noCid (m : FMap Str Str) : Prog.Preserved NoCid (fun w => w.st.cidRefs = m) := by
  apply preserved_of_store (J := fun s => s.cidRefs = m)
  intro s x s' hx ha h
  cases x with
  | mkdirs a k => simp [Store.apply] at ha; subst ha; exact h
  | mkTmp a => simp [Store.apply] at ha; subst ha; cases a <;> exact h
  | removeTmp a =>
    simp only [Store.apply] at ha
    split at ha
    · cases ha
    · injection ha with ha; subst ha; cases a <;> exact h
  | publishObj c t =>
    simp only [Store.apply] at ha
    split at ha
    · cases ha
    · injection ha with ha; subst ha; exact h
  | publishDoc d n t =>
    simp only [Store.apply] at ha
    split at ha
    · cases ha
    · injection ha with ha; subst ha; exact h
  | publishPidRef k v =>
    simp only [Store.apply] at ha
    split at ha
    · cases ha
    · injection ha with ha; subst ha; exact h
  | publishCidRef c v => exact hx.elim
  | retire l =>
    cases l with
    | cidRef c => exact hx.elim
    | obj c => simp [Store.apply, Store.retire] at ha; obtain ⟨v, _, ha⟩ := ha; subst ha; exact h
    | pidRef c => simp [Store.apply, Store.retire] at ha; obtain ⟨v, _, ha⟩ := ha; subst ha; exact h
    | mdoc d n => simp [Store.apply, Store.retire] at ha; obtain ⟨v, _, ha⟩ := ha; subst ha; exact h
  | remove l =>
    cases l with
    | cidRef c => exact hx.elim
    | obj c => simp [Store.apply, Store.remove] at ha; obtain ⟨_, ha⟩ := ha; subst ha; exact h
    | pidRef c => simp [Store.apply, Store.remove] at ha; obtain ⟨_, ha⟩ := ha; subst ha; exact h
    | mdoc d n => simp [Store.apply, Store.remove] at ha; obtain ⟨_, ha⟩ := ha; subst ha; exact h
  | appendCid c v => exact hx.elim
  | rewriteCid c v => exact hx.elim
  | truncateCid c n => exact hx.elim

theorem mv_trail_cid (pid : Option Str) (t : Tok) (add cs cks : Option Str) (sz : IArg) (w : World) :
    ∀ s ∈ Prog.trail (moveAndGetChecksums cfg o pid t add cs cks sz) w, s.cidRefs = w.st.cidRefs :=
  Prog.trail_inv (J := fun s => s.cidRefs = w.st.cidRefs) _ (mv_noCid cfg o pid t add cs cks sz)
    (cid_same_noCid w.st.cidRefs) w rfl

theorem store_trail_nl (st : Store) (log : List Eff) (pid : SArg) (data : DataArg) (additional checksum csAlg : SArg)
    (expSize : IArg) (h : RefsExact o st) (hdg : PlainDigests o) :
    ∀ s ∈ Prog.trail (storeObject cfg o pid data additional checksum csAlg expSize) (calm st log), AllNl s.cidRefs := by
  have hnl := allNl_of_exact o h
  by_cases hnone : pid = .none
  · subst hnone
    cases hd : checkArgData data with
    | error e => intro s hs; simp [storeObject, runsimp, Prog.trail, hd, calm, calmL] at hs
    | ok _ =>
      cases hs : openStream data with
      | error e => intro s hs'; simp [storeObject, runsimp, Prog.trail, hd, hs, calm, calmL] at hs'
      | ok t =>
        intro s hs'
        simp [storeObject, runsimp, hd, hs, calm, Prog.trail_bind_pe'] at hs'
        rcases hs' with hs' | hs'
        · rw [mv_trail_cid cfg o none t none none none .none _ s hs']; exact hnl
        · cases hr : (Prog.run (moveAndGetChecksums cfg o none t none none none IArg.none) (calmL [] st log)).1 <;>
            simp [hr, Prog.trail] at hs'
  · rw [storeObject_pid_unfold cfg o pid data additional checksum csAlg expSize hnone]
    cases hpc : checkString pid with
    | error e => intro s hs; simp [runsimp, Prog.trail] at hs
    | ok p =>
      cases hd : checkArgData data with
      | error e => intro s hs; simp [runsimp, Prog.trail] at hs
      | ok _ =>
        cases hi : checkInteger expSize with
        | error e => intro s hs; simp [runsimp, Prog.trail] at hs
        | ok _ =>
          cases hac : checkArgAlgorithmsAndChecksum cfg.alg additional checksum csAlg with
          | error e => intro s hs; simp [runsimp, Prog.trail] at hs
          | ok ac =>
            obtain ⟨add', cs'⟩ := ac
            cases hst : openStream data with
            | error e => intro s hs; simp [runsimp, Prog.trail, calm, calmL] at hs
            | ok t =>
              obtain ⟨hp1, hpok⟩ := checkString_ok_inv hpc
              subst hp1
              obtain ⟨st1, log1, hrun1, f1, f2, f3, f4, f5, f6, f7, f8⟩ :=
                mv_run_pid_spec cfg o [p] st log p t add' cs' (strArg checksum) expSize
              have hex1 : RefsExact o st1 := by
                refine ⟨?_, ?_, by rw [f3, f4]; exact h.no_tmp, ?_, ?_⟩
                · intro k c hk; rw [f1] at hk; rw [f2]; exact h.pid_listed k c hk
                · intro c x hx; rw [f2] at hx; rw [f1]; exact h.list_ok c x hx
                · intro c x hx; rw [f2] at hx; exact h.cid_plain c x hx
                · intro c x hx
                  rw [f8 c] at hx
                  split at hx
                  · rename_i hc; rw [← hc.2.2]; exact hdg _ _
                  · exact h.obj_plain c x hx
              intro s hs
              simp only [calmL] at hrun1
              have hmv : ∀ s ∈ Prog.trail (moveAndGetChecksums cfg o (some p) t add' cs' (strArg checksum) expSize)
                  { st := st, lk := { objPid := [p] }, log := log }, AllNl s.cidRefs := by
                intro s hs
                rw [mv_trail_cid cfg o (some p) t add' cs' (strArg checksum) expSize _ s hs]; exact hnl
              cases hv : (verdict ((refineAlgorithmList defaultAlgos add' cs').map fun a => (a, o.dig a t))
                  (fun a => o.dig a t) (o.size t) expSize (strArg checksum) cs').exc with
              | some e =>
                rw [hv] at hrun1
                simp [runsimp, Prog.trail, calm, calmL, Prog.trail_bind_pe', Prog.trail_bind, Prog.run_bind, Prog.run_bind_pe,
                  hrun1] at hs
                exact hmv s hs
              | none =>
                rw [hv] at hrun1
                obtain ⟨r2, st2, log2, hrun2, _, _⟩ := tag_run cfg o [p] st1 log1 (.str p) (.str (o.dig cfg.alg t)) hex1
                  (by intro c hc; cases hc; exact hdg _ _)
                simp only [calmL] at hrun2
                simp [runsimp, Prog.trail, calm, calmL, Prog.trail_bind_pe', Prog.trail_bind, Prog.run_bind, Prog.run_bind_pe,
                  hrun1, hrun2] at hs
                rcases hs with hs | hs
                · exact hmv s hs
                · rcases hs with hs | hs
                  · exact tag_trail_nl cfg o [p] st1 log1 (.str p) (.str (o.dig cfg.alg t)) hex1 s hs
                  · exfalso
                    revert hs
                    cases r2 <;> simp [Prog.trail, runsimp]

/-- the five calls of the property's quantifier: list texts stay newline-terminated all along the trail -/
theorem trail_nl (c : Call) (st : Store) (log : List Eff) (h : RefsExact o st) (ho : GoodOracle o)
    (hc : (∃ a b d e f g, c = .storeObject a b d e f g) ∨ (∃ a b, c = .tagObject a b) ∨ (∃ a, c = .deleteObject a) ∨
          (∃ a b d, c = .storeMetadata a b d) ∨ (∃ a b, c = .deleteMetadata a b)) :
    ∀ s ∈ Prog.trail (c.prog cfg o) (calm st log), AllNl s.cidRefs := by
  have hnl := allNl_of_exact o h
  rcases hc with ⟨a, b, d, e, f, g, rfl⟩ | ⟨a, b, rfl⟩ | ⟨a, rfl⟩ | ⟨a, b, d, rfl⟩ | ⟨a, b, rfl⟩
  · exact store_trail_nl cfg o st log a b d e f g h ho.plainDigests
  · exact tag_trail_nl cfg o [] st log a b h
  · exact delete_trail_nl cfg o st log a h ho.inj
  · intro s hs
    have := Prog.trail_inv _ (storeMetadata_docsOnly cfg o a b d) (refsAs_docsOnly st) (calm st log) ⟨rfl, rfl, rfl⟩ s hs
    rw [this.2.1]; exact hnl
  · intro s hs
    have := Prog.trail_inv _ (deleteMetadata_docsOnly cfg o a b) (refsAs_docsOnly st) (calm st log) ⟨rfl, rfl, rfl⟩ s hs
    rw [this.2.1]; exact hnl

end HS
