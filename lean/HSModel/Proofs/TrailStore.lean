/-
  TrailStore — the trail of store_object keeps every other pid.
-/
import HSModel.Proofs.TrailDelete
namespace HS
variable (cfg : Config) (o : Oracle)

theorem otherKept_trans (q : Str) (a b c : Store) (h1 : OtherKept o q a b) (h2 : OtherKept o q b c) :
    OtherKept o q a c := by
  intro cid hq
  obtain ⟨k1, k2, k3⟩ := h1 cid hq
  obtain ⟨m1, m2, m3⟩ := h2 cid k1
  refine ⟨m1, ?_, fun x hx => m3 x (k3 x hx)⟩
  intro t ht hin
  obtain ⟨t', ht', hin'⟩ := k2 t ht hin
  exact m2 t' ht' hin'

/-- references as before, objects only added -/
theorem kept_grow (q : Str) (s s' : Store) (hp : s'.pidRefs = s.pidRefs) (hc : s'.cidRefs = s.cidRefs)
    (ho : ∀ j x, s.objs.get j = some x → s'.objs.get j = some x) : OtherKept o q s s' := by
  intro c hq
  exact ⟨by rw [hp]; exact hq, fun t ht hin => ⟨t, by rw [hc]; exact ht, hin⟩, fun x hx => ho c x hx⟩

/-- placing an object: every store on the way keeps all references and all present objects -/
theorem mv_trail_kept (l : List Str) (st : Store) (log : List Eff) (pid : Option Str) (t : Tok) (add cs cks : Option Str)
    (expSize : IArg) (q : Str) :
    ∀ s ∈ Prog.trail (moveAndGetChecksums cfg o pid t add cs cks expSize) (calmL l st log), OtherKept o q st s := by
  have hset : ∀ (d : List (Area × Str)) (n m : Nat), st.objs.get (o.dig cfg.alg t) = none →
      OtherKept o q st { st with objs := st.objs.set (o.dig cfg.alg t) t, dirs := d, tmpObj := n, tmpRefs := m } := by
    intro d n m hnone
    refine kept_grow o q _ _ rfl rfl ?_
    intro j x hx
    show (st.objs.set (o.dig cfg.alg t) t).get j = some x
    rw [FMap.get_set_ne _ _ (by intro e; subst e; rw [hnone] at hx; cases hx)]; exact hx
  intro s hs
  revert s
  cases hv : (verdict ((refineAlgorithmList defaultAlgos add cs).map fun a => (a, o.dig a t)) (fun a => o.dig a t)
      (o.size t) expSize cks cs).exc with
  | none =>
    cases ho : st.objs.get (o.dig cfg.alg t) with
    | none =>
      simp [calmL, moveAndGetChecksums, runsimp, Prog.trail, hv, ho, or_imp, forall_and]
      refine ⟨kept_grow o q _ _ rfl rfl (fun _ _ h => h), kept_grow o q _ _ rfl rfl (fun _ _ h => h), ?_⟩
      exact hset _ _ _ ho
    | some y =>
      simp [calmL, moveAndGetChecksums, runsimp, Prog.trail, hv, ho, or_imp, forall_and]
      exact ⟨kept_grow o q _ _ rfl rfl (fun _ _ h => h), kept_grow o q _ _ rfl rfl (fun _ _ h => h)⟩
  | some e =>
    cases ho : st.objs.get (o.dig cfg.alg t) with
    | none =>
      cases pid with
      | none =>
        simp [calmL, moveAndGetChecksums, runsimp, Prog.trail, hv, ho, or_imp, forall_and]
        exact kept_grow o q _ _ rfl rfl (fun _ _ h => h)
      | some p =>
        simp [calmL, moveAndGetChecksums, runsimp, Prog.trail, hv, ho, or_imp, forall_and]
        exact ⟨kept_grow o q _ _ rfl rfl (fun _ _ h => h), kept_grow o q _ _ rfl rfl (fun _ _ h => h)⟩
    | some y =>
      cases pid with
      | none =>
        simp [calmL, moveAndGetChecksums, runsimp, Prog.trail, hv, ho, or_imp, forall_and]
        exact ⟨kept_grow o q _ _ rfl rfl (fun _ _ h => h), kept_grow o q _ _ rfl rfl (fun _ _ h => h)⟩
      | some p =>
        simp [calmL, moveAndGetChecksums, runsimp, Prog.trail, hv, ho, or_imp, forall_and]
        exact ⟨kept_grow o q _ _ rfl rfl (fun _ _ h => h), kept_grow o q _ _ rfl rfl (fun _ _ h => h)⟩

end HS

namespace HS
variable (cfg : Config) (o : Oracle)

theorem Prog.trail_bind_pe' {α β : Type} (m : PE α) (f : Except Exc α → Prog β) (w : World) :
    Prog.trail (Prog.bind m f) w = Prog.trail m w ++ Prog.trail (f (Prog.run m w).1) (Prog.run m w).2 :=
  Prog.trail_bind m f w

/-- `store_object` (any arguments) from a store whose indexes agree: every store
    on its trail keeps every other pid's reference, list entry and object -/
theorem store_trail_kept (st : Store) (log : List Eff) (pid : SArg) (data : DataArg) (additional checksum csAlg : SArg)
    (expSize : IArg) (q : Str) (h : RefsExact o st) (hdg : PlainDigests o) (hinj : Inj o.hId) (hq : pid ≠ .str q) :
    ∀ s ∈ Prog.trail (storeObject cfg o pid data additional checksum csAlg expSize) (calm st log),
      OtherKept o q st s := by
  by_cases hnone : pid = .none
  · subst hnone
    cases hd : checkArgData data with
    | error e => intro s hs; simp [storeObject, runsimp, Prog.trail, hd, calm, calmL] at hs
    | ok _ =>
      cases hs : openStream data with
      | error e => intro s hs'; simp [storeObject, runsimp, Prog.trail, hd, hs, calm, calmL] at hs'
      | ok t =>
        intro s hs'
        simp [storeObject, runsimp, hd, hs, calm, Prog.trail_bind_pe'] at hs'
        rcases hs' with hs' | hs'
        · exact mv_trail_kept cfg o [] st log none t none none none .none q s hs'
        · cases hr : (Prog.run (moveAndGetChecksums cfg o none t none none none IArg.none) (calmL [] st log)).1 <;>
            simp [hr, Prog.trail] at hs'
  · rw [storeObject_pid_unfold cfg o pid data additional checksum csAlg expSize hnone]
    cases hpc : checkString pid with
    | error e => intro s hs; simp [runsimp, Prog.trail] at hs
    | ok p =>
      cases hd : checkArgData data with
      | error e => intro s hs; simp [runsimp, Prog.trail] at hs
      | ok _ =>
        cases hi : checkInteger expSize with
        | error e => intro s hs; simp [runsimp, Prog.trail] at hs
        | ok _ =>
          cases hac : checkArgAlgorithmsAndChecksum cfg.alg additional checksum csAlg with
          | error e => intro s hs; simp [runsimp, Prog.trail] at hs
          | ok ac =>
            obtain ⟨add', cs'⟩ := ac
            cases hst : openStream data with
            | error e => intro s hs; simp [runsimp, Prog.trail, calm, calmL] at hs
            | ok t =>
              obtain ⟨hp1, hpok⟩ := checkString_ok_inv hpc
              subst hp1
              have hqp : o.hId p ≠ o.hId q := fun e => hq (by rw [hinj _ _ e])
              obtain ⟨st1, log1, hrun1, f1, f2, f3, f4, f5, f6, f7, f8⟩ :=
                mv_run_pid_spec cfg o [p] st log p t add' cs' (strArg checksum) expSize
              have hk1 : OtherKept o q st st1 := kept_grow o q st st1 f1 f2 (by
                intro j x hx
                rw [f8 j]
                split
                · rename_i hc
                  rw [← hc.2.2, hc.2.1] at hx; cases hx
                · exact hx)
              have hex1 : RefsExact o st1 := by
                refine ⟨?_, ?_, by rw [f3, f4]; exact h.no_tmp, ?_, ?_⟩
                · intro k c hk; rw [f1] at hk; rw [f2]; exact h.pid_listed k c hk
                · intro c x hx; rw [f2] at hx; rw [f1]; exact h.list_ok c x hx
                · intro c x hx; rw [f2] at hx; exact h.cid_plain c x hx
                · intro c x hx
                  rw [f8 c] at hx
                  split at hx
                  · rename_i hc; rw [← hc.2.2]; exact hdg _ _
                  · exact h.obj_plain c x hx
              intro s hs
              simp only [calmL] at hrun1
              cases hv : (verdict ((refineAlgorithmList defaultAlgos add' cs').map fun a => (a, o.dig a t))
                  (fun a => o.dig a t) (o.size t) expSize (strArg checksum) cs').exc with
              | some e =>
                rw [hv] at hrun1
                simp [runsimp, Prog.trail, calm, calmL, Prog.trail_bind_pe', Prog.trail_bind, Prog.run_bind, Prog.run_bind_pe,
                  hrun1] at hs
                exact mv_trail_kept cfg o [p] st log (some p) t add' cs' (strArg checksum) expSize q s hs
              | none =>
                rw [hv] at hrun1
                obtain ⟨r2, st2, log2, hrun2, _, _⟩ := tag_run cfg o [p] st1 log1 (.str p) (.str (o.dig cfg.alg t)) hex1
                  (by intro c hc; cases hc; exact hdg _ _)
                simp only [calmL] at hrun2
                simp [runsimp, Prog.trail, calm, calmL, Prog.trail_bind_pe', Prog.trail_bind, Prog.run_bind, Prog.run_bind_pe,
                  hrun1, hrun2] at hs
                rcases hs with hs | hs
                · exact mv_trail_kept cfg o [p] st log (some p) t add' cs' (strArg checksum) expSize q s hs
                · refine otherKept_trans o q st st1 s hk1 ?_
                  rcases hs with hs | hs
                  · exact tag_trail_kept cfg o [p] st1 log1 (.str p) (.str (o.dig cfg.alg t)) q hex1
                      (by intro p' hp'; cases hp'; exact hqp) s hs
                  · exfalso
                    revert hs
                    cases r2 <;> simp [Prog.trail, runsimp]

end HS

namespace HS
variable (cfg : Config) (o : Oracle)

theorem storeMetadata_docsOnly (p : SArg) (d : DataArg) (f : SArg) : (storeMetadata cfg o p d f).AllEv DocsOnly := by
  unfold storeMetadata
  repeat (first | apply withDocLock_docsOnly | allev_step)

theorem deleteMetadata_docsOnly (p f : SArg) : (deleteMetadata cfg o p f).AllEv DocsOnly := by
  unfold deleteMetadata
  repeat (first | exact deleteMetadataCore_docsOnly o _ _ | allev_step)

theorem otherKept_of_refsAs (q : Str) (s0 s : Store) (h : RefsAs s0 s) : OtherKept o q s0 s :=
  kept_grow o q s0 s h.1 h.2.1 (by intro j x hx; rw [h.2.2]; exact hx)

/-- the five calls of the property's quantifier, any arguments, from a store
    whose indexes agree: every store on the trail keeps every other pid -/
theorem trail_kept (c : Call) (st : Store) (log : List Eff) (q : Str) (h : RefsExact o st) (ho : GoodOracle o)
    (hq : ∀ p, c.pidStr = some p → p ≠ q)
    (hc : (∃ a b d e f g, c = .storeObject a b d e f g) ∨ (∃ a b, c = .tagObject a b) ∨ (∃ a, c = .deleteObject a) ∨
          (∃ a b d, c = .storeMetadata a b d) ∨ (∃ a b, c = .deleteMetadata a b)) :
    ∀ s ∈ Prog.trail (c.prog cfg o) (calm st log), OtherKept o q st s := by
  rcases hc with ⟨a, b, d, e, f, g, rfl⟩ | ⟨a, b, rfl⟩ | ⟨a, rfl⟩ | ⟨a, b, d, rfl⟩ | ⟨a, b, rfl⟩
  · refine store_trail_kept cfg o st log a b d e f g q h ho.plainDigests ho.inj ?_
    intro e'; subst e'; exact hq q rfl rfl
  · refine tag_trail_kept cfg o [] st log a b q h ?_
    intro p hp e'; subst hp
    exact hq p rfl (ho.inj _ _ e')
  · refine delete_trail_kept cfg o st log a q h ho.plainIds ho.inj ?_
    intro e'; subst e'; exact hq q rfl rfl
  · intro s hs
    exact otherKept_of_refsAs o q st s
      (Prog.trail_inv _ (storeMetadata_docsOnly cfg o a b d) (refsAs_docsOnly st) (calm st log) ⟨rfl, rfl, rfl⟩ s hs)
  · intro s hs
    exact otherKept_of_refsAs o q st s
      (Prog.trail_inv _ (deleteMetadata_docsOnly cfg o a b) (refsAs_docsOnly st) (calm st log) ⟨rfl, rfl, rfl⟩ s hs)

end HS
