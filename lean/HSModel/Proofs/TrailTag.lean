/-
  TrailTag — every store on the trail of tag_object / store_object / delete_object
  keeps every other pid's reference, its place on its cid's list, and its object.
-/
import HSModel.Proofs.Trail
import HSModel.Proofs.RefineAll
namespace HS
variable (cfg : Config) (o : Oracle)

/-- what a crash must not take from another pid `q` -/
def OtherKept (q : Str) (s s' : Store) : Prop :=
  ∀ c, s.pidRefs.get (o.hId q) = some c →
    s'.pidRefs.get (o.hId q) = some c ∧
    (∀ t, s.cidRefs.get c = some t → inRefs q t = true → ∃ t', s'.cidRefs.get c = some t' ∧ inRefs q t' = true) ∧
    (∀ x, s.objs.get c = some x → s'.objs.get c = some x)

theorem otherKept_of {q : Str} {s s' : Store} (hpid : s'.pidRefs.get (o.hId q) = s.pidRefs.get (o.hId q))
    (hcid : ∀ c t, s.cidRefs.get c = some t → inRefs q t = true → ∃ t', s'.cidRefs.get c = some t' ∧ inRefs q t' = true)
    (hobj : ∀ c x, s.objs.get c = some x → s'.objs.get c = some x) : OtherKept o q s s' := by
  intro c hc
  exact ⟨by rw [hpid]; exact hc, hcid c, hobj c⟩

/-- the cid lists changed at one cid only, and `q` stays on that list if it was there -/
theorem kept_set (q c x : Str) (s s' : Store) (hpid : s'.pidRefs.get (o.hId q) = s.pidRefs.get (o.hId q))
    (hobj : s'.objs = s.objs) (hcid : s'.cidRefs = s.cidRefs.set c x)
    (hin : ∀ t, s.cidRefs.get c = some t → inRefs q t = true → inRefs q x = true) : OtherKept o q s s' := by
  apply otherKept_of o hpid
  · intro c' t ht hq
    rw [hcid, FMap.get_set]
    by_cases e : c = c'
    · subst e; exact ⟨x, by simp, hin t ht hq⟩
    · exact ⟨t, by simp [e, ht], hq⟩
  · intro c' y hy; rw [hobj]; exact hy

theorem kept_same (q : Str) (s s' : Store) (hpid : s'.pidRefs.get (o.hId q) = s.pidRefs.get (o.hId q))
    (hobj : s'.objs = s.objs) (hcid : s'.cidRefs = s.cidRefs) : OtherKept o q s s' := by
  apply otherKept_of o hpid
  · intro c' t ht hq; rw [hcid]; exact ⟨t, ht, hq⟩
  · intro c' y hy; rw [hobj]; exact hy

theorem tag_trail_neither (l : List Str) (st : Store) (log : List Eff) (p c q : Str) (hp : checkStringOk p = true)
    (hc : checkStringOk c = true) (h1 : st.pidRefs.get (o.hId p) = none) (h2 : st.cidRefs.get c = none)
    (hq : o.hId p ≠ o.hId q) :
    ∀ s ∈ Prog.trail (tagObject cfg o (.str p) (.str c)) (calmL l st log), OtherKept o q st s := by
  intro s hs
  simp [calmL, tagObject, storeRefs, runsimp, Prog.trail, checkString_of_ok hp, checkString_of_ok hc, h1, h2, writeRefsTmp, verifyRefs,
    inRefs, pyLines_single p (nospace_of_ok hp)] at hs
  rcases hs with rfl | rfl | rfl | rfl | rfl | rfl
  · exact kept_same o q _ _ rfl rfl rfl
  · exact kept_same o q _ _ rfl rfl rfl
  · exact kept_same o q _ _ rfl rfl rfl
  · exact kept_same o q _ _ rfl rfl rfl
  · exact kept_same o q _ _ (FMap.get_set_ne _ _ hq) rfl rfl
  · exact kept_set o q c _ _ _ (FMap.get_set_ne _ _ hq) rfl rfl (by intro t ht; rw [h2] at ht; cases ht)

theorem tag_trail_pid_only (l : List Str) (st : Store) (log : List Eff) (p c x q : Str) (hp : checkStringOk p = true)
    (hc : checkStringOk c = true) (h1 : st.pidRefs.get (o.hId p) = some x) (h2 : st.cidRefs.get c = none) :
    ∀ s ∈ Prog.trail (tagObject cfg o (.str p) (.str c)) (calmL l st log), OtherKept o q st s := by
  intro s hs
  simp [calmL, tagObject, storeRefs, runsimp, Prog.trail, checkString_of_ok hp, checkString_of_ok hc, h1, h2] at hs
  rcases hs with rfl | rfl
  · exact kept_same o q _ _ rfl rfl rfl
  · exact kept_same o q _ _ rfl rfl rfl

theorem tag_trail_both (l : List Str) (st : Store) (log : List Eff) (p c x t q : Str) (hp : checkStringOk p = true)
    (hc : checkStringOk c = true) (h1 : st.pidRefs.get (o.hId p) = some x) (h2 : st.cidRefs.get c = some t) :
    ∀ s ∈ Prog.trail (tagObject cfg o (.str p) (.str c)) (calmL l st log), OtherKept o q st s := by
  intro s hs
  by_cases hx : x = c
  · by_cases hin : inRefs p t = true
    · simp [calmL, tagObject, storeRefs, runsimp, Prog.trail, checkString_of_ok hp, checkString_of_ok hc, h1, h2, verifyRefs, hx, hin] at hs
      rcases hs with rfl | rfl <;> exact kept_same o q _ _ rfl rfl rfl
    · simp [calmL, tagObject, storeRefs, runsimp, Prog.trail, checkString_of_ok hp, checkString_of_ok hc, h1, h2, verifyRefs, hx, hin] at hs
      rcases hs with rfl | rfl <;> exact kept_same o q _ _ rfl rfl rfl
  · simp [calmL, tagObject, storeRefs, runsimp, Prog.trail, checkString_of_ok hp, checkString_of_ok hc, h1, h2, verifyRefs, hx] at hs
    rcases hs with rfl | rfl <;> exact kept_same o q _ _ rfl rfl rfl

theorem tag_trail_cid_only (l : List Str) (st : Store) (log : List Eff) (p c q : Str) (ls : List Str)
    (hp : checkStringOk p = true) (hc : checkStringOk c = true) (h1 : st.pidRefs.get (o.hId p) = none)
    (h2 : st.cidRefs.get c = some (renderLines ls)) (hls : ∀ l ∈ ls, hasSpace l = false) (hnot : p ∉ ls)
    (hq : o.hId p ≠ o.hId q) :
    ∀ s ∈ Prog.trail (tagObject cfg o (.str p) (.str c)) (calmL l st log), OtherKept o q st s := by
  have hsp := nospace_of_ok hp
  have hin : inRefs p (renderLines ls) = false := by
    rw [inRefs_render p ls hls]; simpa using hnot
  have hls' : ∀ l ∈ ls ++ [p], hasSpace l = false := by
    intro l hl
    rcases List.mem_append.mp hl with h | h
    · exact hls l h
    · simp at h; subst h; exact hsp
  have hin' : inRefs p (renderLines (ls ++ [p])) = true := by
    rw [inRefs_render p _ hls']; simp
  intro s hs
  simp [calmL, tagObject, storeRefs, runsimp, Prog.trail, checkString_of_ok hp, checkString_of_ok hc, h1, h2, writeRefsTmp, verifyRefs,
    updateRefsAdd, hin, renderLines_snoc, hin'] at hs
  rcases hs with rfl | rfl | rfl | rfl | rfl
  · exact kept_same o q _ _ rfl rfl rfl
  · exact kept_same o q _ _ rfl rfl rfl
  · exact kept_same o q _ _ rfl rfl rfl
  · exact kept_same o q _ _ (FMap.get_set_ne _ _ hq) rfl rfl
  · refine kept_set o q c _ _ _ (FMap.get_set_ne _ _ hq) rfl rfl ?_
    intro t ht hqin
    rw [h2] at ht; cases ht
    rw [inRefs_render q ls hls] at hqin
    rw [inRefs_render q _ hls']
    simp only [List.contains_eq_mem, decide_eq_true_eq] at hqin ⊢
    exact List.mem_append_left _ hqin

/-- `tag_object` (any arguments) from a store whose indexes agree: every store
    on its trail keeps every other pid's reference, list entry and object -/
theorem tag_trail_kept (l : List Str) (st : Store) (log : List Eff) (pid cid : SArg) (q : Str) (h : RefsExact o st)
    (hq : ∀ p, pid = .str p → o.hId p ≠ o.hId q) :
    ∀ s ∈ Prog.trail (tagObject cfg o pid cid) (calmL l st log), OtherKept o q st s := by
  cases hpc : checkString pid with
  | error e =>
    intro s hs
    simp [tagObject, runsimp, Prog.trail, hpc, calmL] at hs
  | ok p =>
    cases hcc : checkString cid with
    | error e =>
      intro s hs
      simp [tagObject, runsimp, Prog.trail, hpc, hcc, calmL] at hs
    | ok c =>
      obtain ⟨hp1, hp⟩ := checkString_ok_inv hpc
      obtain ⟨hc1, hc⟩ := checkString_ok_inv hcc
      subst hp1 hc1
      have hq' := hq p rfl
      cases h1 : st.pidRefs.get (o.hId p) with
      | some x =>
        cases h2 : st.cidRefs.get c with
        | some t => exact tag_trail_both cfg o l st log p c x t q hp hc h1 h2
        | none => exact tag_trail_pid_only cfg o l st log p c x q hp hc h1 h2
      | none =>
        cases h2 : st.cidRefs.get c with
        | some t =>
          obtain ⟨ls, hls, _, _, hall⟩ := h.list_ok c t h2
          subst hls
          have hsp : ∀ l ∈ ls, hasSpace l = false := fun l hl => nospace_of_ok (hall l hl).1
          have hnot : p ∉ ls := by
            intro hin; have := (hall p hin).2; rw [h1] at this; cases this
          exact tag_trail_cid_only cfg o l st log p c q ls hp hc h1 h2 hsp hnot hq'
        | none => exact tag_trail_neither cfg o l st log p c q hp hc h1 h2 hq'

end HS
