/-
  Valid — a normal return of `store_object(pid, …)` implies validation data the content meets, for every
  sequence of answers. Helper lemmas for C06 / C19.
-/
import HSModel.Proofs.Report
namespace HS
variable (cfg : Config) (o : Oracle)

def verdictOf (t : Tok) (add cs cks : Option Str) (sz : IArg) : Verdict :=
  verdict ((refineAlgorithmList defaultAlgos add cs).map fun a => (a, o.dig a t)) (fun a => o.dig a t) (o.size t) sz cks cs

macro "anyq" : tactic => `(tactic| (apply PE.allEvR_of_allEv; exact Prog.allEv_true _))

/-- raising programs: no normal return, any postcondition -/
macro "raises" : tactic => `(tactic| repeat (first
    | exact PE.allEvR_throw _
    | (apply PE.allEvR_bind (Q := fun _ => True) _ _ (by anyq))
    | intro _
    | split))

/-- walk a program whose postcondition is already a hypothesis; a `throw` in the middle cuts the rest off -/
macro "walkq" : tactic => `(tactic| repeat (first
    | exact PE.allEvR_pure _ (by assumption)
    | exact PE.allEvR_throw _
    | (apply PE.allEvR_bind (Q := fun _ => False) _ _ (PE.allEvR_throw _); intro _ h; exact h.elim)
    | (apply PE.allEvR_bind (Q := fun _ => True) _ _ (by anyq))
    | intro _
    | split))

theorem moveAndGetChecksums_valid (pid : Option Str) (t : Tok) (add cs cks : Option Str) (sz : IArg) :
    (moveAndGetChecksums cfg o pid t add cs cks sz).AllEvR (fun _ => True)
      (fun _ => (verdictOf o t add cs cks sz).exc = none) := by
  unfold moveAndGetChecksums verdictOf
  dsimp only
  apply PE.allEvR_bind (Q := fun _ => True) _ _ (by anyq)
  intro _ _
  apply PE.allEvR_bind (Q := fun _ => True) _ _ (by anyq)
  intro b _
  split
  · split
    · raises
    · walkq
  · split <;> walkq

/-- what a normal return of `store_object(pid, …)` implies about its validation data -/
def JudgedValid (data : DataArg) (additional checksum csAlg : SArg) (sz : IArg) : Prop :=
  ∃ t add' cs', openStream data = .ok t ∧
    checkArgAlgorithmsAndChecksum cfg.alg additional checksum csAlg = .ok (add', cs') ∧
    (verdictOf o t add' cs' (strArg checksum) sz).exc = none

theorem storeObject_valid (p0 : Str) (data : DataArg) (additional checksum csAlg : SArg) (sz : IArg) :
    (storeObject cfg o (.str p0) data additional checksum csAlg sz).AllEvR (fun _ => True)
      (fun _ => JudgedValid cfg o data additional checksum csAlg sz) := by
  unfold storeObject
  simp only
  apply PE.allEvR_bind (Q := fun _ => True) _ _ (by anyq)
  intro p _
  apply PE.allEvR_bind (Q := fun _ => True) _ _ (by anyq)
  intro _ _
  apply PE.allEvR_bind (Q := fun _ => True) _ _ (by anyq)
  intro _ _
  apply PE.allEvR_bind _ _ (PE.allEvR_ofExcept _)
  intro ac hac
  apply PE.allEvR_bind (Q := fun _ => True) _ _ (by anyq)
  intro b _
  split
  · exact PE.allEvR_throw _
  · apply PE.allEvR_withFinally _ _ _ (Prog.allEv_true _)
    apply PE.allEvR_bind (Q := fun _ => True) _ _ (by anyq)
    intro _ _
    apply PE.allEvR_bind _ _ (PE.allEvR_ofExcept _)
    intro t ht
    apply PE.allEvR_bind _ _ (moveAndGetChecksums_valid cfg o _ _ _ _ _ _)
    intro m hm
    apply PE.allEvR_bind (Q := fun _ => True) _ _ (by anyq)
    intro _ _
    apply PE.allEvR_pure
    exact ⟨t, ac.1, ac.2, ht, hac, hm⟩

def validPost : Option Call → Except Exc Val → Prop
  | some (.storeObject (.str _) data add cks ca sz) => okPost (fun _ => JudgedValid cfg o data add cks ca sz)
  | _ => fun _ => True

end HS
