/-
  Whole — which values a call can ever write into a pid reference or a metadata
  document (for every sequence of answers), and the store invariant that carries.
  Helper lemmas for C09; the property statements are in Props/C09.lean.
-/
import HSModel.Proofs.Shape
import HSModel.Proofs.RunInv
import HSModel.Proofs.AbsLemmas
namespace HS.C09
variable (cfg : Config) (o : Oracle)

/-! ### pid references and documents hold whole supplied values -/

/-- the only values a program writes into a pid reference are in `vs`, into a
    document in `ts` (whatever the answers are) -/
def Supplies (vs : List Str) (ts : List Tok) : Ev → Prop
  | .eff (.publishPidRef _ v) => v ∈ vs
  | .eff (.publishDoc _ _ t) => t ∈ ts
  | _ => True

/-- neither a pid reference nor a document is written -/
def NoPidDoc : Ev → Prop
  | .eff (.publishPidRef _ _) => False
  | .eff (.publishDoc _ _ _) => False
  | _ => True

theorem supplies_of_noPidDoc (vs : List Str) (ts : List Tok) (e : Ev) (h : NoPidDoc e) : Supplies vs ts e := by
  cases e with
  | eff x => cases x <;> first | trivial | exact h.elim
  | _ => trivial

/-- every pid reference holds a value from `vs`, every document one from `ts` -/
def ValuesFrom (vs : List Str) (ts : List Tok) (s : Store) : Prop :=
  (∀ k v, s.pidRefs.get k = some v → v ∈ vs) ∧ (∀ d n t, s.mdocs.get (d, n) = some t → t ∈ ts)

theorem values_step (vs : List Str) (ts : List Tok) (s s' : Store) (x : Eff) (hx : Supplies vs ts (.eff x))
    (ha : s.apply x = some s') (hs : ValuesFrom vs ts s) : ValuesFrom vs ts s' := by
  obtain ⟨h1, h2⟩ := hs
  cases x with
  | publishPidRef k v =>
    simp only [Store.apply] at ha
    split at ha <;> cases ha
    refine ⟨?_, h2⟩
    intro k' v' hg
    simp only at hg
    by_cases e : k = k'
    · subst e; rw [FMap.get_set_self] at hg; cases hg; exact hx
    · rw [FMap.get_set_ne _ _ e] at hg; exact h1 k' v' hg
  | publishDoc d n t =>
    simp only [Store.apply] at ha
    split at ha <;> cases ha
    refine ⟨h1, ?_⟩
    intro d' n' t' hg
    simp only at hg
    by_cases e : (d, n) = (d', n')
    · cases e; rw [FMap.get_set_self] at hg; cases hg; exact hx
    · rw [FMap.get_set_ne _ _ e] at hg; exact h2 d' n' t' hg
  | retire l =>
    cases l with
    | pidRef k =>
      simp only [Store.apply, Store.retire] at ha
      cases hg : s.pidRefs.get k with
      | none => simp [hg] at ha
      | some v =>
        simp only [hg, Option.map_some, Option.some.injEq] at ha
        subst ha
        refine ⟨?_, h2⟩
        intro k' v' hg'
        simp only at hg'
        by_cases e : k ++ deleteSuffix = k'
        · subst e; rw [FMap.get_set_self] at hg'; cases hg'; exact h1 k v hg
        · rw [FMap.get_set_ne _ _ e] at hg'; exact h1 k' v' (FMap.get_del_some hg')
    | mdoc d n =>
      simp only [Store.apply, Store.retire] at ha
      cases hg : s.mdocs.get (d, n) with
      | none => simp [hg] at ha
      | some v =>
        simp only [hg, Option.map_some, Option.some.injEq] at ha
        subst ha
        refine ⟨h1, ?_⟩
        intro d' n' t' hg'
        simp only at hg'
        by_cases e : (d, n ++ deleteSuffix) = (d', n')
        · cases e; rw [FMap.get_set_self] at hg'; cases hg'; exact h2 d n v hg
        · rw [FMap.get_set_ne _ _ e] at hg'; exact h2 d' n' t' (FMap.get_del_some hg')
    | obj c =>
      simp only [Store.apply, Store.retire] at ha
      cases hg : s.objs.get c <;> simp [hg] at ha
      subst ha; exact ⟨h1, h2⟩
    | cidRef c =>
      simp only [Store.apply, Store.retire] at ha
      cases hg : s.cidRefs.get c <;> simp [hg] at ha
      subst ha; exact ⟨h1, h2⟩
  | remove l =>
    cases l with
    | pidRef k =>
      simp only [Store.apply, Store.remove] at ha
      split at ha <;> cases ha
      exact ⟨fun k' v' hg => h1 k' v' (FMap.get_del_some hg), h2⟩
    | mdoc d n =>
      simp only [Store.apply, Store.remove] at ha
      split at ha <;> cases ha
      exact ⟨h1, fun d' n' t' hg => h2 d' n' t' (FMap.get_del_some hg)⟩
    | obj c =>
      simp only [Store.apply, Store.remove] at ha
      split at ha <;> cases ha
      exact ⟨h1, h2⟩
    | cidRef c =>
      simp only [Store.apply, Store.remove] at ha
      split at ha <;> cases ha
      exact ⟨h1, h2⟩
  | mkdirs a k => simp only [Store.apply] at ha; cases ha; exact ⟨h1, h2⟩
  | mkTmp a => simp only [Store.apply] at ha; cases ha; cases a <;> exact ⟨h1, h2⟩
  | removeTmp a =>
    simp only [Store.apply] at ha
    split at ha
    · cases ha
    · cases ha; cases a <;> exact ⟨h1, h2⟩
  | publishObj c t =>
    simp only [Store.apply] at ha
    split at ha <;> cases ha
    exact ⟨h1, h2⟩
  | publishCidRef c t =>
    simp only [Store.apply] at ha
    split at ha <;> cases ha
    exact ⟨h1, h2⟩
  | appendCid c t =>
    simp only [Store.apply] at ha
    cases hg : s.cidRefs.get c <;> simp [hg] at ha
    subst ha; exact ⟨h1, h2⟩
  | rewriteCid c t =>
    simp only [Store.apply] at ha
    cases hg : s.cidRefs.get c <;> simp [hg] at ha
    subst ha; exact ⟨h1, h2⟩
  | truncateCid c n =>
    simp only [Store.apply] at ha
    cases hg : s.cidRefs.get c <;> simp [hg] at ha
    subst ha; exact ⟨h1, h2⟩


/-! which calls write which values -/

theorem findObject_npd (pid : Str) : (findObject cfg o pid).AllEv NoPidDoc := by
  unfold findObject; repeat allev_step
theorem verifyRefs_npd (pid cid : Str) : (verifyRefs o pid cid).AllEv NoPidDoc := by
  unfold verifyRefs; repeat allev_step
theorem updateRefsAdd_npd (cid pid : Str) : (updateRefsAdd cid pid).AllEv NoPidDoc := by
  unfold updateRefsAdd; repeat allev_step
theorem updateRefsRemove_npd (cid pid : Str) : (updateRefsRemove cid pid).AllEv NoPidDoc := by
  unfold updateRefsRemove; repeat allev_step
theorem writeRefsTmp_npd : writeRefsTmp.AllEv NoPidDoc := by
  unfold writeRefsTmp; repeat allev_step
theorem deleteMarked_npd (l : List Loc) : (deleteMarked l).AllEv NoPidDoc := by
  induction l with
  | nil => exact PE.allEv_pure _
  | cons a r ih => unfold deleteMarked; repeat (first | exact ih | allev_step)
theorem markPidRef_npd (k : Str) : (markPidRef k).AllEv NoPidDoc := by
  unfold markPidRef; repeat allev_step
theorem removePidAndHandle_npd (pid cid : Str) : (removePidAndHandle pid cid).AllEv NoPidDoc := by
  unfold removePidAndHandle; repeat (first | exact updateRefsRemove_npd _ _ | allev_step)
theorem validateAndCheckCidLock_npd (a b : Str) : (validateAndCheckCidLock a b).AllEv NoPidDoc := by
  unfold validateAndCheckCidLock; repeat allev_step
theorem untagObject_npd (pid cid : Str) : (untagObject cfg o pid cid).AllEv NoPidDoc := by
  unfold untagObject
  repeat (first
    | exact findObject_npd cfg o _
    | exact validateAndCheckCidLock_npd _ _
    | exact markPidRef_npd _
    | exact removePidAndHandle_npd _ _
    | exact deleteMarked_npd _
    | allev_step)
theorem hexDigestCore_npd (pid alg : Str) : (hexDigestCore cfg o pid alg).AllEv NoPidDoc := by
  unfold hexDigestCore; repeat (first | exact findObject_npd cfg o _ | allev_step)

/-- `_store_hashstore_refs_files`: the one pid reference it writes holds the cid it was given -/
theorem storeRefs_supplies (vs : List Str) (ts : List Tok) (pid cid : Str) (h : cid ∈ vs) :
    (storeRefs cfg o pid cid).AllEv (Supplies vs ts) := by
  unfold storeRefs
  repeat (first
    | exact Prog.allEv_mono _ (supplies_of_noPidDoc vs ts) (verifyRefs_npd o _ _)
    | exact Prog.allEv_mono _ (supplies_of_noPidDoc vs ts) (updateRefsAdd_npd _ _)
    | exact Prog.allEv_mono _ (supplies_of_noPidDoc vs ts) writeRefsTmp_npd
    | exact Prog.allEv_mono _ (supplies_of_noPidDoc vs ts) (untagObject_npd cfg o _ _)
    | exact h
    | allev_step)

theorem tagObject_supplies (vs : List Str) (ts : List Tok) (pid : SArg) (c : Str) (h : c ∈ vs) :
    (tagObject cfg o pid (.str c)).AllEv (Supplies vs ts) := by
  unfold tagObject
  apply PE.allEv_bind; · exact PE.allEv_ofExcept _
  intro p
  apply PE.allEv_bind_post _ _ (PE.allEvR_ofExcept _)
  intro c' hc'
  have := checkString_str' hc'
  subst this
  repeat (first | exact storeRefs_supplies cfg o vs ts _ _ h | allev_step)


theorem moveAndGetChecksums_npd (pid : Option Str) (t : Tok) (add cs cks : Option Str) (sz : IArg) :
    (moveAndGetChecksums cfg o pid t add cs cks sz).AllEv NoPidDoc := by
  unfold moveAndGetChecksums
  repeat (first | exact hexDigestCore_npd cfg o _ _ | allev_step)

/-- … and what it returns is addressed by the digest of the content -/
theorem moveAndGetChecksums_cid (vs : List Str) (ts : List Tok) (pid : Option Str) (t : Tok) (add cs cks : Option Str)
    (sz : IArg) :
    (moveAndGetChecksums cfg o pid t add cs cks sz).AllEvR (Supplies vs ts) (fun m => m.cid = o.dig cfg.alg t) := by
  unfold moveAndGetChecksums
  dsimp only
  repeat (first
    | exact PE.allEvR_pure _ rfl
    | exact PE.allEvR_throw _
    | (apply PE.allEvR_of_allEv
       apply Prog.allEv_mono _ (supplies_of_noPidDoc vs ts)
       repeat (first | exact hexDigestCore_npd cfg o _ _ | allev_step))
    | apply PE.allEvR_bind (Q := fun _ => True)
    | apply PE.allEvR_tryCatch
    | intro _
    | split
    | dsimp only)


theorem retrieveObject_npd (pid : SArg) : (retrieveObject cfg o pid).AllEv NoPidDoc := by
  unfold retrieveObject; repeat (first | exact findObject_npd cfg o _ | allev_step)
theorem retrieveMetadata_npd (pid f : SArg) : (retrieveMetadata cfg o pid f).AllEv NoPidDoc := by
  unfold retrieveMetadata; repeat allev_step
theorem getHexDigest_npd (pid a : SArg) : (getHexDigest cfg o pid a).AllEv NoPidDoc := by
  unfold getHexDigest; repeat (first | exact hexDigestCore_npd cfg o _ _ | allev_step)
theorem deleteObjectOnly_npd (cid : Str) : (deleteObjectOnly cid).AllEv NoPidDoc := by
  unfold deleteObjectOnly; repeat allev_step
theorem deleteIfInvalid_npd (om : Option ObjMeta) (c ca : SArg) (s : IArg) :
    (deleteIfInvalidObject cfg o om c ca s).AllEv NoPidDoc := by
  unfold deleteIfInvalidObject; repeat (first | exact deleteObjectOnly_npd _ | allev_step)
theorem withDocLock_npd {α : Type} (doc : Str) (body : PE α) (h : body.AllEv NoPidDoc) :
    (withDocLock doc body).AllEv NoPidDoc := by
  unfold withDocLock; repeat (first | exact h | allev_step)
theorem retireDocs_npd (dir : Str) (names : List Str) : (retireDocs dir names).AllEv NoPidDoc := by
  induction names with
  | nil => exact PE.allEv_pure _
  | cons n r ih => unfold retireDocs; repeat (first | exact ih | apply withDocLock_npd | allev_step)
theorem deleteMetadataCore_npd (p : Str) (fmt : Option Str) : (deleteMetadataCore o p fmt).AllEv NoPidDoc := by
  unfold deleteMetadataCore
  cases fmt with
  | none => simp only; repeat (first | exact retireDocs_npd _ _ | exact deleteMarked_npd _ | allev_step)
  | some f => simp only; repeat (first | apply withDocLock_npd | allev_step)
theorem deleteMetadata_npd (p f : SArg) : (deleteMetadata cfg o p f).AllEv NoPidDoc := by
  unfold deleteMetadata; repeat (first | exact deleteMetadataCore_npd o _ _ | allev_step)
theorem deleteObject_npd (pid : SArg) : (deleteObject cfg o pid).AllEv NoPidDoc := by
  unfold deleteObject
  repeat (first
    | exact findObject_npd cfg o _
    | exact updateRefsRemove_npd _ _
    | exact deleteMarked_npd _
    | exact deleteMetadataCore_npd o _ _
    | allev_step)

/-- the cid a call may bind a pid to, the document it may store -/
def cidsSupplied : Call → List Str
  | .storeObject _ (.ok t) _ _ _ _ => [o.dig cfg.alg t]
  | .tagObject _ (.str c) => [c]
  | _ => []
def docsSupplied : Call → List Tok
  | .storeMetadata _ (.ok t) _ => [t]
  | _ => []

theorem openStream_ok {d : DataArg} {t : Tok} (h : openStream d = .ok t) : d = .ok t := by
  cases d <;> simp [openStream] at h
  subst h; rfl

/-- every call, whatever the file system answers: a pid reference is only ever
    given the call's own cid (the digest of the data for `store_object`, the
    argument for `tag_object`), a document only the data of `store_metadata` -/
theorem call_supplies (vs : List Str) (ts : List Tok) (c : Call) :
    (c.prog cfg o).AllEv (Supplies (vs ++ cidsSupplied cfg o c) (ts ++ docsSupplied c)) := by
  cases c with
  | storeObject pid data add cks ca sz =>
    simp only [Call.prog]
    unfold storeObject
    cases pid with
    | none =>
      simp only
      apply Prog.allEv_mono _ (supplies_of_noPidDoc _ _)
      repeat (first | exact moveAndGetChecksums_npd cfg o _ _ _ _ _ _ | allev_step)
    | other =>
      simp only
      apply PE.allEv_bind_post _ _ (PE.allEvR_ofExcept _)
      intro p hp; simp [checkString] at hp
    | str p0 =>
      simp only
      apply PE.allEv_bind; · exact PE.allEv_ofExcept _
      intro p
      apply PE.allEv_bind; · exact PE.allEv_ofExcept _
      intro _
      apply PE.allEv_bind; · exact PE.allEv_ofExcept _
      intro _
      apply PE.allEv_bind; · exact PE.allEv_ofExcept _
      intro ac
      apply PE.allEv_bind; · (apply allEv_inProgress; trivial)
      intro b
      split
      · exact PE.allEv_throw _
      · apply PE.allEv_withFinally
        · apply PE.allEv_bind; · (apply allEv_acquire; trivial)
          intro _
          apply PE.allEv_bind_post _ _ (PE.allEvR_ofExcept _)
          intro t ht
          have hd := openStream_ok ht
          subst hd
          apply PE.allEv_bind_post _ _ (moveAndGetChecksums_cid cfg o _ _ _ _ _ _ _ _)
          intro m hm
          apply PE.allEv_bind
          · apply tagObject_supplies
            rw [hm]; simp [cidsSupplied]
          · intro _; exact PE.allEv_pure _
        · apply allEv_release; trivial
  | tagObject pid cid =>
    simp only [Call.prog]
    cases cid with
    | str c => exact tagObject_supplies cfg o _ _ _ c (by simp [cidsSupplied])
    | none =>
      unfold tagObject
      apply PE.allEv_bind; · exact PE.allEv_ofExcept _
      intro p
      apply PE.allEv_bind_post _ _ (PE.allEvR_ofExcept _)
      intro c hc; simp [checkString] at hc
    | other =>
      unfold tagObject
      apply PE.allEv_bind; · exact PE.allEv_ofExcept _
      intro p
      apply PE.allEv_bind_post _ _ (PE.allEvR_ofExcept _)
      intro c hc; simp [checkString] at hc
  | storeMetadata pid data fmt =>
    simp only [Call.prog]
    unfold storeMetadata
    apply PE.allEv_bind; · exact PE.allEv_ofExcept _
    intro p
    apply PE.allEv_bind; · exact PE.allEv_ofExcept _
    intro _
    apply PE.allEv_bind; · exact PE.allEv_ofExcept _
    intro f
    unfold withDocLock
    apply PE.allEv_bind; · (apply allEv_acquire; trivial)
    intro _
    apply PE.allEv_withFinally
    · apply PE.allEv_bind_post _ _ (PE.allEvR_ofExcept _)
      intro t ht
      have hd := openStream_ok ht
      subst hd
      repeat (first
        | (apply allEv_eff; show t ∈ _; simp [docsSupplied])
        | allev_step)
    · apply allEv_release; trivial
  | deleteIfInvalid om ck ca sz =>
    exact Prog.allEv_mono _ (supplies_of_noPidDoc _ _) (deleteIfInvalid_npd cfg o om ck ca sz)
  | retrieveObject pid => exact Prog.allEv_mono _ (supplies_of_noPidDoc _ _) (retrieveObject_npd cfg o pid)
  | retrieveMetadata pid f => exact Prog.allEv_mono _ (supplies_of_noPidDoc _ _) (retrieveMetadata_npd cfg o pid f)
  | deleteObject pid => exact Prog.allEv_mono _ (supplies_of_noPidDoc _ _) (deleteObject_npd cfg o pid)
  | deleteMetadata pid f => exact Prog.allEv_mono _ (supplies_of_noPidDoc _ _) (deleteMetadata_npd cfg o pid f)
  | getHexDigest pid a => exact Prog.allEv_mono _ (supplies_of_noPidDoc _ _) (getHexDigest_npd cfg o pid a)


theorem values_preserved (vs : List Str) (ts : List Tok) :
    Prog.Preserved (Supplies vs ts) (fun w => ValuesFrom vs ts w.st) :=
  preserved_of_store (fun s x s' hx ha hs => values_step vs ts s s' x hx ha hs)

theorem valuesFrom_mono {vs vs' : List Str} {ts ts' : List Tok} {s : Store} (h : ValuesFrom vs ts s)
    (hv : ∀ v ∈ vs, v ∈ vs') (ht : ∀ t ∈ ts, t ∈ ts') : ValuesFrom vs' ts' s :=
  ⟨fun k v hg => hv v (h.1 k v hg), fun d n t hg => ht t (h.2 d n t hg)⟩

end HS.C09
