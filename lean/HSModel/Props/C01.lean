/-
  C01 — Stored bytes come back unchanged, addressed by their own hash.
-/
import HSModel.Proofs.StepLemmas
import HSModel.Props.C04
import HSModel.Stream
namespace HS.C01
open Abs
variable (cfg : Config) (o : Oracle)

/-- the content a data argument carries, when it is an accepted one -/
def dataTok : DataArg → Option Tok
  | .ok t => some t
  | _ => none

/-- a successful `store_object(pid, data, …)` reports the digest of the whole
    content under the store algorithm and its true size -/
theorem store_reports_truth (a : Abs) (pid : SArg) (data : DataArg) (add cks ca : SArg) (sz : IArg)
    (v : Val) (h : (step cfg o a (.storeObject pid data add cks ca sz)).1 = .ok v) :
    ∃ t m, dataTok data = some t ∧ v = .objMeta m ∧ m.cid = o.dig cfg.alg t ∧ m.size = o.size t := by
  simp only [step] at h
  split at h
  · unfold storeData at h
    split at h
    · cases h
    · rename_i t ht
      have hd := dataOnly_data ht
      subst hd
      simp only [Except.ok.injEq] at h
      exact ⟨_, _, rfl, h.symm, rfl, rfl⟩
  · unfold storeObj at h
    split at h
    · cases h
    · rename_i p add' cs' t hargs
      have hd := storeArgs_data cfg hargs
      subst hd
      try simp only [] at h
      split at h
      · cases h
      · cases hr : ((a.addObj (objMetaOf cfg o t add' cs').cid t).tag p (objMetaOf cfg o t add' cs').cid).1 with
        | error e => rw [hr] at h; simp [Except.map] at h
        | ok u =>
          rw [hr] at h
          simp only [Except.map, Except.ok.injEq] at h
          exact ⟨_, _, rfl, h.symm, rfl, rfl⟩

/-- right after a successful `store_object(pid, data)` the pid is bound to the
    content's address and the address holds the content — provided the address
    was free or already held the same bytes (no collision of the store
    algorithm on the contents in play) -/
theorem store_then_holds (a : Abs) (p : Str) (t : Tok) (add cks ca : SArg) (sz : IArg) (v : Val)
    (hfree : a.objs.get (o.dig cfg.alg t) = none ∨ a.objs.get (o.dig cfg.alg t) = some t)
    (h : (step cfg o a (.storeObject (.str p) (.ok t) add cks ca sz)).1 = .ok v) :
    C04.Holds (step cfg o a (.storeObject (.str p) (.ok t) add cks ca sz)).2 p (o.dig cfg.alg t) t := by
  simp only [step, storeObj] at h ⊢
  split at h
  · cases h
  · rename_i p' add' cs' t' hargs
    have hp : SArg.str p = .str p' := storeArgs_pid cfg hargs
    cases hp
    have ht : DataArg.ok t = .ok t' := storeArgs_data cfg hargs
    cases ht
    try simp only [] at h ⊢
    split at h
    · cases h
    · rename_i hv
      have hcid : (objMetaOf cfg o t add' cs').cid = o.dig cfg.alg t := rfl
      rw [hcid] at h ⊢
      cases hb : (a.addObj (o.dig cfg.alg t) t).bind.get p with
      | some c =>
        rw [tag_bound _ hb] at h
        simp [Except.map] at h
      | none =>
        rw [tag_unbound _ hb]
        refine ⟨by simp, ?_⟩
        simp only []
        unfold addObj
        split
        · rename_i hc
          rcases hfree with hf | hf
          · rw [FMap.contains_iff] at hc
            obtain ⟨x, hx⟩ := hc
            rw [hf] at hx; cases hx
          · exact hf
        · simp

/-- retrieving a pid that holds content `t` yields exactly `t` -/
theorem retrieve_holds (a : Abs) (p c : Str) (t : Tok) (hp : checkStringOk p = true) (hc : c ≠ [])
    (h : C04.Holds a p c t) :
    step cfg o a (.retrieveObject (.str p)) = (.ok (.content t), a) := by
  simp only [step, retrieveObj, checkString, hp, if_true, find, h.1]
  have : a.objs.contains c = true := by rw [FMap.contains_iff]; exact ⟨_, h.2⟩
  simp [this, hc, h.2]

/-- …and it still does after any history of other calls, on this pid or on
    others, that contains no `delete_object(pid)` -/
theorem roundtrip (a : Abs) (hist : List Call) (p c : Str) (t : Tok) (hp : checkStringOk p = true)
    (hc : c ≠ []) (hh : ∀ call ∈ hist, ¬ C04.IsDeleteOf p call) (h : C04.Holds a p c t) :
    (step cfg o (C04.runHistory cfg o a hist) (.retrieveObject (.str p))).1 = .ok (.content t) := by
  have := C04.history_keeps cfg o a hist p c t hh h
  rw [retrieve_holds cfg o _ p c t hp hc this]

/-- reading in buffer-size chunks loses, duplicates and reorders nothing, for
    every content and every positive buffer size (hence "around every multiple
    of the buffer size" for all sizes at once) -/
theorem chunks_flatten {α : Type} (n : Nat) (bs : List α) (hn : 0 < n) :
    (chunks n bs).flatten = bs := by
  fun_induction chunks n bs with
  | case1 bs hc =>
    rcases hc with hc | hc
    · omega
    · simp [hc]
  | case2 bs hc ih =>
    simp only [List.flatten_cons]
    rw [ih, List.take_append_drop]

/-- every chunk handed to the hash objects and the temp file is non-empty and
    at most one buffer long -/
theorem chunks_bounds {α : Type} (n : Nat) (bs : List α) (hn : 0 < n) :
    ∀ c ∈ chunks n bs, 0 < c.length ∧ c.length ≤ n := by
  fun_induction chunks n bs with
  | case1 bs hc => simp
  | case2 bs hc ih =>
    have hne : bs ≠ [] := fun e => hc (Or.inr e)
    have hpos : bs.length ≠ 0 := fun e => hne (List.length_eq_zero_iff.mp e)
    intro c hcm
    rcases List.mem_cons.mp hcm with rfl | hcm
    · simp only [List.length_take]; omega
    · exact ih c hcm

/-- a caller-supplied stream is left open at its original offset; a path the
    store opened itself is closed -/
theorem stream_restored (s : StreamState) (len : Nat) (hs : s.closed = false) :
    afterUse true s len = s ∧ (afterUse false s len).closed = true := by
  cases s; simp_all [afterUse]

example : chunks 4 [1, 2, 3, 4, 5, 6, 7, 8, 9] = [[1, 2, 3, 4], [5, 6, 7, 8], [9]] := by
  simp [chunks]

end HS.C01
