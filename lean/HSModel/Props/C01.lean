/-
  C01 — Stored bytes come back unchanged, addressed by their own hash.
-/
import HSModel.Proofs.StepLemmas
import HSModel.Props.C04
import HSModel.Stream
import HSModel.Proofs.RefineAll
namespace HS.C01
open Abs
variable (cfg : Config) (o : Oracle)

/-- the content a data argument carries, when it is an accepted one -/
def dataTok : DataArg → Option Tok
  | .ok t => some t
  | _ => none

/-- a successful `store_object(pid, data, …)` reports the digest of the whole
    content under the store algorithm and its true size -/
theorem store_reports_truth (a : Abs) (pid : SArg) (data : DataArg) (add cks ca : SArg) (sz : IArg)
    (v : Val) (h : (step cfg o a (.storeObject pid data add cks ca sz)).1 = .ok v) :
    ∃ t m, dataTok data = some t ∧ v = .objMeta m ∧ m.cid = o.dig cfg.alg t ∧ m.size = o.size t := by
  simp only [step] at h
  split at h
  · unfold storeData at h
    split at h
    · cases h
    · rename_i t ht
      have hd := dataOnly_data ht
      subst hd
      simp only [Except.ok.injEq] at h
      exact ⟨_, _, rfl, h.symm, rfl, rfl⟩
  · unfold storeObj at h
    split at h
    · cases h
    · rename_i p add' cs' t hargs
      have hd := storeArgs_data cfg hargs
      subst hd
      try simp only [] at h
      split at h
      · cases h
      · cases hr : ((a.addObj (objMetaOf cfg o t add' cs').cid t).tag p (objMetaOf cfg o t add' cs').cid).1 with
        | error e => rw [hr] at h; simp [Except.map] at h
        | ok u =>
          rw [hr] at h
          simp only [Except.map, Except.ok.injEq] at h
          exact ⟨_, _, rfl, h.symm, rfl, rfl⟩

/-- right after a successful `store_object(pid, data)` the pid is bound to the
    content's address and the address holds the content — provided the address
    was free or already held the same bytes (no collision of the store
    algorithm on the contents in play) -/
theorem store_then_holds (a : Abs) (p : Str) (t : Tok) (add cks ca : SArg) (sz : IArg) (v : Val)
    (hfree : a.objs.get (o.dig cfg.alg t) = none ∨ a.objs.get (o.dig cfg.alg t) = some t)
    (h : (step cfg o a (.storeObject (.str p) (.ok t) add cks ca sz)).1 = .ok v) :
    C04.Holds (step cfg o a (.storeObject (.str p) (.ok t) add cks ca sz)).2 p (o.dig cfg.alg t) t := by
  simp only [step, storeObj] at h ⊢
  split at h
  · cases h
  · rename_i p' add' cs' t' hargs
    have hp : SArg.str p = .str p' := storeArgs_pid cfg hargs
    cases hp
    have ht : DataArg.ok t = .ok t' := storeArgs_data cfg hargs
    cases ht
    try simp only [] at h ⊢
    split at h
    · cases h
    · rename_i hv
      have hcid : (objMetaOf cfg o t add' cs').cid = o.dig cfg.alg t := rfl
      rw [hcid] at h ⊢
      cases hb : (a.addObj (o.dig cfg.alg t) t).bind.get p with
      | some c =>
        rw [tag_bound _ hb] at h
        simp [Except.map] at h
      | none =>
        rw [tag_unbound _ hb]
        refine ⟨by simp, ?_⟩
        simp only []
        unfold addObj
        split
        · rename_i hc
          rcases hfree with hf | hf
          · rw [FMap.contains_iff] at hc
            obtain ⟨x, hx⟩ := hc
            rw [hf] at hx; cases hx
          · exact hf
        · simp

/-- retrieving a pid that holds content `t` yields exactly `t` -/
theorem retrieve_holds (a : Abs) (p c : Str) (t : Tok) (hp : checkStringOk p = true) (hc : c ≠ [])
    (h : C04.Holds a p c t) :
    step cfg o a (.retrieveObject (.str p)) = (.ok (.content t), a) := by
  simp only [step, retrieveObj, checkString, hp, if_true, find, h.1]
  have : a.objs.contains c = true := by rw [FMap.contains_iff]; exact ⟨_, h.2⟩
  simp [this, hc, h.2]

/-- …and it still does after any history of other calls, on this pid or on
    others, that contains no `delete_object(pid)` -/
theorem roundtrip (a : Abs) (hist : List Call) (p c : Str) (t : Tok) (hp : checkStringOk p = true)
    (hc : c ≠ []) (hh : ∀ call ∈ hist, ¬ C04.IsDeleteOf p call) (h : C04.Holds a p c t) :
    (step cfg o (C04.runHistory cfg o a hist) (.retrieveObject (.str p))).1 = .ok (.content t) := by
  have := C04.history_keeps cfg o a hist p c t hh h
  rw [retrieve_holds cfg o _ p c t hp hc this]

/-- reading in buffer-size chunks loses, duplicates and reorders nothing, for
    every content and every positive buffer size (hence "around every multiple
    of the buffer size" for all sizes at once) -/
theorem chunks_flatten {α : Type} (n : Nat) (bs : List α) (hn : 0 < n) :
    (chunks n bs).flatten = bs := by
  fun_induction chunks n bs with
  | case1 bs hc =>
    rcases hc with hc | hc
    · omega
    · simp [hc]
  | case2 bs hc ih =>
    simp only [List.flatten_cons]
    rw [ih, List.take_append_drop]

/-- every chunk handed to the hash objects and the temp file is non-empty and
    at most one buffer long -/
theorem chunks_bounds {α : Type} (n : Nat) (bs : List α) (hn : 0 < n) :
    ∀ c ∈ chunks n bs, 0 < c.length ∧ c.length ≤ n := by
  fun_induction chunks n bs with
  | case1 bs hc => simp
  | case2 bs hc ih =>
    have hne : bs ≠ [] := fun e => hc (Or.inr e)
    have hpos : bs.length ≠ 0 := fun e => hne (List.length_eq_zero_iff.mp e)
    intro c hcm
    rcases List.mem_cons.mp hcm with rfl | hcm
    · simp only [List.length_take]; omega
    · exact ih c hcm

/-- a caller-supplied stream is left open at its original offset; a path the
    store opened itself is closed -/
theorem stream_restored (s : StreamState) (len : Nat) (hs : s.closed = false) :
    afterUse true s len = s ∧ (afterUse false s len).closed = true := by
  cases s; simp_all [afterUse]

/-! ### the same, for the concrete program text of the calls

`Sim o st a`: the concrete store `st` (files with text contents, keyed by hashes)
holds the abstract state `a` and its indexes agree (HSModel/Proofs/Refine.lean);
every state reached from the empty store by public calls satisfies it
(`C05.concrete_refines_spec_history`). -/

theorem specHist_state (cs : List Call) (a : Abs) : (specHist cfg o cs a).2 = C04.runHistory cfg o a cs := by
  induction cs generalizing a with
  | nil => rfl
  | cons c r ih => simp only [specHist, C04.runHistory]; exact ih _

/-- **concrete round trip**: from any consistent store, if the concrete
    `store_object(p, t, …)` returns normally, then after *any* concrete history
    of public calls that contains no `delete_object(p)`, the concrete
    `retrieve_object(p)` returns exactly the content `t` -/
theorem concrete_roundtrip (st : Store) (log : List Eff) (a : Abs) (hs : Sim o st a) (ho : GoodOracle o)
    (p : Str) (t : Tok) (add cks ca : SArg) (sz : IArg) (v : Val) (hist : List Call)
    (hp : checkStringOk p = true)
    (hfree : st.objs.get (o.dig cfg.alg t) = none ∨ st.objs.get (o.dig cfg.alg t) = some t)
    (hstore : ((storeObject cfg o (.str p) (.ok t) add cks ca sz).run (calm st log)).1 = .ok v)
    (hh : ∀ call ∈ hist, ¬ C04.IsDeleteOf p call) (hcs : ∀ c ∈ hist, CidArgPlain c) :
    let w1 := ((storeObject cfg o (.str p) (.ok t) add cks ca sz).run (calm st log)).2
    let w2 := (runHist cfg o hist w1).2
    ((retrieveObject cfg o (.str p)).run w2).1 = .ok (.content t) := by
  intro w1 w2
  obtain ⟨w1', hrun1, hlk1, hnf1, hs1⟩ :=
    refines_step cfg o (.storeObject (.str p) (.ok t) add cks ca sz) st log a hs ho trivial
  have hrun1' : (storeObject cfg o (.str p) (.ok t) add cks ca sz).run (calm st log) =
      ((step cfg o a (.storeObject (.str p) (.ok t) add cks ca sz)).1, w1') := hrun1
  have hw1 : w1 = w1' := by show (Prog.run _ _).2 = w1'; rw [hrun1']
  have hspec : (step cfg o a (.storeObject (.str p) (.ok t) add cks ca sz)).1 = .ok v := by
    rw [hrun1'] at hstore; exact hstore
  have hfree' : a.objs.get (o.dig cfg.alg t) = none ∨ a.objs.get (o.dig cfg.alg t) = some t := by
    rw [hs.rel.objs]; exact hfree
  have hholds := store_then_holds cfg o a p t add cks ca sz v hfree' hspec
  obtain ⟨_, hs2, hlk2, hnf2⟩ := refines_history_from cfg o hist w1' _ hlk1 hnf1 hs1 ho hcs
  rw [specHist_state] at hs2
  have hkeep := C04.history_keeps cfg o _ hist p _ t hh hholds
  have hne : o.dig cfg.alg t ≠ [] := ((checkStringOk_iff _).1 (ho.okDigests _ _)).1
  have hret := retrieve_holds cfg o _ p _ t hp hne hkeep
  obtain ⟨w3, hrun3, _, _, _⟩ := refines_step_world cfg o (.retrieveObject (.str p)) (runHist cfg o hist w1').2 _
    hlk2 hnf2 hs2 ho trivial
  have hrun3' : (retrieveObject cfg o (.str p)).run (runHist cfg o hist w1').2 = _ := hrun3
  show ((retrieveObject cfg o (.str p)).run (runHist cfg o hist w1).2).1 = _
  rw [hw1, hrun3', hret]

example : chunks 4 [1, 2, 3, 4, 5, 6, 7, 8, 9] = [[1, 2, 3, 4], [5, 6, 7, 8], [9]] := by
  simp [chunks]

end HS.C01
