/-
  C02 — Reported checksums are true and depend only on the call that asked.
  Normalisation laws for every string, key-set characterisation of the
  per-call algorithm list, and the refutation of history-independence for the
  code as found (the instance list used to be aliased).
-/
import HSModel.Spec
import HSModel.Proofs.RefineAll
import HSModel.Proofs.StepLemmas
import HSModel.Proofs.Report
import HSModel.Proofs.HexReader
namespace HS.C02

/-- every supported hashlib name is accepted unchanged (complete table) -/
theorem clean_supported : ∀ a ∈ supportedAlgos, cleanAlgorithm a = .ok a := by decide

/-- the five DataONE spellings normalise to their hashlib names (complete table) -/
theorem clean_dataone : ∀ p ∈ dataoneAlgos, cleanAlgorithm p.1 = .ok p.2 := by decide

/-- whatever string is given, an accepted result is a supported algorithm -/
theorem clean_sound (s c : Str) (h : cleanAlgorithm s = .ok c) : c ∈ supportedAlgos := by
  unfold cleanAlgorithm cleanAlgorithmWith at h
  simp only at h
  split at h
  · rename_i hm
    cases h
    simp only [supportedAlgos, List.mem_append]
    exact hm
  · cases h

/-- normalising a normalised name changes nothing -/
theorem clean_idem (s c : Str) (h : cleanAlgorithm s = .ok c) : cleanAlgorithm c = .ok c :=
  clean_supported c (clean_sound s c h)

/-- the normalisation looks at the string only through `lower`: two spellings
    with equal lower-casing, equal digit count are treated alike -/
theorem clean_case_insensitive (s t : Str) (h : lower s = lower t)
    (hd : digitCount s = digitCount t) : cleanAlgorithm s = cleanAlgorithm t := by
  unfold cleanAlgorithm cleanAlgorithmWith cleanString
  simp only [h, hd]

/-- key set of one call: the defaults plus the requested non-default names -/
theorem refine_mem (add cs : Option Str) (a : Str) :
    a ∈ refineAlgorithmList defaultAlgos add cs ↔
      a ∈ defaultAlgos ∨ (cs = some a ∧ a ∈ otherAlgos) ∨ (add = some a ∧ a ∈ otherAlgos) := by
  unfold refineAlgorithmList
  cases cs <;> cases add <;> simp only [] <;> repeat' split
  all_goals simp only [List.mem_append, List.mem_singleton, Option.some.injEq, reduceCtorEq,
    false_and, or_false, false_or]
  all_goals grind

/-- the per-call list never has duplicates -/
theorem refine_nodup (add cs : Option Str) :
    (refineAlgorithmList defaultAlgos add cs).Nodup := by
  have hd : defaultAlgos.Nodup := by decide
  unfold refineAlgorithmList
  cases cs <;> cases add <;> simp only [] <;> repeat' split
  all_goals first
    | exact hd
    | (simp only [List.nodup_append, List.nodup_cons, List.mem_singleton]; grind)

/-- the digests reported by the specification are the true ones, for exactly
    the per-call key list -/
theorem spec_digests (cfg : Config) (o : Oracle) (t : Tok) (add cs : Option Str) :
    (Abs.objMetaOf cfg o t add cs).digests =
      (refineAlgorithmList defaultAlgos add cs).map (fun a => (a, o.dig a t)) ∧
    (Abs.objMetaOf cfg o t add cs).cid = o.dig cfg.alg t ∧
    (Abs.objMetaOf cfg o t add cs).size = o.size t := by
  simp [Abs.objMetaOf]

/-- History-independence is *false* of the code as found at the pinned commit:
    after one call naming sha224 the instance list has grown, and the next call,
    which names nothing, reports six keys. (Witness of defect D1; repaired by
    the `fix:` commit recorded in known_findings.json.) -/
theorem asFound_refuted :
    let r1 := refineAsFound defaultAlgos (some "sha224".toList) none
    let r2 := refineAsFound r1.2 none none
    r2.1 ≠ (refineAsFound defaultAlgos none none).1 := by decide

example : refineAlgorithmList defaultAlgos (some "sha224".toList) (some "blake2b".toList) =
    defaultAlgos ++ ["blake2b".toList, "sha224".toList] := by decide

section
open Abs
variable (cfg : Config) (o : Oracle)

/-! ### the calls (specification, then the program text through the refinement) -/

/-- a successful `store_object` reports, for the content `t` it was given, the
    record that depends on `t` and on the algorithms named in this very call and
    on nothing else: keys = the five defaults plus the accepted non-default
    names of the call, each mapped to the true digest (`spec_digests`,
    `refine_mem`). The state `a` — every earlier call — does not occur in it. -/
theorem store_reports_exactly (a : Abs) (pid : SArg) (data : DataArg) (add cks ca : SArg) (sz : IArg)
    (v : Val) (h : (step cfg o a (.storeObject pid data add cks ca sz)).1 = .ok v) :
    (pid = .none ∧ ∃ t, data = .ok t ∧ v = .objMeta (objMetaOf cfg o t none none)) ∨
    (∃ p add' cs' t, storeArgs cfg pid data add cks ca sz = .ok (p, add', cs', t) ∧
      v = .objMeta (objMetaOf cfg o t add' cs')) := by
  simp only [step] at h
  split at h
  · left
    unfold storeData at h
    split at h
    · cases h
    · rename_i t ht
      have hd := dataOnly_data ht
      simp only [Except.ok.injEq] at h
      exact ⟨rfl, t, hd, h.symm⟩
  · right
    unfold storeObj at h
    split at h
    · cases h
    · rename_i p add' cs' t hargs
      try simp only [] at h
      split at h
      · cases h
      · cases hr : ((a.addObj (objMetaOf cfg o t add' cs').cid t).tag p (objMetaOf cfg o t add' cs').cid).1 with
        | error e => rw [hr] at h; simp [Except.map] at h
        | ok u =>
          rw [hr] at h
          simp only [Except.map, Except.ok.injEq] at h
          exact ⟨p, add', cs', t, hargs, h.symm⟩

/-- … so two stores of the same call that both succeed, on whatever two states,
    report the same record -/
theorem store_report_history_free (a1 a2 : Abs) (pid : SArg) (data : DataArg) (add cks ca : SArg) (sz : IArg)
    (v1 v2 : Val) (h1 : (step cfg o a1 (.storeObject pid data add cks ca sz)).1 = .ok v1)
    (h2 : (step cfg o a2 (.storeObject pid data add cks ca sz)).1 = .ok v2) : v1 = v2 := by
  rcases store_reports_exactly cfg o a1 pid data add cks ca sz v1 h1 with ⟨hp, t, hd, hv⟩ | ⟨p, add', cs', t, ha, hv⟩
  · rcases store_reports_exactly cfg o a2 pid data add cks ca sz v2 h2 with ⟨_, t', hd', hv'⟩ | ⟨p', add'', cs'', t', ha', _⟩
    · rw [hd] at hd'; cases hd'; rw [hv, hv']
    · subst hp; simp [storeArgs, checkString] at ha'
  · rcases store_reports_exactly cfg o a2 pid data add cks ca sz v2 h2 with ⟨hp, _, _, _⟩ | ⟨p', add'', cs'', t', ha', hv'⟩
    · subst hp; simp [storeArgs, checkString] at ha
    · rw [ha] at ha'; cases ha'; rw [hv, hv']

/-- `get_hex_digest(pid, algorithm)`, when it returns, returns the true digest of
    the content bound to the pid under the normalised name of the algorithm —
    for every accepted spelling (`clean_dataone`, `clean_case_insensitive`) -/
theorem hex_digest_true (a : Abs) (pid alg : SArg) (d : Str)
    (h : (step cfg o a (.getHexDigest pid alg)).1 = .ok (.hex d)) :
    ∃ p al a' cid t, pid = .str p ∧ alg = .str al ∧ cleanAlgorithm al = .ok a' ∧ a.bind.get p = some cid ∧
      a.objs.get cid = some t ∧ d = o.dig a' t := by
  simp only [step, hexDigest] at h
  split at h
  · cases h
  · rename_i p a' hargs
    simp only [bind_eq_ok, pure_eq_ok] at hargs
    obtain ⟨p1, hp1, al, hal, a1, ha1, he⟩ := hargs
    cases he
    have e1 := checkString_ok hp1
    have e2 := checkString_ok hal
    split at h
    · cases h
    · rename_i cid hfind
      split at h
      · rename_i t ht
        simp only [Except.ok.injEq, Val.hex.injEq] at h
        unfold find at hfind
        split at hfind
        · cases hfind
        · rename_i c hb
          split at hfind
          · cases hfind
            exact ⟨_, al, _, _, t, e1, e2, ha1, hb, ht, h.symm⟩
          · cases hfind
      · cases h

/-- the program text returns what the specification returns (any directory that
    simulates `a`, in particular after any history): the three statements above
    are statements about `store_object` and `get_hex_digest` as executed -/
theorem concrete_reports (call : Call) (st : Store) (log : List Eff) (a : Abs) (hs : Sim o st a)
    (ho : GoodOracle o) (hc : CidArgPlain call) :
    ((call.prog cfg o).run (calm st log)).1 = (step cfg o a call).1 := by
  obtain ⟨w', h1, _⟩ := refines_step cfg o call st log a hs ho hc
  rw [h1]

end

/-- **Reported values depend only on the call, under every interleaving and every fault plan.** Any
    number of threads running any calls, from any world, every schedule, every granularity: a
    `store_object` that has returned normally reports the digest of its content under the store's
    algorithm as cid, the true size, and the digests of exactly the default algorithms plus the
    additional and checksum algorithms named in that call — whatever the other threads did. -/
theorem store_reports_truth_under_every_interleaving (calls : List Call) (w0 : World) (fuel : Nat)
    (sched : List Nat) (n : Nat) :
    let cf := (runSchedule fuel { w := w0, ts := calls.map (fun c => TState.fresh (c.prog cfg o)) } sched n).1
    ∀ (i : Nat) (v : Val) (pid : SArg) (data : DataArg) (add cks ca : SArg) (sz : IArg),
      cf.ts[i]? = some (.finished (.ok v)) → calls[i]? = some (.storeObject pid data add cks ca sz) →
      ReportsTruth cfg o data add cks ca (pid != .none) v := by
  intro cf i v pid data add cks ca sz hi hc
  have h0 : SafeConf (fun _ => True) (fun _ _ => True) (fun _ => True) (fun i => reportPost cfg o calls[i]?)
      { w := w0, ts := calls.map (fun c => TState.fresh (c.prog cfg o)) } := by
    refine ⟨trivial, ?_⟩
    intro j t hj
    simp only at hj
    rw [List.getElem?_map] at hj
    cases hcj : calls[j]? with
    | none => rw [hcj] at hj; cases hj
    | some c =>
      rw [hcj] at hj; cases hj
      have key : Prog.Safe (fun _ => True) (fun _ _ => True) (reportPost cfg o (some c))
          (c.prog cfg o : Prog (Except Exc Val)) := by
        cases c with
        | storeObject p d a c' ca' s => exact Prog.safe_of_allEvR _ (storeObject_reports cfg o p d a c' ca' s)
        | _ => exact Prog.safe_of_allEv _ (Prog.allEv_true _)
      show Prog.Safe _ _ (reportPost cfg o calls[j]?) _
      rw [hcj]; exact key
  have hfin := safe_schedule (P := fun _ => True) (A := fun _ _ => True) (I := fun _ => True)
    (fun _ _ _ _ => trivial) (fun _ _ _ => trivial) _ fuel sched _ n h0
  have hq := safe_finished hfin i _ hi
  rw [hc] at hq
  exact hq


/-- **`get_hex_digest` returns a true digest, whatever races** (statement and proof in
    `Proofs/HexReader.lean`): any calls, any number of threads, every schedule and granularity, any
    fault plan — a `get_hex_digest` that returns normally returns the digest, under a supported
    algorithm, of content that sits at a cid some pid reference held. -/
theorem hex_digest_true_under_every_interleaving (calls : List Call) (w0 : World) (vs0 : List Str) (ts0 : List Tok)
    (hv : C09.ValuesFrom vs0 ts0 w0.st) (hob : C09.ObjsAddressed cfg o w0.st) (fuel : Nat) (sched : List Nat) (n : Nat) :
    let cf := (runSchedule fuel { w := w0, ts := calls.map (fun c => TState.fresh (c.prog cfg o)) } sched n).1
    let vs := vs0 ++ calls.flatMap (C09.cidsSupplied cfg o)
    ∀ (i : Nat) (d : Str) (pid alg : SArg), cf.ts[i]? = some (.finished (.ok (.hex d))) →
      calls[i]? = some (.getHexDigest pid alg) →
      ∃ a t, d = o.dig a t ∧ ∃ c ∈ vs, ∃ k, c = o.dig cfg.alg t ++ C09.markers k :=
  HexReader.hex_digest_true_under_every_interleaving cfg o calls w0 vs0 ts0 hv hob fuel sched n

end HS.C02
