/-
  C02 — Reported checksums are true and depend only on the call that asked.
  Normalisation laws for every string, key-set characterisation of the
  per-call algorithm list, and the refutation of history-independence for the
  code as found (the instance list used to be aliased).
-/
import HSModel.Spec
namespace HS.C02

/-- every supported hashlib name is accepted unchanged (complete table) -/
theorem clean_supported : ∀ a ∈ supportedAlgos, cleanAlgorithm a = .ok a := by decide

/-- the five DataONE spellings normalise to their hashlib names (complete table) -/
theorem clean_dataone : ∀ p ∈ dataoneAlgos, cleanAlgorithm p.1 = .ok p.2 := by decide

/-- whatever string is given, an accepted result is a supported algorithm -/
theorem clean_sound (s c : Str) (h : cleanAlgorithm s = .ok c) : c ∈ supportedAlgos := by
  unfold cleanAlgorithm cleanAlgorithmWith at h
  simp only at h
  split at h
  · rename_i hm
    cases h
    simp only [supportedAlgos, List.mem_append]
    exact hm
  · cases h

/-- normalising a normalised name changes nothing -/
theorem clean_idem (s c : Str) (h : cleanAlgorithm s = .ok c) : cleanAlgorithm c = .ok c :=
  clean_supported c (clean_sound s c h)

/-- the normalisation looks at the string only through `lower`: two spellings
    with equal lower-casing, equal digit count are treated alike -/
theorem clean_case_insensitive (s t : Str) (h : lower s = lower t)
    (hd : digitCount s = digitCount t) : cleanAlgorithm s = cleanAlgorithm t := by
  unfold cleanAlgorithm cleanAlgorithmWith cleanString
  simp only [h, hd]

/-- key set of one call: the defaults plus the requested non-default names -/
theorem refine_mem (add cs : Option Str) (a : Str) :
    a ∈ refineAlgorithmList defaultAlgos add cs ↔
      a ∈ defaultAlgos ∨ (cs = some a ∧ a ∈ otherAlgos) ∨ (add = some a ∧ a ∈ otherAlgos) := by
  unfold refineAlgorithmList
  cases cs <;> cases add <;> simp only [] <;> repeat' split
  all_goals simp only [List.mem_append, List.mem_singleton, Option.some.injEq, reduceCtorEq,
    false_and, or_false, false_or]
  all_goals grind

/-- the per-call list never has duplicates -/
theorem refine_nodup (add cs : Option Str) :
    (refineAlgorithmList defaultAlgos add cs).Nodup := by
  have hd : defaultAlgos.Nodup := by decide
  unfold refineAlgorithmList
  cases cs <;> cases add <;> simp only [] <;> repeat' split
  all_goals first
    | exact hd
    | (simp only [List.nodup_append, List.nodup_cons, List.mem_singleton]; grind)

/-- the digests reported by the specification are the true ones, for exactly
    the per-call key list -/
theorem spec_digests (cfg : Config) (o : Oracle) (t : Tok) (add cs : Option Str) :
    (Abs.objMetaOf cfg o t add cs).digests =
      (refineAlgorithmList defaultAlgos add cs).map (fun a => (a, o.dig a t)) ∧
    (Abs.objMetaOf cfg o t add cs).cid = o.dig cfg.alg t ∧
    (Abs.objMetaOf cfg o t add cs).size = o.size t := by
  simp [Abs.objMetaOf]

/-- History-independence is *false* of the code as found at the pinned commit:
    after one call naming sha224 the instance list has grown, and the next call,
    which names nothing, reports six keys. (Witness of defect D1; repaired by
    the `fix:` commit recorded in known_findings.json.) -/
theorem asFound_refuted :
    let r1 := refineAsFound defaultAlgos (some "sha224".toList) none
    let r2 := refineAsFound r1.2 none none
    r2.1 ≠ (refineAsFound defaultAlgos none none).1 := by decide

example : refineAlgorithmList defaultAlgos (some "sha224".toList) (some "blake2b".toList) =
    defaultAlgos ++ ["blake2b".toList, "sha224".toList] := by decide

end HS.C02
