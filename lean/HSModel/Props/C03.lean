/-
  C03 — A pid names at most one object; the binding is immutable until deleted.
  Stated on the abstract specification `Abs.step` (tied to the code by the
  spec-vs-code correspondence of this check, and to the concrete model by the
  refinement theorems of C05).
-/
import HSModel.Proofs.StepLemmas
import HSModel.Proofs.RefineAll
namespace HS.C03
open Abs
variable (cfg : Config) (o : Oracle)

/-- tagging a bound pid is rejected with one of the two documented classes and
    changes nothing at all -/
theorem tag_bound_rejected (a : Abs) (p c c' : Str) (h : a.bind.get p = some c) :
    (a.tag p c').2 = a ∧
    ((a.tag p c').1 = .error .hashStoreRefsAlreadyExists ∨
     (a.tag p c').1 = .error .pidRefsAlreadyExists) := by
  rw [tag_bound c' h]
  refine ⟨rfl, ?_⟩
  by_cases hr : a.referenced c' = true <;> simp [hr]

/-- `tag_object(pid, cid')` on a bound pid: rejected, state unchanged -/
theorem tagObject_bound (a : Abs) (p c c' : Str) (hp : checkStringOk p = true)
    (hc : checkStringOk c' = true) (h : a.bind.get p = some c) :
    (step cfg o a (.tagObject (.str p) (.str c'))).2 = a ∧
    ((step cfg o a (.tagObject (.str p) (.str c'))).1 = .error .hashStoreRefsAlreadyExists ∨
     (step cfg o a (.tagObject (.str p) (.str c'))).1 = .error .pidRefsAlreadyExists) := by
  simp only [step, tagObj, checkString, hp, hc, if_true, ok_bind, pure_ok]
  rw [tag_bound c' h]
  refine ⟨rfl, ?_⟩
  by_cases hr : a.referenced c' = true <;> simp [hr, Except.map]

/-- `store_object(pid, …)` on a bound pid never succeeds, whatever the data and
    validation arguments -/
theorem storeObject_bound_fails (a : Abs) (p c : Str) (data : DataArg) (add cks ca : SArg)
    (sz : IArg) (h : a.bind.get p = some c) :
    ∃ e, (step cfg o a (.storeObject (.str p) data add cks ca sz)).1 = .error e := by
  simp only [step, storeObj]
  split
  · exact ⟨_, rfl⟩
  · rename_i p' add' cs' t hargs
    have hp : SArg.str p = .str p' := storeArgs_pid cfg hargs
    cases hp
    try simp only []
    split
    · exact ⟨_, rfl⟩
    · have hb : (a.addObj (objMetaOf cfg o t add' cs').cid t).bind.get p = some c := by
        rw [addObj_bind]; exact h
      rw [tag_bound _ hb]
      exact ⟨_, rfl⟩

/-- …and leaves every binding (this pid's and all others') and every existing
    object's bytes as they were -/
theorem storeObject_bound_keeps (a : Abs) (p c : Str) (data : DataArg) (add cks ca : SArg)
    (sz : IArg) (h : a.bind.get p = some c) :
    (step cfg o a (.storeObject (.str p) data add cks ca sz)).2.bind = a.bind ∧
    ∀ c' t, a.objs.get c' = some t →
      (step cfg o a (.storeObject (.str p) data add cks ca sz)).2.objs.get c' = some t := by
  constructor
  · simp only [step, storeObj]
    split
    · rfl
    · rename_i p' add' cs' t hargs
      have hp : SArg.str p = .str p' := storeArgs_pid cfg hargs
      cases hp
      try simp only []
      split
      · rfl
      · have hb : (a.addObj (objMetaOf cfg o t add' cs').cid t).bind.get p = some c := by
          rw [addObj_bind]; exact h
        rw [tag_bound _ hb]
        simp [addObj_bind]
  · intro c' t hc
    exact storeObj_keeps_objs cfg o a _ _ _ _ _ _ c' t hc

/-- a call addressed to another pid never touches this pid's binding -/
theorem other_calls_keep_binding (a : Abs) (q : Str) (pid : SArg) (data : DataArg)
    (add cks ca cid : SArg) (sz : IArg) (hq : pid ≠ .str q) :
    (step cfg o a (.storeObject pid data add cks ca sz)).2.bind.get q = a.bind.get q ∧
    (step cfg o a (.tagObject pid cid)).2.bind.get q = a.bind.get q := by
  constructor
  · simp only [step]
    split
    · rw [storeData_bind]
    · exact storeObj_bind_other cfg o a pid data add cks ca sz q hq
  · simp only [step]
    exact tagObj_bind_other a pid cid q hq

/-- after `delete_object(pid)` has completed the pid is unbound, and can be
    bound again -/
theorem rebind_after_delete (a : Abs) (p c c' : Str) (hp : checkStringOk p = true)
    (h : a.bind.get p = some c) :
    let a1 := (step cfg o a (.deleteObject (.str p))).2
    (step cfg o a (.deleteObject (.str p))).1 = .ok .unit ∧ a1.bind.get p = none ∧
    (a1.tag p c').1 = .ok () ∧ (a1.tag p c').2.bind.get p = some c' := by
  simp only [step, deleteObj, checkString, hp, if_true, h]
  refine ⟨by simp, by simp, ?_⟩
  rw [tag_unbound c' (by simp)]
  simp

/-- non-vacuity: a state with a bound pid exists and the rejection fires -/
example : (Abs.tag { Abs.empty with bind := FMap.empty.set "p".toList "c".toList } "p".toList "d".toList).1
    = .error .pidRefsAlreadyExists := by decide


/-- **concrete**: on a store where `p` has a pid reference, the concrete
    `tag_object(p, c')` is rejected with one of the two documented errors and the
    store it leaves holds the same abstract state (every binding, object and
    document as before, indexes exact) -/
theorem concrete_bound_rejected (st : Store) (log : List Eff) (a : Abs) (hs : Sim o st a) (ho : GoodOracle o)
    (p c c' : Str) (hp : checkStringOk p = true) (hc' : checkStringOk c' = true) (hcp : Plain c')
    (hb : st.pidRefs.get (o.hId p) = some c) :
    let r := (tagObject cfg o (.str p) (.str c')).run (calm st log)
    (r.1 = .error .hashStoreRefsAlreadyExists ∨ r.1 = .error .pidRefsAlreadyExists) ∧ Sim o r.2.st a := by
  intro r
  obtain ⟨w', hrun, _, _, hs'⟩ := refines_step cfg o (.tagObject (.str p) (.str c')) st log a hs ho hcp
  have hb' : a.bind.get p = some c := by rw [hs.rel.bind]; exact hb
  obtain ⟨h1, h2⟩ := tagObject_bound cfg o a p c c' hp hc' hb'
  have hr : r = ((step cfg o a (.tagObject (.str p) (.str c'))).1, w') := hrun
  rw [hr]
  rw [h1] at hs'
  exact ⟨h2, hs'⟩

end HS.C03
