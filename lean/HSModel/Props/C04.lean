/-
  C04 — No call ever removes an object that some pid still references.
  On the abstract specification: for every call other than `delete_object(q)`
  itself, a binding q ↦ c with its object present survives the call, bytes
  included. Lifted to histories by induction.
-/
import HSModel.Proofs.StepLemmas
import HSModel.Proofs.RefineAll
import HSModel.Proofs.MetaOnly
namespace HS.C04
open Abs
variable (cfg : Config) (o : Oracle)

/-- `q ↦ c` and the object `c` holds `t` -/
def Holds (a : Abs) (q c : Str) (t : Tok) : Prop := a.bind.get q = some c ∧ a.objs.get c = some t

/-- the one call allowed to end q's binding -/
def IsDeleteOf (q : Str) : Call → Prop
  | .deleteObject (.str p) => p = q
  | _ => False

theorem deleteObj_other_keeps (a : Abs) (pid : SArg) (q c : Str) (t : Tok) (hq : pid ≠ .str q)
    (h : Holds a q c t) : Holds (deleteObj a pid).2 q c t := by
  unfold deleteObj
  split
  · exact h
  · rename_i p hp
    have hpq : p ≠ q := by intro e; subst e; exact hq (checkString_ok hp)
    split
    · exact h
    · rename_i cid hcid
      have hb : (a.bind.del p).get q = some c := by rw [FMap.get_del_ne _ hpq]; exact h.1
      refine ⟨hb, ?_⟩
      simp only []
      split
      · exact h.2
      · rename_i hnr
        have hc : cid ≠ c := by
          intro e; subst e
          apply hnr
          exact referenced_of_get (a := { a with bind := a.bind.del p }) hb
        rw [FMap.get_del_ne _ hc]; exact h.2

/-- one step: every call except `delete_object(q)` keeps q's object and binding -/
theorem referenced_object_kept (a : Abs) (call : Call) (q c : Str) (t : Tok)
    (hcall : ¬ IsDeleteOf q call) (h : Holds a q c t) : Holds (step cfg o a call).2 q c t := by
  have href : a.referenced c = true := referenced_of_get h.1
  cases call with
  | storeObject pid data add cks ca sz =>
    simp only [step]
    split
    · exact ⟨by rw [storeData_bind]; exact h.1, storeData_keeps_objs cfg o a data c t h.2⟩
    · refine ⟨?_, storeObj_keeps_objs cfg o a pid data add cks ca sz c t h.2⟩
      by_cases hp : pid = .str q
      · subst hp
        rw [(C03_keeps cfg o a q c data add cks ca sz h.1)]; exact h.1
      · rw [storeObj_bind_other cfg o a pid data add cks ca sz q hp]; exact h.1
  | tagObject pid cid =>
    simp only [step]
    refine ⟨?_, by rw [tagObj_objs]; exact h.2⟩
    by_cases hp : pid = .str q
    · subst hp
      unfold tagObj
      split
      · exact h.1
      · rename_i p' c' hargs
        have : SArg.str q = .str p' := by
          simp only [bind_eq_ok, pure_eq_ok] at hargs
          obtain ⟨p'', hp'', _, _, hh⟩ := hargs
          cases hh
          exact checkString_ok hp''
        cases this
        rw [tag_bound c' h.1]; exact h.1
    · rw [tagObj_bind_other a pid cid q hp]; exact h.1
  | deleteIfInvalid om cks ca sz =>
    simp only [step]
    exact ⟨by rw [divObj_bind]; exact h.1, by rw [divObj_keeps_referenced cfg o a om cks ca sz c href]; exact h.2⟩
  | storeMetadata pid data fmt =>
    simp only [step, storeMeta]
    repeat' split
    all_goals exact h
  | retrieveObject pid =>
    simp only [step, retrieveObj]
    repeat' split
    all_goals exact h
  | retrieveMetadata pid fmt =>
    simp only [step, retrieveMeta]
    repeat' split
    all_goals exact h
  | deleteObject pid =>
    simp only [step]
    apply deleteObj_other_keeps a pid q c t _ h
    intro e; subst e
    exact hcall rfl
  | deleteMetadata pid fmt =>
    simp only [step, deleteMeta]
    repeat' split
    all_goals exact h
  | getHexDigest pid alg =>
    simp only [step, hexDigest]
    repeat' split
    all_goals exact h
where
  C03_keeps (cfg : Config) (o : Oracle) (a : Abs) (p c : Str) (data : DataArg) (add cks ca : SArg)
      (sz : IArg) (h : a.bind.get p = some c) :
      (storeObj cfg o a (.str p) data add cks ca sz).2.bind.get p = a.bind.get p := by
    unfold storeObj
    split
    · rfl
    · rename_i p' add' cs' t hargs
      have hp : SArg.str p = .str p' := storeArgs_pid cfg hargs
      cases hp
      try simp only []
      split
      · rfl
      · have hb : (a.addObj (objMetaOf cfg o t add' cs').cid t).bind.get p = some c := by
          rw [addObj_bind]; exact h
        rw [tag_bound _ hb]
        simp [addObj_bind]

/-- run a history on the specification -/
def runHistory (a : Abs) : List Call → Abs
  | [] => a
  | c :: r => runHistory (step cfg o a c).2 r

/-- any history that does not contain `delete_object(q)` keeps q's object,
    whatever else it does (other deletes, invalid validations, rejected stores,
    metadata calls …) -/
theorem history_keeps (a : Abs) (h : List Call) (q c : Str) (t : Tok)
    (hh : ∀ call ∈ h, ¬ IsDeleteOf q call) (h0 : Holds a q c t) :
    Holds (runHistory cfg o a h) q c t := by
  induction h generalizing a with
  | nil => exact h0
  | cons call r ih =>
    simp only [runHistory]
    apply ih
    · intro c' hc'; exact hh c' (List.mem_cons_of_mem _ hc')
    · exact referenced_object_kept cfg o a call q c t (hh call (List.mem_cons_self ..)) h0

/-- deleting the last referencing pid removes the object with it -/
theorem last_delete_removes (a : Abs) (p c : Str) (hp : checkStringOk p = true)
    (h : a.bind.get p = some c)
    (hlast : Abs.referenced { a with bind := a.bind.del p } c = false) :
    (step cfg o a (.deleteObject (.str p))).2.objs.get c = none := by
  simp only [step, deleteObj, checkString, hp, if_true, h, hlast]
  simp

/-- non-vacuity: two pids sharing one object -/
example : Holds { objs := FMap.empty.set "c".toList 7,
                  bind := (FMap.empty.set "p".toList "c".toList).set "q".toList "c".toList,
                  docs := .empty } "q".toList "c".toList 7 := by
  constructor <;> decide


/-- **concrete**: a pid reference and the object it names survive every
    concrete history of public calls that contains no `delete_object` of that pid -/
theorem concrete_history_keeps (st : Store) (log : List Eff) (a : Abs) (hs : Sim o st a) (ho : GoodOracle o)
    (hist : List Call) (q c : Str) (t : Tok)
    (hb : st.pidRefs.get (o.hId q) = some c) (hobj : st.objs.get c = some t)
    (hh : ∀ call ∈ hist, ¬ IsDeleteOf q call) (hcs : ∀ c ∈ hist, CidArgPlain c) :
    let w := (runHist cfg o hist (calm st log)).2
    w.st.pidRefs.get (o.hId q) = some c ∧ w.st.objs.get c = some t := by
  intro w
  obtain ⟨_, hs2, _, _⟩ := refines_history_from cfg o hist (calm st log) a rfl rfl hs ho hcs
  have hstate : ∀ (cs : List Call) (a : Abs), (specHist cfg o cs a).2 = runHistory cfg o a cs := by
    intro cs
    induction cs with
    | nil => intro a; rfl
    | cons c r ih => intro a; simp only [specHist, runHistory]; exact ih _
  rw [hstate] at hs2
  have h0 : Holds a q c t := ⟨by rw [hs.rel.bind]; exact hb, by rw [hs.rel.objs]; exact hobj⟩
  obtain ⟨k1, k2⟩ := history_keeps cfg o a hist q c t hh h0
  exact ⟨by rw [← hs2.rel.bind]; exact k1, by rw [← hs2.rel.objs]; exact k2⟩

/-- **Metadata operations and readers never remove or alter an object or a reference, however they
    interleave.** Any number of threads running `store_metadata`, `delete_metadata` (one format or
    all), `retrieve_object`, `retrieve_metadata`, `get_hex_digest` with any arguments, from any world,
    any fault plan, every schedule, every granularity: after every step every object, every pid
    reference and every cid reference list is exactly as at the start. -/
theorem metadata_calls_never_touch_objects_under_every_interleaving (calls : List Call)
    (hc : ∀ c ∈ calls, MetaOrRead c) (w0 : World) (fuel : Nat) (sched : List Nat) (n : Nat) :
    let cf := (runSchedule fuel { w := w0, ts := calls.map (fun c => TState.fresh (c.prog cfg o)) } sched n).1
    cf.w.st.objs = w0.st.objs ∧ cf.w.st.pidRefs = w0.st.pidRefs ∧ cf.w.st.cidRefs = w0.st.cidRefs := by
  intro cf
  have h0 : SafeConf DocsOnly (fun _ _ => True) (fun w => RefsAs w0.st w.st) (fun _ _ => True)
      { w := w0, ts := calls.map (fun c => TState.fresh (c.prog cfg o)) } := by
    refine ⟨⟨rfl, rfl, rfl⟩, ?_⟩
    intro i t hi
    simp only at hi
    rw [List.getElem?_map] at hi
    cases hci : calls[i]? with
    | none => rw [hci] at hi; cases hi
    | some c =>
      rw [hci] at hi; cases hi
      exact Prog.safe_of_allEv _ (metaOrRead_docsOnly cfg o c (hc c (List.mem_of_getElem? hci)))
  have h := (safe_schedule (refsAs_docsOnly w0.st) (fun _ _ _ => trivial) _ fuel sched _ n h0).1
  exact ⟨h.2.2, h.1, h.2.1⟩


end HS.C04
