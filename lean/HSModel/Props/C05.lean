/-
  C05 — Reference bookkeeping is exact after every completed call.
  Part 1 (this file, abstract level): `delete_object` clears a bound pid from
  any state, including the dangling ones the public API can create by tagging a
  cid that was never stored; objects appear only by being stored.
  Part 2 (end of this file, concrete level): the two on-disk indexes of the
  concrete model (`refs/pids`, `refs/cids` as files with text contents) agree
  with each other after every completed call of every history, and no temp file
  or marker is left — proved on the program text of the calls, run sequentially
  with no fault plan.
-/
import HSModel.Proofs.StepLemmas
import HSModel.Proofs.RefsSafe
import HSModel.Proofs.DiscRun
import HSModel.Proofs.Disc
import HSModel.Proofs.RefineAll
import HSModel.Proofs.ConcInv
namespace HS.C05
open Abs
variable (cfg : Config) (o : Oracle)

/-- from *any* abstract state — the object may be missing — `delete_object` of a
    bound pid succeeds, unbinds it, and touches no other binding -/
theorem delete_clears (a : Abs) (p c : Str) (hp : checkStringOk p = true)
    (hb : a.bind.get p = some c) :
    (step cfg o a (.deleteObject (.str p))).1 = .ok .unit ∧
    (step cfg o a (.deleteObject (.str p))).2.bind.get p = none ∧
    ∀ q, q ≠ p → (step cfg o a (.deleteObject (.str p))).2.bind.get q = a.bind.get q := by
  simp only [step, deleteObj, checkString, hp, if_true, hb]
  refine ⟨trivial, by simp, ?_⟩
  intro q hq
  rw [FMap.get_del_ne _ (Ne.symm hq)]

/-- tagging a cid that was never stored creates a dangling binding; it is
    reported as such and `delete_object` clears it (the branch that was broken
    at the pinned commit: defect D3) -/
theorem dangling_is_cleared (a : Abs) (p c : Str) (hp : checkStringOk p = true)
    (hc : checkStringOk c = true) (hu : a.bind.get p = none)
    (hobj : a.objs.get c = none) :
    let a1 := (step cfg o a (.tagObject (.str p) (.str c))).2
    (step cfg o a1 (.retrieveObject (.str p))).1 = .error .refsFileExistsButCidObjMissing ∧
    (step cfg o a1 (.deleteObject (.str p))).1 = .ok .unit ∧
    (step cfg o a1 (.deleteObject (.str p))).2.bind.get p = none := by
  have h1 : (step cfg o a (.tagObject (.str p) (.str c))).2 = { a with bind := a.bind.set p c } := by
    simp [step, tagObj, checkString, hp, hc, tag_unbound c hu]
  simp only [h1]
  have hb : ({ a with bind := a.bind.set p c } : Abs).bind.get p = some c := by simp
  refine ⟨?_, ?_, ?_⟩
  · have : a.objs.contains c = false := by
      cases hcn : a.objs.contains c
      · rfl
      · rw [FMap.contains_iff] at hcn
        obtain ⟨v, hv⟩ := hcn
        rw [hobj] at hv; cases hv
    simp [step, retrieveObj, checkString, hp, find, this]
  · exact (delete_clears cfg o _ p c hp hb).1
  · exact (delete_clears cfg o _ p c hp hb).2.1

/-- an object present after a call was present before, or is the content the
    call itself stored, at the address of its own digest -/
theorem objects_only_by_store (a : Abs) (call : Call) (c : Str) (t : Tok)
    (h : (step cfg o a call).2.objs.get c = some t) :
    a.objs.get c = some t ∨
      ∃ pid add cks ca sz, call = .storeObject pid (.ok t) add cks ca sz ∧ c = o.dig cfg.alg t := by
  cases call with
  | storeObject pid data add cks ca sz =>
    simp only [step] at h
    split at h
    · unfold storeData at h
      split at h
      · exact Or.inl h
      · rename_i t0 ht
        have hd := dataOnly_data ht
        subst hd
        simp only [addObj] at h
        split at h
        · exact Or.inl h
        · by_cases hc : (objMetaOf cfg o t0 none none).cid = c
          · subst hc
            rw [FMap.get_set_self] at h
            cases h
            exact Or.inr ⟨_, _, _, _, _, rfl, rfl⟩
          · rw [FMap.get_set_ne _ _ hc] at h; exact Or.inl h
    · unfold storeObj at h
      split at h
      · exact Or.inl h
      · rename_i p add' cs' t' hargs
        have hd := storeArgs_data cfg hargs
        subst hd
        try simp only [] at h
        split at h
        · exact Or.inl h
        · rw [tag_objs] at h
          simp only [addObj] at h
          split at h
          · exact Or.inl h
          · by_cases hc : (objMetaOf cfg o t' add' cs').cid = c
            · subst hc
              rw [FMap.get_set_self] at h
              cases h
              exact Or.inr ⟨_, _, _, _, _, rfl, rfl⟩
            · rw [FMap.get_set_ne _ _ hc] at h; exact Or.inl h
  | tagObject pid cid => left; rwa [show (step cfg o a (.tagObject pid cid)).2.objs = a.objs from tagObj_objs a pid cid] at h
  | deleteIfInvalid om cks ca sz =>
    left
    simp only [step, divObj] at h
    repeat' split at h
    all_goals first
      | exact h
      | exact deleteOnly_objs_sub _ _ _ _ h
  | storeMetadata pid data fmt =>
    left
    simp only [step, storeMeta] at h
    repeat' split at h
    all_goals exact h
  | retrieveObject pid =>
    left
    simp only [step, retrieveObj] at h
    repeat' split at h
    all_goals exact h
  | retrieveMetadata pid fmt =>
    left
    simp only [step, retrieveMeta] at h
    repeat' split at h
    all_goals exact h
  | deleteObject pid =>
    left
    simp only [step, deleteObj] at h
    repeat' split at h
    all_goals first
      | exact h
      | exact FMap.get_del_some h
  | deleteMetadata pid fmt =>
    left
    simp only [step, deleteMeta] at h
    repeat' split at h
    all_goals exact h
  | getHexDigest pid alg =>
    left
    simp only [step, hexDigest] at h
    repeat' split at h
    all_goals exact h


/-! ### Part 2: the concrete indexes -/

/-- a run without fault plan never acquires one -/
theorem run_keeps_no_fault {α : Type} (m : Prog α) (w : World) (h : w.fault = none) : (m.run w).2.fault = none := by
  induction m generalizing w with
  | ret a => exact h
  | op e k ih =>
    simp only [Prog.run]
    apply ih
    have hf : faultStep w e = (false, w) := by simp [faultStep, h]
    unfold respond
    rw [hf]
    simp only [Bool.false_eq_true, if_false]
    cases e <;> simp only [respondCore, applyEff] <;> (try split) <;> (try split) <;> first | exact h | rfl

/-- **one call**: from a store whose two indexes agree (`RefsExact`), every
    public call with any arguments, run to completion with free locks and no
    injected fault, leaves a store whose two indexes agree, with no refs/objects
    temp file and no marker among references and objects -/
theorem concrete_exact_step (c : Call) (st : Store) (log : List Eff) (h : RefsExact o st)
    (hid : PlainIds o) (hdg : PlainDigests o) (hinj : Inj o.hId) (hc : CidArgPlain c) :
    RefsExact o ((c.prog cfg o).run (calm st log)).2.st := by
  cases c with
  | storeObject p d a cks ca s => exact store_exact cfg o st log p d a cks ca s h hdg
  | tagObject p c =>
    refine tag_exact cfg o st log p c h ?_
    intro c' hc'; subst hc'; exact hc
  | deleteObject p => exact delete_exact o cfg st log p h hid (fun p q _ e => hinj q p e)
  | deleteIfInvalid om c ca s =>
    exact Prog.run_inv _ (deleteIfInvalid_safe cfg o om c ca s) (refsExact_safe_preserved o) _ h
  | storeMetadata p d f =>
    exact Prog.run_inv _ (storeMetadata_safe cfg o p d f) (refsExact_safe_preserved o) _ h
  | retrieveObject p =>
    exact Prog.run_inv _ (retrieveObject_safe cfg o p) (refsExact_safe_preserved o) _ h
  | retrieveMetadata p f =>
    exact Prog.run_inv _ (retrieveMetadata_safe cfg o p f) (refsExact_safe_preserved o) _ h
  | deleteMetadata p f =>
    exact Prog.run_inv _ (deleteMetadata_safe cfg o p f) (refsExact_safe_preserved o) _ h
  | getHexDigest p a =>
    exact Prog.run_inv _ (getHexDigest_safe cfg o p a) (refsExact_safe_preserved o) _ h

/-- **every history**: starting from the empty store, after each completed call
    of any sequence of public calls the concrete reference bookkeeping is exact -/
theorem concrete_exact_history (cs : List Call) (hid : PlainIds o) (hdg : PlainDigests o) (hinj : Inj o.hId)
    (hcs : ∀ c ∈ cs, CidArgPlain c) :
    RefsExact o (cs.foldl (fun w c => ((c.prog cfg o).run w).2) (calm Store.empty [])).st := by
  suffices H : ∀ (w : World), w.lk = {} → w.fault = none → RefsExact o w.st →
      RefsExact o (cs.foldl (fun w c => ((c.prog cfg o).run w).2) w).st from
    H _ rfl rfl (refsExact_empty o)
  induction cs with
  | nil => intro w _ _ h; exact h
  | cons c r ih =>
    intro w hlk hnf h
    have hw : w = calm w.st w.log := by
      obtain ⟨st, lk, fault, log⟩ := w
      simp only at hlk hnf
      subst hlk; subst hnf; rfl
    simp only [List.foldl_cons]
    apply ih (fun c' hc' => hcs c' (List.mem_cons_of_mem _ hc'))
    · obtain ⟨h', hm, _, hp⟩ := Prog.disc_run _ _ [] w (call_neutral cfg o c)
        (by rw [hlk]; exact matches_empty) List.Pairwise.nil
      subst hp
      exact matches_nil_iff _ hm
    · exact run_keeps_no_fault _ w hnf
    · rw [hw]
      exact concrete_exact_step cfg o c w.st w.log h hid hdg hinj (hcs c (List.mem_cons_self ..))

/-- the calls that never write a reference file -/
def KeepsRefs : Call → Prop
  | .storeObject .. => False
  | .tagObject .. => False
  | .deleteObject .. => False
  | _ => True

theorem keepsRefs_safe (c : Call) (h : KeepsRefs c) : (c.prog cfg o).AllEv RefsSafe := by
  cases c with
  | storeObject => exact h.elim
  | tagObject => exact h.elim
  | deleteObject => exact h.elim
  | deleteIfInvalid om c ca s => exact deleteIfInvalid_safe cfg o om c ca s
  | storeMetadata p d f => exact storeMetadata_safe cfg o p d f
  | retrieveObject p => exact retrieveObject_safe cfg o p
  | retrieveMetadata p f => exact retrieveMetadata_safe cfg o p f
  | deleteMetadata p f => exact deleteMetadata_safe cfg o p f
  | getHexDigest p a => exact getHexDigest_safe cfg o p a

/-- **Metadata calls, readers and `delete_if_invalid_object` never disturb the reference
    bookkeeping, under every interleaving.** Any number of threads running such calls with any
    arguments, from any world whose two indexes agree (`RefsExact`), any fault plan, every schedule,
    every granularity: the indexes agree after every step. -/
theorem exact_kept_under_every_interleaving (calls : List Call) (hc : ∀ c ∈ calls, KeepsRefs c)
    (w0 : World) (h : RefsExact o w0.st) (fuel : Nat) (sched : List Nat) (n : Nat) :
    RefsExact o (runSchedule fuel { w := w0, ts := calls.map (fun c => TState.fresh (c.prog cfg o)) } sched n).1.w.st := by
  have h0 : SafeConf RefsSafe (fun _ _ => True) (fun w => RefsExact o w.st) (fun _ _ => True)
      { w := w0, ts := calls.map (fun c => TState.fresh (c.prog cfg o)) } := by
    refine ⟨h, ?_⟩
    intro i t hi
    simp only at hi
    rw [List.getElem?_map] at hi
    cases hci : calls[i]? with
    | none => rw [hci] at hi; cases hi
    | some c =>
      rw [hci] at hi; cases hi
      exact Prog.safe_of_allEv _ (keepsRefs_safe cfg o c (hc c (List.mem_of_getElem? hci)))
  exact (safe_schedule (refsExact_safe_preserved o) (fun _ _ _ => trivial) _ fuel sched _ n h0).1

/-- what exactness says, spelled out: a bound pid is listed by exactly its cid,
    once; every list is non-empty and names only pids bound to it -/
theorem exact_means (s : Store) (h : RefsExact o s) (hinj : Inj o.hId) (p c : Str)
    (hb : s.pidRefs.get (o.hId p) = some c) :
    ∃ ls, s.cidRefs.get c = some (renderLines ls) ∧ ls.Nodup ∧ p ∈ ls ∧
      ∀ c' ls', s.cidRefs.get c' = some (renderLines ls') → (∀ l ∈ ls', hasSpace l = false) → p ∈ ls' → c' = c := by
  obtain ⟨q, hq, _, t, ht, hin⟩ := h.pid_listed _ _ hb
  have hqp : q = p := hinj q p hq.symm
  subst hqp
  obtain ⟨ls, hls, _, hnd, hall⟩ := h.list_ok c t ht
  subst hls
  have hsp : ∀ l ∈ ls, hasSpace l = false := fun l hl => nospace_of_ok (hall l hl).1
  refine ⟨ls, ht, hnd, ?_, ?_⟩
  · rw [inRefs_render q ls hsp] at hin; simpa using hin
  · intro c' ls' hc' hsp' hmem
    obtain ⟨ls0, hls0, _, _, hall0⟩ := h.list_ok c' _ hc'
    have hsp0 : ∀ l ∈ ls0, hasSpace l = false := fun l hl => nospace_of_ok (hall0 l hl).1
    have := renderLines_inj ls' ls0 hsp' hsp0 hls0
    subst this
    have := (hall0 q hmem).2
    rw [hb] at this
    cases this; rfl

/-! ### Part 3: the concrete calls compute what the specification says

`Abs.step` (HSModel/Spec.lean) is "what the sequence implies": three finite maps
and one clause per call. The concrete program text of every call — the one the
line-protocol driver executes against the real store on every run — is proved to
return the same result and to leave a store that holds exactly the abstract
state, for every call, all arguments, and every history. -/

/-- **one call refines its clause of the specification** -/
theorem concrete_refines_spec_step (c : Call) (st : Store) (log : List Eff) (a : Abs) (hs : Sim o st a)
    (ho : GoodOracle o) (hc : CidArgPlain c) :
    ∃ w', (c.prog cfg o).run (calm st log) = ((Abs.step cfg o a c).1, w') ∧ w'.lk = {} ∧ w'.fault = none ∧
      Sim o w'.st (Abs.step cfg o a c).2 :=
  refines_step cfg o c st log a hs ho hc

/-- **every history**: from the empty store, the concrete run of any sequence
    of public calls returns, call by call, the results of the specification, and
    ends in a store that holds exactly the specification's final state -/
theorem concrete_refines_spec_history (cs : List Call) (ho : GoodOracle o) (hcs : ∀ c ∈ cs, CidArgPlain c) :
    (runHist cfg o cs (calm Store.empty [])).1 = (specHist cfg o cs Abs.empty).1 ∧
      Sim o (runHist cfg o cs (calm Store.empty [])).2.st (specHist cfg o cs Abs.empty).2 :=
  ⟨(refines_history_from cfg o cs _ _ rfl rfl (sim_empty o) ho hcs).1,
   (refines_history_from cfg o cs _ _ rfl rfl (sim_empty o) ho hcs).2.1⟩

/-- what `Sim` says about the directory, spelled out: bindings, objects and
    documents of the specification are the files, one for one -/
theorem sim_means (s : Store) (a : Abs) (h : Sim o s a) :
    (∀ p, a.bind.get p = s.pidRefs.get (o.hId p)) ∧ (∀ c, a.objs.get c = s.objs.get c) ∧
    (∀ p f, a.docs.get (p, f) = s.mdocs.get (o.hId p, o.hId (p ++ f))) ∧
    (∀ c, a.referenced c = (s.cidRefs.get c).isSome) ∧
    s.tmpRefs = 0 ∧ s.tmpObj = 0 ∧ s.tmpMeta = 0 :=
  ⟨h.rel.bind, h.rel.objs, h.rel.docs, fun c => referenced_rel h.rel h.refs c, h.refs.no_tmp.1, h.refs.no_tmp.2,
   h.docs.no_tmp⟩

/-- the hypotheses are satisfiable together: a collision-free identifier hash
    whose values are never marker names, digests likewise and well-formed -/
def sampleOracle : Oracle :=
  { hId := fun s => s ++ ['0'], dig := fun _ t => List.replicate t 'a' ++ ['0'], size := fun t => t }

theorem sample_ok : GoodOracle sampleOracle := by
  have key : ∀ s : Str, Plain (s ++ ['0']) := by
    intro s h
    obtain ⟨t, ht⟩ := h
    have h2 := congrArg List.getLast? ht
    simp [deleteSuffix] at h2
  refine ⟨?_, fun p => key p, fun a t => key _, ?_⟩
  · intro a b hab
    exact List.append_cancel_right hab
  · intro a t
    rw [checkStringOk_iff]
    refine ⟨by simp [sampleOracle], ?_⟩
    rw [hasSpace_false_iff]
    intro c hc
    simp only [sampleOracle, List.mem_append, List.mem_replicate, List.mem_singleton] at hc
    rcases hc with ⟨_, rfl⟩ | rfl <;> decide

end HS.C05
