/-
  C05 — Reference bookkeeping is exact after every completed call.
  Part 1 (this file, abstract level): `delete_object` clears a bound pid from
  any state, including the dangling ones the public API can create by tagging a
  cid that was never stored; objects appear only by being stored.
  Part 2 (Props/C05Concrete.lean, concrete level): the two on-disk indexes of
  the concrete model agree with each other after every call.
-/
import HSModel.Proofs.StepLemmas
namespace HS.C05
open Abs
variable (cfg : Config) (o : Oracle)

/-- from *any* abstract state — the object may be missing — `delete_object` of a
    bound pid succeeds, unbinds it, and touches no other binding -/
theorem delete_clears (a : Abs) (p c : Str) (hp : checkStringOk p = true)
    (hb : a.bind.get p = some c) :
    (step cfg o a (.deleteObject (.str p))).1 = .ok .unit ∧
    (step cfg o a (.deleteObject (.str p))).2.bind.get p = none ∧
    ∀ q, q ≠ p → (step cfg o a (.deleteObject (.str p))).2.bind.get q = a.bind.get q := by
  simp only [step, deleteObj, checkString, hp, if_true, hb]
  refine ⟨trivial, by simp, ?_⟩
  intro q hq
  rw [FMap.get_del_ne _ (Ne.symm hq)]

/-- tagging a cid that was never stored creates a dangling binding; it is
    reported as such and `delete_object` clears it (the branch that was broken
    at the pinned commit: defect D3) -/
theorem dangling_is_cleared (a : Abs) (p c : Str) (hp : checkStringOk p = true)
    (hc : checkStringOk c = true) (hu : a.bind.get p = none)
    (hobj : a.objs.get c = none) :
    let a1 := (step cfg o a (.tagObject (.str p) (.str c))).2
    (step cfg o a1 (.retrieveObject (.str p))).1 = .error .refsFileExistsButCidObjMissing ∧
    (step cfg o a1 (.deleteObject (.str p))).1 = .ok .unit ∧
    (step cfg o a1 (.deleteObject (.str p))).2.bind.get p = none := by
  have h1 : (step cfg o a (.tagObject (.str p) (.str c))).2 = { a with bind := a.bind.set p c } := by
    simp [step, tagObj, checkString, hp, hc, tag_unbound c hu]
  simp only [h1]
  have hb : ({ a with bind := a.bind.set p c } : Abs).bind.get p = some c := by simp
  refine ⟨?_, ?_, ?_⟩
  · have : a.objs.contains c = false := by
      cases hcn : a.objs.contains c
      · rfl
      · rw [FMap.contains_iff] at hcn
        obtain ⟨v, hv⟩ := hcn
        rw [hobj] at hv; cases hv
    simp [step, retrieveObj, checkString, hp, find, this]
  · exact (delete_clears cfg o _ p c hp hb).1
  · exact (delete_clears cfg o _ p c hp hb).2.1

/-- an object present after a call was present before, or is the content the
    call itself stored, at the address of its own digest -/
theorem objects_only_by_store (a : Abs) (call : Call) (c : Str) (t : Tok)
    (h : (step cfg o a call).2.objs.get c = some t) :
    a.objs.get c = some t ∨
      ∃ pid add cks ca sz, call = .storeObject pid (.ok t) add cks ca sz ∧ c = o.dig cfg.alg t := by
  cases call with
  | storeObject pid data add cks ca sz =>
    simp only [step] at h
    split at h
    · unfold storeData at h
      split at h
      · exact Or.inl h
      · rename_i t0 ht
        have hd := dataOnly_data ht
        subst hd
        simp only [addObj] at h
        split at h
        · exact Or.inl h
        · by_cases hc : (objMetaOf cfg o t0 none none).cid = c
          · subst hc
            rw [FMap.get_set_self] at h
            cases h
            exact Or.inr ⟨_, _, _, _, _, rfl, rfl⟩
          · rw [FMap.get_set_ne _ _ hc] at h; exact Or.inl h
    · unfold storeObj at h
      split at h
      · exact Or.inl h
      · rename_i p add' cs' t' hargs
        have hd := storeArgs_data cfg hargs
        subst hd
        try simp only [] at h
        split at h
        · exact Or.inl h
        · rw [tag_objs] at h
          simp only [addObj] at h
          split at h
          · exact Or.inl h
          · by_cases hc : (objMetaOf cfg o t' add' cs').cid = c
            · subst hc
              rw [FMap.get_set_self] at h
              cases h
              exact Or.inr ⟨_, _, _, _, _, rfl, rfl⟩
            · rw [FMap.get_set_ne _ _ hc] at h; exact Or.inl h
  | tagObject pid cid => left; rwa [show (step cfg o a (.tagObject pid cid)).2.objs = a.objs from tagObj_objs a pid cid] at h
  | deleteIfInvalid om cks ca sz =>
    left
    simp only [step, divObj] at h
    repeat' split at h
    all_goals first
      | exact h
      | exact deleteOnly_objs_sub _ _ _ _ h
  | storeMetadata pid data fmt =>
    left
    simp only [step, storeMeta] at h
    repeat' split at h
    all_goals exact h
  | retrieveObject pid =>
    left
    simp only [step, retrieveObj] at h
    repeat' split at h
    all_goals exact h
  | retrieveMetadata pid fmt =>
    left
    simp only [step, retrieveMeta] at h
    repeat' split at h
    all_goals exact h
  | deleteObject pid =>
    left
    simp only [step, deleteObj] at h
    repeat' split at h
    all_goals first
      | exact h
      | exact FMap.get_del_some h
  | deleteMetadata pid fmt =>
    left
    simp only [step, deleteMeta] at h
    repeat' split at h
    all_goals exact h
  | getHexDigest pid alg =>
    left
    simp only [step, hexDigest] at h
    repeat' split at h
    all_goals exact h

end HS.C05
