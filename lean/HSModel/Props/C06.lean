/-
  C06 — Validation verdict is exactly "size and checksum match the content".
-/
import HSModel.Spec
namespace HS.C06

/-- the digest the verdict compares against -/
abbrev usedDigest := @digestFor

def sizeOk (trueSize : Nat) : IArg → Prop
  | .int i => ¬ (i > 0 ∧ i ≠ (trueSize : Int))
  | _ => True

theorem sizeMismatch_iff (n : Nat) (sz : IArg) : sizeMismatch sz n = true ↔ ¬ sizeOk n sz := by
  unfold sizeMismatch sizeOk
  cases sz <;> simp

def checksumOk (digests : List (Str × Str)) (onDemand : Str → Str) :
    Option Str → Option Str → Prop
  | some c, some a => usedDigest digests onDemand a = lower c
  | _, _ => True

/-- valid ⇔ size matches (or absent) ∧ checksum matches case-insensitively (or
    absent) — on both checksum paths, for every algorithm name and digest table -/
theorem verdict_valid_iff (ds : List (Str × Str)) (od : Str → Str) (n : Nat) (sz : IArg)
    (cs a : Option Str) :
    verdict ds od n sz cs a = .valid ↔ sizeOk n sz ∧ checksumOk ds od cs a := by
  unfold verdict sizeMismatch sizeOk checksumOk usedDigest digestFor
  cases sz <;> cases cs <;> cases a <;> simp <;> (repeat' split) <;> simp_all <;> grind

/-- a bad size is reported as such, before any checksum comparison -/
theorem verdict_badSize_iff (ds : List (Str × Str)) (od : Str → Str) (n : Nat) (sz : IArg)
    (cs a : Option Str) :
    verdict ds od n sz cs a = .badSize ↔ ¬ sizeOk n sz := by
  unfold verdict sizeMismatch sizeOk
  cases sz <;> cases cs <;> cases a <;> simp <;> (repeat' split) <;> simp_all

/-- the verdict does not depend on the case of the checksum's hex letters
    (`lower (lower c) = lower c` for ASCII; stated for any two checksums with
    the same lower-casing) -/
theorem verdict_case_insensitive (ds : List (Str × Str)) (od : Str → Str) (n : Nat) (sz : IArg)
    (c c' : Str) (a : Option Str) (h : lower c = lower c') :
    verdict ds od n sz (some c) a = verdict ds od n sz (some c') a := by
  unfold verdict
  cases a <;> simp [h]

/-- the mismatch classes -/
theorem verdict_exc (v : Verdict) :
    (v.exc = none ↔ v = .valid) ∧ (v.exc = some .nonMatchingObjSize ↔ v = .badSize) ∧
    (v.exc = some .nonMatchingChecksum ↔ v = .badChecksum) := by
  cases v <;> simp [Verdict.exc]

/-- As found at the pinned commit the on-demand path compared case-sensitively:
    an upper-case checksum of a non-default algorithm was judged invalid (and the
    object deleted). Witness of defect D2. -/
theorem asFound_refuted :
    verdictAsFound [] (fun _ => "ab".toList) 1 .none (some "AB".toList) (some "sha224".toList)
      = .badChecksum ∧
    verdict [] (fun _ => "ab".toList) 1 .none (some "AB".toList) (some "sha224".toList) = .valid := by
  decide

example : sizeOk 11 (.int 11) ∧ checksumOk [("md5".toList, "ab".toList)] (fun _ => [])
    (some "AB".toList) (some "md5".toList) := by
  constructor
  · simp [sizeOk]
  · simp only [checksumOk, usedDigest, digestFor]; decide

end HS.C06
